/-
  C08 — routing: `Entity.pick_binding`, `Base._sso_location`, the binding/location choice of
  `Saml2Client.do_logout`, `DiscoveryServer.verify_return`.

  Strings are an arbitrary type `α` with decidable equality; Python truthiness of a string
  (`if _url:`) is the parameter `truthy`, prefix test (`str.startswith`) the parameter `pre`.
  The driver instantiates `α := String`, `truthy s := s ≠ ""`, `pre loc url := url.startsWith loc`.
-/
namespace Routing

structure Endpoint (α : Type) where
  binding : α
  location : α
  responseLocation : Option α := none
  index : Option α := none
deriving Repr, DecidableEq

variable {α : Type} [DecidableEq α]

/-- `MetaData.service(entity, typ, service, binding)` restricted to one binding. -/
def forBinding (eps : List (Endpoint α)) (b : α) : List (Endpoint α) :=
  eps.filter (fun e => e.binding = b)

/-- `mdstore.all_locations`: response locations first, then locations. -/
def allLocations (srvs : List (Endpoint α)) : List α :=
  srvs.filterMap (·.responseLocation) ++ srvs.map (·.location)

inductive Pick (α : Type) where
  | ok (binding dest : α)
  | refused
deriving Repr, DecidableEq

/-- One iteration of the `for binding in bindings` loop body of `pick_binding`.
    `none` = fall through to the next binding. -/
def pickOne (truthy : α → Bool) (eps : List (Endpoint α)) (url index : Option α) (b : α) : Option (Pick α) :=
  let srvs := forBinding eps b
  if srvs.isEmpty then none            -- `if srvs:` false, or UnsupportedBinding caught
  else
    match url.filter truthy with
    | some u =>
        if srvs.any (fun s => s.location = u) then some (.ok b u) else none
    | none =>
      match index.filter truthy with
      | some i =>
          match srvs.find? (fun s => s.index = some i) with
          | some s => some (.ok b s.location)
          | none => none
      | none =>
          match allLocations srvs with
          | d :: _ => some (.ok b d)
          | [] => none                  -- unreachable for non-empty srvs (see `allLocations_ne_nil`)

/-- `Entity.pick_binding` for a known entity whose endpoints for (service, descriptor type)
    are `eps`; `none` = the entity is unknown to the metadata store (`UnknownSystemEntity`). -/
def pickBinding (truthy : α → Bool) (eps : Option (List (Endpoint α))) (bindings : List α)
    (url index : Option α) : Pick α :=
  match eps with
  | none => .refused
  | some eps =>
    match bindings.findSome? (pickOne truthy eps url index) with
    | some p => p
    | none => .refused                 -- `raise SAMLError("Unknown entity or unsupported bindings")`

/-- The candidate binding list of `pick_binding`: the `bindings` argument if non-empty, else the
    request's ProtocolBinding if truthy, else the configured `preferred_binding[service]`. -/
def effBindings (truthy : α → Bool) (arg : List α) (reqBinding : Option α) (preferred : List α) : List α :=
  if !arg.isEmpty then arg
  else match reqBinding.filter truthy with
    | some b => [b]
    | none => preferred

/-- `Entity.response_args` for a request kind that has a return service: a caller that allows
    only SOAP gets the synchronous back-channel answer (binding SOAP, empty destination — nothing is
    sent anywhere); otherwise `pick_binding` decides. -/
def responseArgs (truthy : α → Bool) (soap empty : α) (eps : Option (List (Endpoint α))) (arg : List α)
    (reqBinding : Option α) (preferred : List α) (url index : Option α) : Pick α :=
  if arg = [soap] then .ok soap empty
  else pickBinding truthy eps (effBindings truthy arg reqBinding preferred) url index

/-- `Base._sso_location(entityid, binding)` with an entity id given. -/
def ssoLocation (eps : Option (List (Endpoint α))) (b : α) : Option α :=
  match eps with
  | none => none
  | some eps => (forBinding eps b).head?.map (·.location)

/-- `Saml2Client.prepare_for_negotiated_authenticate`: the first binding of the list to try (the caller's binding, or
    Redirect then POST) for which the target publishes a single-sign-on location, paired with THAT location. -/
def negotiate (eps : Option (List (Endpoint α))) : List α → Option (α × α)
  | [] => none
  | b :: rest =>
    match ssoLocation eps b with
    | some d => some (b, d)
    | none => negotiate eps rest

/-- Bindings supported by the target for single logout, in order of first appearance. -/
def supportedBindings (eps : List (Endpoint α)) : List α :=
  (eps.map (·.binding)).eraseDups

/-- The binding / location choice of `do_logout` for one entity. -/
def sloChoice (truthy : α → Bool) (eps : List (Endpoint α)) (preferred : List α) (expected : Option α) :
    Option (Pick α) :=   -- none = entity skipped (no SLO support), some refused = exception
  if eps.isEmpty then some .refused else   -- store lookup raises UnsupportedBinding
  let sup := supportedBindings eps
  let choices := (match expected with | some e => [e] | none => []) ++
                 preferred.filter (fun b => b ∈ sup) ++ sup
  match choices.find? truthy with
  | none => none
  | some b =>
    match (forBinding eps b).head? with
    | none => some .refused
    | some s => some (.ok b s.location)

/-- `DiscoveryServer.verify_return`. -/
def verifyReturn (pre : α → α → Bool) (disco : List α) (url : α) : Bool :=
  disco.any (fun loc => pre loc url)

end Routing

namespace Routing
variable {α : Type} [DecidableEq α]

/-- `do_logout` over several identity providers, in order: an entity whose lookup raises aborts the
    whole call (`none`); otherwise one choice per entity (`none` inside = entity skipped). -/
def sloAll (truthy : α → Bool) (preferred : List α) (expected : Option α) :
    List (List (Endpoint α)) → Option (List (Option (Pick α)))
  | [] => some []
  | eps :: rest =>
    match sloChoice truthy eps preferred expected with
    | some .refused => none
    | c =>
      match sloAll truthy preferred expected rest with
      | none => none
      | some cs => some (c :: cs)

end Routing

/-! ## Round 5: request kinds and entity roles of `response_args`, `pick_binding` without a descriptor type,
    `_sso_location` without an entity id, histories of metadata reloads on one long-lived entity. -/
namespace Routing
variable {α : Type} [DecidableEq α]

/-- The request classes `Entity.response_args` distinguishes. `soapOnly` = AssertionIDRequest, ArtifactResolve,
    NameIDMappingRequest (no return service); `unsupported` = any other message class (`SAMLError`). -/
inductive ReqKind where
  | authn | logout | attrQuery | manageNameId | soapOnly | unsupported
deriving Repr, DecidableEq

/-- The services looked up in the peer's metadata. -/
inductive Svc where
  | acs | slo | mni | attrCs | sso
deriving Repr, DecidableEq

/-- `rsrv` of `response_args`: the service of the requester the answer is returned to. -/
def kindService : ReqKind → Option Svc
  | .authn => some .acs
  | .logout => some .slo
  | .attrQuery => some .attrCs
  | .manageNameId => some .mni
  | .soapOnly => none
  | .unsupported => none

/-- Descriptor type under which the requester is looked up (`true` = `idpsso`, `false` = `spsso`):
    AuthnRequest and AttributeQuery fix `spsso`; otherwise the peer of an SP is an IdP and vice versa. -/
def kindDescrIdp (selfIsSp : Bool) : ReqKind → Bool
  | .authn => false
  | .attrQuery => false
  | _ => selfIsSp

/-- `Entity.response_args` for every request class on either kind of entity. `lookup idpDescr svc` is the endpoint list
    the metadata store holds for the requester under that descriptor type and service (`none`: no such entity /
    descriptor).  Result `none` = an answer without destination (nothing is addressed). -/
def responseArgsK (truthy : α → Bool) (soap empty : α) (selfIsSp : Bool) (kind : ReqKind)
    (lookup : Bool → Svc → Option (List (Endpoint α))) (arg : List α) (reqBinding : Option α)
    (preferred : Svc → List α) (url index : Option α) : Option (Pick α) :=
  match kind with
  | .unsupported => some .refused
  | _ =>
    if arg = [soap] then some (.ok soap empty)
    else
      match kindService kind with
      | none => none
      | some s =>
        some (pickBinding truthy (lookup (kindDescrIdp selfIsSp kind) s)
          (effBindings truthy arg reqBinding (preferred s)) url index)

/-- `Entity.pick_binding(service, bindings, entity_id=…)` called without descriptor type and without request
    (e.g. `create_ecp_authn_request`): the peer's descriptor follows from the entity's own type. -/
def pickDirect (truthy : α → Bool) (selfIsSp : Bool) (s : Svc)
    (lookup : Bool → Svc → Option (List (Endpoint α))) (arg : List α) (preferred : Svc → List α) : Pick α :=
  pickBinding truthy (lookup selfIsSp s) (effBindings truthy arg none (preferred s)) none none

/-- `Base._sso_location(entityid, binding)` in full: a (truthy) entity id names the target; without one the target is
    the identity provider of the metadata if there is exactly one, otherwise `IdpUnspecified`. `idps` = the
    single-sign-on endpoint lists of the entities that have an IdP descriptor. -/
def ssoLocationAny (truthy : α → Bool) (entity : Option α) (named : Option (List (Endpoint α)))
    (idps : List (List (Endpoint α))) (b : α) : Option α :=
  match entity.filter truthy with
  | some _ => ssoLocation named b
  | none =>
    match idps with
    | [l] => ssoLocation (some l) b
    | _ => none

/-- One event in the life of a long-lived entity: the metadata source changes (`none` = becomes unreadable),
    the operator calls `reload_metadata`, a look-up is made. -/
inductive HStep (μ ρ : Type) where
  | write (m : Option μ)
  | reload
  | ask (q : ρ)

inductive HOut (ο : Type) where
  | reloaded (ok : Bool)
  | ans (o : ο)
deriving Repr, DecidableEq

/-- `MetadataStore.reload` + look-ups: a successful reload installs what the source holds NOW, a failed one keeps the
    previous set; every look-up is answered from the set installed last (nothing older survives). -/
def runHist {μ ρ ο : Type} (answer : μ → ρ → ο) : Option μ → μ → List (HStep μ ρ) → List (HOut ο)
  | _, _, [] => []
  | _, l, .write m :: r => runHist answer m l r
  | some m, _, .reload :: r => .reloaded true :: runHist answer (some m) m r
  | none, l, .reload :: r => .reloaded false :: runHist answer none l r
  | d, l, .ask q :: r => .ans (answer l q) :: runHist answer d l r

end Routing
