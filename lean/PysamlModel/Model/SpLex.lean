import PysamlModel.Model.Sp
import PysamlModel.Model.SpAttr
import PysamlModel.Model.SpFactory

/-!
# Lexical form of the timestamps of an incoming Response

SAML core 1.3.3: time values are `xs:dateTime` and MUST be expressed in UTC form, with no time zone component.
The library reads every timestamp attribute (`IssueInstant`, `NotBefore`, `NotOnOrAfter`, `SessionNotOnOrAfter`,
`AuthnInstant`) with `saml2.time_util.str_to_time`: `%Y-%m-%dT%H:%M:%SZ`, a fractional part of any length that is
dropped, or no designator at all (read as UTC).  A numeric zone designator (`+02:00`, `-03:30`, `+00:00`) is not
read: the value fails instance validation and the message yields nothing.

`TimeForm` is the lexical class the harness rendered the message's timestamps in; the `Int` instants of
`Sp.Response` are always the TRUE instants (what the lexical value denotes under `xs:dateTime`), so that a library
that started to accept a zone designator and then ignored it is measured against the instants the sender meant.
-/

namespace Sp

inductive TimeForm where
  | utc        -- 2026-01-01T00:00:00Z
  | fraction   -- 2026-01-01T00:00:00.1234567Z (any number of digits)
  | noZone     -- 2026-01-01T00:00:00 (read as UTC by the library)
  | offset     -- 2026-01-01T02:00:00+02:00 and friends: not read
deriving Repr, DecidableEq, Inhabited

/-- Does `str_to_time` (and with it `validate.valid_date_time`) read this form? -/
def TimeForm.read : TimeForm → Bool
  | .offset => false
  | _ => true

/-- The gate in front of every entry point: a message with a timestamp the library does not read is refused. -/
def lexGate (f : TimeForm) (o : Outcome) : Outcome :=
  if f.read then o else .rejected .timeForm

def processLex (f : TimeForm) (cfg : Cfg) (env : Env) (r : Response) : Outcome := lexGate f (process cfg env r)
def processFactoryLex (f : TimeForm) (cfg : Cfg) (env : Env) (r : Response) : Outcome :=
  lexGate f (processFactory cfg env r)
def processAttrLex (f : TimeForm) (cfg : Cfg) (env : Env) (r : Response) : Outcome :=
  lexGate f (processAttr cfg env r)

end Sp
