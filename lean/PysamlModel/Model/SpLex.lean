import PysamlModel.Model.Sp
import PysamlModel.Model.SpAttr
import PysamlModel.Model.SpFactory

/-!
# Lexical form of the timestamps of an incoming Response

SAML core 1.3.3: time values are `xs:dateTime` and MUST be expressed in UTC form, with no time zone component.
The library reads every timestamp attribute (`IssueInstant`, `NotBefore`, `NotOnOrAfter`, `SessionNotOnOrAfter`,
`AuthnInstant`) with `saml2.time_util.str_to_time`: `%Y-%m-%dT%H:%M:%SZ`, a fractional part of any length that is
dropped, or no designator at all (read as UTC).  A numeric zone designator (`+02:00`, `-03:30`, `+00:00`) is not
read: the value fails instance validation and the message yields nothing.

`TimeForm` is the lexical class the harness rendered the message's timestamps in; the `Int` instants of
`Sp.Response` are always the TRUE instants (what the lexical value denotes under `xs:dateTime`), so that a library
that started to accept a zone designator and then ignored it is measured against the instants the sender meant.
-/

namespace Sp

inductive TimeForm where
  | utc        -- 2026-01-01T00:00:00Z
  | fraction   -- 2026-01-01T00:00:00.1234567Z (any number of digits)
  | noZone     -- 2026-01-01T00:00:00 (read as UTC by the library)
  | offset     -- 2026-01-01T02:00:00+02:00 and friends: not read
deriving Repr, DecidableEq, Inhabited

/-- Does `str_to_time` (and with it `validate.valid_date_time`) read this form? -/
def TimeForm.read : TimeForm → Bool
  | .offset => false
  | _ => true

/-! ### schema validation inside signature verification

`SecurityContext._check_signature` validates the element whose signature it is about to verify against the SAML core
schemas (`validate_doc_with_schema`) and raises `SignatureError` when that fails.  An extension `<saml:Condition>`
never validates there (the abstract `ConditionAbstractType` needs an `xsi:type` that resolves to a type the validator
knows; the values `condition_ok` understands are namespace names, not type names).  So a signature over an element
that holds an extension condition behaves exactly like a signature that does not verify: the signed Response over its
clear assertions, a signed assertion over itself.  Unsigned carriers are not validated. -/

def Assertion.hasExt (a : Assertion) : Bool :=
  match a.conditions with
  | some c => !c.extra.isEmpty
  | none => false

def schemaSig (s : Sig) (ext : Bool) : Sig := if s.present && ext then .corrupted else s

/-- The message as signature verification sees it. -/
def schemaView (r : Response) : Response :=
  { r with
    sig := schemaSig r.sig ((plainOf r).any (·.hasExt))
    assertions := r.assertions.map fun a => { a with sig := schemaSig a.sig a.hasExt } }

/-- Without extension conditions nothing changes. -/
theorem schemaView_id (r : Response) (h : ∀ a ∈ r.assertions, a.hasExt = false) : schemaView r = r := by
  have h1 : (plainOf r).any (·.hasExt) = false := by
    apply List.any_eq_false.mpr
    intro a ha
    have := h a (List.mem_filter.mp ha).1
    simp [this]
  have h2 : r.assertions.map (fun a => { a with sig := schemaSig a.sig a.hasExt }) = r.assertions := by
    conv => rhs; rw [← List.map_id r.assertions]
    apply List.map_congr_left
    intro a ha
    simp [schemaSig, h a ha]
  unfold schemaView
  rw [h1, h2]
  simp [schemaSig]

/-- The gate in front of every entry point: a message with a timestamp the library does not read is refused. -/
def lexGate (f : TimeForm) (o : Outcome) : Outcome :=
  if f.read then o else .rejected .timeForm

def processLex (f : TimeForm) (cfg : Cfg) (env : Env) (r : Response) : Outcome := lexGate f (process cfg env r)
def processFactoryLex (f : TimeForm) (cfg : Cfg) (env : Env) (r : Response) : Outcome :=
  lexGate f (processFactory cfg env r)
def processRespFactoryLex (f : TimeForm) (cfg : Cfg) (env : Env) (r : Response) : Outcome :=
  lexGate f (processRespFactory cfg env r)
def processAttrLex (f : TimeForm) (cfg : Cfg) (env : Env) (r : Response) : Outcome :=
  lexGate f (processAttr cfg env r)

end Sp
