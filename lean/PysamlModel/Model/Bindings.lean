/-
  C14 — the bindings: `pack.http_form_post_message`, `pack.http_redirect_message`,
  `HTTPBase.use_http_artifact`, `pack.make_soap_enveloped_saml_thingy` /
  `soap.parse_soap_enveloped_saml_thingy`, `Entity.unravel`, `create_artifact` /
  `Entity.artifact2destination`.

  Byte strings are `List Nat` (`Codec.Bytes`); Python raising = `none`.  External functions are
  parameters: `deflate`/`inflate` (zlib, raw DEFLATE) and `sha1`.
  The HTML templates come from `Gen/FormSpec.lean` (regenerated from `saml2.pack` on every run).
-/
import PysamlModel.Model.Codec
import PysamlModel.Gen.FormSpec

namespace Bindings
open Codec

def sSAMLRequest : Bytes := [83, 65, 77, 76, 82, 101, 113, 117, 101, 115, 116]
def sSAMLResponse : Bytes := [83, 65, 77, 76, 82, 101, 115, 112, 111, 110, 115, 101]
def sSAMLart : Bytes := [83, 65, 77, 76, 97, 114, 116]
def sRelayState : Bytes := [82, 101, 108, 97, 121, 83, 116, 97, 116, 101]
def sHidden : Bytes := [104, 105, 100, 100, 101, 110]

/-! ### HTTP-POST: the auto-submitting form -/

/-- The form-control value: base64 of the message for the two SAML parameter names, otherwise the
    message itself, which must then be ASCII (`_msg.decode("ascii")`). -/
def postPayload (typ msg : Bytes) : Option Bytes :=
  if typ = sSAMLRequest ∨ typ = sSAMLResponse then some (b64encode msg)
  else if msg.all (· < 128) then some msg else none

/-- A template: literal text and numbered holes. -/
inductive Piece where
  | lit (b : Bytes)
  | hole (i : Nat)
deriving DecidableEq, Repr

/-- A generated `(literal, field code)` table as pieces (code 0 = no field). -/
def specPieces (spec : List (Bytes × Nat)) : List Piece :=
  spec.flatMap (fun lh => if lh.2 = 0 then [.lit lh.1] else [.lit lh.1, .hole lh.2])

/-- `HTML_INPUT_ELEMENT_SPEC.format(type="hidden", name=…, val=…)`. -/
def inputPieces (name val : Piece) : List Piece :=
  (specPieces Gen.FormSpec.inputSpec).map (fun p =>
    match p with
    | .hole 4 => .lit sHidden
    | .hole 5 => name
    | .hole 6 => val
    | p => p)

/-- `HTML_FORM_SPEC` with the two input elements substituted.  Remaining holes:
    1 = action, 10 = parameter name, 11 = payload, 12 = relay state. -/
def formTemplate (hasRelay : Bool) : List Piece :=
  (specPieces Gen.FormSpec.formSpec).flatMap (fun p =>
    match p with
    | .hole 2 => inputPieces (.hole 10) (.hole 11)
    | .hole 3 => if hasRelay then inputPieces (.lit sRelayState) (.hole 12) else []
    | p => [p])

def render (vals : Nat → Bytes) : List Piece → Bytes
  | [] => []
  | .lit b :: rest => b ++ render vals rest
  | .hole i :: rest => vals i ++ render vals rest

/-- A hole `str.format` has an argument for (anything else raises `KeyError`). -/
def knownPiece : Piece → Bool
  | .lit _ => true
  | .hole i => i == 1 || i == 10 || i == 11 || i == 12

/-- The values `http_form_post_message` puts into the holes: every one goes through
    `html.escape(…, quote=True)`. -/
def formVals (typ payload loc rs : Bytes) (i : Nat) : Bytes :=
  if i = 1 then htmlEscape loc else if i = 10 then htmlEscape typ
  else if i = 11 then htmlEscape payload else if i = 12 then htmlEscape rs else []

/-- `http_form_post_message(message, location, relay_state, typ)["data"]`. -/
def formPost (typ msg loc rs : Bytes) : Option Bytes :=
  match postPayload typ msg with
  | none => none
  | some p =>
    let t := formTemplate (!rs.isEmpty)
    if t.all knownPiece then some (render (formVals typ p loc rs) t) else none

/-! ### HTTP-Redirect and the artifact URL -/

/-- zlib's raw DEFLATE as a parameter: `deflate b = zlib.compress(b)[2:-4]`,
    `inflate b = zlib.decompress(b, -15)` (`none` = `zlib.error`), with the laws the theorems use
    as fields (hypotheses): inflating a deflated string gives it back, the output is a byte string,
    and it is never empty (a DEFLATE stream has at least one block). -/
structure Deflate where
  deflate : Bytes → Bytes
  inflate : Bytes → Option Bytes
  law : ∀ b, IsBytes b → inflate (deflate b) = some b
  isBytes : ∀ b, IsBytes b → IsBytes (deflate b)
  nonempty : ∀ b, deflate b ≠ []

/-- `pack.add_query(location, query)`: the query goes before the `#fragment`; glue is `?` when the
    part before the fragment has no `?`, nothing when the existing query (the text after the first
    `?`) is empty or ends in `&`, else `&`. -/
def addQuery (loc query : Bytes) : Bytes :=
  let base := loc.takeWhile (· != 35)                    -- `location.partition("#")[0]`
  let frag := loc.dropWhile (· != 35)                    -- `"#" + fragment`, or empty
  let existing := (base.dropWhile (· != 63)).drop 1      -- `location.partition("?")[2]`
  let glue : Bytes :=
    if !base.contains 63 then [63]
    else if existing = [] ∨ existing.getLast? = some 38 then []
    else [38]
  base ++ glue ++ query ++ frag

def withRelay (first : Bytes × Bytes) (rs : Bytes) : List (Bytes × Bytes) :=
  if rs.isEmpty then [first] else [first, (sRelayState, rs)]

/-- The (unsigned) parameter list of `http_redirect_message`. -/
def redirectArgs (deflate : Bytes → Bytes) (typ msg rs : Bytes) : Option (List (Bytes × Bytes)) :=
  if typ = sSAMLRequest ∨ typ = sSAMLResponse then some (withRelay (typ, b64encode (deflate msg)) rs)
  else if typ = sSAMLart then some (withRelay (typ, msg) rs)
  else none

/-- The `Location` header of `http_redirect_message` (no signature: that is C15). -/
def redirectUrl (deflate : Bytes → Bytes) (typ msg loc rs : Bytes) : Option Bytes :=
  match redirectArgs deflate typ msg rs with
  | none => none
  | some args => some (addQuery loc (urlencode args))

/-- `HTTPBase.use_http_artifact(message, destination, relay_state)["url"]`. -/
def artifactUrl (art loc rs : Bytes) : Bytes :=
  addQuery loc (urlencode (withRelay (sSAMLart, art) rs))

/-! ### `Entity.unravel` -/

/-- Redirect: base64, then inflate. -/
def unravelRedirect (inflate : Bytes → Option Bytes) (txt : Bytes) : Option Bytes :=
  (b64decodeStr txt).bind inflate

/-- POST: base64, then inflate if that works (`zlib.error` ⇒ the decoded bytes themselves). -/
def unravelPost (inflate : Bytes → Option Bytes) (txt : Bytes) : Option Bytes :=
  (b64decodeStr txt).map (fun raw => (inflate raw).getD raw)

/-- Artifact: base64 only. -/
def unravelArtifact (txt : Bytes) : Option Bytes := b64decodeStr txt

/-! ### SOAP, string level (`make_soap_enveloped_saml_thingy(str)`); lists of code points -/

/-- `str.isspace()` (what `str.lstrip()` removes). -/
def pyIsSpace (c : Nat) : Bool :=
  (9 ≤ c && c ≤ 13) || (28 ≤ c && c ≤ 32) || c == 133 || c == 160 || c == 5760 || (8192 ≤ c && c ≤ 8202) ||
  c == 8232 || c == 8233 || c == 8239 || c == 8287 || c == 12288

def asciiLower (c : Nat) : Nat := if 65 ≤ c ∧ c ≤ 90 then c + 32 else c

/-- Text after the first `?>`: plain two-character search. -/
def afterDeclEnd : List Nat → Option (List Nat)
  | [] => none
  | [_] => none
  | a :: b :: rest => if a = 63 ∧ b = 62 then some rest else afterDeclEnd (b :: rest)

def sXmlDeclStart : List Nat := [60, 63, 120, 109, 108]     -- <?xml

/-- What is spliced into the SOAP body: the message without its leading XML declaration (and the
    white space after it); nothing else is touched. -/
def stripDecl (t : List Nat) : List Nat :=
  if (t.take 5).map asciiLower = sXmlDeclStart then
    match afterDeclEnd t with
    | some r => r.dropWhile pyIsSpace
    | none => t
  else t

/-- `<ns0:Envelope xmlns:ns0="NAMESPACE" ><ns0:Body>` — what is left of ElementTree's serialisation of
    the envelope once the dummy namespace declaration and the dummy child are cut out. -/
def envPre : List Nat :=
  [60, 110, 115, 48, 58, 69, 110, 118, 101, 108, 111, 112, 101, 32, 120, 109, 108, 110, 115, 58, 110, 115, 48, 61, 34] ++
  Gen.FormSpec.soapNamespace ++ [34, 32, 62, 60, 110, 115, 48, 58, 66, 111, 100, 121, 62]

/-- `</ns0:Body></ns0:Envelope>` -/
def envPost : List Nat :=
  [60, 47, 110, 115, 48, 58, 66, 111, 100, 121, 62, 60, 47, 110, 115, 48, 58, 69, 110, 118, 101, 108, 111, 112, 101, 62]

def soapWrapStr (thingy : List Nat) : List Nat := envPre ++ stripDecl thingy ++ envPost

/-! ### SOAP, tree level.  `ε` = element (sub)trees, compared as wholes. -/

inductive Part (ε : Type) where
  | header (children : List ε)
  | body (children : List ε)
  | other
deriving DecidableEq, Repr

structure Envelope (ε : Type) where
  tagOk : Bool                 -- the root is `{NAMESPACE}Envelope`
  parts : List (Part ε)
deriving DecidableEq, Repr

/-- `make_soap_enveloped_saml_thingy(thingy, header_parts)` for an element instance. -/
def soapWrapTree {ε : Type} (headers : List ε) (e : ε) : Envelope ε :=
  { tagOk := true, parts := (if headers.isEmpty then [] else [.header headers]) ++ [.body [e]] }

inductive Unwrapped (ε : Type) where
  | elem (e : ε)     -- the body's single child, serialised
  | empty            -- no Body part: the function returns ""
  | refused          -- any exception
deriving DecidableEq, Repr

/-- The first Body part of the envelope. -/
def firstBody {ε : Type} : List (Part ε) → Option (List ε)
  | [] => none
  | .body cs :: _ => some cs
  | _ :: rest => firstBody rest

/-- `soap.parse_soap_enveloped_saml_thingy(text, expected_tags)` on the parsed envelope. -/
def soapUnwrapTree {ε τ : Type} [DecidableEq τ] (tagOf : ε → τ) (expected : List τ) (env : Envelope ε) : Unwrapped ε :=
  if !env.tagOk then .refused
  else if env.parts.isEmpty then .refused
  else
    match firstBody env.parts with
    | none => .empty
    | some [e] => if tagOf e ∈ expected then .elem e else .refused
    | some _ => .refused

/-! ### SOAP with header blocks, receiver side
    (`soap.class_instances_from_soap_enveloped_saml_thingies` + `instanciate_class`, reached through
    `Entity.parse_soap_message`, `saml2.ecp.handle_ecp_authn_response`, `Base.parse_ecp_authn_response`) -/

inductive Opened (ε : Type) where
  | ok (header : List ε) (body : Option ε)    -- `{"header": [...], "body": … | None}`
  | refused                                   -- any exception
deriving DecidableEq, Repr

/-- The loop over the envelope's parts.  `known e` = some module has the element's namespace and
    lists its local name in `ELEMENT_BY_TAG` (else `instanciate_class` raises).  Every Body part
    overwrites `env["body"]` with ITS FIRST child (no `break`, no count check; an empty Body is an
    `IndexError`); every Header part appends all its children; other parts are skipped. -/
def openParts {ε : Type} (known : ε → Bool) : List (Part ε) → List ε → Option ε → Opened ε
  | [], hs, b => .ok hs b
  | .body [] :: _, _, _ => .refused
  | .body (e :: _) :: rest, hs, _ => if known e then openParts known rest hs (some e) else .refused
  | .header cs :: rest, hs, b => if cs.all known then openParts known rest (hs ++ cs) b else .refused
  | .other :: rest, hs, b => openParts known rest hs b

/-- `class_instances_from_soap_enveloped_saml_thingies(text, modules)` on the parsed envelope. -/
def soapOpenTree {ε : Type} (known : ε → Bool) (env : Envelope ε) : Opened ε :=
  if !env.tagOk then .refused
  else if env.parts.isEmpty then .refused
  else openParts known env.parts [] none

/-- All children of all Header parts, in document order. -/
def headerItems {ε : Type} : List (Part ε) → List ε
  | [] => []
  | .header cs :: rest => cs ++ headerItems rest
  | _ :: rest => headerItems rest

/-- The child lists of the Body parts, in document order. -/
def bodyParts {ε : Type} : List (Part ε) → List (List ε)
  | [] => []
  | .body cs :: rest => cs :: bodyParts rest
  | _ :: rest => bodyParts rest

/-- The first child of the last Body part (`none` = no Body part, `some none` = it is empty). -/
def lastBodyHead {ε : Type} : List (Part ε) → Option (Option ε) → Option (Option ε)
  | [], acc => acc
  | .body cs :: rest, _ => lastBodyHead rest (some cs.head?)
  | _ :: rest, acc => lastBodyHead rest acc

/-! ### The URI binding (`HTTPBase.use_http_uri`); `Entity.unravel` for the bindings that do not
    transform (`BINDING_URI`, `None`) and for a binding it does not know -/

def sID : Bytes := [73, 68]

/-- `str.strip()` on code points. -/
def pyStrip (t : List Nat) : List Nat := ((t.dropWhile pyIsSpace).reverse.dropWhile pyIsSpace).reverse

/-- `message.split("\n")[1]` if the message has a line break (the text between the first and the
    second one), else `message.strip()`. -/
def uriData (msg : List Nat) : List Nat :=
  if msg.contains 10 then ((msg.dropWhile (· != 10)).drop 1).takeWhile (· != 10) else pyStrip msg

/-- `use_http_uri(message, "SAMLRequest", destination, relay_state)["url"]`: the query goes through
    `pack.add_query` like the redirect and artifact URLs (since f3123de0; before, `?` was glued on
    whatever the destination already carried). -/
def uriUrl (msg dest rs : Bytes) : Bytes := addQuery dest (urlencode (withRelay (sID, msg) rs))

inductive UriInfo where
  | response (data : List Nat)     -- code points of `info["data"]`
  | request (url : Bytes)
deriving DecidableEq, Repr

/-- `use_http_uri(message, typ, destination, relay_state)`; `msgPts` are the message's code points,
    `msg` its UTF-8 bytes.  Any other `typ`: `NotImplementedError`. -/
def useHttpUri (typ : Bytes) (msgPts : List Nat) (msg dest rs : Bytes) : Option UriInfo :=
  if typ = sSAMLResponse then some (.response (uriData msgPts))
  else if typ = sSAMLRequest then some (.request (uriUrl msg dest rs))
  else none

inductive BindingKind where
  | redirect | post | artifact | plain | unknown
deriving DecidableEq, Repr

/-- `Entity.unravel(txt, binding)` for the bindings that carry text (SOAP is `soapUnwrapTree`):
    `plain` = `BINDING_URI` or `None` (the text itself), `unknown` = `UnknownBinding`. -/
def unravel (inflate : Bytes → Option Bytes) (k : BindingKind) (txt : Bytes) : Option Bytes :=
  match k with
  | .redirect => unravelRedirect inflate txt
  | .post => unravelPost inflate txt
  | .artifact => unravelArtifact txt
  | .plain => some txt
  | .unknown => none

/-! ### Artifacts -/

def artifactTypecode : Bytes := [0, 4]

/-- lower-case hexadecimal digit (`f"{i:02x}"`) -/
def hexLower (n : Nat) : Nat := if n < 10 then 48 + n else 87 + n

/-- `create_artifact(entity_id, message_handle, endpoint_index)`; `sha1` is a parameter. -/
def createArtifact (sha1 : Bytes → Bytes) (entityId handle : Bytes) (idx : Int) : Option Bytes :=
  if 0 ≤ idx ∧ idx ≤ 255 then
    let i := idx.toNat
    some (b64encode (artifactTypecode ++ [hexLower (i / 16), hexLower (i % 16)] ++ sha1 entityId ++ handle))
  else none

def isIntWs (c : Nat) : Bool := c == 32 || (9 ≤ c && c ≤ 13)

/-- `int(field, 16)` for the (at most) two bytes of the index field, falling back to
    `int.from_bytes(field, "big")` when `int` raises `ValueError`. -/
def decodeIndex (field : Bytes) : Int :=
  match field with
  | [] => 0
  | [a] => match hexVal a with | some x => x | none => a
  | [a, b] =>
    match hexVal a, hexVal b with
    | some x, some y => ((x * 16 + y : Nat) : Int)
    | none, some y =>
      if isIntWs a || a = 43 then (y : Int) else if a = 45 then -(y : Int) else ((a * 256 + b : Nat) : Int)
    | some x, none => if isIntWs b then (x : Int) else ((a * 256 + b : Nat) : Int)
    | none, none => ((a * 256 + b : Nat) : Int)
  | _ => 0     -- not reachable: the field is a slice of length ≤ 2

structure ArtifactInfo where
  index : Int
  sourceId : Bytes
deriving DecidableEq, Repr

/-- The decoding steps of `artifact2destination`: base64, type code, index field, source id. -/
def decodeArtifact (art : Bytes) : Option ArtifactInfo :=
  match b64decodeStr art with
  | none => none
  | some raw =>
    if raw.take 2 = artifactTypecode then
      some { index := decodeIndex ((raw.drop 2).take 2), sourceId := (raw.drop 4).take 20 }
    else none

/-- One known entity: its source id and, per descriptor of the requested kind, the
    `artifact_resolution_service` list as `(index string, location)` pairs (`none` = the
    descriptor has no such key: `KeyError`). -/
structure ArtEntity (α : Type) where
  sourceId : Bytes
  descriptors : List (Option (List (α × α)))

inductive ArtDest (α : Type) where
  | dest (loc : α)
  | noEndpoint        -- the function returns `None`
  | refused           -- ValueError / KeyError / binascii.Error
deriving DecidableEq, Repr

/-- The two nested loops: inside one service list the first endpoint with the index wins
    (`break`), across descriptors the last descriptor that has one. -/
def scanDescriptors {α : Type} [DecidableEq α] (want : α) : Option α → List (Option (List (α × α))) → Option (Option α)
  | d, [] => some d
  | _, none :: _ => none
  | d, some eps :: rest =>
    scanDescriptors want (match eps.find? (fun ep => ep.1 = want) with | some ep => some ep.2 | none => d) rest

/-- `Entity.artifact2destination(artifact, descriptor)`; `showInt` is `str(int)`. -/
def artifact2destination {α : Type} [DecidableEq α] (showInt : Int → α) (store : List (ArtEntity α)) (art : Bytes) :
    ArtDest α :=
  match decodeArtifact art with
  | none => .refused
  | some info =>
    match store.find? (fun e => e.sourceId = info.sourceId) with
    | none => .refused
    | some e =>
      match scanDescriptors (showInt info.index) none e.descriptors with
      | none => .refused
      | some (some loc) => .dest loc
      | some none => .noEndpoint

/-! ### Histories: issuing through `Entity.use_artifact`, reloading metadata, resolving -/

/-- What the receiving entity holds: the source-id table built from the metadata in force
    (`self.sourceid`) and the artifacts seen so far. -/
structure ArtState (α : Type) where
  store : List (ArtEntity α)
  seen : List Bytes := []

inductive ArtStep (α : Type) where
  /-- `issuer.use_artifact(message, endpoint_index)` (the handle is `sha1(message + rndbytes())`), sent
      with `apply_binding(BINDING_HTTP_ARTIFACT, …)` and resolved by the receiver on arrival. -/
  | issue (entityId sourceId handle : Bytes) (idx : Int)
  /-- `receiver.reload_metadata(conf)`: `self.sourceid` is rebuilt from the new metadata. -/
  | reload (store : List (ArtEntity α))
  /-- `receiver.artifact2destination` once more for the `i`-th artifact seen. -/
  | resolve (i : Nat)

inductive ArtObs (α : Type) where
  | issued (art : Option Bytes) (dest : Option (ArtDest α))
  | reloaded
  | resolved (dest : Option (ArtDest α))      -- `none`: no such artifact in the history
deriving DecidableEq, Repr

/-- One step of a history.  Resolution always uses the table in force at that moment. -/
def stepArt {α : Type} [DecidableEq α] (showInt : Int → α) (st : ArtState α) : ArtStep α → ArtState α × ArtObs α
  | .issue eid sid handle idx =>
    match createArtifact (fun _ => sid) eid handle idx with
    | none => (st, .issued none none)
    | some art => ({ st with seen := st.seen ++ [art] }, .issued (some art) (some (artifact2destination showInt st.store art)))
  | .reload store => ({ st with store := store }, .reloaded)
  | .resolve i =>
    match st.seen[i]? with
    | none => (st, .resolved none)
    | some art => (st, .resolved (some (artifact2destination showInt st.store art)))

def runArt {α : Type} [DecidableEq α] (showInt : Int → α) (st : ArtState α) : List (ArtStep α) → List (ArtObs α)
  | [] => []
  | s :: rest => (stepArt showInt st s).2 :: runArt showInt (stepArt showInt st s).1 rest

end Bindings
