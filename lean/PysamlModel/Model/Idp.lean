/-
  C09 — the identity provider's response assembly:

    Server.create_authn_response → gather_authn_response_args (argument > configuration > default;
    NameID lookup `IdentDB.find_nameid` / `construct_nameid` → `nim_args` → `get_nameid` →
    `match_local_id`) → Server._authn_response → setup_assertion → update_farg →
    Assertion.construct (Policy.conditions / not_on_or_after / get_lifetime / Policy.get,
    authn_statement, do_subject) → Entity._response / Entity.sign (what gets signed, with which
    algorithms, the allow-list test).

  The model follows the code as it is.  Abstractions (trusted base): XML serialisation; random
  identifiers (`fresh…` parameters); signatures are "present with these two algorithm URIs"
  (ideal crypto, the SP side is `Sp.Sig`); the released attributes and their wire form are a
  parameter `W` (attribute release is C10, the converters are C17); encryption is C16 (the
  `encrypt_assertion = False` branch of `_response` only); a caller's `farg=` tree is reduced to the
  record `Farg` (what is preset on the paths the code reads).  Times are `Int` seconds.
-/
import PysamlModel.Model.Sp

namespace Idp

/-- Python truthiness of an optional string (`None` and `""` are falsy). -/
def truthy (s : Option String) : Bool :=
  match s with
  | some t => t != ""
  | none => false

/-- `x or y` for an optional string `x`. -/
def orElse (x : Option String) (y : String) : String :=
  match x with
  | some s => if s != "" then s else y
  | none => y

/-! ### lifetimes (`Policy.get_lifetime`, `time_util.in_a_while`) -/

/-- The keyword arguments of `datetime.timedelta` a lifetime dictionary may carry. -/
structure Lifetime where
  weeks : Int := 0
  days : Int := 0
  hours : Int := 0
  minutes : Int := 0
  seconds : Int := 0
  milliseconds : Int := 0
deriving Repr, DecidableEq, Inhabited

/-- Whole seconds by which `in_a_while(**lifetime)` is later than `instant()` under one clock value:
    `strftime` drops the sub-second part of `utcnow() + timedelta(...)` (floor). -/
def Lifetime.secs (l : Lifetime) : Int :=
  (((((l.weeks * 7 + l.days) * 24 + l.hours) * 60 + l.minutes) * 60 + l.seconds) * 1000 + l.milliseconds) / 1000

/-! ### `Policy.get` -/

/-- One entry of the policy configuration (the keys C09 reads).  `other` = the dictionary has further
    keys (attribute_restrictions, entity_categories, …), which only matters for its truthiness. -/
structure PolicySpec where
  lifetime : Option Lifetime := none
  nameidFormat : Option String := none
  other : Bool := false
deriving Repr, DecidableEq, Inhabited

/-- `bool(spec)`: a non-empty dictionary. -/
def PolicySpec.truthy (s : PolicySpec) : Bool := s.lifetime.isSome || s.nameidFormat.isSome || s.other

/-- The `policy` configuration: `none` = not configured; an entry's value may be `None`. -/
abbrev Restrictions := Option (List (String × Option PolicySpec))

/-- `restrictions.get(key)`: a missing key and a `None` value are the same thing to the caller. -/
def lookupSpec (rs : List (String × Option PolicySpec)) (k : String) : Option PolicySpec :=
  (rs.lookup k).join

/-- The restrictions `Policy.get` reads from: requester, else its registration authority, else
    `default` (if truthy) or `""`, else `{}`. -/
def applicable (rs : List (String × Option PolicySpec)) (sp : String) (ra : Option String) : PolicySpec :=
  match lookupSpec rs sp with
  | some s => s
  | none =>
    match ra.bind (lookupSpec rs) with
    | some s => s
    | none =>
      let dflt : Option PolicySpec :=
        match lookupSpec rs "default" with
        | some s => if s.truthy then some s else lookupSpec rs ""
        | none => lookupSpec rs ""
      dflt.getD {}

/-- `Policy.get(attribute, sp_entity_id, default)`. -/
def policyGet {α : Type} (p : Restrictions) (field : PolicySpec → Option α) (sp : String) (ra : Option String)
    (dflt : α) : α :=
  match p with
  | none => dflt
  | some [] => dflt                         -- `if not self._restrictions`
  | some rs => (field (applicable rs sp ra)).getD dflt

/-! ### configuration, arguments, defaults -/

/-- Values the code takes from tables / constants in the source (regenerated: Gen/IdpDefaults.lean). -/
structure Defaults where
  signResponse : Bool             -- gather_authn_response_args.param_defaults
  signAssertion : Bool
  sigAlg : String                 -- DefaultSignature
  digestAlg : String
  sigAllowed : List String        -- SIG_ALLOWED_ALG
  digestAllowed : List String     -- DIGEST_ALLOWED_ALG
  lifetime : Lifetime             -- Policy.get_lifetime default
  nameidFormat : String           -- Policy.get_nameid_format default
  persistent : String             -- saml.NAMEID_FORMAT_PERSISTENT
  email : String                  -- saml.NAMEID_FORMAT_EMAILADDRESS
  bearer : String                 -- saml.SCM_BEARER
  holderOfKey : String            -- saml.SCM_HOLDER_OF_KEY
  senderVouches : String          -- saml.SCM_SENDER_VOUCHES
  statusSuccess : String          -- samlp.STATUS_SUCCESS (success_status_factory)
deriving Repr, Inhabited

structure Cfg where
  entityId : String
  signResponse : Option Bool := none      -- service/idp/sign_response
  signAssertion : Option Bool := none     -- service/idp/sign_assertion
  signingAlg : Option String := none      -- signing_algorithm
  digestAlg : Option String := none       -- digest_algorithm
  policy : Restrictions := none           -- service/idp/policy
  domain : Option String := none          -- service/idp/domain
  ras : List (String × String) := []      -- metadata: entity ↦ registration authority
  encCerts : List String := []            -- metadata: entities that publish an encryption certificate
  unmet : List String := []               -- metadata: entities that REQUIRE an attribute the identity lacks
deriving Repr, Inhabited

structure NameIdPolicy where
  format : Option String := none
  spNameQualifier : Option String := none
deriving Repr, DecidableEq, Inhabited

structure NameId where
  format : Option String := none
  spNameQualifier : Option String := none
  nameQualifier : Option String := none
  text : String := ""
deriving Repr, DecidableEq, Inhabited

/-- The `authn` dictionary (keys of AUTHN_DICT_MAP that decide whether a statement is made and which
    AuthnContext it gets).  `decl` = an AuthnContextDecl instance is supplied under "decl". -/
structure Authn where
  classRef : Option String := none
  authnAuth : Option String := none
  decl : Bool := false
deriving Repr, DecidableEq, Inhabited

/-- A caller-supplied, non-empty assertion argument tree (`farg=`), reduced to what `update_farg`,
    `do_subject` and `do_subject_confirmation` read from it: the values found (and not `None`) at
    assertion/subject/subject_confirmation/{method, subject_confirmation_data/*}.
    `malformed` = some node on those paths is not a dictionary (`is_set` raises TypeError). -/
structure Farg where
  malformed : Bool := false
  method : Option String := none
  recipient : Option String := none
  irt : Option String := none
  address : Option String := none
  notBefore : Option Int := none
  notOnOrAfter : Option Int := none      -- overwritten by do_subject_confirmation
deriving Repr, DecidableEq, Inhabited

/-- A caller-supplied `status=` (a samlp.Status instance): top-level and second-level code. -/
structure StatusArg where
  top : String
  second : Option String := none
deriving Repr, DecidableEq, Inhabited

/-- Arguments of `create_authn_response` (+ what it reads from its surroundings: clock, IdentDB).
    `W` is the wire form of the released attributes. -/
structure Args (W : Type) where
  inResponseTo : String
  destination : String
  spEntityId : String
  nameIdPolicy : Option NameIdPolicy := none
  userid : String := ""
  nameId : Option NameId := none
  authn : Option Authn := none
  signResponse : Option Bool := none
  signAssertion : Option Bool := none
  signAlg : Option String := none
  digestAlg : Option String := none
  sessionNooa : Option Int := none
  releasePolicy : Option Restrictions := none   -- `release_policy=` (a Policy object)
  farg : Option Farg := none                     -- `farg=`; `none` = None or {} (falsy)
  status : Option StatusArg := none              -- `status=`
  stored : List NameId := []                     -- NameIDs the IdentDB holds for `userid`, in order
  now : Int := 0                                 -- the clock
  freshId : String := ""                         -- what `create_id` would return next
  freshSession : String := ""                    -- the next `sid()` used as SessionIndex
  attrs : W                                      -- from_local(released attributes)
  pefim : Bool := false                          -- `pefim=`: attributes travel in an advice assertion
  bestEffort : Option Bool := none               -- `best_effort=` (read by the PEFIM branch only)
  storeFails : Bool := false                     -- reading the IdentDB raises OSError

/-! ### what is produced -/

structure SigInfo where
  sigAlg : String
  digestAlg : String
deriving Repr, DecidableEq, Inhabited

structure Conf where
  method : Sp.Method
  recipient : Option String
  irt : Option String
  nb : Option Int
  nooa : Option Int
  address : Option String := none
deriving Repr, DecidableEq, Inhabited

structure AuthnOut where
  classRef : Option String
  authnAuth : Option String          -- text of the AuthenticatingAuthority element, if there is one
  sessionNooa : Option Int
  sessionIndex : Option String
  decl : Bool := false               -- the AuthnContext carries an AuthnContextDecl
deriving Repr, DecidableEq, Inhabited

/-- An assertion inside the `<Advice>` of an issued assertion (PEFIM: the attribute assertion).
    `encrypted` = it travels as EncryptedAssertion, opened with the requester's key. -/
structure AdviceAssertion (W : Type) where
  encrypted : Bool
  issuer : Option String
  sig : Option SigInfo
  nameId : Option NameId
  confs : List Conf
  condNb : Option Int
  condNooa : Option Int
  audiences : List (List String)
  authn : List AuthnOut
  attrs : W
deriving Repr, DecidableEq

structure IssuedAssertion (W : Type) where
  issuer : Option String
  sig : Option SigInfo
  nameId : Option NameId
  confs : List Conf
  condNb : Option Int
  condNooa : Option Int
  audiences : List (List String)
  authn : List AuthnOut
  attrs : W
  advice : List (AdviceAssertion W) := []
deriving Repr, DecidableEq

structure Issued (W : Type) where
  issuer : Option String
  destination : Option String
  inResponseTo : Option String
  issueInstant : Int
  sig : Option SigInfo
  assertions : List (IssuedAssertion W)
  statusTop : String
  statusSecond : Option String := none
deriving Repr, DecidableEq

/-- Exceptions that leave `create_authn_response` (no Response is created). -/
inductive Refusal where
  | sigAlgNotAllowed | digestAlgNotAllowed | emailNoDomain
  | fargMalformed      -- TypeError out of argtree.is_set
  | hokNoKeyInfo       -- holder-of-key preset: do_subject_confirmation adds the (absent) key_info
  | ecpSignedNotElement  -- create_ecp_authn_request_response wraps a signed (= string) Response: AttributeError
  | adviceNotElement     -- PEFIM, MissingValue, best_effort off: setup_assertion's error-Response LINES become the advice
deriving Repr, DecidableEq, Inhabited

/-! ### the NameID (`gather_authn_response_args`, ident.py) -/

def raOf (cfg : Cfg) (entity : String) : Option String := cfg.ras.lookup entity

/-- `snq` of `gather_authn_response_args` = `sp_name_qualifier` of `nim_args`. -/
def effectiveSpnq {W : Type} (a : Args W) : String :=
  match a.nameIdPolicy with
  | some p => if truthy p.spNameQualifier then p.spNameQualifier.getD a.spEntityId else a.spEntityId
  | none => a.spEntityId

/-- `IdentDB.find_nameid(userid, sp_name_qualifier=snq[, format=name_id_policy.format])`. -/
def findNameid {W : Type} (a : Args W) : List NameId :=
  a.stored.filter fun n =>
    n.spNameQualifier == some (effectiveSpnq a) &&
    (match a.nameIdPolicy with
     | some p => n.format == p.format
     | none => true)

/-- `IdentDB.match_local_id(userid, sp_name_qualifier, name_qualifier)`. -/
def matchLocalId (persistent : String) (stored : List NameId) (spnq nq : String) : Option NameId :=
  stored.find? fun n =>
    n.format == some persistent &&
    (let nqOk := (truthy n.nameQualifier && n.nameQualifier == some nq) || (!truthy n.nameQualifier && nq == "")
     if truthy n.spNameQualifier && n.spNameQualifier == some spnq then nqOk
     else if !truthy n.spNameQualifier && spnq == "" then nqOk
     else false)

/-- The format `nim_args` settles on: requested, else the policy's for the effective qualifier. -/
def chosenFormat {W : Type} (d : Defaults) (cfg : Cfg) (policy : Restrictions) (a : Args W) : String :=
  let spnq := effectiveSpnq a
  let fromPolicy := policyGet policy (·.nameidFormat) spnq (raOf cfg spnq) d.nameidFormat
  match a.nameIdPolicy with
  | some p => if truthy p.format then p.format.getD fromPolicy else fromPolicy
  | none => fromPolicy

/-- `args["name_id"]` of `gather_authn_response_args`. -/
def chooseNameId {W : Type} (d : Defaults) (cfg : Cfg) (policy : Restrictions) (a : Args W) : Except Refusal NameId :=
  match a.nameId with
  | some n => .ok n
  | none =>
    match findNameid a with
    | n :: _ => .ok n
    | [] =>
      -- construct_nameid → nim_args → get_nameid
      let spnq := effectiveSpnq a
      let fmt := chosenFormat d cfg policy a
      let nq := cfg.entityId                      -- `self.ident.name_qualifier = self.config.entityid`
      let mint (text : String) : NameId :=
        { format := some fmt, spNameQualifier := some spnq, nameQualifier := some nq, text := text }
      match (if fmt == d.persistent then matchLocalId d.persistent a.stored spnq nq else none) with
      | some n => .ok n
      | none =>
        if fmt == d.email then
          if truthy cfg.domain then .ok (mint (a.freshId ++ "@" ++ cfg.domain.getD ""))
          else .error .emailNoDomain
        else .ok (mint a.freshId)

/-! ### the assertion -/

/-- `val_kw if val_kw is not None else val_config if val_config is not None else val_default`. -/
def resolve (arg cfg : Option Bool) (dflt : Bool) : Bool := arg.getD (cfg.getD dflt)

/-- `Assertion.construct`'s AuthnStatement decision + `authn_statement` / `_authn_context_class_ref`. -/
def authnOut {W : Type} (a : Args W) : List AuthnOut :=
  match a.authn with
  | none => []
  | some x =>
    if truthy x.authnAuth || truthy x.classRef || x.decl then
      if truthy x.classRef then
        -- _authn_context_class_ref: the authority only when truthy
        [{ classRef := x.classRef, authnAuth := if truthy x.authnAuth then x.authnAuth else none,
           sessionNooa := a.sessionNooa, sessionIndex := some a.freshSession }]
      else if x.decl then
        -- _authn_context_decl: an AuthenticatingAuthority element always (text None = empty element)
        [{ classRef := none, authnAuth := some (x.authnAuth.getD ""),
           sessionNooa := a.sessionNooa, sessionIndex := some a.freshSession, decl := true }]
      else
        -- a statement without AuthnContext
        [{ classRef := none, authnAuth := none, sessionNooa := a.sessionNooa, sessionIndex := some a.freshSession }]
    else []

/-! ### the confirmation (`update_farg`, `do_subject`, `do_subject_confirmation`) -/

/-- the Method URI as the SP model classifies it -/
def methodOf (d : Defaults) (m : String) : Sp.Method :=
  if m == d.bearer then .bearer
  else if m == d.holderOfKey then .holderOfKey
  else if m == d.senderVouches then .senderVouches
  else .other

/-- `update_farg`: each of method / in_response_to / recipient is filled in iff the caller's tree does
    not preset it (a falsy tree: all three); `do_subject_confirmation` then sets NotOnOrAfter to the
    policy expiry whatever the tree says.  Other confirmation data (Address, NotBefore) pass through. -/
def confOf {W : Type} (d : Defaults) (a : Args W) (nooa : Int) : Conf :=
  let f : Farg := a.farg.getD {}
  { method := match f.method with | some m => methodOf d m | none => .bearer
    recipient := some (f.recipient.getD a.destination)
    irt := some (f.irt.getD a.inResponseTo)
    nb := f.notBefore
    nooa := some nooa
    address := f.address }

/-- What makes `setup_assertion` / `Assertion.construct` raise because of the tree. -/
def fargRefusal {W : Type} (d : Defaults) (a : Args W) : Option Refusal :=
  match a.farg with
  | none => none
  | some f =>
    if f.malformed then some .fargMalformed
    else if f.method == some d.holderOfKey then some .hokNoKeyInfo
    else none

/-- The lifetime in seconds `Policy.not_on_or_after(sp_entity_id)` adds to the clock. -/
def lifetimeFor (d : Defaults) (cfg : Cfg) (policy : Restrictions) (sp : String) : Int :=
  (policyGet policy (·.lifetime) sp (raOf cfg sp) d.lifetime).secs

/-- The signing algorithms: argument, else the entity's (`config or DefaultSignature`). -/
def sigInfo {W : Type} (d : Defaults) (cfg : Cfg) (a : Args W) : SigInfo :=
  { sigAlg := orElse a.signAlg (orElse cfg.signingAlg d.sigAlg),
    digestAlg := orElse a.digestAlg (orElse cfg.digestAlg d.digestAlg) }

/-- `Entity._response`: `if not status: status = success_status_factory()`. -/
def statusTopOf {W : Type} (d : Defaults) (a : Args W) : String :=
  match a.status with
  | some st => st.top
  | none => d.statusSuccess

/-- `create_authn_response` (encrypt_assertion false, no `issuer=`/`authn_statement=` arguments). -/
def create {W : Type} (d : Defaults) (cfg : Cfg) (a : Args W) : Except Refusal (Issued W) :=
  let policy : Restrictions := a.releasePolicy.getD cfg.policy
  let signAssertion := resolve a.signAssertion cfg.signAssertion d.signAssertion
  let signResponse := resolve a.signResponse cfg.signResponse d.signResponse
  match chooseNameId d cfg policy a with
  | .error e => .error e
  | .ok nameId =>
    match fargRefusal d a with
    | some e => .error e
    | none =>
    let nooa := a.now + lifetimeFor d cfg policy a.spEntityId
    let si := sigInfo d cfg a
    let assertion : IssuedAssertion W :=
      { issuer := some cfg.entityId
        sig := if signAssertion then some si else none
        nameId := some nameId
        confs := [confOf d a nooa]
        condNb := some a.now
        condNooa := some nooa
        audiences := [[a.spEntityId]]
        authn := authnOut a
        attrs := a.attrs }
    let response (sig : Option SigInfo) : Issued W :=
      { issuer := some cfg.entityId
        destination := if a.destination != "" then some a.destination else none
        inResponseTo := some a.inResponseTo
        issueInstant := a.now
        sig := sig
        assertions := [assertion]
        statusTop := statusTopOf d a
        statusSecond := a.status.bind (·.second) }
    -- Entity._response: `if to_sign and not sign`: assertion only (no allow-list test); `if sign`: Entity.sign
    if signResponse then
      if !d.sigAllowed.contains si.sigAlg then .error .sigAlgNotAllowed
      else if !d.digestAllowed.contains si.digestAlg then .error .digestAlgNotAllowed
      else .ok (response (some si))
    else .ok (response none)

/-! ### the PEFIM profile (`_authn_response`, branch `pefim`) and the error Responses -/

/-- The confirmation of the advice assertion: `setup_assertion(None, sp, None, None, None, …, farg=farg)`:
    `update_farg(None, None, farg)` leaves Recipient / InResponseTo absent unless the caller's tree presets them. -/
def adviceConf {W : Type} (d : Defaults) (a : Args W) (nooa : Int) : Conf :=
  let f : Farg := a.farg.getD {}
  { method := match f.method with | some m => methodOf d m | none => .bearer
    recipient := f.recipient
    irt := f.irt
    nb := f.notBefore
    nooa := some nooa
    address := f.address }

/-- The attribute assertion of the PEFIM profile: no NameID, no AuthnStatement, never signed on its own
    (`sign_assertion and not pefim`), encrypted iff the requester publishes an encryption certificate
    (`has_encrypt_cert_in_metadata`; no `encrypt_cert_advice=` argument). -/
def adviceOf {W : Type} (d : Defaults) (cfg : Cfg) (a : Args W) : AdviceAssertion W :=
  let policy : Restrictions := a.releasePolicy.getD cfg.policy
  let nooa := a.now + lifetimeFor d cfg policy a.spEntityId
  { encrypted := cfg.encCerts.contains a.spEntityId
    issuer := some cfg.entityId
    sig := none
    nameId := none
    confs := [adviceConf d a nooa]
    condNb := some a.now
    condNooa := some nooa
    audiences := [[a.spEntityId]]
    authn := []
    attrs := a.attrs }

/-- PEFIM: the Response of `create` whose assertion carries no attributes (`empty` = `from_local` of nothing)
    but the attribute assertion as advice. -/
def pefimShape {W : Type} (empty : W) (d : Defaults) (cfg : Cfg) (a : Args W) (r : Issued W) : Issued W :=
  { r with assertions := r.assertions.map fun x => { x with attrs := empty, advice := [adviceOf d cfg a] } }

/-- `best_effort` as `gather_authn_response_args` resolves it (no configuration value modelled). -/
def bestEffortOf {W : Type} (a : Args W) : Bool := a.bestEffort.getD false

/-- `error_status_factory(exc)` for an exception class outside EXCEPTION2STATUS. -/
def statusResponder : String := "urn:oasis:names:tc:SAML:2.0:status:Responder"
def statusAuthnFailed : String := "urn:oasis:names:tc:SAML:2.0:status:AuthnFailed"

/-- `create_error_response(in_response_to, destination, exc, sign=sign_response, …)`: no assertion;
    signed iff the ARGUMENT says so, else iff the configuration does (`Entity.should_sign`), through `Entity.sign`. -/
def errorResponse {W : Type} (d : Defaults) (cfg : Cfg) (a : Args W) : Except Refusal (Issued W) :=
  let si := sigInfo d cfg a
  let response (sig : Option SigInfo) : Issued W :=
    { issuer := some cfg.entityId
      destination := if a.destination != "" then some a.destination else none
      inResponseTo := some a.inResponseTo
      issueInstant := a.now
      sig := sig
      assertions := []
      statusTop := statusResponder
      statusSecond := some statusAuthnFailed }
  if a.signResponse.getD (cfg.signResponse.getD false) then
    if !d.sigAllowed.contains si.sigAlg then .error .sigAlgNotAllowed
    else if !d.digestAllowed.contains si.digestAlg then .error .digestAlgNotAllowed
    else .ok (response (some si))
  else .ok (response none)

/-- `create_authn_response` with the profile switch and the identifier store's state:
    * the store cannot be read and no `name_id=` is given: `gather_authn_response_args` raises OSError,
      which becomes an error Response;
    * `pefim`: a requester that requires an attribute the identity lacks makes `setup_assertion` hand back
      the LINES of an error Response unless `best_effort`; appended as advice they cannot be written out;
      otherwise `create`'s Response reshaped (`pefimShape`);
    * else `create` (the non-PEFIM branch runs `setup_assertion` with `best_effort=True`). -/
def issue {W : Type} (empty : W) (d : Defaults) (cfg : Cfg) (a : Args W) : Except Refusal (Issued W) :=
  if a.storeFails && a.nameId.isNone then errorResponse d cfg a
  else if a.pefim then
    match create d cfg a with
    | .error e => .error e
    | .ok r => if cfg.unmet.contains a.spEntityId && !bestEffortOf a then .error .adviceNotElement
               else .ok (pefimShape empty d cfg a r)
  else create d cfg a

/-! ### the forms a boolean option may take in the configuration (`Config.load_special`) -/

/-- A value as written in the configuration dictionary. -/
inductive CfgVal where
  | unset
  | bool (b : Bool)
  | str (s : String)
  | int (n : Int)
deriving Repr, DecidableEq, Inhabited

/-- `load_special` turns exactly the strings "true" / "false" into booleans and stores anything else as
    it is; `gather_authn_response_args` takes a stored value that is not `None`, and every later use is
    a truthiness test.  The result is what `Cfg.signResponse` / `Cfg.signAssertion` stand for. -/
def loadBool : CfgVal → Option Bool
  | .unset => none
  | .bool b => some b
  | .str s => if s == "true" then some true else if s == "false" then some false else some (s != "")
  | .int n => some (n != 0)

/-! ### the sibling public entry points -/

inductive Entry where
  | authnResponse           -- Server.create_authn_response
  | authnRequestResponse    -- Server.create_authn_request_response
  | ecp                     -- Server.create_ecp_authn_request_response
deriving Repr, DecidableEq, Inhabited

/-- What an entry point hands to `create_authn_response`: the siblings forward identity, request ID,
    consumer URL, requester, NameIDPolicy, userid, name_id, authn, sign_response, sign_assertion,
    sign_alg, digest_alg (and, `create_authn_request_response` only, session_not_on_or_after); their
    `**kwargs` (farg, status, release_policy, the encryption options, pefim) are dropped, i.e. stay at
    `create_authn_response`'s defaults. -/
def forward {W : Type} (e : Entry) (a : Args W) : Args W :=
  match e with
  | .authnResponse => a
  | .authnRequestResponse => { a with farg := none, status := none, releasePolicy := none, pefim := false, bestEffort := none }
  | .ecp => { a with farg := none, status := none, releasePolicy := none, sessionNooa := none, pefim := false,
                     bestEffort := none }

def isSigned {W : Type} (r : Issued W) : Bool := r.sig.isSome || r.assertions.any (·.sig.isSome)

/-- An entry point = `create` on the forwarded arguments; the ECP one then wraps the result into a SOAP
    envelope with `element_to_extension_element`, which only takes an element instance: a signed Response
    is a string by then and the call raises. -/
def createVia {W : Type} (e : Entry) (d : Defaults) (cfg : Cfg) (a : Args W) : Except Refusal (Issued W) :=
  match create d cfg (forward e a) with
  | .error x => .error x
  | .ok r => if e == .ecp && isSigned r then .error .ecpSignedNotElement else .ok r

/-- An entry point on `issue`.  The ECP one cannot wrap an error Response either (a list of lines). -/
def issueVia {W : Type} (empty : W) (e : Entry) (d : Defaults) (cfg : Cfg) (a : Args W) : Except Refusal (Issued W) :=
  match issue empty d cfg (forward e a) with
  | .error x => .error x
  | .ok r => if e == .ecp && (isSigned r || r.assertions.isEmpty) then .error .ecpSignedNotElement else .ok r

/-! ### hand-over to the service-provider model -/

/-- What the SP makes of a signature the IdP put there: it verifies iff the SP's metadata binds the
    IdP's signing key to the IdP's entityID (`trusts`; ideal crypto). -/
def sigState (trusts : Bool) (s : Option SigInfo) : Sp.Sig :=
  match s with
  | none => .absent
  | some _ => if trusts then .valid else .untrusted

def toSpAssertion {W : Type} (trusts : Bool) (x : IssuedAssertion W) : Sp.Assertion :=
  { sig := sigState trusts x.sig
    encrypted := false
    conditions := some { nb := x.condNb, nooa := x.condNooa, audiences := x.audiences }
    authn := x.authn.map fun s => { sessionNooa := s.sessionNooa, sessionIndex := s.sessionIndex }
    subject := some { nameId := x.nameId.map (·.text),
                      confs := x.confs.map fun c =>
                        { method := c.method,
                          data := some { nb := c.nb, nooa := c.nooa, recipient := c.recipient, irt := c.irt,
                                         address := c.address } } } }

/-- The issued Response as the SP model's input. -/
def toSp {W : Type} (trusts : Bool) (r : Issued W) : Sp.Response :=
  { sig := sigState trusts r.sig
    version := "2.0"
    issueInstant := r.issueInstant
    destination := r.destination
    inResponseTo := r.inResponseTo
    issuer := r.issuer
    statusTop := r.statusTop
    statusSecond := r.statusSecond
    assertions := r.assertions.map (toSpAssertion trusts) }

/-- Attribute converters as a parameter (C17): local ↔ wire. -/
structure Conv (L W : Type) where
  fromLocal : L → W
  toLocal : W → L

/-- What the SP hands to the application for an issued Response: the outcome of `Sp.process` and, on
    identity, the attributes of the first assertion through `to_local`. -/
def recovered {L W : Type} (c : Conv L W) (r : Issued W) : Option L :=
  match r.assertions with
  | x :: _ => some (c.toLocal x.attrs)
  | [] => none

/-- … with advice: `get_identity` reads the attribute statement of an advice assertion (in clear, or opened
    with the SP's key) — under PEFIM the assertion itself carries none. -/
def recoveredAdv {L W : Type} (c : Conv L W) (r : Issued W) : Option L :=
  match r.assertions with
  | x :: _ =>
    match x.advice with
    | adv :: _ => some (c.toLocal adv.attrs)
    | [] => some (c.toLocal x.attrs)
  | [] => none

/-- The composition for `issue`: `Sp.process` looks at the Response and its assertions (never into the
    advice); on identity the attributes come through `recoveredAdv`. -/
def endToEndAdv {L W : Type} (c : Conv L W) (spCfg : Sp.Cfg) (env : Sp.Env) (trusts : Bool) (r : Issued W) :
    Sp.Outcome × Option L :=
  let o := Sp.process spCfg env (toSp trusts r)
  (o, match o with
      | .identity _ => recoveredAdv c r
      | _ => none)

/-- The composition the second sentence of C09 is about: the issued Response handed to the SP. -/
def endToEnd {L W : Type} (c : Conv L W) (spCfg : Sp.Cfg) (env : Sp.Env) (trusts : Bool) (r : Issued W) :
    Sp.Outcome × Option L :=
  let o := Sp.process spCfg env (toSp trusts r)
  (o, match o with
      | .identity _ => recovered c r
      | _ => none)

end Idp
