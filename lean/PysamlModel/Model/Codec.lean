/-
  C14 — byte-level codecs used by the bindings (`base64`, `html.escape`, `urllib.parse.quote_plus`,
  `urlencode`, `parse_qsl`/`parse_qs`), written as small total functions over `List Nat`.

  A byte string is a `List Nat` whose elements are `< 256` (`IsBytes`); text is its UTF-8 encoding
  (all functions below only look at ASCII bytes, so they act on UTF-8 exactly like the Python
  functions act on `str`).  Python raising = `none`.

  All decoders are structurally recursive (a `skip` counter replaces "drop k characters and go on"),
  so that `decide` can evaluate them.
-/
namespace Codec

abbrev Bytes := List Nat

/-- Every element is a byte. -/
def IsBytes (bs : Bytes) : Prop := ∀ b ∈ bs, b < 256

instance (bs : Bytes) : Decidable (IsBytes bs) := by unfold IsBytes; infer_instance

/-! ### base64 (`base64.b64encode`, `binascii.a2b_base64` in its default non-strict mode) -/

/-- The standard alphabet: value (`< 64`) to ASCII. -/
def b64char (n : Nat) : Nat :=
  if n < 26 then 65 + n else if n < 52 then 71 + n else if n < 62 then n - 4 else if n = 62 then 43 else 47

/-- ASCII to value; `none` for every byte outside the alphabet (incl. `=`). -/
def b64val (c : Nat) : Option Nat :=
  if 65 ≤ c ∧ c ≤ 90 then some (c - 65)
  else if 97 ≤ c ∧ c ≤ 122 then some (c - 71)
  else if 48 ≤ c ∧ c ≤ 57 then some (c + 4)
  else if c = 43 then some 62
  else if c = 47 then some 63
  else none

/-- `base64.b64encode`: three bytes become four characters, `=` padding. -/
def b64encode : Bytes → Bytes
  | [] => []
  | [a] => [b64char (a / 4), b64char (a % 4 * 16), 61, 61]
  | [a, b] => [b64char (a / 4), b64char (a % 4 * 16 + b / 16), b64char (b % 16 * 4), 61]
  | a :: b :: c :: rest =>
    b64char (a / 4) :: b64char (a % 4 * 16 + b / 16) :: b64char (b % 16 * 4 + c / 64) :: b64char (c % 64)
      :: b64encode rest

/-- The decoding loop of `binascii.a2b_base64` (non-strict): `quad` = position in the current
    quadruple, `left` = bits left over, `pads` = padding characters seen since the last data
    character.  Characters outside the alphabet are skipped; a complete pad sequence stops the
    decoding (the rest is ignored); running out of input inside a quadruple raises. -/
def b64dec (quad left pads : Nat) : Bytes → Option Bytes
  | [] => if quad = 0 then some [] else none
  | c :: rest =>
    if c = 61 then
      if 2 ≤ quad then
        if 4 ≤ quad + (pads + 1) then some [] else b64dec quad left (pads + 1) rest
      else b64dec quad left pads rest
    else
      match b64val c with
      | none => b64dec quad left pads rest
      | some v =>
        match quad with
        | 0 => b64dec 1 v 0 rest
        | 1 => (b64dec 2 (v % 16) 0 rest).map ((left * 4 + v / 16) :: ·)
        | 2 => (b64dec 3 (v % 4) 0 rest).map ((left * 16 + v / 4) :: ·)
        | _ => (b64dec 0 0 0 rest).map ((left * 64 + v) :: ·)

/-- `base64.b64decode(b)` for a `bytes` argument. -/
def b64decode (s : Bytes) : Option Bytes := b64dec 0 0 0 s

/-- `base64.b64decode(s)` for a `str` argument: non-ASCII characters raise `ValueError`. -/
def b64decodeStr (s : Bytes) : Option Bytes := if s.all (· < 128) then b64decode s else none

/-! ### `html.escape(s, quote=True)` and the receiving side's entity decoding -/

/-- `str.replace(chr(c), r)`. -/
def replaceByte (c : Nat) (r : Bytes) (s : Bytes) : Bytes := s.flatMap (fun x => if x = c then r else [x])

def entAmp : Bytes := [38, 97, 109, 112, 59]          -- &amp;
def entLt : Bytes := [38, 108, 116, 59]               -- &lt;
def entGt : Bytes := [38, 103, 116, 59]               -- &gt;
def entQuot : Bytes := [38, 113, 117, 111, 116, 59]   -- &quot;
def entApos : Bytes := [38, 35, 120, 50, 55, 59]      -- &#x27;

/-- `html.escape(s, quote=True)`: five successive `str.replace` calls, `&` first. -/
def htmlEscape (s : Bytes) : Bytes :=
  replaceByte 39 entApos (replaceByte 34 entQuot (replaceByte 62 entGt (replaceByte 60 entLt (replaceByte 38 entAmp s))))

/-- What one input byte becomes. -/
def escByte (x : Nat) : Bytes :=
  if x = 38 then entAmp else if x = 60 then entLt else if x = 62 then entGt
  else if x = 34 then entQuot else if x = 39 then entApos else [x]

theorem replaceByte_cons (c : Nat) (r : Bytes) (x : Nat) (s : Bytes) :
    replaceByte c r (x :: s) = (if x = c then r else [x]) ++ replaceByte c r s := by
  simp [replaceByte]

theorem replaceByte_append (c : Nat) (r : Bytes) (a b : Bytes) :
    replaceByte c r (a ++ b) = replaceByte c r a ++ replaceByte c r b := by
  simp [replaceByte]

/-- The five successive replacements amount to one pass mapping each byte on its own
    (also used as the compiled implementation). -/
theorem htmlEscape_eq (s : Bytes) : htmlEscape s = s.flatMap escByte := by
  induction s with
  | nil => rfl
  | cons x s ih =>
    unfold htmlEscape at ih ⊢
    rw [List.flatMap_cons, ← ih]
    simp only [replaceByte_cons, replaceByte_append]
    congr 1
    unfold escByte
    by_cases h1 : x = 38
    · subst h1; decide
    by_cases h2 : x = 60
    · subst h2; decide
    by_cases h3 : x = 62
    · subst h3; decide
    by_cases h4 : x = 34
    · subst h4; decide
    by_cases h5 : x = 39
    · subst h5; decide
    simp [h1, h2, h3, h4, h5, replaceByte]

def htmlEscapeFast (s : Bytes) : Bytes := s.flatMap escByte

@[csimp] theorem htmlEscape_eq_fast : @htmlEscape = @htmlEscapeFast := by
  funext s; exact htmlEscape_eq s

/-- If `s` (the text after a `&`) starts with the body of one of the five entities: the character
    it stands for and the length of the body. -/
def entityAt (s : Bytes) : Option (Nat × Nat) :=
  if [97, 109, 112, 59].isPrefixOf s then some (38, 4)
  else if [108, 116, 59].isPrefixOf s then some (60, 3)
  else if [103, 116, 59].isPrefixOf s then some (62, 3)
  else if [113, 117, 111, 116, 59].isPrefixOf s then some (34, 5)
  else if [35, 120, 50, 55, 59].isPrefixOf s then some (39, 5)
  else none

/-- Entity decoding restricted to the five entities `html.escape` produces (stand-in for the
    browser's attribute-value decoding); `skip` characters are dropped first. -/
def unescGo : Nat → Bytes → Bytes
  | _, [] => []
  | k + 1, _ :: rest => unescGo k rest
  | 0, c :: rest =>
    if c = 38 then
      match entityAt rest with
      | some (ch, k) => ch :: unescGo k rest
      | none => c :: unescGo 0 rest
    else c :: unescGo 0 rest

def htmlUnescape (s : Bytes) : Bytes := unescGo 0 s

/-- Every `&` starts one of the five entities (so that decoding is unambiguous). -/
def ampOk : Bytes → Bool
  | [] => true
  | c :: rest => (c != 38 || (entityAt rest).isSome) && ampOk rest

/-- Escaped data: none of `< > " '` and `&` only as the start of an entity. -/
def inertEscaped (s : Bytes) : Bool :=
  s.all (fun c => c != 60 && c != 62 && c != 34 && c != 39) && ampOk s

/-! ### `urllib.parse.quote_plus(s, safe='')` / `unquote_plus` -/

/-- `_ALWAYS_SAFE`: letters, digits, `_ . - ~`. -/
def isUnreserved (c : Nat) : Bool :=
  (65 ≤ c && c ≤ 90) || (97 ≤ c && c ≤ 122) || (48 ≤ c && c ≤ 57) || c == 95 || c == 46 || c == 45 || c == 126

/-- Upper-case hexadecimal digit. -/
def hexDigit (n : Nat) : Nat := if n < 10 then 48 + n else 55 + n

def hexVal (c : Nat) : Option Nat :=
  if 48 ≤ c ∧ c ≤ 57 then some (c - 48)
  else if 65 ≤ c ∧ c ≤ 70 then some (c - 55)
  else if 97 ≤ c ∧ c ≤ 102 then some (c - 87)
  else none

def quoteByte (c : Nat) : Bytes :=
  if isUnreserved c then [c] else if c = 32 then [43] else [37, hexDigit (c / 16), hexDigit (c % 16)]

/-- `quote_plus(s, safe='')` on the UTF-8 bytes of `s`. -/
def quotePlus (s : Bytes) : Bytes := s.flatMap quoteByte

/-- `unquote_to_bytes`: `%XY` with two hexadecimal digits (either case) becomes a byte, any other
    `%` stays. -/
def unqGo : Nat → Bytes → Bytes
  | _, [] => []
  | k + 1, _ :: rest => unqGo k rest
  | 0, c :: rest =>
    if c = 37 then
      match rest with
      | h :: l :: _ =>
        match hexVal h, hexVal l with
        | some a, some b => (a * 16 + b) :: unqGo 2 rest
        | _, _ => c :: unqGo 0 rest
      | _ => c :: unqGo 0 rest
    else c :: unqGo 0 rest

def unquote (s : Bytes) : Bytes := unqGo 0 s

/-- `unquote_plus` as used by `parse_qsl`: `+` becomes a space first. -/
def unquotePlus (s : Bytes) : Bytes := unquote (s.map (fun c => if c = 43 then 32 else c))

/-! ### `urlencode` / `parse_qsl` / `parse_qs` -/

/-- `sep.join(parts)`. -/
def joinWith (sep : Nat) : List Bytes → Bytes
  | [] => []
  | [p] => p
  | p :: q :: rest => p ++ sep :: joinWith sep (q :: rest)

def encodePair (kv : Bytes × Bytes) : Bytes := quotePlus kv.1 ++ 61 :: quotePlus kv.2

/-- `urlencode(dict)` for string keys and values (insertion order). -/
def urlencode (ps : List (Bytes × Bytes)) : Bytes := joinWith 38 (ps.map encodePair)

/-- `s.split(chr(sep))`: always at least one part.  Returns the first part and the others. -/
def splitOn (sep : Nat) : Bytes → Bytes × List Bytes
  | [] => ([], [])
  | c :: rest =>
    let r := splitOn sep rest
    if c = sep then ([], r.1 :: r.2) else (c :: r.1, r.2)

def split (sep : Nat) (s : Bytes) : List Bytes := (splitOn sep s).1 :: (splitOn sep s).2

/-- `s.split(chr(sep), 1)` when the separator occurs: text before and after its first occurrence. -/
def splitFirst (sep : Nat) : Bytes → Option (Bytes × Bytes)
  | [] => none
  | c :: rest => if c = sep then some ([], rest) else (splitFirst sep rest).map (fun p => (c :: p.1, p.2))

/-- One `name=value` field of `parse_qsl` with the default `keep_blank_values=False`,
    `strict_parsing=False`: fields without `=` and fields with an empty value are dropped. -/
def parseField (nv : Bytes) : Option (Bytes × Bytes) :=
  match splitFirst 61 nv with
  | none => none
  | some (n, v) => if v = [] then none else some (unquotePlus n, unquotePlus v)

/-- `urllib.parse.parse_qsl(qs)`. -/
def parseQsl (qs : Bytes) : List (Bytes × Bytes) := (split 38 qs).filterMap parseField

/-- Insert into the `parse_qs` dictionary (insertion-ordered). -/
def qsInsert (k v : Bytes) : List (Bytes × List Bytes) → List (Bytes × List Bytes)
  | [] => [(k, [v])]
  | (k', vs) :: rest => if k' = k then (k', vs ++ [v]) :: rest else (k', vs) :: qsInsert k v rest

/-- `urllib.parse.parse_qs(qs)` as an association list in dictionary order. -/
def parseQs (qs : Bytes) : List (Bytes × List Bytes) :=
  (parseQsl qs).foldl (fun d kv => qsInsert kv.1 kv.2 d) []

/-- Dictionary lookup `d[k][0]`. -/
def qsFirst (d : List (Bytes × Bytes)) (k : Bytes) : Option Bytes := (d.find? (fun kv => kv.1 = k)).map (·.2)

/-! ### URL pieces as the receiving web server sees them -/

/-- The query component of a URL: what stands between the first `?` and the first `#`. -/
def queryOf (u : Bytes) : Bytes := ((u.takeWhile (· != 35)).dropWhile (· != 63)).drop 1

/-- Truthiness of `urlparse(location).query`: `urlsplit` removes TAB, CR and LF before splitting. -/
def locQueryTruthy (loc : Bytes) : Bool :=
  !(queryOf (loc.filter (fun c => c != 9 && c != 10 && c != 13))).isEmpty

end Codec
