/-
  C18 — name identifiers: `saml2.ident` (`code`/`decode`, `IdentDB`), `saml2.eptid.Eptid`,
  and the two places that use `code()` as a storage key (`saml2.sdb.SessionStorage`,
  `Server.clean_out_user`).

  Strings are UTF-8 byte strings (`List UInt8`).  Python `None` vs `""` is kept apart
  (`Option Str`), because the code distinguishes them in `==` tests but not in truth tests.
  Python raising = `Res.refused e`; nothing is defaulted.
-/
namespace Ident

abbrev Str := List UInt8

/-! ### Python `str.split(sep)` / `sep.join(list)` for a one-byte separator -/

/-- `s.split(sep)`: never empty (`"".split(" ") == [""]`). -/
def splitOn (sep : UInt8) : Str → List Str
  | [] => [[]]
  | c :: cs =>
    if c = sep then [] :: splitOn sep cs
    else match splitOn sep cs with
      | [] => [[c]]                     -- unreachable (`splitOn_ne_nil`)
      | p :: ps => (c :: p) :: ps

/-- `sep.join(l)`. -/
def joinWith (sep : UInt8) : List Str → Str
  | [] => []
  | [p] => p
  | p :: q :: r => p ++ sep :: joinWith sep (q :: r)

/-! ### `urllib.parse.quote` (default `safe="/"`) and `unquote`, on bytes -/

def isSafe (b : UInt8) : Bool :=
  (65 ≤ b && b ≤ 90) || (97 ≤ b && b ≤ 122) || (48 ≤ b && b ≤ 57) ||
  b = 95 || b = 46 || b = 45 || b = 126 || b = 47          -- A-Z a-z 0-9 _ . - ~ /

/-- upper-case hex digit of `d < 16`. -/
def hexDigit (d : Nat) : UInt8 := if d < 10 then UInt8.ofNat (48 + d) else UInt8.ofNat (55 + d)

def hexVal (c : UInt8) : Option Nat :=
  if 48 ≤ c && c ≤ 57 then some (c.toNat - 48)
  else if 65 ≤ c && c ≤ 70 then some (c.toNat - 55)
  else if 97 ≤ c && c ≤ 102 then some (c.toNat - 87)
  else none

def quoteByte (b : UInt8) : Str :=
  if isSafe b then [b] else [37, hexDigit (b.toNat / 16), hexDigit (b.toNat % 16)]

def quote : Str → Str
  | [] => []
  | b :: bs => quoteByte b ++ quote bs

/-- `unquote_to_bytes`: `%XX` with two hex digits is one byte, any other `%` is literal. -/
def unquote : Str → Str
  | [] => []
  | c :: a :: b :: r =>
    if c = 37 then
      match hexVal a, hexVal b with
      | some x, some y => UInt8.ofNat (16 * x + y) :: unquote r
      | _, _ => c :: unquote (a :: b :: r)
    else c :: unquote (a :: b :: r)
  | c :: rest => c :: unquote rest       -- fewer than two bytes follow: a `%` here is literal

/-! ### `code` / `decode` -/

/-- The five attributes of `ATTR`, in that order. -/
structure NameId where
  nq : Option Str := none        -- name_qualifier
  spq : Option Str := none       -- sp_name_qualifier
  fmt : Option Str := none       -- format
  spid : Option Str := none      -- sp_provided_id
  text : Option Str := none
deriving DecidableEq, Repr

/-- Python truth value of `None` / a string. -/
def truthy : Option Str → Bool
  | some (_ :: _) => true
  | _ => false

/-- empty ≡ absent -/
def normF (o : Option Str) : Option Str := if truthy o then o else none

def NameId.norm (n : NameId) : NameId :=
  { nq := normF n.nq, spq := normF n.spq, fmt := normF n.fmt, spid := normF n.spid, text := normF n.text }

/-- `f"{int(i)}={quote(val)}"` for a truthy value, nothing otherwise (`i < 5`: one digit). -/
def field (i : Nat) (o : Option Str) : List Str :=
  if truthy o then [UInt8.ofNat (48 + i) :: 61 :: quote (o.getD [])] else []

def codeParts (n : NameId) : List Str :=
  field 0 n.nq ++ field 1 n.spq ++ field 2 n.fmt ++ field 3 n.spid ++ field 4 n.text

def code (n : NameId) : Str := joinWith 44 (codeParts n)

inductive Err where
  | keyError | valueError | samlError | unknown | policyError
  | exhausted      -- the recorded candidate stream ran out (cannot happen with the real `create_id` loop)
  | outOfModel     -- the code would go on with a `None` key; not reachable through the operations
deriving DecidableEq, Repr

/-- `int(i)` for the index field, restricted to plain ASCII digit strings; everything else is
    treated as `ValueError` (caught by the `try` in `decode`). -/
def parseIdx (s : Str) : Option Nat :=
  if s.isEmpty then none
  else if s.all (fun c => 48 ≤ c && c ≤ 57) then some (s.foldl (fun a c => 10 * a + (c.toNat - 48)) 0)
  else none

/-- `setattr(_nid, ATTR[i], v)`; `i ≥ 5` is the caught `IndexError`. -/
def setField (n : NameId) (i : Nat) (v : Str) : NameId :=
  match i with
  | 0 => { n with nq := some v }
  | 1 => { n with spq := some v }
  | 2 => { n with fmt := some v }
  | 3 => { n with spid := some v }
  | 4 => { n with text := some v }
  | _ => n

def decodePart (n : NameId) (part : Str) : Except Err NameId :=
  if part.contains 61 then
    match splitOn 61 part with
    | [i, v] =>
      match parseIdx i with
      | some k => .ok (setField n k (unquote v))
      | none => .ok n
    | _ => .error .valueError          -- `i, val = part.split("=")` with more than one "="
  else .ok n

def decodeParts (n : NameId) : List Str → Except Err NameId
  | [] => .ok n
  | p :: ps => match decodePart n p with
    | .ok n' => decodeParts n' ps
    | .error e => .error e

def decode (txt : Str) : Except Err NameId := decodeParts {} (splitOn 44 txt)

/-! ### the store: one `dict`, both key kinds -/

abbrev DB := List (Str × Str)

def DB.get (db : DB) (k : Str) : Option Str := List.lookup k db
def DB.del (db : DB) (k : Str) : DB := db.filter (fun e => e.1 ≠ k)
def DB.set (db : DB) (k v : Str) : DB := (k, v) :: db.del k
def DB.has (db : DB) (k : Str) : Bool := (db.get k).isSome

/-- format constants of `saml2.saml`, supplied by the harness from the running code -/
structure Consts where
  persistent : Str
  transient : Str
  email : Str
deriving Repr

/-- `IdentDB.__init__` arguments -/
structure Cfg where
  domain : Str := []
  nameQualifier : Str := []
deriving Repr

/-- `self.db[ident].split(" ")`, `None` for `KeyError`. -/
def pieces (db : DB) (ident : Str) : Option (List Str) := (db.get ident).map (splitOn 32)

/-- `IdentDB.store`. -/
def store (db : DB) (ident : Str) (n : NameId) : Except Err DB :=
  let val := (pieces db ident).getD []
  let db1 := db.set ident (joinWith 32 (val ++ [code n]))
  match n.text with
  | some t => .ok (db1.set t ident)
  | none => .error .outOfModel

/-- `IdentDB.remove_remote`. -/
def removeRemote (db : DB) (n : NameId) : Except Err DB :=
  match n.text with
  | none => .error .keyError
  | some t =>
    match db.get t with
    | none => .error .keyError                          -- `self.db[name_id.text]`
    | some id =>
      match pieces db id with
      | none => .ok (db.del t)                          -- `except KeyError: pass`
      | some vals =>
        if code n ∈ vals then .ok ((db.set id (joinWith 32 (vals.erase (code n)))).del t)
        else .error .valueError                         -- `vals.remove(_cn)` not caught

/-- The qualifier tests of `match_local_id` for one decoded entry. -/
def qualMatch (nid : NameId) (spq nq : Option Str) : Bool :=
  let nqOk := (truthy nid.nq && nid.nq == nq) || (!truthy nid.nq && !truthy nq)
  if truthy nid.spq && nid.spq == spq then nqOk
  else if !truthy nid.spq && !truthy spq then nqOk
  else false

/-- the loop of `match_local_id` over the split value (decode errors surface when reached) -/
def matchLoop (K : Consts) (spq nq : Option Str) : List Str → Except Err (Option NameId)
  | [] => .ok none
  | v :: vs =>
    match decode v with
    | .error e => .error e
    | .ok nid =>
      if nid.fmt ≠ some K.persistent then matchLoop K spq nq vs      -- only persistent identifiers (fix cd87445c)
      else if qualMatch nid spq nq then .ok (some nid)
      else matchLoop K spq nq vs

def matchLocalId (K : Consts) (db : DB) (u : Str) (spq nq : Option Str) : Except Err (Option NameId) :=
  match pieces db u with
  | none => .ok none
  | some vals => matchLoop K spq nq vals

/-- `create_id`: first candidate of the recorded `_create_id` outputs that is not a key. -/
def createId (db : DB) : List Str → Except Err Str
  | [] => .error .exhausted
  | c :: cs => if db.has c then createId db cs else .ok c

/-- the second half of `get_nameid`: draw an id, build the NameID, store it -/
def createAndStore (K : Consts) (cfg : Cfg) (db : DB) (u fmt : Str) (spq nq : Option Str) (cands : List Str) :
    Except Err (NameId × DB) :=
  match createId db cands with                         -- drawn before the e-mail domain test
  | .error e => .error e
  | .ok id0 =>
    if fmt = K.email ∧ cfg.domain.isEmpty = true then .error .samlError
    else
      let id := if fmt = K.email then id0 ++ 64 :: cfg.domain else id0
      let nid : NameId := { fmt := some fmt, spq := spq, nq := nq, text := some id }
      match store db u nid with
      | .error e => .error e
      | .ok db' => .ok (nid, db')

/-- `IdentDB.get_nameid`. -/
def getNameid (K : Consts) (cfg : Cfg) (db : DB) (u fmt : Str) (spq nq : Option Str) (cands : List Str) :
    Except Err (NameId × DB) :=
  match (if fmt = K.persistent then matchLocalId K db u spq nq else .ok none) with
  | .error e => .error e
  | .ok (some nid) => .ok (nid, db)
  | .ok none => createAndStore K cfg db u fmt spq nq cands

def persistentNameid (K : Consts) (cfg : Cfg) (db : DB) (u : Str) (spq nq : Option Str) (cands : List Str) :
    Except Err (NameId × DB) :=
  match matchLocalId K db u spq nq with
  | .error e => .error e
  | .ok (some nid) => .ok (nid, db)
  | .ok none => getNameid K cfg db u K.persistent spq nq cands

/-- `samlp.NameIDPolicy` as far as it is read here -/
structure Policy where
  fmt : Option Str := none
  spq : Option Str := none
  allowCreate : Option Str := none
deriving DecidableEq, Repr

/-- requester and format `nim_args` ends up with -/
def constructSpq (spq : Option Str) (pol : Option Policy) : Option Str :=
  match pol with
  | some p => if truthy p.spq then p.spq else spq
  | none => spq
def constructFmt (localFmt : Option Str) (pol : Option Policy) : Option Str :=
  match pol with
  | some p => if truthy p.fmt then p.fmt else localFmt
  | none => localFmt

/-- `construct_nameid` (with `nim_args`).  `localFmt` = what `local_policy.get_nameid_format`
    answers, `none` = no local policy. -/
def constructNameid (K : Consts) (cfg : Cfg) (db : DB) (u : Str) (localFmt : Option Str) (spq : Option Str)
    (pol : Option Policy) (nq : Option Str) (cands : List Str) : Except Err (NameId × DB) :=
  match constructFmt localFmt pol with
  | none => .error .samlError                      -- "Unknown NameID format"
  | some fmt =>
    getNameid K cfg db u fmt (constructSpq spq pol) (if truthy nq then nq else some cfg.nameQualifier) cands

/-- `find_nameid(userid, **kwargs)`; a filter entry is (index into ATTR, wanted value). -/
def getField (n : NameId) : Nat → Option Str
  | 0 => n.nq | 1 => n.spq | 2 => n.fmt | 3 => n.spid | 4 => n.text | _ => none

def decodeAll : List Str → Except Err (List NameId)
  | [] => .ok []
  | v :: vs => match decode v with
    | .error e => .error e
    | .ok n => match decodeAll vs with
      | .error e => .error e
      | .ok ns => .ok (n :: ns)

def findNameid (db : DB) (u : Str) (flt : List (Nat × Option Str)) : Except Err (List NameId) :=
  match pieces db u with
  | none => .ok []
  | some vals => (decodeAll vals).map (fun ns => ns.filter (fun n => flt.all (fun kv => getField n kv.1 == kv.2)))

def findLocalId (db : DB) (n : NameId) : Option Str := n.text.bind db.get

def mapLoop (pol : Policy) : List Str → Except Err (Option NameId)
  | [] => .ok none
  | v :: vs => match decode v with
    | .error e => .error e
    | .ok nid => if nid.fmt == pol.fmt && nid.spq == pol.spq then .ok (some nid) else mapLoop pol vs

/-- `handle_name_id_mapping_request`. -/
def mappingRequest (K : Consts) (cfg : Cfg) (db : DB) (n : NameId) (pol : Policy) (cands : List Str) :
    Except Err (NameId × DB) :=
  match findLocalId db n with
  | none => .error .unknown
  | some [] => .error .unknown                     -- `if not _id`
  | some id =>
    match pieces db id with
    | none => .error .keyError
    | some vals =>
      match mapLoop pol vals with
      | .error e => .error e
      | .ok (some nid) => .ok (nid, db)
      | .ok none =>
        if pol.allowCreate = some [102, 97, 108, 115, 101] then .error .policyError   -- "false"
        else constructNameid K cfg db id none none (some pol) none cands

inductive Manage where
  | newId (text : Option Str)     -- `new_id` given (a NewID instance), with its text
  | newEncrypted                  -- `new_encrypted_id` truthy: "TODO / pass", then remove + store
  | terminate
  | noop
deriving DecidableEq, Repr

/-- the change a ManageNameID request makes to the presented NameID (it concerns SPProvidedID only) -/
def Manage.apply (m : Manage) (n : NameId) : NameId :=
  match m with
  | .newId t => { n with spid := t }
  | .newEncrypted => n
  | .terminate => { n with spid := none }
  | .noop => n

/-- `handle_manage_name_id_request`. -/
def manageRequest (db : DB) (n : NameId) (m : Manage) : Except Err (NameId × DB) :=
  if m = .noop then .ok (n, db)
  else
    match findLocalId db n with
    | none => .error .keyError                     -- raised by `remove_remote`'s `self.db[name_id.text]`
    | some id =>
      match removeRemote db n with
      | .error e => .error e
      | .ok db1 => (store db1 id (m.apply n)).map (fun db2 => (m.apply n, db2))

/-! ### `SessionStorage.authn` keyed by `sha1(code(name_id))` (the digest is taken as injective:
    the model keys by the code itself) and `Server.clean_out_user` -/

abbrev Sdb := List (Str × Nat)         -- code ↦ number of stored statement lists entries

def Sdb.count (s : Sdb) (k : Str) : Option Nat := List.lookup k s
def Sdb.add (s : Sdb) (k : Str) : Sdb :=
  match s.count k with
  | some c => (k, c + 1) :: s.filter (fun e => e.1 ≠ k)
  | none => (k, 1) :: s
def Sdb.remove (s : Sdb) (k : Str) : Sdb := s.filter (fun e => e.1 ≠ k)   -- KeyError is caught by the caller

/-- `clean_out_user`: returns the local id; removes the statements of every identifier of that user. -/
def cleanOut (db : DB) (s : Sdb) (n : NameId) : Except Err (Option Str × Sdb) :=
  let lid := findLocalId db n
  match lid.bind (pieces db) with
  | none => .ok (lid, s)                            -- `self.ident.db[lid]` KeyError caught
  | some vals =>
    match decodeAll vals with
    | .error e => .error e
    | .ok ns => .ok (lid, ns.foldl (fun s n => s.remove (code n)) s)

/-! ### histories -/

inductive Op where
  | persistent (u : Str) (spq nq : Option Str) (cands : List Str)
  | transient (u : Str) (spq nq : Option Str) (cands : List Str)
  | getNameid (u fmt : Str) (spq nq : Option Str) (cands : List Str)
  | construct (u : Str) (localFmt spq : Option Str) (pol : Option Policy) (nq : Option Str) (cands : List Str)
  | findNameid (u : Str) (flt : List (Nat × Option Str))
  | findLocalId (n : NameId)
  | mapping (n : NameId) (pol : Policy) (cands : List Str)
  | manage (n : NameId) (m : Manage)
  | removeRemote (n : NameId)
  | removeLocal (u : Str)
  | storeAuthn (n : NameId)
  | authnCount (n : NameId)
  | cleanOut (n : NameId)
deriving Repr

inductive Res where
  | nid (n : NameId)
  | nids (l : List NameId)
  | user (u : Option Str)
  | count (c : Nat)
  | done
  | refused (e : Err)
deriving DecidableEq, Repr

structure State where
  db : DB := []
  sdb : Sdb := []
deriving Repr

def liftNid (st : State) : Except Err (NameId × DB) → Res × State
  | .ok (n, db') => (.nid n, { st with db := db' })
  | .error e => (.refused e, st)

def step (K : Consts) (cfg : Cfg) (st : State) : Op → Res × State
  | .persistent u spq nq cands => liftNid st (persistentNameid K cfg st.db u spq nq cands)
  | .transient u spq nq cands => liftNid st (getNameid K cfg st.db u K.transient spq nq cands)
  | .getNameid u fmt spq nq cands => liftNid st (getNameid K cfg st.db u fmt spq nq cands)
  | .construct u lf spq pol nq cands => liftNid st (constructNameid K cfg st.db u lf spq pol nq cands)
  | .findNameid u flt =>
    match findNameid st.db u flt with
    | .ok l => (.nids l, st)
    | .error e => (.refused e, st)
  | .findLocalId n => (.user (findLocalId st.db n), st)
  | .mapping n pol cands => liftNid st (mappingRequest K cfg st.db n pol cands)
  | .manage n m => liftNid st (manageRequest st.db n m)
  | .removeRemote n =>
    match removeRemote st.db n with
    | .ok db' => (.done, { st with db := db' })
    | .error e => (.refused e, st)
  | .removeLocal _ => (.done, st)       -- `self.db[sid.encode()]`: a bytes key is never present in a str-keyed dict
  | .storeAuthn n => (.done, { st with sdb := st.sdb.add (code n) })
  | .authnCount n => (.count ((st.sdb.count (code n)).getD 0), st)
  | .cleanOut n =>
    match cleanOut st.db st.sdb n with
    | .ok (lid, s') => (.user lid, { st with sdb := s' })
    | .error e => (.refused e, st)

/-- Run a history from a state: (operation, result, state after it) for every step. -/
def trace (K : Consts) (cfg : Cfg) : State → List Op → List (Op × Res × State)
  | _, [] => []
  | st, op :: ops => (op, (step K cfg st op).1, (step K cfg st op).2) :: trace K cfg (step K cfg st op).2 ops

def endState (K : Consts) (cfg : Cfg) : State → List Op → State
  | st, [] => st
  | st, op :: ops => endState K cfg (step K cfg st op).2 ops

/-! ### `Eptid` -/

/-- `Eptid.make`: `"!".join([idp, sp, md5(args… + sp + secret).hexdigest()])`; the digest is a parameter. -/
def eptidMake (hash : Str → Str) (secret idp sp : Str) (args : List Str) : Str :=
  idp ++ 33 :: (sp ++ 33 :: hash (args.flatten ++ sp ++ secret))

/-- the cache key `"__".join([sp, args[0]])` -/
def eptidKey (sp user : Str) : Str := sp ++ 95 :: 95 :: user

/-- `Eptid.get(idp, sp, *args)`; `args = []` is the `IndexError`. -/
def eptidGet (hash : Str → Str) (secret : Str) (cache : DB) (idp sp : Str) (args : List Str) :
    Except Err (Str × DB) :=
  match args with
  | [] => .error .keyError
  | user :: _ =>
    match cache.get (eptidKey sp user) with
    | some v => .ok (v, cache)
    | none =>
      let v := eptidMake hash secret idp sp args
      .ok (v, cache.set (eptidKey sp user) v)

/-- a history of `get(idp, sp, user)` calls on one instance -/
def eptidRun (hash : Str → Str) (secret idp : Str) : DB → List (Str × Str) → List Str × DB
  | cache, [] => ([], cache)
  | cache, (sp, user) :: rest =>
    match eptidGet hash secret cache idp sp [user] with
    | .ok (v, cache') =>
      let (vs, c2) := eptidRun hash secret idp cache' rest
      (v :: vs, c2)
    | .error _ => ([], cache)          -- not reachable: `args` is non-empty

end Ident
