/-
  The second public entry point to the response checks: `saml2.response.authn_response(conf, return_addrs,
  outstanding_queries, timeslack, asynchop, allow_unsolicited, want_assertions_signed, conv_info)` followed by
  `loads()` and `verify()` (what `ecp.handle_ecp_authn_response` and callers that drive the object themselves
  do).  Differences from `Saml2Client.parse_authn_request_response` (`Sp.process`):
    * one `loads()` and one `verify()`: no forced first pass, no retry;
    * `want_response_signed` and `want_assertions_or_response_signed` are not parameters of the factory: they keep
      the constructor defaults (false); a Response signature that is present is still verified;
    * `want_assertions_signed` is `require_signature` for the single `verify()`;
    * nothing is written to an identity cache.
  Checked against the real code by the `factory` streams of C01/C04/C06.
-/
import PysamlModel.Model.Sp

namespace Sp

/-- `authn_response(...)`, then `loads(xml)`, then `verify()`. -/
def processFactory (cfg : Cfg) (env : Env) (r : Response) : Outcome :=
  match loads cfg env false r with
  | .error e => .rejected e
  | .ok cf =>
    match verify cfg env cfg.wantAssert { cameFrom := cf } r with
    | .error e => .rejected e
    | .ok none => .noIdentity
    | .ok (some p) =>
      match p.used with
      | [] => .noIdentity
      | a :: _ =>
        match a.authn with
        | s :: _ =>
          .identity {
            nameId := p.st.nameId
            issuer := pyStrip (r.issuer.getD "")
            cameFrom := p.st.cameFrom
            notOnOrAfter := if p.st.sessionNooa > 0 then p.st.sessionNooa else p.st.notOnOrAfter
            sessionIndex := s.sessionIndex
            cached := false }
        | [] => .noIdentity

/-! ### the third public entry point: `saml2.response.response_factory(...)` followed by `verify()`

  `response_factory` (after fix f342ca56) loads the message twice: first into a bare `StatusResponse` (Response
  signature verified when present, never demanded), then, when the message carries an assertion, into the
  `AuthnResponse` it builds, with `AuthnResponse.loads` — the same load-time correlation with the caller's outstanding
  requests as `authn_response()` + `loads()`.  A signature failure in either load refuses the message.  What is
  specific to this entry point: the configuration's `extension_schema` IS handed to the constructor (the only entry
  point that does; the other two apply `Sp.noExt`).  Before the fix the second load was an `update()` and the
  correlation was skipped (regression case corpus/C06/respfactory_uncorrelated.json). -/

/-- `StatusResponse.loads` as `response_factory` runs it (`must = False`, `require_response_signature = False`). -/
def loadsStatus (r : Response) : Except Err Unit :=
  if r.sig.present && r.sig != .valid then .error .sigBadResponse else .ok ()

/-- `response_factory(...)` (a Response with at least one assertion), then `verify()`: the first load, then exactly
    what `authn_response()` + `loads()` + `verify()` does. -/
def processRespFactory (cfg : Cfg) (env : Env) (r : Response) : Outcome :=
  match loadsStatus r with
  | .error e => .rejected e
  | .ok _ => processFactory cfg env r

end Sp
