/-
  C17 — attribute converters: `saml2.attribute_converter` (`AttributeConverter.from_dict` / `adjust`,
  `to_`, `to_eptid_value`, `ava_from`, `lcd_ava_from`, `ac_factory`, `from_local`, `list_to_local`)
  and `saml2.s_utils.do_ava`.

  Strings are an arbitrary type `α` with decidable equality; the string operations the code uses
  (`str.lower`, `str.strip`, truthiness, a few literals, `str(int)`, the xs:boolean text) are the
  fields of `StrOps α`.  No law about them is assumed anywhere.  The driver and the table lemmas both
  instantiate `α := Nat` (one sentinel-prefixed base-256 code per string, `Model/AttrCode.lean`).

  Python dictionaries are insertion-ordered association lists with unique keys (`Dict`): storing
  under an existing key replaces the value in place, a new key is appended.
-/
namespace AttrConv

structure StrOps (α : Type) where
  lower : α → α                 -- str.lower()
  strip : α → α                 -- str.strip()
  truthy : α → Bool             -- bool(s): s != ""
  empty : α                     -- ""
  unspecified : α               -- saml.NAME_FORMAT_UNSPECIFIED
  defaultFormat : α             -- saml.NAME_FORMAT_URI: `saml.Attribute()`'s default NameFormat
  eptidOid : α                  -- the literal tested in `to_`
  eptidLocal : α                -- the literal tested in `ava_from`
  persistent : α                -- saml.NAMEID_FORMAT_PERSISTENT
  ofBool : Bool → α             -- "true" / "false"
  ofInt : Int → α               -- str(int)

abbrev Dict (α β : Type) := List (α × β)

namespace Dict
variable {α β : Type} [DecidableEq α]

def get : Dict α β → α → Option β
  | [], _ => none
  | (a, b) :: t, k => if a = k then some b else get t k

def set : Dict α β → α → β → Dict α β
  | [], k, v => [(k, v)]
  | (a, b) :: t, k, v => if a = k then (a, v) :: t else (a, b) :: set t k v

/-- `dict(pairs)` / a dict comprehension over `pairs`. -/
def ofList (l : List (α × β)) : Dict α β := l.foldl (fun d p => set d p.1 p.2) []

/-- `try: d[k].extend(v)  except KeyError: d[k] = v`. -/
def extend (d : Dict α (List β)) (k : α) (v : List β) : Dict α (List β) :=
  match get d k with
  | some old => set d k (old ++ v)
  | none => set d k v

end Dict

/-- An attribute-map dictionary as found in a map module (`{"identifier":…, "fro":…, "to":…}`);
    `fro`/`to` are the items of the Python dicts in their order. -/
structure MapDict (α : Type) where
  identifier : α
  fro : Option (List (α × α)) := none
  to : Option (List (α × α)) := none
deriving Repr, DecidableEq

/-- An `AttributeConverter` after `from_dict`. -/
structure Conv (α : Type) where
  nameFormat : α
  to : Dict α α
  fro : Dict α α
deriving Repr, DecidableEq

variable {α : Type} [DecidableEq α]

/-- `{k.lower(): v for k, v in d.items()}`. -/
def lowerKeys (ops : StrOps α) (l : List (α × α)) : Dict α α :=
  Dict.ofList (l.map fun p => (ops.lower p.1, p.2))

/-- `adjust`: `{value.lower(): key for key, value in d.items()}` over the already lower-keyed dict. -/
def mirror (ops : StrOps α) (d : Dict α α) : Dict α α :=
  Dict.ofList (d.map fun p => (ops.lower p.2, p.1))

/-- `AttributeConverter.from_dict`; `none` = `ConverterError("Missing specifications")`. -/
def fromDict (ops : StrOps α) (m : MapDict α) : Option (Conv α) :=
  match m.fro, m.to with
  | none, none => none
  | some f, none => let f' := lowerKeys ops f; some ⟨m.identifier, mirror ops f', f'⟩
  | none, some t => let t' := lowerKeys ops t; some ⟨m.identifier, t', mirror ops t'⟩
  | some f, some t => some ⟨m.identifier, lowerKeys ops t, lowerKeys ops f⟩

/-- `_find_maps_in_module`: only dictionaries with a "to" or a "fro" are attribute maps. -/
def isMap (m : MapDict α) : Bool := m.fro.isSome || m.to.isSome

/-- `ac_factory`: the maps found, in order, each through `from_dict`. -/
def acFactory (ops : StrOps α) (ms : List (MapDict α)) : List (Conv α) :=
  (ms.filter isMap).filterMap (fromDict ops)

/-- `AttributeConverter(id).from_dict(m)` for every `m`; `none` = a `ConverterError` was raised. -/
def convsFromDicts (ops : StrOps α) : List (MapDict α) → Option (List (Conv α))
  | [] => some []
  | m :: t =>
    match fromDict ops m with
    | none => none
    | some c => match convsFromDicts ops t with
      | none => none
      | some cs => some (c :: cs)

/-! ### values -/

/-- A value as the caller hands it over. -/
inductive LVal (α : Type) where
  | str (s : α)
  | bool (b : Bool)
  | int (i : Int)
  | none
deriving Repr, DecidableEq

/-- The value of one identity entry: a list, or a bare scalar. -/
inductive LVals (α : Type) where
  | list (vs : List (LVal α))
  | bare (v : LVal α)
deriving Repr, DecidableEq

/-- A `saml:NameID` extension element inside an `AttributeValue`; `text` is whatever Python object
    was stored (`to_eptid_value` stores the caller's value unconverted). -/
structure NameIdExt (α : Type) where
  format : Option α := none
  nameQualifier : Option α := none
  spNameQualifier : Option α := none
  spProvidedId : Option α := none
  text : LVal α := .none
deriving Repr, DecidableEq

structure WireValue (α : Type) where
  text : Option α := none
  ext : List (NameIdExt α) := []
deriving Repr, DecidableEq

structure WireAttr (α : Type) where
  name : Option α
  nameFormat : Option α := none
  friendlyName : Option α := none
  values : Option (List (WireValue α)) := some []     -- `none`: attribute_value is None
deriving Repr, DecidableEq

inductive Res (β : Type) where
  | ok (b : β)
  | raised
deriving Repr, DecidableEq

/-- `do_ava(v)[0]` for a scalar `v`. -/
def doAva1 (ops : StrOps α) : LVal α → Res (WireValue α)
  | .str s => .ok { text := some s }
  | .bool b => .ok { text := some (ops.ofBool b) }       -- True is truthy; `val is False`
  | .int i => if i = 0 then .raised else .ok { text := some (ops.ofInt i) }   -- 0: OtherError
  | .none => .raised                                       -- do_ava(None) is None; None[0]

def doAvaList (ops : StrOps α) : List (LVal α) → Res (List (WireValue α))
  | [] => .ok []
  | v :: t =>
    match doAva1 ops v with
    | .raised => .raised
    | .ok w => match doAvaList ops t with
      | .raised => .raised
      | .ok ws => .ok (w :: ws)

/-- `do_ava(val)`; `ok none` = the function returned `None`. -/
def doAva (ops : StrOps α) : LVals α → Res (Option (List (WireValue α)))
  | .list vs => match doAvaList ops vs with
    | .raised => .raised
    | .ok ws => .ok (some ws)
  | .bare .none => .ok none
  | .bare v => match doAva1 ops v with
    | .raised => .raised
    | .ok w => .ok (some [w])

/-- `saml.AttributeValue(extension_elements=[NameID])`: the text of a fresh AttributeValue is "". -/
def eptidValue (ops : StrOps α) (v : LVal α) : WireValue α :=
  { text := some ops.empty, ext := [{ format := some ops.persistent, text := v }] }

/-- `to_eptid_value` (string / scalar items; dictionary items are not modelled). -/
def eptidValues (ops : StrOps α) : LVals α → List (WireValue α)
  | .list vs => vs.map (eptidValue ops)
  | .bare v => [eptidValue ops v]

/-- One iteration of the loop of `AttributeConverter.to_`. -/
def toWire1 (ops : StrOps α) (c : Conv α) (e : α × LVals α) : Res (WireAttr α) :=
  match (Dict.get c.to (ops.lower e.1)).filter ops.truthy with
  | some name =>
    if name = ops.eptidOid then
      .ok ⟨some name, some c.nameFormat, some e.1, some (eptidValues ops e.2)⟩
    else match doAva ops e.2 with
      | .raised => .raised
      | .ok vs => .ok ⟨some name, some c.nameFormat, some e.1, vs⟩
  | none =>
    match doAva ops e.2 with
    | .raised => .raised
    | .ok vs => .ok ⟨some e.1, some ops.defaultFormat, none, vs⟩   -- saml.Attribute(name=key): default NameFormat

/-- `AttributeConverter.to_`. -/
def toWire (ops : StrOps α) (c : Conv α) : List (α × LVals α) → Res (List (WireAttr α))
  | [] => .ok []
  | e :: t =>
    match toWire1 ops c e with
    | .raised => .raised
    | .ok a => match toWire ops c t with
      | .raised => .raised
      | .ok as => .ok (a :: as)

/-- `from_local(acs, ava, name_format)`: the first converter with that name format; `none` = `None`. -/
def fromLocal (ops : StrOps α) (acs : List (Conv α)) (ava : List (α × LVals α)) (nf : α) :
    Option (Res (List (WireAttr α))) :=
  (acs.find? (fun c => c.nameFormat = nf)).map (fun c => toWire ops c ava)

/-! ### receipt -/

/-! ### the text of a received AttributeValue (`saml.AttributeValueBase.harvest_element_tree` / `set_text`) -/

/-- What `set_text` does with the text of a value whose xsi:type has a given local name. -/
inductive ConvKind where
  | preserve     -- string, anyURI, base64Binary, dateTime, anyType, every unknown / foreign type: the text as it is
  | int          -- integer, short, int, long:  str(int(text))
  | float        -- float, double:              str(float(text))
  | bool         -- boolean:                    {"true", "false"}[text.lower()]
  | date         -- date:                       str(strptime(text, "%Y-%m-%d").date())
deriving Repr, DecidableEq

/-- Reading an xsi:type value: `typeLocal` = the part after the first colon (the whole string without
    one — the PREFIX IS IGNORED by the code), `kind` = the conversion for that local name. -/
structure TypeOps (α : Type) where
  typeLocal : α → α
  kind : α → ConvKind

/-- Python's `int` / `float` / `strptime` applied to the text (`none`: they refuse it) — supplied per
    value by the harness, an external call. -/
structure Oracle (α : Type) where
  int : Option α := none
  float : Option α := none
  bool : Option α := none
  date : Option α := none
deriving Repr, DecidableEq

/-- The `.text` of a parsed AttributeValue element with character content `raw` and xsi:type `xsiType`.
    `raised`: "Type and value do not match" — parsing the message fails. -/
def parsedText (ops : StrOps α) (tops : TypeOps α) (xsiType raw : Option α) (o : Oracle α) : Res (Option α) :=
  match raw.filter ops.truthy with
  | none => .ok raw                                   -- `if text:` — set_text is not called
  | some r =>
    match xsiType.filter ops.truthy with
    | none => .ok (some r)                            -- untyped (or type=""): a string
    | some t =>
      let l := tops.typeLocal t
      if !ops.truthy l then .ok (some ops.empty)      -- "p:" selects the table entry "" : the text becomes ""
      else
        let conv : Option α → Res (Option α) := fun c => match c with
          | some x => .ok (some x)
          | none => .raised
        match tops.kind l with
        | .preserve => .ok (some r)
        | .int => conv o.int
        | .float => conv o.float
        | .bool => conv o.bool
        | .date => conv o.date

/-- An AttributeValue element as a peer writes it. -/
structure TypedValue (α : Type) where
  xsiType : Option α := none
  raw : Option α := none
  oracle : Oracle α := {}
  ext : List (NameIdExt α) := []
deriving Repr, DecidableEq

def parseValues (ops : StrOps α) (tops : TypeOps α) : List (TypedValue α) → Res (List (WireValue α))
  | [] => .ok []
  | v :: t =>
    match parsedText ops tops v.xsiType v.raw v.oracle with
    | .raised => .raised
    | .ok tx => match parseValues ops tops t with
      | .raised => .raised
      | .ok r => .ok ({ text := tx, ext := v.ext } :: r)

/-- What parsing does to an attribute that went over the wire as XML
    (`AttributeType_.harvest_element_tree`): a missing NameFormat reads as `unspecified`. -/
def parsed (ops : StrOps α) (a : WireAttr α) : WireAttr α :=
  { a with nameFormat := some (a.nameFormat.getD ops.unspecified) }

/-- A value as it appears in the local dictionary. -/
inductive RVal (α : Type) where
  | str (s : α)
  | nameId (format nameQualifier spNameQualifier spProvidedId value : Option α)   -- {"NameID": {...}}
deriving Repr, DecidableEq

/-- The text of an extension element after `to_string()` + parsing; a truthy non-string cannot be
    serialised (`TypeError`), a falsy one is left out. -/
def extText (ops : StrOps α) : LVal α → Res (Option α)
  | .str s => .ok (if ops.truthy s then some s else none)
  | .bool b => if b then .raised else .ok none
  | .int i => if i = 0 then .ok none else .raised
  | .none => .ok none

def extValue (ops : StrOps α) (lname : α) (ex : NameIdExt α) : Res (RVal α) :=
  match extText ops ex.text with
  | .raised => .raised
  | .ok t =>
    match (if lname = ops.eptidLocal then t else none) with
    | some s => .ok (.str (ops.strip s))
    | none => .ok (.nameId (ex.format.filter ops.truthy) (ex.nameQualifier.filter ops.truthy)
        (ex.spNameQualifier.filter ops.truthy) (ex.spProvidedId.filter ops.truthy) (t.map ops.strip))

def extValues (ops : StrOps α) (lname : α) : List (NameIdExt α) → Res (List (RVal α))
  | [] => .ok []
  | ex :: t =>
    match extValue ops lname ex with
    | .raised => .raised
    | .ok v => match extValues ops lname t with
      | .raised => .raised
      | .ok vs => .ok (v :: vs)

/-- The value loop of `ava_from`. -/
def valuesFrom (ops : StrOps α) (lname : α) : List (WireValue α) → Res (List (RVal α))
  | [] => .ok []
  | v :: t =>
    let here : Res (List (RVal α)) :=
      if v.ext.isEmpty then
        match v.text.filter ops.truthy with
        | some s => .ok [.str (ops.strip s)]
        | none => .ok [.str ops.empty]
      else extValues ops lname v.ext
    match here with
    | .raised => .raised
    | .ok h => match valuesFrom ops lname t with
      | .raised => .raised
      | .ok r => .ok (h ++ r)

inductive Step (β : Type) where
  | ok (b : β)
  | keyError
  | attrError
  | raised            -- anything `list_to_local` does not catch
deriving Repr, DecidableEq

/-- `AttributeConverter.ava_from(attribute)` (allow_unknown is never passed by `list_to_local`). -/
def avaFrom (ops : StrOps α) (c : Conv α) (a : WireAttr α) : Step (α × List (RVal α)) :=
  let lname : Step α :=
    match a.name with
    | some n => match Dict.get c.fro (ops.lower (ops.strip n)) with
      | some l => .ok l
      | none => .keyError
    | none => match a.friendlyName with          -- AttributeError on `None.strip()`
      | some f => .ok (ops.lower (ops.strip f))
      | none => .attrError
  match lname with
  | .ok l =>
    match a.values with
    | none => .raised                             -- iterating None
    | some vs => match valuesFrom ops l vs with
      | .raised => .raised
      | .ok r => .ok (l, r)
  | .keyError => .keyError
  | .attrError => .attrError
  | .raised => .raised

/-- `AttributeConverter.lcd_ava_from(attribute)`. -/
def lcdAvaFrom (ops : StrOps α) (a : WireAttr α) : Step (α × List (RVal α)) :=
  match a.name with
  | none => .attrError
  | some n =>
    match a.values with
    | none => .raised
    | some vs => .ok (ops.strip n, vs.map fun v => .str (ops.strip (v.text.getD ops.empty)))

/-- `acsd[name_format]` with `acsd = {a.name_format: a for a in acs}`: the LAST converter with
    that format. -/
def pickConv (acs : List (Conv α)) (nf : Option α) : Option (Conv α) :=
  match nf with
  | none => none
  | some f => acs.reverse.find? (fun c => c.nameFormat = f)

/-- What one wire attribute does to the result dictionary. -/
inductive Effect (α : Type) where
  | put (k : α) (vs : List (RVal α))
  | skip
  | raised
deriving Repr, DecidableEq

/-- One iteration of the loop of `list_to_local`. -/
def localStep (ops : StrOps α) (acs : List (Conv α)) (allow : Bool) (a : WireAttr α) : Effect α :=
  if acs.isEmpty then
    -- acs = [AttributeConverter()]; acsd = {"": acs}  (the LIST, which has no `ava_from`)
    if a.nameFormat = some ops.empty then .raised
    else if a.nameFormat = some ops.unspecified || allow then
      match lcdAvaFrom ops a with
      | .ok (k, v) => .put k v
      | .attrError => .skip
      | _ => .raised
    else .skip
  else
    match pickConv acs a.nameFormat with
    | some c =>
      match avaFrom ops c a with
      | .ok (k, v) => .put k v
      | .keyError =>
        if allow then
          match lcdAvaFrom ops a with      -- inside the handler: nothing is caught any more
          | .ok (k, v) => .put k v
          | _ => .raised
        else .skip
      | .attrError => .skip
      | .raised => .raised
    | none =>
      if a.nameFormat = some ops.unspecified || allow then
        match lcdAvaFrom ops a with
        | .ok (k, v) => .put k v
        | .attrError => .skip
        | _ => .raised
      else .skip

def localGo (ops : StrOps α) (acs : List (Conv α)) (allow : Bool) :
    List (WireAttr α) → Dict α (List (RVal α)) → Res (Dict α (List (RVal α)))
  | [], d => .ok d
  | a :: t, d =>
    match localStep ops acs allow a with
    | .raised => .raised
    | .skip => localGo ops acs allow t d
    | .put k vs => localGo ops acs allow t (Dict.extend d k vs)

/-- `list_to_local(acs, attrlist, allow_unknown_attributes)`. -/
def listToLocal (ops : StrOps α) (acs : List (Conv α)) (allow : Bool) (attrs : List (WireAttr α)) :
    Res (Dict α (List (RVal α))) :=
  localGo ops acs allow attrs []

/-- `acc.update(d)`: a key already present keeps its place and gets the new value. -/
def Dict.update {β : Type} (acc d : Dict α β) : Dict α β := d.foldl (fun a p => Dict.set a p.1 p.2) acc

/-- `AuthnResponse.get_identity` over the attribute statements in the order it reads them (per assertion:
    the statement of every Advice assertion, then the assertion's own statements): every statement goes
    through `read_attribute_statement` = `to_local` and the results are merged with `dict.update` — for a
    local name that occurs in two statements the LATER statement's values replace the earlier ones. -/
def getIdentity (ops : StrOps α) (acs : List (Conv α)) (allow : Bool) :
    List (List (WireAttr α)) → Dict α (List (RVal α)) → Res (Dict α (List (RVal α)))
  | [], acc => .ok acc
  | st :: t, acc =>
    match listToLocal ops acs allow st with
    | .raised => .raised
    | .ok d => getIdentity ops acs allow t (Dict.update acc d)

/-- The converter used for sending: an explicit one (`acs[i].to_(ava)`), or the one `from_local`
    picks for a name format. -/
inductive Sender (α : Type) where
  | index (i : Nat)
  | format (nf : α)
deriving Repr, DecidableEq

def sender (acs : List (Conv α)) : Sender α → Option (Conv α)
  | .index i => acs[i]?
  | .format nf => acs.find? (fun c => c.nameFormat = nf)

/-- Send, then receive with the same set.  `none` = `from_local` returned `None`. -/
def roundTrip (ops : StrOps α) (acs : List (Conv α)) (s : Sender α) (allow : Bool)
    (ava : List (α × LVals α)) : Option (Res (Dict α (List (RVal α)))) :=
  match sender acs s with
  | none => none
  | some c =>
    match toWire ops c ava with
    | .raised => some .raised
    | .ok w => some (listToLocal ops acs allow w)

/-- The same with the attributes serialised and parsed in between. -/
def roundTripXml (ops : StrOps α) (acs : List (Conv α)) (s : Sender α) (allow : Bool)
    (ava : List (α × LVals α)) : Option (Res (Dict α (List (RVal α)))) :=
  match sender acs s with
  | none => none
  | some c =>
    match toWire ops c ava with
    | .raised => some .raised
    | .ok w => some (listToLocal ops acs allow (w.map (parsed ops)))

end AttrConv
