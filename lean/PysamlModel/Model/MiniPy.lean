/-!
# MiniPy — a deep embedding of the fragment of Python that pysaml2's small decision functions are written in

`harness/translate/pyfuns.py` parses the CURRENT source of selected pysaml2 functions with Python's `ast` module and
writes them, statement by statement, as terms of the types below (`Gen/PyFuns.lean`; nothing is interpreted or
simplified by the translator except that logging calls, docstrings and the message arguments of `raise` are dropped).
`run` is a total big-step interpreter for those terms.  `Props/PyTie.lean` proves, for ALL inputs, that running the
regenerated term of a function gives what the hand-written model function gives (`for_me` ↦ `Sp.forMe`, …): the
hand-written model that the property theorems are about is thereby tied to the text of the code by a theorem that
is re-checked against the current source on every run, and the interpreter itself is run against CPython on the
same functions by the correspondence check (`Drivers/PyFuns.lean`, `harness/pyfuns.py`).

What is modelled: `None`, `bool`, `int`, `str`, lists, objects with named attributes; names, attribute access,
`not`/`and`/`or` with Python's operand-returning short-circuit semantics and truthiness, comparisons on atoms,
`in`/`not in` (a string in a list of strings or among the keys of a dict), `+`/`-` on integers, subscripts (dict by
string key, list by index), `len`, the string methods `strip`/`lower`, calls of external functions and of methods of
objects (a parameter of `run`; they may raise), assignment to names and to attributes of named objects, `if`,
`for … else` with `break`/`continue`, `try … except <Class>` with a bare `raise` in the handler, `return`,
`raise <Class>`.  Objects are values: an attribute assignment `self.x = v` rebinds `self` to the updated object (no
aliasing between names is modelled; the translated functions read their other names only).  Anything else makes the
translator emit `unsupported`, on which `run` is `stuck`, so that no theorem can silently hold of a construct the
interpreter does not understand.
-/

namespace MiniPy

inductive Val where
  | none
  | bool (b : Bool)
  | int (i : Int)
  | str (s : String)
  | list (xs : List Val)
  | obj (fields : List (String × Val))
deriving Repr, Inhabited

inductive CmpOp where
  | eq | ne | lt | le | gt | ge | isIn | notIn
deriving Repr, DecidableEq, Inhabited

inductive Expr where
  | none
  | bool (b : Bool)
  | int (i : Int)
  | str (s : String)
  | name (x : String)
  | attr (e : Expr) (f : String)
  | not (e : Expr)
  | and (a b : Expr)
  | or (a b : Expr)
  | cmp (op : CmpOp) (a b : Expr)
  | add (a b : Expr)
  | sub (a b : Expr)
  | method (recv : Expr) (m : String) (args : List Expr)
  | call (f : String) (args : List Expr)
  | callm (recv : Expr) (m : String) (args : List Expr)   -- a method of an object: external `.m` with the receiver first
  | subscript (e : Expr) (k : Expr)
  | opaqueStr                                              -- an f-string: some text no decision may depend on
  | isNone (e : Expr) (negated : Bool)                     -- `e is None` / `e is not None`
  | unsupported (what : String)
deriving Repr, Inhabited

inductive Stmt where
  | assign (x : String) (e : Expr)
  | setattr (obj : String) (field : String) (e : Expr)
  | try (body : List Stmt) (handlers : List (String × List Stmt))
  | reraise
  | expr (e : Expr)
  | ifs (c : Expr) (t : List Stmt) (e : List Stmt)
  | for (x : String) (iter : Expr) (body : List Stmt) (orelse : List Stmt)
  | ret (e : Option Expr)
  | raise (cls : String)
  | brk
  | cont
  | pass
  | unsupported (what : String)
deriving Repr, Inhabited

structure FunDef where
  name : String
  params : List String
  body : List Stmt
deriving Repr, Inhabited

abbrev Env := List (String × Val)

/-- Result of evaluating an expression. -/
inductive R (α : Type) where
  | ok (a : α)
  | raise (cls : String)
  | stuck (why : String)
deriving Repr, Inhabited

/-- External functions (`time_util.utc_now`, `calendar.timegm`, `validate_before`, methods of objects under the name
    `.method` with the receiver as first argument, …): a parameter, never interpreted.  They may raise; an unknown
    one is `stuck`. -/
abbrev Ext := String → List Val → R Val

/-- Python truthiness. -/
def truthy : Val → Bool
  | .none => false
  | .bool b => b
  | .int i => i != 0
  | .str s => s != ""
  | .list xs => !xs.isEmpty
  | .obj _ => true

def lookup (env : Env) (x : String) : Option Val := (env.find? (fun p => p.1 == x)).map (·.2)

def setVar (env : Env) (x : String) (v : Val) : Env := (x, v) :: env.filter (fun p => p.1 != x)

/-- Comparison of atoms (`==`/`!=` between values of different atomic types is `False`/`True` as in Python;
    ordering is defined on two ints or two strs only; containers are not compared: stuck). -/
def cmpVals (op : CmpOp) (a b : Val) : R Val :=
  match op, a, b with
  | .eq, .none, .none => .ok (.bool true)
  | .ne, .none, .none => .ok (.bool false)
  | .eq, .bool x, .bool y => .ok (.bool (x == y))
  | .ne, .bool x, .bool y => .ok (.bool (x != y))
  | .eq, .int x, .int y => .ok (.bool (x == y))
  | .ne, .int x, .int y => .ok (.bool (x != y))
  | .lt, .int x, .int y => .ok (.bool (decide (x < y)))
  | .le, .int x, .int y => .ok (.bool (decide (x ≤ y)))
  | .gt, .int x, .int y => .ok (.bool (decide (x > y)))
  | .ge, .int x, .int y => .ok (.bool (decide (x ≥ y)))
  | .eq, .str x, .str y => .ok (.bool (x == y))
  | .ne, .str x, .str y => .ok (.bool (x != y))
  | .eq, .none, .str _ | .eq, .str _, .none | .eq, .none, .int _ | .eq, .int _, .none
  | .eq, .str _, .int _ | .eq, .int _, .str _ | .eq, .none, .bool _ | .eq, .bool _, .none => .ok (.bool false)
  | .ne, .none, .str _ | .ne, .str _, .none | .ne, .none, .int _ | .ne, .int _, .none
  | .ne, .str _, .int _ | .ne, .int _, .str _ | .ne, .none, .bool _ | .ne, .bool _, .none => .ok (.bool true)
  | .isIn, .str x, .list ys => .ok (.bool (ys.any fun y => match y with | .str t => t == x | _ => false))
  | .notIn, .str x, .list ys => .ok (.bool (!(ys.any fun y => match y with | .str t => t == x | _ => false)))
  | .isIn, .none, .obj _ => .ok (.bool false)      -- `None in d` for a dict with string keys
  | .notIn, .none, .obj _ => .ok (.bool true)
  | .isIn, .str x, .obj fs => .ok (.bool (fs.any fun p => p.1 == x))
  | .notIn, .str x, .obj fs => .ok (.bool (!(fs.any fun p => p.1 == x)))
  | _, _, _ => .stuck "comparison"

/-- `e[k]`: a dict (an object's fields) by string key, a list by integer index. -/
def subscriptVals (a k : Val) : R Val :=
  match a, k with
  | .obj fs, .str x => match (fs.find? (fun p => p.1 == x)).map (·.2) with
    | some v => .ok v
    | none => .raise "KeyError"
  | .list xs, .int i => if i < 0 then .stuck "negative index" else
    match xs[i.toNat]? with
    | some v => .ok v
    | none => .raise "IndexError"
  | _, _ => .stuck "subscript"

/-- Built-in functions. -/
def builtin (f : String) (args : List Val) : Option (R Val) :=
  match f, args with
  | "len", [.list xs] => some (.ok (.int xs.length))
  | "len", [.str s] => some (.ok (.int s.length))
  | "len", [.obj fs] => some (.ok (.int fs.length))
  | "len", [_] => some (.raise "TypeError")
  | _, _ => none

/-- String methods; `strip` is given as a parameter so that the model's `pyStrip` can be plugged in. -/
def strMethod (strip : String → String) (m : String) (recv : Val) (args : List Val) : R Val :=
  match m, recv, args with
  | "strip", .str s, [] => .ok (.str (strip s))
  | "strip", .none, [] => .raise "AttributeError"
  | "lower", .str s, [] => .ok (.str s.toLower)
  | _, _, _ => .stuck ("method " ++ m)

mutual
/-- Expressions; `fuel` bounds the nesting depth of the term (not the size of the data). -/
def evalExpr (strip : String → String) (ext : Ext) : Nat → Env → Expr → R Val
  | 0, _, _ => .stuck "fuel"
  | fuel + 1, env, e =>
    match e with
    | .none => .ok .none
    | .bool b => .ok (.bool b)
    | .int i => .ok (.int i)
    | .str s => .ok (.str s)
    | .name x => match lookup env x with
      | some v => .ok v
      | none => .raise "NameError"
    | .attr e f =>
      match evalExpr strip ext fuel env e with
      | .ok (.obj fs) => match lookup fs f with
        | some v => .ok v
        | none => .raise "AttributeError"
      | .ok .none => .raise "AttributeError"
      | .ok _ => .stuck "attribute of a non-object"
      | .raise c => .raise c
      | .stuck w => .stuck w
    | .not e =>
      match evalExpr strip ext fuel env e with
      | .ok v => .ok (.bool (!truthy v))
      | .raise c => .raise c
      | .stuck w => .stuck w
    | .and a b =>
      match evalExpr strip ext fuel env a with
      | .ok v => if truthy v then evalExpr strip ext fuel env b else .ok v
      | .raise c => .raise c
      | .stuck w => .stuck w
    | .or a b =>
      match evalExpr strip ext fuel env a with
      | .ok v => if truthy v then .ok v else evalExpr strip ext fuel env b
      | .raise c => .raise c
      | .stuck w => .stuck w
    | .cmp op a b =>
      match evalExpr strip ext fuel env a with
      | .ok va => match evalExpr strip ext fuel env b with
        | .ok vb => cmpVals op va vb
        | .raise c => .raise c
        | .stuck w => .stuck w
      | .raise c => .raise c
      | .stuck w => .stuck w
    | .add a b =>
      match evalExpr strip ext fuel env a with
      | .ok (.int x) => match evalExpr strip ext fuel env b with
        | .ok (.int y) => .ok (.int (x + y))
        | .ok _ => .stuck "+ on a non-int"
        | .raise c => .raise c
        | .stuck w => .stuck w
      | .ok _ => .stuck "+ on a non-int"
      | .raise c => .raise c
      | .stuck w => .stuck w
    | .sub a b =>
      match evalExpr strip ext fuel env a with
      | .ok (.int x) => match evalExpr strip ext fuel env b with
        | .ok (.int y) => .ok (.int (x - y))
        | .ok _ => .stuck "- on a non-int"
        | .raise c => .raise c
        | .stuck w => .stuck w
      | .ok _ => .stuck "- on a non-int"
      | .raise c => .raise c
      | .stuck w => .stuck w
    | .method recv m args =>
      match evalExpr strip ext fuel env recv with
      | .ok r => match evalArgs strip ext fuel env args with
        | .ok vs => strMethod strip m r vs
        | .raise c => .raise c
        | .stuck w => .stuck w
      | .raise c => .raise c
      | .stuck w => .stuck w
    | .call f args =>
      match evalArgs strip ext fuel env args with
      | .ok vs => match builtin f vs with
        | some r => r
        | none => ext f vs
      | .raise c => .raise c
      | .stuck w => .stuck w
    | .callm recv m args =>
      match evalExpr strip ext fuel env recv with
      | .ok r => match evalArgs strip ext fuel env args with
        | .ok vs => ext ("." ++ m) (r :: vs)
        | .raise c => .raise c
        | .stuck w => .stuck w
      | .raise c => .raise c
      | .stuck w => .stuck w
    | .subscript e k =>
      match evalExpr strip ext fuel env e with
      | .ok a => match evalExpr strip ext fuel env k with
        | .ok kv => subscriptVals a kv
        | .raise c => .raise c
        | .stuck w => .stuck w
      | .raise c => .raise c
      | .stuck w => .stuck w
    | .opaqueStr => .ok (.str "<f-string>")
    | .isNone e negated =>
      match evalExpr strip ext fuel env e with
      | .ok .none => .ok (.bool (!negated))
      | .ok _ => .ok (.bool negated)
      | .raise c => .raise c
      | .stuck w => .stuck w
    | .unsupported w => .stuck ("unsupported expression " ++ w)

def evalArgs (strip : String → String) (ext : Ext) : Nat → Env → List Expr → R (List Val)
  | 0, _, _ => .stuck "fuel"
  | _ + 1, _, [] => .ok []
  | fuel + 1, env, a :: as =>
    match evalExpr strip ext fuel env a with
    | .ok v => match evalArgs strip ext fuel env as with
      | .ok vs => .ok (v :: vs)
      | .raise c => .raise c
      | .stuck w => .stuck w
    | .raise c => .raise c
    | .stuck w => .stuck w
end

/-- How a statement (block) ends. -/
inductive Flow where
  | normal (env : Env)
  | brk (env : Env)
  | cont (env : Env)
  | ret (v : Val) (env : Env)            -- the value and the environment at the `return` (the final state of `self`)
  | raise (cls : String) (env : Env)     -- the environment when the exception left the statement (handlers see it)
  | stuck (why : String)
deriving Repr, Inhabited

/-- Replace (or add) a field of an object value. -/
def setField (fs : List (String × Val)) (f : String) (v : Val) : List (String × Val) :=
  (f, v) :: fs.filter (fun p => p.1 != f)

/-- The reserved name under which a handler finds the exception it is handling (for a bare `raise`). -/
def excVar : String := "$exc"

/-- `for x in xs: body else: orelse` given the meaning of one iteration of the body; structural in the list. -/
def forLoop (body : Env → Val → Flow) (orelse : Env → Flow) : List Val → Env → Flow
  | [], env => orelse env
  | v :: vs, env =>
    match body env v with
    | .normal env' => forLoop body orelse vs env'
    | .cont env' => forLoop body orelse vs env'
    | .brk env' => .normal env'
    | .ret r e => .ret r e
    | .raise c e => .raise c e
    | .stuck w => .stuck w

mutual
def evalStmt (strip : String → String) (ext : Ext) : Nat → Env → Stmt → Flow
  | 0, _, _ => .stuck "fuel"
  | fuel + 1, env, s =>
    match s with
    | .assign x e =>
      match evalExpr strip ext fuel env e with
      | .ok v => .normal (setVar env x v)
      | .raise c => .raise c env
      | .stuck w => .stuck w
    | .setattr o f e =>
      match evalExpr strip ext fuel env e with
      | .ok v => match lookup env o with
        | some (.obj fs) => .normal (setVar env o (.obj (setField fs f v)))
        | some _ => .stuck "attribute assignment on a non-object"
        | none => .raise "NameError" env
      | .raise c => .raise c env
      | .stuck w => .stuck w
    | .try body handlers =>
      match evalBlock strip ext fuel env body with
      | .raise c env' =>
        match handlers.find? (fun h => h.1 == "Exception" || h.1 == c) with
        | some h => evalBlock strip ext fuel (setVar env' excVar (.str c)) h.2
        | none => .raise c env'
      | other => other
    | .reraise =>
      match lookup env excVar with
      | some (.str c) => .raise c env
      | _ => .stuck "bare raise outside a handler"
    | .expr e =>
      match evalExpr strip ext fuel env e with
      | .ok _ => .normal env
      | .raise c => .raise c env
      | .stuck w => .stuck w
    | .ifs c t e =>
      match evalExpr strip ext fuel env c with
      | .ok v => if truthy v then evalBlock strip ext fuel env t else evalBlock strip ext fuel env e
      | .raise c => .raise c env
      | .stuck w => .stuck w
    | .for x iter body orelse =>
      match evalExpr strip ext fuel env iter with
      | .ok (.list vs) =>
        forLoop (fun env v => evalBlock strip ext fuel (setVar env x v) body)
                (fun env => evalBlock strip ext fuel env orelse) vs env
      | .ok .none => .raise "TypeError" env
      | .ok _ => .stuck "iteration over a non-list"
      | .raise c => .raise c env
      | .stuck w => .stuck w
    | .ret none => .ret .none env
    | .ret (some e) =>
      match evalExpr strip ext fuel env e with
      | .ok v => .ret v env
      | .raise c => .raise c env
      | .stuck w => .stuck w
    | .raise cls => .raise cls env
    | .brk => .brk env
    | .cont => .cont env
    | .pass => .normal env
    | .unsupported w => .stuck ("unsupported statement " ++ w)

def evalBlock (strip : String → String) (ext : Ext) : Nat → Env → List Stmt → Flow
  | 0, _, _ => .stuck "fuel"
  | _ + 1, env, [] => .normal env
  | fuel + 1, env, s :: ss =>
    match evalStmt strip ext fuel env s with
    | .normal env' => evalBlock strip ext fuel env' ss
    | other => other
end

/-- What a call of the function gives. -/
inductive Result where
  | value (v : Val)
  | raised (cls : String)
  | stuck (why : String)
deriving Repr, Inhabited

/-- Fuel that is enough for every term the translator emits (it refuses deeper ones). -/
def defaultFuel : Nat := 64

def run (strip : String → String) (ext : Ext) (f : FunDef) (args : List Val) : Result :=
  if f.params.length != args.length then .stuck "arity" else
  match evalBlock strip ext defaultFuel (f.params.zip args).reverse f.body with
  | .normal _ => .value .none          -- falling off the end returns None
  | .ret v _ => .value v
  | .raise c _ => .raised c
  | .brk _ => .stuck "break outside a loop"
  | .cont _ => .stuck "continue outside a loop"
  | .stuck w => .stuck w

/-- A method call observed together with the final state of its first parameter (`self`): what the method returned
    or raised, and the object `self` is bound to when it ends. -/
def runMethod (strip : String → String) (ext : Ext) (f : FunDef) (args : List Val) : Result × Option Val :=
  if f.params.length != args.length then (.stuck "arity", none) else
  let self := f.params.headD ""
  match evalBlock strip ext defaultFuel (f.params.zip args).reverse f.body with
  | .normal env => (.value .none, lookup env self)
  | .ret v env => (.value v, lookup env self)
  | .raise c env => (.raised c, lookup env self)
  | .brk _ => (.stuck "break outside a loop", none)
  | .cont _ => (.stuck "continue outside a loop", none)
  | .stuck w => (.stuck w, none)

end MiniPy
