/-
  C03 — which certificates may validate a signature.

  Mirrors, as the code is:
    * `MetaData.certs(entity_id, "any", use)` + `extract_certs`            (mdstore.py)
    * `SecurityContext._check_signature`: certificate selection and the verification loop (sigver.py)
    * `CryptoBackendXmlSec1.validate_signature`: the xmlsec1 command line, against the key-selection
      semantics of the xmlsec1 stand-in (DESIGN.md 5.1)
    * `Request._do_redirect_sig_check` + `verify_redirect_signature` + `extract_rsa_key_from_x509_cert`
      + `RSASigner.verify` (`key or self.key`)                              (request.py, sigver.py)
    * the `issuer=` argument of `_check_signature` as `AuthnResponse.parse_assertion` uses it (response.py)

  `ι` = entity identifiers, `κ` = keys.  A certificate is identified with the public key it carries;
  signatures are ideal: a signature made with key `k` verifies under key `k'` iff `k' = k`
  (`signer = none`: a signature value that verifies under no key).
  Python raising `KeyError` is the explicit value `none` of the lookup function `mdCerts`.
  (Code as repaired by fix 57adca09: a key descriptor without certificate contributes none.)
-/
namespace Keys

inductive Use where
  | signing | encryption
deriving DecidableEq, Repr

/-- The role descriptor kinds a metadata entity of the model may carry. -/
inductive RoleKind where
  | spsso | idpsso | authnAuthority | attributeAuthority | pdp
deriving DecidableEq, Repr

/-- `md:KeyDescriptor`: `use` attribute (absent = `none`) and its `ds:X509Data` children in document
    order, each with the certificate it carries or `none` (an `X509Data` without `X509Certificate`);
    `x509 = []`: the `ds:KeyInfo` has no `X509Data` at all (e.g. only a `KeyName`). -/
structure KeyDescr (κ : Type) where
  use : Option Use
  x509 : List (Option κ)
deriving Repr

structure RoleDescr (κ : Type) where
  kind : RoleKind
  keys : List (KeyDescr κ)
deriving Repr

/-- An `md:EntityDescriptor`: its role descriptors in document order. -/
structure Entity (κ : Type) where
  roles : List (RoleDescr κ)
deriving Repr

/-- The loaded metadata as a lookup (`MetadataStore.__getitem__`); `none` = `KeyError`.
    Any function is allowed: any number of entities, roles, descriptors. -/
abbrev Metadata (ι κ : Type) := ι → Option (Entity κ)

/-- `ds:KeyInfo` of the signature inside the message: certificates of its `X509Data` children in
    document order and an optional bare `RSAKeyValue`. -/
structure KeyInfo (κ : Type) where
  certs : List κ
  rsa : Option κ
deriving Repr

/-- The abstract signed item: claimed issuer (text of `Issuer`, stripped; `none` = no issuer),
    the key that made the signature, the embedded `KeyInfo`. -/
structure Msg (ι κ : Type) where
  issuer : Option ι
  signer : Option κ
  keyInfo : KeyInfo κ
deriving Repr

variable {ι κ : Type} [DecidableEq κ]

/-- `if "use" not in key or key_use == use` -/
def applicable (use : Use) (kd : KeyDescr κ) : Bool :=
  match kd.use with
  | none => true
  | some u => decide (u = use)

/-- `for dat in key_info.get("x509_data", []): if "x509_certificate" not in dat: continue; …`:
    a key descriptor without certificate contributes none. -/
def kdCerts (kd : KeyDescr κ) : List κ :=
  kd.x509.filterMap id

/-- `extract_certs(srvs)` over the key descriptors of the descriptors `srvs`, in order.
    (The code's `if cert not in res` compares a string with tuples and never filters: duplicates stay.) -/
def extractCerts (use : Use) (kds : List (KeyDescr κ)) : List κ :=
  (kds.filter (applicable use)).flatMap kdCerts

/-- `extract_certs(ent[f"{descr}_descriptor"])` for one role kind; an entity without such a
    descriptor contributes nothing (`except KeyError: continue`). -/
def roleCerts (use : Use) (ent : Entity κ) (k : RoleKind) : List κ :=
  extractCerts use ((ent.roles.filter (fun r => decide (r.kind = k))).flatMap (·.keys))

/-- The `descriptor == "any"` loop; `order` is the code's list of role kinds. -/
def certsAny (order : List RoleKind) (use : Use) (ent : Entity κ) : List κ :=
  order.flatMap (roleCerts use ent)

/-- `metadata.certs(issuer, "any", use)`; `none` = `KeyError` (unknown entity, no issuer). -/
def mdCerts (order : List RoleKind) (md : Metadata ι κ) (issuer : Option ι) (use : Use) : Option (List κ) :=
  match issuer with
  | none => none
  | some i =>
    match md i with
    | none => none
    | some ent => some (certsAny order use ent)

/-- Key of the first embedded `X509Certificate`, else of the `RSAKeyValue` (stand-in: `embedded_key`). -/
def embeddedKey (ki : KeyInfo κ) : Option κ :=
  match ki.certs with
  | c :: _ => some c
  | [] => ki.rsa

/-- What a published certificate is to a verifier: an RSA certificate; a well-formed certificate
    with another kind of public key (EC, Ed25519, DSA); bytes that are not a certificate. -/
inductive CertKind where
  | rsa | other | malformed
deriving DecidableEq, Repr

/-- The key xmlsec1 checks the signature value with when it is given `--pubkey-cert-pem cert`:
    with `--enabled-key-data raw-x509-cert` (`restricted`) only that certificate's key; without the
    restriction an embedded key is preferred (the CVE-2021-21239 behaviour). -/
def verifyKey (restricted : Bool) (cert : κ) (ki : KeyInfo κ) : κ :=
  if restricted then cert
  else match embeddedKey ki with
    | some k => k
    | none => cert

/-- One xmlsec1 `--verify` run with certificate `cert` (signatures are RSA signatures): a certificate
    file that cannot be loaded is an xmlsec error, a non-RSA key never verifies (both: the loop of
    `_check_signature` goes on to the next certificate). -/
def verifies (restricted : Bool) (kindOf : κ → CertKind) (cert : κ) (m : Msg ι κ) : Bool :=
  match kindOf cert with
  | .malformed => false
  | .other => !restricted && (match embeddedKey m.keyInfo with
                              | some k => decide (m.signer = some k)
                              | none => false)
  | .rsa => decide (m.signer = some (verifyKey restricted cert m.keyInfo))

/-- The `for pem_fd in certs` loop: (verified, certificates handed to the verifier so far). -/
def tryCerts (restricted : Bool) (kindOf : κ → CertKind) (m : Msg ι κ) : List κ → Bool × List κ
  | [] => (false, [])
  | c :: rest =>
    if verifies restricted kindOf c m then (true, [c])
    else
      let r := tryCerts restricted kindOf m rest
      (r.1, c :: r.2)

/-- Certificate selection of `_check_signature`: metadata first (`except KeyError: _certs = []`);
    the embedded certificates only if that list is empty and `only_use_keys_in_metadata` is off. -/
def selectCerts (order : List RoleKind) (onlyMd : Bool) (md : Metadata ι κ) (m : Msg ι κ) : List κ :=
  let fromMd :=
    match mdCerts order md m.issuer .signing with
    | some cs => cs
    | none => []
  if fromMd.isEmpty && !onlyMd then m.keyInfo.certs else fromMd

inductive Verdict where
  | accepted | missingKey | badSignature | lookupFailed | verifyRaised
deriving DecidableEq, Repr

structure Result (κ : Type) where
  verdict : Verdict
  handed : List κ
deriving Repr

/-- `SecurityContext._check_signature` for an item that names its issuer itself (or none, with no
    `issuer=` argument); the key question only: the item is otherwise valid. -/
def checkSignature (restricted : Bool) (kindOf : κ → CertKind) (order : List RoleKind) (onlyMd : Bool)
    (md : Metadata ι κ) (m : Msg ι κ) : Result κ :=
  let certs := selectCerts order onlyMd md m
  if certs.isEmpty then ⟨.missingKey, []⟩
  else
    let r := tryCerts restricted kindOf m certs
    ⟨if r.1 then .accepted else .badSignature, r.2⟩

/-- `_check_signature(..., only_valid_cert=ovc)` as `Entity._parse_request` calls it for requests
    (`want_authn_requests_only_with_valid_cert`): the tail is `if verified or only_valid_cert:
    cert_handler.verify_cert(last) … else: raise SignatureError`, and `verify_cert` returns `True`
    unless `validate_certificate` is configured (not modelled) — with `ovc` a signature that
    verifies under none of the selected certificates is let through ("ignore the signature and
    verify the certificate", docs/howto/config.rst); `MissingKey` is still raised first. -/
def checkSignatureOvc (restricted : Bool) (kindOf : κ → CertKind) (order : List RoleKind) (onlyMd ovc : Bool)
    (md : Metadata ι κ) (m : Msg ι κ) : Result κ :=
  let certs := selectCerts order onlyMd md m
  if certs.isEmpty then ⟨.missingKey, []⟩
  else
    let r := tryCerts restricted kindOf m certs
    ⟨if r.1 || ovc then .accepted else .badSignature, r.2⟩

/-- `_issuer = item.issuer.text.strip()`, and only when the item has none, the caller's `issuer=`. -/
def effIssuer (arg : Option ι) (m : Msg ι κ) : Option ι :=
  match m.issuer with
  | some i => some i
  | none => arg

/-- `_check_signature(..., issuer=arg)`: everything after the first lines uses `_issuer` only. -/
def checkSignatureArg (restricted : Bool) (kindOf : κ → CertKind) (order : List RoleKind) (onlyMd : Bool)
    (md : Metadata ι κ) (arg : Option ι) (m : Msg ι κ) : Result κ :=
  checkSignature restricted kindOf order onlyMd md { m with issuer := effIssuer arg m }

/-- A public key object as `extract_rsa_key_from_x509_cert` hands it out: whatever key the
    certificate holds. -/
inductive PubKey (κ : Type) where
  | rsa (k : κ)
  | other
deriving Repr

/-- `extract_rsa_key_from_x509_cert(pem_format(cert))`; `none` = `load_pem_x509_certificate` raises. -/
def extractKey (kindOf : κ → CertKind) (cert : κ) : Option (PubKey κ) :=
  match kindOf cert with
  | .malformed => none
  | .rsa => some (.rsa cert)
  | .other => some .other

/-- `RSASigner.verify(msg, sig, key)` = `key_verify(key or self.key, …)`: a falsy `key` means the
    RECEIVER's own key `own` (`RSACrypto(rsa_key)` of `security_context`); a non-RSA key object makes
    `key_verify` return `False`. -/
def signerVerify (own : κ) (signer : Option κ) (key : Option (PubKey κ)) : Bool :=
  match key with
  | none => decide (signer = some own)
  | some (.rsa k) => decide (signer = some k)
  | some .other => false

/-- `verify_redirect_signature(saml_msg, sec_backend, cert)` for a certificate text from metadata
    (never empty: `cert` is truthy, so `_key` is the extracted key object); `none` = raises. -/
def redirectVerifyOne (kindOf : κ → CertKind) (own : κ) (signer : Option κ) (cert : κ) : Option Bool :=
  match extractKey kindOf cert with
  | none => none
  | some pk => some (signerVerify own signer (some pk))

/-- `any(verify_redirect_signature(...) for cert_name, cert in certs)`: stops at the first `True`; an
    exception ends everything.  (outcome, certificates handed over so far); outcome `none` = raised. -/
def tryRedirect (kindOf : κ → CertKind) (own : κ) (signer : Option κ) : List κ → Option Bool × List κ
  | [] => (some false, [])
  | c :: rest =>
    match redirectVerifyOne kindOf own signer c with
    | none => (none, [c])
    | some true => (some true, [c])
    | some false =>
      let r := tryRedirect kindOf own signer rest
      (r.1, c :: r.2)

/-- `Request._do_redirect_sig_check`: metadata certificates only, no fallback; a failing lookup or a
    raising verification is caught by `Request._loads` and the request is refused. -/
def redirectCheck (kindOf : κ → CertKind) (own : κ) (order : List RoleKind) (md : Metadata ι κ)
    (issuer : Option ι) (signer : Option κ) : Result κ :=
  match mdCerts order md issuer .signing with
  | none => ⟨.lookupFailed, []⟩
  | some cs =>
    let r := tryRedirect kindOf own signer cs
    ⟨match r.1 with
      | some true => .accepted
      | some false => .badSignature
      | none => .verifyRaised, r.2⟩

/-- The query-string parameters of a detached signature as they arrive: `SigAlg` or `Signature`
    missing; a `SigAlg` the library does not implement (rsa-md5, ECDSA/DSA URIs, "", unknown or
    differently spelt URIs); one of the implemented RSA algorithms. -/
inductive DetParams where
  | missing | unimplemented | ok
deriving DecidableEq, Repr

/-- The detached check of `Request._loads` with the parameters as they arrive: a missing parameter
    is refused before any lookup (`if sigalg is None or signature is None`); for an unimplemented
    `SigAlg` `verify_redirect_signature` returns `None` for every certificate (nothing is extracted,
    nothing verified, `any(...)` is `False`): refused. -/
def redirectCheckP (kindOf : κ → CertKind) (own : κ) (order : List RoleKind) (md : Metadata ι κ)
    (issuer : Option ι) (signer : Option κ) : DetParams → Result κ
  | .missing => ⟨.badSignature, []⟩
  | .unimplemented =>
    match mdCerts order md issuer .signing with
    | none => ⟨.lookupFailed, []⟩
    | some cs => ⟨.badSignature, cs⟩
  | .ok => redirectCheck kindOf own order md issuer signer

/-- How the signed item travels:
    * `enveloped`: `Response`, `Assertion` (plain or encrypted), request / logout message via POST/SOAP;
    * `detached env p`: Redirect query-string signature with parameters `p`, the request carrying an
      enveloped signature too when `env` (`Request._loads` checks an enveloped signature whenever one is present, then the
      detached one);
    * `after first withArg`: the item is checked after another signed item `first` of the same
      Response has been accepted — an (encrypted) advice assertion inside assertion `first`
      (`withArg = true`: `parse_assertion` passes `issuer=first.issuer`), or an encrypted assertion
      next to the plain assertion `first` (`withArg = false`). -/
inductive Kind (ι κ : Type) where
  | enveloped
  | detached (withEnveloped : Bool) (params : DetParams)
  | after (first : Msg ι κ) (withArg : Bool)

structure Out (κ : Type) where
  accepted : Bool
  handedX : List κ      -- certificates given to xmlsec1
  handedR : List κ      -- certificates given to verify_redirect_signature
deriving Repr

/-- Accept/refuse of a signed message by the receiving entity (`own` = the receiver's own key).
    `ovc`, `must`: the receiver's normalised `want_authn_requests_only_with_valid_cert` and
    `want_authn_requests_signed`; they reach requests only (`Entity._parse_request`: `must = True` when
    `ovc`; `Request._loads`: the detached check runs only when `must`), so for the `after` kinds
    (assertions at a service provider) they play no role. -/
def accept (restricted : Bool) (kindOf : κ → CertKind) (own : κ) (order : List RoleKind) (onlyMd ovc must : Bool)
    (md : Metadata ι κ) (kind : Kind ι κ) (m : Msg ι κ) : Out κ :=
  match kind with
  | .enveloped =>
    let r := checkSignatureOvc restricted kindOf order onlyMd ovc md m
    ⟨decide (r.verdict = .accepted), r.handed, []⟩
  | .detached env p =>
    let rx : Result κ := if env then checkSignatureOvc restricted kindOf order onlyMd ovc md m else ⟨.accepted, []⟩
    if rx.verdict = .accepted then
      if must || ovc then
        let rr := redirectCheckP kindOf own order md m.issuer m.signer p
        ⟨decide (rr.verdict = .accepted), rx.handed, rr.handed⟩
      else ⟨true, rx.handed, []⟩
    else ⟨false, rx.handed, []⟩
  | .after first withArg =>
    let r1 := checkSignature restricted kindOf order onlyMd md first
    if r1.verdict = .accepted then
      let r2 := checkSignatureArg restricted kindOf order onlyMd md (if withArg then first.issuer else none) m
      ⟨decide (r2.verdict = .accepted), r1.handed ++ r2.handed, []⟩
    else ⟨false, r1.handed, []⟩

/-! ### configuration values as they are written -/

/-- A configuration value as written: absent, a Python bool, an int, or a text — exactly `"true"`,
    exactly `"false"`, empty, any other text. -/
inductive CfgForm where
  | absent | bool (b : Bool) | int (n : Nat) | textTrue | textFalse | textEmpty | textOther
deriving DecidableEq, Repr

/-- Per-service options (`service.idp.*`, `service.sp.*`): `Config.load_special` turns exactly
    `"true"`/`"false"` into booleans, everything else is stored as it is and later used by truthiness. -/
def normService : CfgForm → Bool
  | .absent => false
  | .bool b => b
  | .int n => decide (n ≠ 0)
  | .textTrue => true
  | .textFalse => false
  | .textEmpty => false
  | .textOther => true

/-- Top-level options (`only_use_keys_in_metadata`): stored as written, used by truthiness — the text
    `"false"` is truthy; `dflt` when the configuration does not mention the option. -/
def normCommon (dflt : Bool) : CfgForm → Bool
  | .absent => dflt
  | .bool b => b
  | .int n => decide (n ≠ 0)
  | .textTrue => true
  | .textFalse => true
  | .textEmpty => false
  | .textOther => true

end Keys
