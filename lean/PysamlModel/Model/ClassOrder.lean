/-
  C13 — the child-order part of pysaml2's serialiser (`SamlBase._add_members_to_element_tree`):
  the members of an element class are written in the order of `c_child_order` (or of `c_children`
  when that list is empty), every list member contributing all its items, every singleton member
  its item when it is set.  Extension elements come after all members (`tagsOfExt`, second part of
  this file).

  A class row (regenerated from the class tables, `Gen/ClassRows.lean`) lists, in serialisation
  order, the child tag and the cardinality the class declares for each member
  (`c_cardinality`; a singleton without entry is 1..1, a list without `max` is unbounded).
-/
import PysamlModel.Model.Validate

namespace Validate

structure Member where
  tag : QN
  min : Nat
  max : Option Nat
deriving Repr, DecidableEq

structure ClassRow where
  label : String          -- "module.Class", for messages only
  elem : Nat              -- name id of the element the class stands for
  ps : List Particle      -- top-level particles of that element's type (checked by `particlesOf`)
  members : List Member
deriving Repr

/-- Child names of a serialised instance that holds `counts[i]` items in its i-th member. -/
def tagsOf : List Member → List Nat → List QN
  | m :: ms, n :: ns => List.replicate n m.tag ++ tagsOf ms ns
  | _, _ => []

/-- The instance respects the cardinalities the class itself declares. -/
def instOk : List Member → List Nat → Bool
  | [], [] => true
  | m :: ms, n :: ns => m.min ≤ n && (match m.max with | none => true | some h => n ≤ h) && instOk ms ns
  | _, _ => false

def admits (syms : List Sym) (m : Member) : Bool := syms.any fun s => s.sat m.tag

def sumMin (ms : List Member) : Nat := (ms.map (·.min)).sum

/-- upper bound of the total number of items of a group of members (`none` = unbounded) -/
def sumMax : List Member → Option Nat
  | [] => some 0
  | m :: ms =>
    match m.max, sumMax ms with
    | some a, some b => some (a + b)
    | _, _ => none

def leOpt (a : Option Nat) (b : Option Nat) : Bool :=
  match b with
  | none => true
  | some h => (match a with | some x => x ≤ h | none => false)

/-- the longest prefix of members a particle admits, and the rest -/
def spanAdm (syms : List Sym) : List Member → List Member × List Member
  | [] => ([], [])
  | m :: ms =>
    if admits syms m then ((spanAdm syms ms).1.cons m, (spanAdm syms ms).2) else ([], m :: ms)

/-- `OrderCompat`: the content model is a plain sequence of (choices of) element/wildcard
    particles, the class writes its members in an order that follows that sequence, and the
    cardinalities the class declares stay within the occurrence bounds of the XSD. -/
def orderCompat : List Particle → List Member → Bool
  | [], ms => ms.isEmpty
  | .group _ :: _, _ => false
  | .leaf syms lo hi :: ps, ms =>
    let g := spanAdm syms ms
    lo ≤ sumMin g.1 && leOpt (sumMax g.1) hi && orderCompat ps g.2

/-- The content model (top-level particles) of the type of a global element. -/
def particlesOf (S : Schema) (elem : Nat) (ps : List Particle) : Bool :=
  match lookupNat elem S.globals with
  | none => false
  | some i =>
    match S.elems[i]? with
    | none => false
    | some d =>
      match d.ty with
      | .complex j =>
        (match S.types[j]? with
         | some T => (match T.content with | .elems _ re => re == contentRe ps | _ => false)
         | none => false)
      | _ => false

/-! ## Extension elements

`SamlBase._add_members_to_element_tree` writes the extension elements of an instance AFTER all its
members, in the order in which they were added (`add_extension_element`).  In the schema set the
types that admit them end in an unbounded wildcard particle (`md:Extensions`, `samlp:Extensions`,
the metadata endpoints, `ds:SignatureMethod`, `ds:Object` …). -/

/-- Child names of a serialised instance that holds `counts[i]` items in its i-th member and the
    extension elements `exts`. -/
def tagsOfExt (ms : List Member) (counts : List Nat) (exts : List QN) : List QN :=
  tagsOf ms counts ++ exts

/-- A content model whose last top-level particle is an unbounded leaf: the particles before it,
    the symbols of that last particle and its `minOccurs`. -/
def extSplit (ps : List Particle) : Option (List Particle × List Sym × Nat) :=
  match ps.getLast? with
  | some (.leaf syms lo none) => some (ps.dropLast, syms, lo)
  | _ => none

/-- `orderCompat` for a class whose instances may carry extension elements: the members follow the
    part of the content model before the final unbounded particle. -/
def extCompat (ps : List Particle) (ms : List Member) : Bool :=
  match extSplit ps with
  | some (pre, _, _) => orderCompat pre ms
  | none => false

/-- The extension elements are as many as the final particle asks for and each of them is admitted
    by it (for `##other`: a namespace, and not the target namespace). -/
def extsOk (ps : List Particle) (exts : List QN) : Bool :=
  match extSplit ps with
  | some (_, syms, lo) => decide (lo ≤ exts.length) && exts.all (fun q => syms.any (fun s => s.sat q))
  | none => false

/-- The row of a pure container of extension elements (`md:Extensions`, `samlp:Extensions`): no
    members, and the content model is one wildcard particle `##other`, at least one occurrence. -/
def isExtContainer (r : ClassRow) : Bool :=
  r.members.isEmpty &&
  (match r.ps with
   | [.leaf [.any (.other _) _] (_ + 1) none] => true
   | _ => false)

end Validate
