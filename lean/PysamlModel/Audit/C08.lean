import PysamlModel.Props.C08
#print axioms C08.C08_pick_registered
#print axioms C08.C08_url_honoured
#print axioms C08.C08_index_honoured
#print axioms C08.C08_unregistered_url_refused
#print axioms C08.C08_unregistered_index_refused
#print axioms C08.C08_unknown_entity_refused
#print axioms C08.C08_registered_url_selected
#print axioms C08.C08_model_meets_spec
#print axioms C08.C08_sso_location
#print axioms C08.C08_sso_meets_spec
#print axioms C08.C08_slo_location
#print axioms C08.C08_slo_meets_spec
#print axioms C08.C08_verify_return
#print axioms C08.C08_response_args_meets_spec
#print axioms C08.C08_response_args_registered
#print axioms C08.C08_slo_all_meets_spec
