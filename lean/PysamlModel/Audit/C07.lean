import PysamlModel.Props.C07
#print axioms C07.C07_signature
#print axioms C07.C07_signature_enveloped
#print axioms C07.C07_signature_detached
#print axioms C07.C07_signature_cert_only
#print axioms C07.C07_bad_enveloped_rejected
#print axioms C07.C07_destination
#print axioms C07.C07_version
#print axioms C07.C07_issue_instant
#print axioms C07.C07_stale_rejected
#print axioms C07.C07_model_meets_spec
#print axioms C07.C07_spec_iff
#print axioms C07.C07_accepts_valid
#print axioms C07.C07_table_wf
#print axioms C07.C07_table_msgtype
#print axioms C07.C07_table_nodup
