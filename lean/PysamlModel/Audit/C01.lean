import PysamlModel.Props.C01
