import PysamlModel.Props.C01
#print axioms C01.C01_sound
#print axioms C01.C01_defaults
#print axioms C01.C01_model_meets_spec_sound
#print axioms C01.C01_complete
#print axioms C01.C01_model_meets_spec_complete
#print axioms Sp.processFactory_identity_inv
#print axioms C01.sigPolicyOk_of_loads_verify
#print axioms C01.C01_sound_factory
#print axioms C01.C01_sound_respfactory
