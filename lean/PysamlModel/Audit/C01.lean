import PysamlModel.Props.C01
#print axioms C01.C01_sound
#print axioms C01.C01_defaults
#print axioms C01.C01_model_meets_spec_sound
#print axioms C01.C01_complete
#print axioms C01.C01_model_meets_spec_complete
