import PysamlModel.Props.C20
#print axioms C20.C20_signature_exact
#print axioms C20.C20_own_key
#print axioms C20.C20_no_other_thread
#print axioms C20.C20_verify_verdict
#print axioms C20.C20_accepted_iff_published
#print axioms C20.C20_never_crashes
#print axioms C20.C20_churn_last_setup
#print axioms C20.C20_signature_history_free
#print axioms C20.C20_spec_signed
#print axioms C20.C20_spec_verified
#print axioms C20.C20_model_meets_spec
#print axioms C20.C20_shared_design_counterexample
