import PysamlModel.Props.C04
#print axioms C04.C04_audience
#print axioms C04.C04_destination
#print axioms C04.C04_recipient
#print axioms C04.C04_exact
#print axioms C04.C04_model_meets_spec
