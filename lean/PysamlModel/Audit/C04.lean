import PysamlModel.Props.C04
#print axioms C04.C04_audience
#print axioms C04.C04_destination
#print axioms C04.C04_recipient
#print axioms C04.C04_exact
#print axioms C04.C04_model_meets_spec
#print axioms Sp.processFactory_identity_inv
#print axioms C04.verify_visible_accepted
#print axioms C04.visible_accepted_factory
#print axioms C04.C04_audience_factory
#print axioms C04.C04_destination_factory
#print axioms C04.C04_recipient_factory
#print axioms C04.C04_audience_respfactory
#print axioms C04.C04_destination_respfactory
#print axioms C04.C04_recipient_respfactory
#print axioms C04.C04_extension_conditions
#print axioms C04.C04_extension_conditions_respfactory
#print axioms C04.C04_no_extension_conditions_client
