import PysamlModel.Props.C04
#print axioms C04.C04_audience
#print axioms C04.C04_destination
#print axioms C04.C04_recipient
#print axioms C04.C04_exact
#print axioms C04.C04_model_meets_spec
#print axioms Sp.processFactory_identity_inv
#print axioms C04.verify_visible_accepted
#print axioms C04.visible_accepted_factory
#print axioms C04.C04_audience_factory
#print axioms C04.C04_destination_factory
#print axioms C04.C04_recipient_factory
