import PysamlModel.Props.C04
