import PysamlModel.Props.C16
#print axioms C16.C16_placeholder
