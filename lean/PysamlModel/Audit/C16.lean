import PysamlModel.Props.C16
#print axioms C16.C16_confidential_assertion
#print axioms C16.C16_confidential_advice
#print axioms C16.C16_issued
#print axioms C16.C16_key_of_recipient
#print axioms C16.C16_ops_ordered
#print axioms C16.C16_signature_order
#print axioms C16.C16_signatures_verify
#print axioms C16.C16_wrong_key
#print axioms C16.C16_corrupt
#print axioms C16.C16_recoverable
#print axioms C16.C16_model_meets_spec
#print axioms C16.C16_history_meets_spec
#print axioms C16.C16_entry_defaults
