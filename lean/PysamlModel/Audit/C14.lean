import PysamlModel.Props.C14
