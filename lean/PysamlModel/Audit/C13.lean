import PysamlModel.Props.C13
#print axioms C13.C13_derivative_correct
#print axioms C13.C13_content_iff
#print axioms C13.C13_complexPre_content
#print axioms C13.C13_valid_ids_unique
#print axioms C13.C13_boolean_lexical
#print axioms C13.C13_order_partial
#print axioms C13.C13_order_table
#print axioms C13.C13_order_table_valid
#print axioms C13.C13_dup_id_rejected
#print axioms C13.C13_distinct_id_accepted
#print axioms C13.C13_action_without_namespace_rejected
#print axioms C13.C13_action_with_namespace_accepted
#print axioms C13.C13_counterexample_dup_id
#print axioms C13.C13_counterexample_action_namespace
