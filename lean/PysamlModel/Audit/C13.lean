import PysamlModel.Props.C13
#print axioms C13.C13_placeholder
