import PysamlModel.Props.C10
