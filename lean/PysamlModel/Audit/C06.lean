import PysamlModel.Props.C06
#print axioms C06.C06_correlated
#print axioms C06.C06_shape
#print axioms C06.C06_status
#print axioms C06.C06_version
#print axioms C06.C06_model_meets_spec
#print axioms C06.C06_table_complete
#print axioms C06.C06_table_names
#print axioms C06.C06_table_functional
#print axioms C06.C06_table_size
#print axioms C06.C06_table_views_agree
#print axioms C06.correlated_of_loads_verify
#print axioms C06.shapeOk_of_verify
#print axioms C06.C06_correlated_factory
#print axioms C06.C06_shape_factory
#print axioms C06.C06_encrypted_id_opened
#print axioms C06.C06_reported_identifier
