import PysamlModel.Props.C06
