import PysamlModel.Props.PyTieC01
#print axioms PyTie.correctly_signed_response_refines
#print axioms PyTie.loads_sigGate
