import PysamlModel.Props.PyTieCond
#print axioms PyTie.condition_ok_refines_both
#print axioms PyTie.condition_ok_refines_absent
#print axioms PyTie.condition_ok_refines
