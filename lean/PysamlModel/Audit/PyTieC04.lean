import PysamlModel.Props.PyTieC04
#print axioms PyTie.for_me_refines
#print axioms PyTie.verify_refines
