import PysamlModel.Props.C19
#print axioms C19.C19_model_meets_code_spec
#print axioms C19.C19_spec_readings_agree
#print axioms C19.C19_model_meets_spec_partial
#print axioms C19.C19_model_meets_spec_counterexample
#print axioms C19.C19_isolation
#print axioms C19.C19_isolation_identity
#print axioms C19.C19_expiry
#print axioms C19.C19_no_info_after_logout
#print axioms C19.C19_request_names_subject
#print axioms C19.C19_request_names_subject_reentry
#print axioms C19.C19_response_needs_pending
#print axioms C19.C19_session_ends_exactly
#print axioms C19.C19_session_ends_at_start
#print axioms C19.C19_idp_request_only_current
