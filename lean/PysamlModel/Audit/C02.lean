import PysamlModel.Props.C02
#print axioms C02.C02_covered_partial
#print axioms C02.C02_covered_partial_b
#print axioms C02.C02_counterexample
#print axioms Xsw.XNode.beq_sound
#print axioms Xsw.registerIds_resolves
#print axioms C02.C02_flow_adopted_checked
#print axioms C02.C02_flow_calls_are_checks
#print axioms C02.C02_flow_adopted_is_assertion
#print axioms C02.C02_flow_adopted_covered
