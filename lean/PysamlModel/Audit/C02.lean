import PysamlModel.Props.C02
