import PysamlModel.Props.C02
#print axioms C02.C02_covered_partial
#print axioms C02.C02_covered_partial_b
#print axioms C02.C02_counterexample
#print axioms Xsw.XNode.beq_sound
#print axioms Xsw.registerIds_resolves
