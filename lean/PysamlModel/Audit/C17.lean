import PysamlModel.Props.C17
