import PysamlModel.Props.C17
#print axioms C17.C17_model_meets_spec_wire
#print axioms C17.C17_to_wire
#print axioms C17.C17_to_wire_counterexample
#print axioms C17.C17_model_meets_spec_local
#print axioms C17.C17_to_local
#print axioms C17.C17_to_local_known
#print axioms C17.C17_unknown_dropped
#print axioms C17.C17_unknown
#print axioms C17.C17_set_roundtrip
#print axioms C17.C17_set_roundtrip_xml
#print axioms C17.C17_roundtrip
#print axioms C17.C17_set_roundtrip_counterexample
#print axioms C17.C17_roundtrip_eptid_counterexample
#print axioms C17.C17_bundled_wf
#print axioms C17.C17_bundled_wf_counterexample
#print axioms C17.C17_bundled_not_distinct
#print axioms C17.C17_bundled_roundtrip
