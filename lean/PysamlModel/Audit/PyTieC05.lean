import PysamlModel.Props.PyTieC05
#print axioms PyTie.validate_on_or_after_refines
#print axioms PyTie.validate_before_refines
#print axioms PyTie.authn_statement_ok_refines
