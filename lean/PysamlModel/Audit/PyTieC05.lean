import PysamlModel.Props.PyTieC05
#print axioms PyTie.validate_on_or_after_refines
#print axioms PyTie.validate_before_refines
