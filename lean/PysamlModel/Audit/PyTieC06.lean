import PysamlModel.Props.PyTieC06
#print axioms PyTie.loads_refines
#print axioms PyTie.scan_refines
#print axioms PyTie.loads_refines_composed
