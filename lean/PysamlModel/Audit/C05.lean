import PysamlModel.Props.C05
