import PysamlModel.Props.C05
#print axioms C05.C05_windows
#print axioms C05.C05_expired
#print axioms C05.C05_premature
#print axioms C05.C05_inverted
#print axioms C05.C05_stale_instant
#print axioms C05.C05_reported_expiry
#print axioms C05.C05_model_meets_spec_sound
#print axioms C05.C05_inside_accepted
#print axioms C05.C05_model_meets_spec_complete
#print axioms C05.C05_windows_attr
#print axioms C05.verify_stale_instant
#print axioms C05.C05_windows_factory
#print axioms C05.C05_stale_instant_factory
