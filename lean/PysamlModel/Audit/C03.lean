import PysamlModel.Props.C03
