import PysamlModel.Props.C03
#print axioms C03.C03_default_only_md
#print axioms C03.C03_role_order_complete
#print axioms C03.C03_key_origin
#print axioms C03.C03_metadata_only_key_origin
#print axioms C03.C03_unbound_key_rejected
#print axioms C03.C03_encryption_only_key_not_bound
#print axioms C03.C03_unknown_issuer_rejected
#print axioms C03.C03_embedded_key_ignored
#print axioms C03.C03_no_fallback_when_bound
#print axioms C03.C03_flag_needed
#print axioms C03.C03_handed_certs_origin
#print axioms C03.C03_redirect_key_origin
#print axioms C03.C03_accept_key_origin
#print axioms C03.C03_model_meets_spec
#print axioms C03.C03_bound_key_accepted
