/-
  C08 — declarative specification with a decidable checker, evaluated by the driver on the
  IMPLEMENTATION's output (and proved of the model's output in Props/C08.lean).
-/
import PysamlModel.Model.Routing

namespace Routing
variable {α : Type} [DecidableEq α]

/-- An endpoint the request allows as the answer's target. -/
def eligible (truthy : α → Bool) (bindings : List α) (url index : Option α) (e : Endpoint α) : Bool :=
  decide (e.binding ∈ bindings) &&
  (match url.filter truthy with
   | some u => decide (e.location = u)
   | none =>
     match index.filter truthy with
     | some i => decide (e.index = some i)
     | none => true)

/-- `out` is an acceptable answer of `pick_binding`: a destination is a registered, eligible
    endpoint for the chosen binding (the URL itself when one was given, the indexed endpoint's
    location when an index was given); a refusal happens only when nothing is eligible. -/
def specPick (truthy : α → Bool) (eps : Option (List (Endpoint α))) (bindings : List α)
    (url index : Option α) (out : Pick α) : Bool :=
  match out with
  | .ok b d =>
    match eps with
    | none => false
    | some l => l.any (fun e => eligible truthy bindings url index e && decide (e.binding = b) &&
        (match url.filter truthy, index.filter truthy with
         | some _, _ => decide (d = e.location)
         | none, some _ => decide (d = e.location)
         | none, none => decide (d = e.location) || decide (e.responseLocation = some d)))
  | .refused =>
    match eps with
    | none => true
    | some l => !(l.any (eligible truthy bindings url index))

/-- `response_args`: the back-channel answer is acceptable exactly when the caller allowed only
    SOAP; every other answer must satisfy `specPick` for the effective candidate bindings. -/
def specArgs (truthy : α → Bool) (soap empty : α) (eps : Option (List (Endpoint α))) (arg : List α)
    (reqBinding : Option α) (preferred : List α) (url index : Option α) (out : Pick α) : Bool :=
  if arg = [soap] then decide (out = .ok soap empty)
  else specPick truthy eps (effBindings truthy arg reqBinding preferred) url index out

/-- SP side: the location used (if any) is registered for the binding. `none` = refused. -/
def specLoc (eps : Option (List (Endpoint α))) (b : α) (out : Option α) : Bool :=
  match out with
  | none => true
  | some d => match eps with
    | none => false
    | some l => l.any (fun e => decide (e.binding = b) && decide (e.location = d))

/-- SP side, negotiated binding: the (binding, location) PAIR that is used is registered as a pair, and the binding is
    one of those the caller allowed. `none` = refused. -/
def specNeg (eps : Option (List (Endpoint α))) (toTry : List α) (out : Option (α × α)) : Bool :=
  match out with
  | none => true
  | some (b, d) => toTry.contains b && specLoc eps b (some d)

def specSlo (eps : List (Endpoint α)) (out : Option (Pick α)) : Bool :=
  match out with
  | some (.ok b d) => eps.any (fun e => decide (e.binding = b) && decide (e.location = d))
  | _ => true

end Routing

namespace Routing
variable {α : Type} [DecidableEq α]

/-- Several targets: every request that is sent goes to an endpoint of ITS OWN target. -/
def specSloAll : List (List (Endpoint α)) → List (Option (Pick α)) → Bool
  | eps :: rest, o :: os => specSlo eps o && specSloAll rest os
  | [], [] => true
  | _, _ => false

end Routing

namespace Routing
variable {α : Type} [DecidableEq α]

/-- `response_args` for any request class: a request class without return service never names a destination other
    than the empty back-channel one; otherwise `specArgs` for the endpoint list of the requester's return service under
    the peer descriptor (no destination at all counts as a refusal). -/
def specArgsK (truthy : α → Bool) (soap empty : α) (selfIsSp : Bool) (kind : ReqKind)
    (lookup : Bool → Svc → Option (List (Endpoint α))) (arg : List α) (reqBinding : Option α)
    (preferred : Svc → List α) (url index : Option α) (out : Option (Pick α)) : Bool :=
  match kindService kind with
  | none =>
    match out with
    | some (.ok b d) => decide (arg = [soap]) && decide (b = soap) && decide (d = empty)
    | _ => true
  | some s =>
    specArgs truthy soap empty (lookup (kindDescrIdp selfIsSp kind) s) arg reqBinding (preferred s) url index
      (out.getD .refused)

/-- `_sso_location` with or without entity id: a location used is registered for the binding at the named entity; with
    no entity named there is a target provider only when the metadata holds exactly one identity provider, and the
    location must then be registered there (several or no providers: nothing may be addressed). -/
def specLocAny (truthy : α → Bool) (entity : Option α) (named : Option (List (Endpoint α)))
    (idps : List (List (Endpoint α))) (b : α) (out : Option α) : Bool :=
  match entity.filter truthy with
  | some _ => specLoc named b out
  | none => match out with
    | none => true
    | some d => match idps with
      | [l] => specLoc (some l) b (some d)
      | _ => false

/-- Histories: every answer meets `spec` for the metadata installed by the last reload the entity reported as
    successful (initially: the metadata it was constructed with). -/
def specHist {μ ρ ο : Type} (spec : μ → ρ → ο → Bool) :
    Option μ → μ → List (HStep μ ρ) → List (HOut ο) → Bool
  | _, _, [], [] => true
  | _, l, .write m :: r, os => specHist spec m l r os
  | some m, l, .reload :: r, .reloaded ok :: os => specHist spec (some m) (if ok then m else l) r os
  | none, l, .reload :: r, .reloaded _ :: os => specHist spec none l r os
  | d, l, .ask q :: r, .ans o :: os => spec l q o && specHist spec d l r os
  | _, _, _, _ => false

end Routing
