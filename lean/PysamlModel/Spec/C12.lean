/-
  C12 — declarative side: equality on the tree types, the instance space the property quantifies
  over (`instShape`), the decidable side conditions that exclude the recorded defects (`treeWf`,
  `wireClean`), the well-formedness of a class table (`classWf`), and the checkers the driver
  evaluates on the IMPLEMENTATION's output (`specRoundTrip`, `specParse`, `specDoc`).
-/
import PysamlModel.Model.ObjModel

namespace ObjModel

/-! ### decidable equality (nested inductives get no derived instance) -/

mutual
def XNode.beq : XNode → XNode → Bool
  | .mk t a x k, .mk t' a' x' k' => decide (t = t') && decide (a = a') && decide (x = x') && XNode.beqList k k'
def XNode.beqList : List XNode → List XNode → Bool
  | [], [] => true
  | a :: r, b :: r' => XNode.beq a b && XNode.beqList r r'
  | _, _ => false
end

mutual
theorem XNode.eq_of_beq : ∀ (a b : XNode), XNode.beq a b = true → a = b
  | .mk t a x k, .mk t' a' x' k', h => by
    simp only [XNode.beq, Bool.and_eq_true, decide_eq_true_eq] at h
    obtain ⟨⟨⟨h1, h2⟩, h3⟩, h4⟩ := h
    have := XNode.eq_of_beqList k k' h4
    subst h1 h2 h3 this
    rfl
theorem XNode.eq_of_beqList : ∀ (a b : List XNode), XNode.beqList a b = true → a = b
  | [], [], _ => rfl
  | a :: r, b :: r', h => by
    simp only [XNode.beqList, Bool.and_eq_true] at h
    rw [XNode.eq_of_beq a b h.1, XNode.eq_of_beqList r r' h.2]
  | [], _ :: _, h => by simp [XNode.beqList] at h
  | _ :: _, [], h => by simp [XNode.beqList] at h
end

mutual
theorem XNode.beq_refl : ∀ (a : XNode), XNode.beq a a = true
  | .mk t a x k => by simp [XNode.beq, XNode.beqList_refl k]
theorem XNode.beqList_refl : ∀ (a : List XNode), XNode.beqList a a = true
  | [] => rfl
  | a :: r => by simp [XNode.beqList, XNode.beq_refl a, XNode.beqList_refl r]
end

instance : DecidableEq XNode := fun a b =>
  if h : XNode.beq a b = true then isTrue (XNode.eq_of_beq a b h)
  else isFalse (fun e => h (e ▸ XNode.beq_refl a))

mutual
def ExtEl.beq : ExtEl → ExtEl → Bool
  | .mk n t a k x, .mk n' t' a' k' x' =>
    decide (n = n') && decide (t = t') && decide (a = a') && decide (x = x') && ExtEl.beqList k k'
def ExtEl.beqList : List ExtEl → List ExtEl → Bool
  | [], [] => true
  | a :: r, b :: r' => ExtEl.beq a b && ExtEl.beqList r r'
  | _, _ => false
end

mutual
theorem ExtEl.eq_of_beq : ∀ (a b : ExtEl), ExtEl.beq a b = true → a = b
  | .mk n t a k x, .mk n' t' a' k' x', h => by
    simp only [ExtEl.beq, Bool.and_eq_true, decide_eq_true_eq] at h
    obtain ⟨⟨⟨⟨h0, h1⟩, h2⟩, h3⟩, h4⟩ := h
    have := ExtEl.eq_of_beqList k k' h4
    subst h0 h1 h2 h3 this
    rfl
theorem ExtEl.eq_of_beqList : ∀ (a b : List ExtEl), ExtEl.beqList a b = true → a = b
  | [], [], _ => rfl
  | a :: r, b :: r', h => by
    simp only [ExtEl.beqList, Bool.and_eq_true] at h
    rw [ExtEl.eq_of_beq a b h.1, ExtEl.eq_of_beqList r r' h.2]
  | [], _ :: _, h => by simp [ExtEl.beqList] at h
  | _ :: _, [], h => by simp [ExtEl.beqList] at h
end

mutual
theorem ExtEl.beq_refl : ∀ (a : ExtEl), ExtEl.beq a a = true
  | .mk n t a k x => by simp [ExtEl.beq, ExtEl.beqList_refl k]
theorem ExtEl.beqList_refl : ∀ (a : List ExtEl), ExtEl.beqList a a = true
  | [] => rfl
  | a :: r => by simp [ExtEl.beqList, ExtEl.beq_refl a, ExtEl.beqList_refl r]
end

instance : DecidableEq ExtEl := fun a b =>
  if h : ExtEl.beq a b = true then isTrue (ExtEl.eq_of_beq a b h)
  else isFalse (fun e => h (e ▸ ExtEl.beq_refl a))

mutual
def Inst.beq : Inst → Inst → Bool
  | .mk c a s t e x, .mk c' a' s' t' e' x' =>
    decide (c = c') && decide (a = a') && decide (t = t') && decide (e = e') && decide (x = x') && Inst.beqSlots s s'
def Inst.beqSlots : List (List Inst) → List (List Inst) → Bool
  | [], [] => true
  | a :: r, b :: r' => Inst.beqList a b && Inst.beqSlots r r'
  | _, _ => false
def Inst.beqList : List Inst → List Inst → Bool
  | [], [] => true
  | a :: r, b :: r' => Inst.beq a b && Inst.beqList r r'
  | _, _ => false
end

mutual
theorem Inst.eq_of_beq : ∀ (a b : Inst), Inst.beq a b = true → a = b
  | .mk c a s t e x, .mk c' a' s' t' e' x', h => by
    simp only [Inst.beq, Bool.and_eq_true, decide_eq_true_eq] at h
    obtain ⟨⟨⟨⟨⟨h0, h1⟩, h2⟩, h3⟩, h4⟩, h5⟩ := h
    have := Inst.eq_of_beqSlots s s' h5
    subst h0 h1 h2 h3 h4 this
    rfl
theorem Inst.eq_of_beqSlots : ∀ (a b : List (List Inst)), Inst.beqSlots a b = true → a = b
  | [], [], _ => rfl
  | a :: r, b :: r', h => by
    simp only [Inst.beqSlots, Bool.and_eq_true] at h
    rw [Inst.eq_of_beqList a b h.1, Inst.eq_of_beqSlots r r' h.2]
  | [], _ :: _, h => by simp [Inst.beqSlots] at h
  | _ :: _, [], h => by simp [Inst.beqSlots] at h
theorem Inst.eq_of_beqList : ∀ (a b : List Inst), Inst.beqList a b = true → a = b
  | [], [], _ => rfl
  | a :: r, b :: r', h => by
    simp only [Inst.beqList, Bool.and_eq_true] at h
    rw [Inst.eq_of_beq a b h.1, Inst.eq_of_beqList r r' h.2]
  | [], _ :: _, h => by simp [Inst.beqList] at h
  | _ :: _, [], h => by simp [Inst.beqList] at h
end

mutual
theorem Inst.beq_refl : ∀ (a : Inst), Inst.beq a a = true
  | .mk c a s t e x => by simp [Inst.beq, Inst.beqSlots_refl s]
theorem Inst.beqSlots_refl : ∀ (a : List (List Inst)), Inst.beqSlots a a = true
  | [] => rfl
  | a :: r => by simp [Inst.beqSlots, Inst.beqList_refl a, Inst.beqSlots_refl r]
theorem Inst.beqList_refl : ∀ (a : List Inst), Inst.beqList a a = true
  | [] => rfl
  | a :: r => by simp [Inst.beqList, Inst.beq_refl a, Inst.beqList_refl r]
end

instance : DecidableEq Inst := fun a b =>
  if h : Inst.beq a b = true then isTrue (Inst.eq_of_beq a b h)
  else isFalse (fun e => h (e ▸ Inst.beq_refl a))

/-! ### class-table well-formedness -/

def nodupNat : List Nat → Bool
  | [] => true
  | a :: r => !r.contains a && nodupNat r

def nodupQ : List QName → Bool
  | [] => true
  | a :: r => !r.contains a && nodupQ r

def keysOf (d : Attrs) : List Name := d.map (·.1)

/-- `_get_all_c_children_with_order` as positions in `c_children` -/
def orderIdxs (cd : ClassDef) : List (Option Nat) := (memberOrder cd).map (idxOf (members cd))

def nodupON : List (Option Nat) → Bool
  | [] => true
  | a :: r => !r.contains a && nodupON r

/-- every child member is written exactly once and nothing else is asked for:
    the names `_get_all_c_children_with_order` yields are a permutation of the child members -/
def orderOk (cd : ClassDef) : Bool :=
  (orderIdxs cd).all (·.isSome) && nodupON (orderIdxs cd) &&
  (List.range cd.children.length).all fun j => (orderIdxs cd).contains (some j)

/-- python attribute names the instance uses for something else ("text", "extension_elements",
    "extension_attributes", "encrypted_assertion" is a declared child where it matters) -/
def reservedMembers : List Name :=
  [0x0174657874, 0x01657874656e73696f6e5f656c656d656e7473, 0x01657874656e73696f6e5f61747472696275746573]

def classWf (cd : ClassDef) : Bool :=
  nodupQ (cd.children.map (·.key)) &&                -- dict keys
  nodupNat (members cd ++ cd.attrs.map (·.member) ++ reservedMembers) &&  -- one python attribute per member
  nodupNat (cd.attrs.map (·.name)) &&                 -- dict keys
  orderOk cd &&
  cd.attrs.all (fun a => !isNsDecl a.name) &&
  cd.attrInit.length == cd.attrs.length &&
  cd.defaults.all (fun p => (attrIdx cd.attrs p.1).isSome) &&
  (match cd.kind with
   | .plain => true
   | .attrValue => cd.children.isEmpty && cd.attrs.isEmpty && cd.defaults.isEmpty)

/-- the class a child declaration names has the tag the declaration is keyed by -/
def declSound (T : Nat → ClassDef) (d : ChildDecl) : Bool :=
  match d.cls with
  | some c => decide ((T c).tag = d.key)
  | none => false

/-- every class is well-formed and every child declaration is sound -/
def TableWf (T : Nat → ClassDef) : Prop := ∀ c, classWf (T c) = true ∧ ∀ d ∈ (T c).children, declSound T d = true

/-- the names AttributeValueBase uses are what the wire model assumes of them -/
def avConstsOk (K : AvConsts) : Bool :=
  isNsDecl K.xmlnsXs && isNsDecl K.xmlnsXsd && !isNsDecl K.xsiType && !isNsDecl K.xsiNil &&
  decide (K.xsiType ≠ K.xsiNil) && decide (K.xmlnsXs ≠ K.xmlnsXsd) && decide (K.xsd = [120, 115])

/-! ### instances -/

def nodupKeys (d : Attrs) : Bool := nodupNat (keysOf d)

mutual
def extWf : ExtEl → Bool
  | .mk _ _ attrs kids _ => nodupKeys attrs && extWfList kids
def extWfList : List ExtEl → Bool
  | [] => true
  | e :: r => extWf e && extWfList r
end

/- Instances: `strict = false` is the space the property quantifies over (members hold instances of
    the declared classes, singletons at most one, extension elements/attributes are foreign, i.e. not
    declared for the class, attribute dicts have unique keys); `strict = true` additionally excludes
    the recorded defect of classes with a parse-time attribute default — a `setdefault` in an overriding
    harvest_element_tree or a constructor default — (the attribute must be set). -/
mutual
def instOk (strict : Bool) (T : Nat → ClassDef) : Inst → Bool
  | .mk c as ss _ ee ea =>
    as.length == (T c).attrs.length &&
    slotsOk strict T (T c).children ss &&
    ee.all (fun e => (findDecl (T c).children e.qname).isNone) && extWfList ee &&
    nodupKeys ea && ea.all (fun p => (attrIdx (T c).attrs p.1).isNone) &&
    (!strict || ((T c).defaults.all fun p => dictHas (declaredAttrs (T c).attrs as) p.1) &&
                (as.zip (T c).attrInit).all fun p => p.1.isSome || p.2.isNone)
def slotsOk (strict : Bool) (T : Nat → ClassDef) : List ChildDecl → List (List Inst) → Bool
  | [], [] => true
  | d :: ds, s :: ss =>
    (d.isList || s.length ≤ 1) &&
    kidsOk strict T d.cls s && slotsOk strict T ds ss
  | _, _ => false
def kidsOk (strict : Bool) (T : Nat → ClassDef) (c : Option Nat) : List Inst → Bool
  | [] => true
  | k :: r => decide (some k.cls = c) && instOk strict T k && kidsOk strict T c r
end

abbrev instShape := instOk false
abbrev treeWf := instOk true

def noCR (s : Str) : Bool := s.all (· != 13)
def noCRo : Option Str → Bool
  | some s => noCR s
  | none => true

mutual
def extClean : ExtEl → Bool
  | .mk _ _ attrs kids text => attrs.all (fun p => !isNsDecl p.1) && noCRo text && extCleanList kids
def extCleanList : List ExtEl → Bool
  | [] => true
  | e :: r => extClean e && extCleanList r
end

/-- extension attributes of an AttributeValue that re-parsing reproduces: exactly what
    `AttributeValueBase.set_text` / a fresh instance would hold (see Props, `C12_attribute_value`) -/
def avCanonical (K : AvConsts) (conv : Conv) (ea : Attrs) (text : Option Str) (hasExt : Bool) : Bool :=
  match normEmpty text with
  | none =>
    ea.all (fun p => !isNsDecl p.1) &&
    (if hasExt then !dictHas ea K.xsiNil
     else match ea with
       | (k, _) :: _ => decide (k = K.xsiNil)
       | [] => false)
  | some t =>
    let base := ea.filter fun p => !isNsDecl p.1
    let ns := (avTypeParts K ea).1
    let tn := (avTypeParts K ea).2
    let typ := if ns = [] then tn else ns ++ [58] ++ tn
    !dictHas ea K.xsiNil && (!hasExt || decide (strip t = t)) &&
    decide (dictGet ea K.xsiType = some typ) && decide (typ ≠ []) &&
    decide (convert conv ((typeKind tn).getD .str) t = some t) &&
    decide (ea = base ++ (if sXsColon.isPrefixOf typ then [(K.xmlnsXs, K.xsNs)] else []) ++
                     (if sXsdColon.isPrefixOf typ then [(K.xmlnsXsd, K.xsNs)] else []))

/- what the wire cannot carry (a carriage return in text, an extension attribute that is a
    namespace declaration) is absent; AttributeValue nodes are canonical -/
mutual
def wireClean (E : Env) : Inst → Bool
  | .mk c _ ss t ee ea =>
    noCRo t && extCleanList ee && slotsClean E ss &&
    (match (E.T c).kind with
     | .plain => ea.all fun p => !isNsDecl p.1
     | .attrValue => avCanonical E.K E.conv ea t (!ee.isEmpty))
def slotsClean (E : Env) : List (List Inst) → Bool
  | [] => true
  | s :: r => listClean E s && slotsClean E r
def listClean (E : Env) : List Inst → Bool
  | [] => true
  | k :: r => wireClean E k && listClean E r
end

/-! ### the comparison the property makes: "the same attributes, text, children and extensions",
    where an empty text and no text are the same text (XML cannot tell them apart) -/

mutual
def normExt : ExtEl → ExtEl
  | .mk ns tag attrs kids text => .mk ns tag attrs (normExtList kids) (normEmpty text)
def normExtList : List ExtEl → List ExtEl
  | [] => []
  | e :: r => normExt e :: normExtList r
end

mutual
def normInst : Inst → Inst
  | .mk c as ss t ee ea => .mk c as (normSlots ss) (normEmpty t) (normExtList ee) ea
def normSlots : List (List Inst) → List (List Inst)
  | [] => []
  | s :: r => normList s :: normSlots r
def normList : List Inst → List Inst
  | [] => []
  | k :: r => normInst k :: normList r
end

/-- outcome of `cls_from_string(str(obj))` as the harness observes it -/
inductive RtOut where
  | raised                               -- serialising or re-parsing raised / the result is unusable
  /-- re-parsed object; `str(o) == str(obj)`; the tags of the root's children in the written document -/
  | obj (o : Inst) (sameBytes : Bool) (kidTags : List QName)

/-- "children (in schema order)": for each member in `_get_all_c_children_with_order` order one element
    with the declared tag per child of that member, then the extension elements -/
def expectedOrder (T : Nat → ClassDef) : Inst → List QName
  | .mk c _ ss _ ee _ =>
    ((memberOrder (T c)).flatMap fun m =>
      match idxOf (members (T c)) m with
      | some j => (ss.getD j []).map fun _ => (((T c).children[j]?).map (·.key)).getD default
      | none => []) ++ ee.map (·.qname)

/-- C12, first sentence, as a checker on the observed outcome -/
def specRoundTrip (T : Nat → ClassDef) (i : Inst) : RtOut → Bool
  | .raised => false
  | .obj o same tags => decide (normInst o = normInst i) && same && decide (tags = expectedOrder T i)

/-- The same for the extension-element form of serialisation (`element_to_extension_element(obj).to_string()`),
    which by construction writes the extension children first: the order conjunct is dropped, the second
    serialisation is taken through the same form. -/
def specRoundTripExt (i : Inst) : RtOut → Bool
  | .raised => false
  | .obj o same _ => decide (normInst o = normInst i) && same

/-- constructor defaults of the table: (class tag, attribute) pairs where a fresh `cls()` holds a value for a
    declared attribute that no `setdefault` prologue overrides -/
def ctorDefaultPairs (l : List ClassDef) : List (QName × Name) :=
  l.flatMap fun cd => (cd.attrs.zip cd.attrInit).filterMap fun p =>
    if p.2.isSome && !(cd.defaults.any fun d => d.1 == p.1.name) then some (cd.tag, p.1.name) else none

/-- the model's outcome -/
def modelRoundTrip (E : Env) (i : Inst) : RtOut :=
  if !classSerialisable (E.T i.cls) || roundTripRaises E i then .raised
  else .obj (roundTrip E i) (decide (emit (serialise E.T (roundTrip E i)) = emit (serialise E.T i)))
    ((wire (serialise E.T i)).kids.map (·.tag))

/-! ### parsing a document written by someone else -/

/-- "never drops unknown children or attributes (they surface as extensions)", and what is declared
    arrives in its member: `o` accounts for everything in `x`.
    * every child whose tag the class does not declare is an extension element, in document order;
    * every attribute the class does not declare is an extension attribute, in document order
      (for AttributeValue the xsi bookkeeping may add/remove `xsi:nil`, `xsi:type`, `xmlns:xs[d]`, so
      there only the foreign ones are compared);
    * every declared attribute present has its value; every child of a declared list member is in
      that member, in document order, itself accounted for; a declared singleton child that occurs
      once is in its member (the text says nothing about a singleton that occurs twice). -/
def foreignAttr (K : AvConsts) (p : Name × Str) : Bool :=
  !(p.1 == K.xsiNil) && !(p.1 == K.xsiType) && !(p.1 == K.xmlnsXs) && !(p.1 == K.xmlnsXsd)

mutual
def specParse (E : Env) (c : Nat) (x : XNode) : Inst → Bool
  | .mk c' as ss t ee ea =>
    decide (c' = c) &&
    decide (ee = toExtList (x.kids.filter fun k => (findDecl (E.T c).children k.tag).isNone)) &&
    (match (E.T c).kind with
     | .plain =>
       decide (ea = x.attrs.filter fun p => (attrIdx (E.T c).attrs p.1).isNone) &&
       decide (normEmpty t = normEmpty x.text)
     | .attrValue =>
       decide (ea.filter (foreignAttr E.K) = x.attrs.filter (foreignAttr E.K))) &&
    decide (as.length = (E.T c).attrs.length) &&
    (List.range as.length).all (fun j =>
      match (E.T c).attrs[j]? with
      | some d => (match dictGet x.attrs d.name with
                   | some v => decide (as[j]? = some (some v))
                   | none => true)
      | none => true) &&
    specSlots E (E.T c).children x.kids ss
def specSlots (E : Env) (ds : List ChildDecl) (kids : List XNode) : List (List Inst) → Bool
  | [] => ds.isEmpty
  | s :: r =>
    match ds with
    | [] => false
    | d :: ds' =>
      let mine := kids.filter fun k => decide (k.tag = d.key)
      (match d.cls with
       | some c' => if d.isList || mine.length ≤ 1 then specKids E c' mine s else true
       | none => mine.isEmpty) &&
      specSlots E ds' kids r
def specKids (E : Env) (c : Nat) (xs : List XNode) : List Inst → Bool
  | [] => xs.isEmpty
  | k :: r =>
    match xs with
    | [] => false
    | x :: xs' => specParse E c x k && specKids E c xs' r
end

/- element trees as a parser delivers them: attribute names unique on every element -/
mutual
def xWf : XNode → Bool
  | .mk _ attrs _ kids => nodupKeys attrs && xWfList kids
def xWfList : List XNode → Bool
  | [] => true
  | k :: r => xWf k && xWfList r
end

/-- outcome of `cls_from_string(document)` as the harness observes it -/
def specDoc (E : Env) (c : Nat) (dtd : List DtdDecl) (x : XNode) : ParseResult → Bool
  | .refused => dtd.any DtdDecl.isEntity                 -- refusing is right exactly for entity-declaring documents
  | .notThisClass => !dtd.any DtdDecl.isEntity && decide (x.tag ≠ (E.T c).tag)
  -- the only refusal of an entity-free document of the right class the code is known for: typed
  -- AttributeValue content that does not convert (ValueError); the property is silent about it
  | .raised => !dtd.any DtdDecl.isEntity && decide (x.tag = (E.T c).tag) && raises E c x
  | .obj o => !dtd.any DtdDecl.isEntity && decide (x.tag = (E.T c).tag) && specParse E c x o

/-! ### schema-ordered documents: "children (in schema order)" against an oracle outside the class tables.
    The harness renders a document whose root children are declared children of the class, ordered by the
    XSD sequence of the element (read from the shipped XSD files, not from `c_child_order`); parsing it and
    serialising the object must write the children in the same order. -/

/-- observed: the root child tags of `str(cls_from_string(document))`, or `none` when something raised -/
def specXsdOrder (x : XNode) (out : Option (List QName)) : Bool :=
  decide (out = some (x.kids.map (·.tag)))

/-- the model's answer -/
def modelXsdOrder (E : Env) (c : Nat) (x : XNode) : Option (List QName) :=
  if x.tag = (E.T c).tag && !raises E c x && classSerialisable (E.T c) then
    some ((wire (serialise E.T (harvest E c x))).kids.map (·.tag))
  else none

end ObjModel
