/-
  C16 — declarative specification with a decidable checker.  The checker is evaluated by the driver on
  the IMPLEMENTATION's observation (independent reading of the wire form, marker search, recipient's
  outcome) and proved of the model's observation in Props/C16.lean.

  Reading of the property text (see the report):
  * "encryption is requested and the recipient has an encryption certificate" = the flag is set (after
    keyword / configuration / default resolution; PEFIM requests advice encryption) and the certificate the
    call designates is usable: the explicit one if one is passed, else some metadata encryption certificate.
  * assertion encryption protects the assertion, the subject identifier and every attribute value; advice
    encryption protects the advice assertion and the attribute values it carries (under PEFIM: all of them).
  * a recipient without the right key / with damaged ciphertext gets nothing of what was encrypted: no
    identity at all when the assertion was encrypted, no advice attribute when only the advice was.
-/
import PysamlModel.Model.Encrypt
import PysamlModel.Spec.Sp

namespace Encrypt

/-! ### observations -/

inductive BodyKind where
  | clear | wrapped | sealed | other
deriving Repr, DecidableEq, Inhabited

inductive AdvKind where
  | none | clear | wrapped | sealed | other
deriving Repr, DecidableEq, Inhabited

inductive SpKind where
  | identity | none | rejected
deriving Repr, DecidableEq, Inhabited

inductive Ava3 where
  | full | none | other
deriving Repr, DecidableEq, Inhabited

/-- the wire form as an independent reader holding every private key sees it -/
structure WireObs where
  respSigned : Bool := false
  body : BodyKind := .other
  bodyKey : Option Key := none
  outerSigned : Option Bool := none
  advice : AdvKind := .none
  adviceKey : Option Key := none
  adviceSigned : Option Bool := none
deriving Repr, DecidableEq, Inhabited

structure SpObs where
  kind : SpKind := .none
  nameIdOk : Bool := false       -- the reported subject identifier is the issued one
  assertionOk : Bool := false    -- the assertion the recipient ends up with is the issued one
  avaOuter : Ava3 := .none       -- attribute values of the Response-level assertion: all / none / something else
  avaAdvice : Ava3 := .none
deriving Repr, DecidableEq, Inhabited

structure Obs where
  issued : Bool
  ops : List Op := []
  wire : WireObs := {}
  leak : Clear := ⟨false, false, false, false, false⟩
  tampered : Bool := false       -- a bit was actually flipped
  sp : SpObs := {}
deriving Repr, DecidableEq, Inhabited

/-- One case: the call, the recipient, the damage, and what the recipient's `Sp.process` needs. -/
structure Input where
  call : Call
  /-- issued through `create_ecp_authn_request_response` -/
  ecp : Bool := false
  /-- content shape: the identity (resp. the identity of an advice assertion handed in) has no attribute -/
  identityEmpty : Bool := false
  adviceIdentityEmpty : Bool := false
  rc : Recipient := {}
  tamper : Bool := false
  cfg : Sp.Cfg := {}
  env : Sp.Env := {}
  envelope : Sp.Response := {}
  content : Sp.Assertion := {}
deriving Repr, Inhabited

def Input.outerHasAttrs (i : Input) : Bool := !i.call.pefim && !i.identityEmpty
/-- under PEFIM the identity's values live in the advice assertion -/
def Input.adviceHasAttrs (i : Input) : Bool :=
  if i.call.pefim then !i.identityEmpty else i.call.extraAdvice && !i.adviceIdentityEmpty
def Input.hasAdvice (i : Input) : Bool := i.call.advice.isSome

/-! ### the model's observation -/

def bodyKind : Body → BodyKind
  | .clear _ => .clear
  | .wrapped _ => .wrapped
  | .sealed _ _ _ => .sealed

def advKind : Option AdvBox → AdvKind
  | none => .none
  | some (.clear _) => .clear
  | some (.wrapped _) => .wrapped
  | some (.sealed _ _ _) => .sealed

def AdvBox.adv : AdvBox → Adv
  | .clear a | .wrapped a | .sealed _ a _ => a

def wireObs (w : Wire) : WireObs :=
  let o := w.body.outer
  { respSigned := w.sig.isSome
    body := bodyKind w.body
    bodyKey := match w.body with | .sealed k _ _ => some k | _ => none
    outerSigned := some o.sig.isSome
    advice := advKind o.advice
    adviceKey := match o.advice with | some (.sealed k _ _) => some k | _ => none
    adviceSigned := o.advice.map (fun b => b.adv.signed) }

def Input.sent (i : Input) (w : Wire) : Wire := if i.tamper then w.damage else w

def spObs (i : Input) (s : Seen) (out : Sp.Outcome) : SpObs :=
  match out with
  | .identity o =>
    { kind := .identity
      nameIdOk := o.nameId == i.content.subject.bind (·.nameId)
      assertionOk := true
      avaOuter := if i.outerHasAttrs then .full else .none
      avaAdvice := if i.adviceHasAttrs && s.adviceVisible then .full else .none }
  | .noIdentity => { kind := .none }
  | .rejected _ => { kind := .rejected }

def Input.outcome (i : Input) (w : Wire) : Sp.Outcome :=
  Sp.process i.cfg i.env (toSp i.envelope i.content (receive i.rc (i.sent w)))

/-- what the entry point returns -/
def Input.issue (i : Input) : Except Refusal Issued :=
  if i.ecp then
    match createAuthnResponse i.call with
    | .error e => .error e
    | .ok iss => ecpWrap iss
  else createAuthnResponse i.call

def observe (i : Input) : Obs :=
  match i.issue with
  | .error _ => { issued := false }
  | .ok iss =>
    { issued := true
      ops := iss.ops
      wire := wireObs iss.wire
      leak := clearOf i.outerHasAttrs i.adviceHasAttrs iss.wire
      tampered := i.tamper && iss.wire.hasCiphertext
      sp := spObs i (receive i.rc (i.sent iss.wire)) (i.outcome iss.wire) }

/-! ### the specification -/

/-- The certificate the call designates is usable. -/
def certAvailable (arg : CertArg) (md : List MdKey) : Bool :=
  match arg with
  | .cert _ u => u
  | _ => md.any (fun m => m.use != .signing && m.usable)

/-- The recipient's certificates the call may encrypt to. -/
def candidates (arg : CertArg) (md : List MdKey) : List Key :=
  match arg with
  | .cert k _ => [k]
  | _ => (md.filter (fun m => m.use != .signing)).map (·.key)

def requestedA (c : Call) : Bool := c.opts.encryptAssertion
def requestedAdv (c : Call) : Bool := (c.opts.encryptedAdvice || c.pefim) && c.advice.isSome
def effA (c : Call) : Bool := requestedA c && certAvailable c.certAssertion c.md
def effAdv (c : Call) : Bool := requestedAdv c && certAvailable c.certAdvice c.md

/-- Some encryption is requested and every requested one has its certificate. -/
def wellPosed (c : Call) : Bool :=
  (requestedA c || requestedAdv c) && (!requestedA c || effA c) && (!requestedAdv c || effAdv c)

def Op.rank : Op → Nat
  | .signAdvice => 0 | .encAdvice _ => 1 | .signAssertion => 2 | .encAssertion _ => 3 | .signResponse => 4

/-- Signing/encryption order: an assertion is signed before it is encrypted, the advice is dealt with
    before the assertion that contains it is signed, the Response is signed last. -/
def opsOrdered : List Op → Bool
  | [] => true
  | [_] => true
  | a :: b :: rest => decide (a.rank < b.rank) && opsOrdered (b :: rest)

/-- "Otherwise valid and the recipient's signature policy satisfied": the recipient's model accepts the
    same Response with the assertion in clear and the requested signatures in place. -/
def plainVariant (i : Input) : Sp.Response :=
  let o := i.call.opts
  toSp i.envelope i.content
    { respSig := if o.signResponse then .valid else .absent
      asrtSig := if o.signAssertion then .valid else .absent
      encrypted := false, decryptable := true, adviceVisible := true }

def plainAccepted (i : Input) : Bool := (Sp.process i.cfg i.env (plainVariant i)).isIdentity

def keyHeld (rc : Recipient) (k : Option Key) : Bool :=
  match k with
  | some k => rc.holds k
  | none => false

def keyAmong (l : List Key) (k : Option Key) : Bool :=
  match k with
  | some k => l.contains k
  | none => false

/-- S1: assertion encryption in effect ⇒ nothing of the assertion is readable. -/
def specConfA (i : Input) (o : Obs) : Bool :=
  !(effA i.call && o.issued) ||
  (o.wire.body == .sealed && !o.leak.assertion && !o.leak.adviceAssertion && !o.leak.nameId &&
   !o.leak.attrsOuter && !o.leak.attrsAdvice)

/-- S2: advice encryption in effect ⇒ neither the advice assertion nor its attribute values are readable. -/
def specConfAdv (i : Input) (o : Obs) : Bool :=
  !(effAdv i.call && o.issued) || (!o.leak.adviceAssertion && !o.leak.attrsAdvice)

/-- S3: every combination of the flags yields a Response.  (Not demanded of the ECP entry point: it raises
    whenever the Response has been turned into text, i.e. whenever anything was signed or encrypted - the model
    follows the code there, and a refusal leaks nothing.) -/
def specIssued (i : Input) (o : Obs) : Bool := !wellPosed i.call || i.ecp || o.issued

/-- S4: whatever is sealed is sealed for one of the recipient's certificates the call designates. -/
def specKey (i : Input) (o : Obs) : Bool :=
  !o.issued ||
  ((o.wire.body != .sealed || keyAmong (candidates i.call.certAssertion i.call.md) o.wire.bodyKey) &&
   (o.wire.advice != .sealed || keyAmong (candidates i.call.certAdvice i.call.md) o.wire.adviceKey))

/-- S5: the holder of the matching key(s) recovers exactly what was issued. -/
def specRecover (i : Input) (o : Obs) : Bool :=
  !(wellPosed i.call && o.issued && !o.tampered &&
    (o.wire.body != .sealed || keyHeld i.rc o.wire.bodyKey) &&
    (o.wire.advice != .sealed || keyHeld i.rc o.wire.adviceKey) && plainAccepted i) ||
  (o.sp.kind == .identity && o.sp.nameIdOk && o.sp.assertionOk &&
   o.sp.avaOuter == (if i.outerHasAttrs then .full else .none) &&
   o.sp.avaAdvice == (if i.adviceHasAttrs then .full else .none))

/-- S6: without the matching key nothing of what was sealed is obtained. -/
def specWrongKey (i : Input) (o : Obs) : Bool :=
  !o.issued ||
  ((!(o.wire.body == .sealed && !keyHeld i.rc o.wire.bodyKey) || o.sp.kind != .identity) &&
   (!(o.wire.advice == .sealed && !keyHeld i.rc o.wire.adviceKey) || o.sp.kind != .identity || o.sp.avaAdvice == .none))

/-- S7: a flipped bit in the ciphertext or the wrapped key: nothing of what was sealed is obtained. -/
def specCorrupt (_i : Input) (o : Obs) : Bool :=
  !(o.issued && o.tampered) ||
  (if o.wire.body == .sealed then o.sp.kind != .identity
   else o.sp.kind != .identity || o.sp.avaAdvice == .none)

/-- S8: requested signatures are there and were computed in the right order. -/
def specOrder (i : Input) (o : Obs) : Bool :=
  !(wellPosed i.call && o.issued) ||
  ((!i.call.opts.signResponse || o.wire.respSigned) &&
   (!i.call.opts.signAssertion || o.wire.outerSigned == some true) &&
   opsOrdered o.ops)

def specClauses (i : Input) (o : Obs) : List (String × Bool) :=
  [("confidential-assertion", specConfA i o), ("confidential-advice", specConfAdv i o),
   ("issued", specIssued i o), ("key-of-recipient", specKey i o), ("recoverable", specRecover i o),
   ("wrong-key", specWrongKey i o), ("corrupt", specCorrupt i o), ("signature-order", specOrder i o)]

def spec (i : Input) (o : Obs) : Bool :=
  specConfA i o && specConfAdv i o && specIssued i o && specKey i o && specRecover i o &&
  specWrongKey i o && specCorrupt i o && specOrder i o

/-! ### where a flag comes from

  The property speaks of encryption / signing being "requested".  A request can come from the keyword
  argument, from the idp configuration, or from `param_defaults`; an OMITTED argument stands for the documented
  signature default of `create_authn_response` - `None` (= ask the configuration) for `sign_response`,
  `sign_assertion`, `encrypt_assertion`; `False` for `encrypted_advice_attributes`; `True` for
  `encrypt_assertion_self_contained`.  These are the property's constants; the model takes the CURRENT ones
  from the regenerated `Gen/EncryptDefaults.lean`, and `C16_entry_defaults` pins the two together. -/

def propSig : Opts Tri := ⟨none, none, none, some false, some true⟩

/-! ### histories

  One long-lived IdP (and one long-lived recipient) answers a sequence of calls while the metadata store
  changes between them (reload: certificates added, removed, rotated; several recipients interleaved).  The
  model is a function of the call and of the store in force AT THAT CALL (`Call.md`) and of nothing else, so a
  history is just the list of its steps; the specification of a history is the per-call specification of
  every step.  That the implementation carries no state from one call to the next is not a theorem: it is
  what the correspondence over histories checks. -/

def observeHistory (steps : List Input) : List Obs := steps.map observe

def specHistory (steps : List Input) (obs : List Obs) : Bool :=
  decide (steps.length = obs.length) && (steps.zip obs).all (fun p => spec p.1 p.2)

/-! ### the input classes of the two defects repaired by 130fd4d2 / 9b391349

  No theorem depends on them any more; the driver reports them so that the harness can name the root
  cause should the old behaviour return (it then surfaces as a VIOLATION). -/

/-- `_response` used to return early ("only the extra parts are to be signed") before the advice was encrypted. -/
def earlyReturnClass (c : Call) : Bool :=
  let o := c.opts
  effAdv c && o.signAssertion && !o.encryptAssertion && !o.signResponse

/-- An encryption step runs on a message that is still an object (not self-contained, nothing signed just
    before): `pre_encrypt_assertion` used to be applied twice, the assertion was lost and the call raised. -/
def objectFormClass (c : Call) : Bool :=
  let o := c.opts
  let sc := o.selfContained || c.pefim
  (effA c && !sc && !o.signAssertion) ||
  (effAdv c && !sc && !(o.signAssertion && !c.pefim))

end Encrypt
