/-
  C19 — declarative specification with a decidable checker.  The checker walks over a TRACE
  (operation, result, observation after the operation) and keeps only the bookkeeping the property
  text itself talks about:

  * `live`  — the logins accepted since their subject's session last ended (a session is "there"
              exactly while `users.subjects()` lists the subject);
  * `ops`   — per logout operation: its subject, the involved identity providers that have not
              answered yet, the deadline;
  * `reqOp` — which logout operation each LogoutRequest belongs to.

  Clauses checked at every step (names = `Fail` constructors):
  * `leak` / `expired` / `loggedIn`: whatever a read returns for subject s (and issuers E) was stored
    by a live login of s (from an issuer in E), and — unless the caller switched the check off — that
    login is not past its not-on-or-after time (`nooa ≠ 0 ∧ now > nooa`; the second `now = nooa` and
    logins without an expiry are left open);
  * `presence` / `sources`: a step changes the session of at most the one subject it is about;
    rejected logins, reads, clock advances, responses that answer no pending request and logout
    requests naming somebody else change nothing;
  * `notEnded` / `presence`: a logout step ends the subject's session exactly when the
    last involved identity provider has answered or the deadline has passed;
  * `pendingRemoved` / `pendingAdded` / `answeredStillPending`: a pending request disappears only by
    being answered, and once answered it is not pending any more (a duplicate answers nothing); new ones
    appear only while a logout operation is being processed, for providers still involved in it;
  * `sentNotPending`: a LogoutRequest that `do_logout` hands to its caller for the front channel
    (Redirect / POST) is pending afterwards — in the store the application observes — otherwise its
    answer could never be consumed and the session could never end;
  * `request`: every LogoutRequest sent names the subject of the operation, goes to
    a provider still involved (one that has not answered yet), and carries the session index of a live
    login of that subject at that provider;
  * `status`: an IdP-initiated request is answered `Success` only if it named the current subject and
    that subject's session is gone.
  * `afterSoap f`: clause `f` was violated while processing a logout operation in which an answer
    received over SOAP had been counted (used only to classify the known finding).

  Left open on purpose (the text is silent): what a pending request's answer does when it comes from
  a provider the operation is not (or no longer) waiting for — duplicates of a re-issued request,
  foreign issuers —; the session may end then, it may not appear.  A logout of a subject whose cache
  entry lists no issuer at all is likewise unconstrained.

  `countSoap = true` is the property as stated (an identity provider that answered over SOAP has
  answered); `countSoap = false` describes the code as it is (SOAP answers are not counted: finding
  C19/soap-answer-not-counted).  The driver evaluates `countSoap = true` on the implementation.
-/
import PysamlModel.Model.Session

namespace Session

structure Live where
  s : Subj
  i : Idp
  info : Info
deriving DecidableEq, Repr

/-- A logout operation as the property sees it. -/
structure GOp where
  subj : Subj
  remaining : List Idp       -- involved identity providers that have not answered yet
  expire : Option Int
  soap : Bool                -- some involved provider answered over SOAP
deriving DecidableEq, Repr

structure Ghost where
  now : Int
  stepNo : Nat := 0
  last : Option ReqId := none
  live : List Live := []
  ops : List (Nat × GOp) := []
  reqOp : List (ReqId × Nat) := []
deriving Repr

inductive Fail where
  | leak | expired | loggedIn
  | presence | sources
  | notEnded
  | pendingRemoved | pendingAdded | answeredStillPending | sentNotPending
  | request | status
  | afterSoap (f : Fail)   -- the clause was violated while processing a logout operation in which an
                           -- answer received over SOAP has been counted
deriving DecidableEq, Repr

def Fail.name : Fail → String
  | .leak => "leak" | .expired => "expired" | .loggedIn => "logged-in-without-live-login"
  | .presence => "session-changed" | .sources => "sources-changed"
  | .notEnded => "session-not-ended"
  | .pendingRemoved => "pending-removed-without-answer" | .pendingAdded => "request-not-allowed-pending"
  | .answeredStillPending => "answered-request-still-pending"
  | .sentNotPending => "front-channel-request-handed-out-but-not-pending"
  | .request => "request-not-allowed-or-not-naming-subject" | .status => "status"
  | .afterSoap f => f.name ++ "-after-soap-answer"

/-- Past its not-on-or-after time (0 = no expiry known). -/
def expired (now nooa : Int) : Bool := decide (nooa ≠ 0) && decide (nooa < now)

/-- Is there a live login of `s` (from one of `ents`, unexpired if `check`) satisfying `p`? -/
def liveFor (g : Ghost) (s : Subj) (ents : List Idp) (check : Bool) (p : Live → Bool) : Bool :=
  g.live.any (fun l => decide (l.s = s) && (ents.isEmpty || decide (l.i ∈ ents)) &&
    (!check || !expired g.now l.info.nooa) && p l)

def hasValue (k v : Nat) (l : Live) : Bool := l.info.ava.any (fun kv => decide (kv.1 = k) && decide (v ∈ kv.2))

def identityOk (g : Ghost) (s : Subj) (ents : List Idp) (check : Bool) (ava : Ava) : Bool :=
  ava.all (fun kv => kv.2.all (fun v => liveFor g s ents check (hasValue kv.1 v)))

def infoOk (g : Ghost) (s : Subj) (i : Idp) (check : Bool) (x : Info) (subj : Subj) : Bool :=
  decide (subj = s) && liveFor g s [i] check (fun l => decide (l.info = x))

/-- (sound, and if not: sound when expiry is ignored) for a read step. -/
def readOk (g : Ghost) (check : Bool) : Op → Out → Bool
  | .identity s ents _, .identity ava _ => identityOk g s ents check ava
  | .info s i _, .info x subj => infoOk g s i check x subj
  | _, _ => true

def readCheck : Op → Bool
  | .identity _ _ c => c
  | .info _ _ c => c
  | _ => false

inductive Expect where
  | same     -- the session neither ends nor appears
  | ends     -- the session must be gone afterwards
  | keeps    -- it may appear, it must not end
  | free     -- it may end, it must not appear
deriving DecidableEq, Repr

def presenceOk : Expect → Bool → Bool → Bool
  | .same, b, a => b == a
  | .ends, _, a => !a
  | .keeps, b, a => !b || a
  | .free, b, a => !a || b

def emitted : Out → List Sent
  | .sent r => r
  | .error _ r => r
  | _ => []

/-- Identity providers that answered synchronously over SOAP during this step. -/
def soapAnswered (countSoap : Bool) (cfg : Cfg) (out : Out) : List Idp :=
  if countSoap then
    ((emitted out).filter (fun r => decide (cfg.bind r.id.idp = .soap) && decide (cfg.soapMode r.id.idp = .ok))).map (·.id.idp)
  else []

def removeAll (l xs : List Idp) : List Idp := l.filter (fun j => !decide (j ∈ xs))

/-- What the property lets a step do. -/
structure Plan where
  soi : Option Subj := none          -- the one subject whose session the step may touch
  expect : Expect := .same           -- what must happen to that session
  soapFlag : Bool := false           -- (for the failure class) a SOAP answer was counted in this operation
  opId : Option Nat := none          -- logout operation being processed: new requests belong to it
  allowed : List Idp := []           -- providers new requests may go to
  consumed : Option ReqId := none    -- pending request this step answers
  ops : List (Nat × GOp)             -- operations afterwards
deriving Repr

def planOf (cs : Bool) (cfg : Cfg) (g : Ghost) (before : Obs) (op : Op) (out : Out) : Plan :=
  match op with
  | .login l => if l.kind = .ok then { soi := some l.s, expect := .keeps, ops := g.ops } else { ops := g.ops }
  | .reset s _ => { soi := some s, expect := .keeps, ops := g.ops }
  | .logout s expire =>
    if s ∈ before.subjects then
      let inv := (Dict.get? s before.sources).getD []
      if deadlinePassed g.now expire then { soi := some s, expect := .ends, ops := g.ops }
      else
        let ans := soapAnswered cs cfg out
        let rem := removeAll inv ans
        { soi := some s, expect := if inv.isEmpty then .free else if rem.isEmpty then .ends else .same,
          soapFlag := !ans.isEmpty, opId := some g.stepNo, allowed := inv,
          ops := Dict.set g.stepNo { subj := s, remaining := rem, expire := expire, soap := !ans.isEmpty } g.ops }
    else { ops := g.ops }
  | .resp sel issuer =>
    let irt := resolve before.pending g.last sel
    match irt with
    | none => { ops := g.ops }
    | some rid =>
      if rid ∈ before.pending then
        match (Dict.get? rid g.reqOp).bind (fun o => (Dict.get? o g.ops).map (fun gop => (o, gop))) with
        | none => { ops := g.ops }      -- a pending request of no known logout operation: may not be consumed
        | some (o, gop) =>
          let x := issuerOf irt issuer
          if x ∈ gop.remaining then
            let rem' := gop.remaining.erase x
            if rem'.isEmpty then
              { soi := some gop.subj, expect := .ends, soapFlag := gop.soap, opId := some o, consumed := some rid,
                ops := Dict.set o { gop with remaining := [] } g.ops }
            else if deadlinePassed g.now gop.expire then
              { soi := some gop.subj, expect := .ends, soapFlag := gop.soap, opId := some o, consumed := some rid,
                ops := Dict.set o { gop with remaining := rem' } g.ops }
            else
              let ans := soapAnswered cs cfg out
              let rem'' := removeAll rem' ans
              { soi := some gop.subj, expect := if rem''.isEmpty then .ends else .same,
                soapFlag := gop.soap || !ans.isEmpty, opId := some o, allowed := rem', consumed := some rid,
                ops := Dict.set o { gop with remaining := rem'', soap := gop.soap || !ans.isEmpty } g.ops }
          else
            -- an answer from a provider that is not (or no longer) awaited: the text is silent
            { soi := some gop.subj, expect := .free, soapFlag := gop.soap, opId := some o, consumed := some rid,
              ops := g.ops }
      else { ops := g.ops }
  | .slo named current _ _ =>
    if named = current then { soi := some current, expect := .free, ops := g.ops } else { ops := g.ops }
  | _ => { ops := g.ops }

def expectFor (p : Plan) (s : Subj) : Expect := if p.soi = some s then p.expect else .same

/-- The session the step had to end is gone. -/
def endsOk (p : Plan) (after : Obs) : Bool :=
  match p.soi with
  | some s => if p.expect = .ends then !decide (s ∈ after.subjects) else true
  | none => true

/-- Every other presence requirement. -/
def presenceAllOk (p : Plan) (before after : Obs) : Bool :=
  (before.subjects ++ after.subjects).all (fun s =>
    (decide (p.soi = some s) && decide (p.expect = .ends)) ||
      presenceOk (expectFor p s) (decide (s ∈ before.subjects)) (decide (s ∈ after.subjects)))

def sourcesOk (p : Plan) (op : Op) (before after : Obs) : Bool :=
  (before.subjects ++ after.subjects).all (fun s =>
    if p.soi = some s then
      match op with
      | .login l => ((Dict.get? s after.sources).getD []).all (fun j =>
          decide (j = l.i) || decide (j ∈ (Dict.get? s before.sources).getD []))
      | _ => true
    else decide (Dict.get? s after.sources = Dict.get? s before.sources))

def pendingRemovedOk (p : Plan) (before after : Obs) : Bool :=
  before.pending.all (fun rid => decide (rid ∈ after.pending) || decide (p.consumed = some rid))

def pendingAddedOk (g : Ghost) (p : Plan) (before after : Obs) : Bool :=
  after.pending.all (fun rid => decide (rid ∈ before.pending) ||
    (decide (rid.step = g.stepNo) && p.opId.isSome && decide (rid.idp ∈ p.allowed)))

/-- The request the step answered is not pending any more. -/
def consumedGoneOk (p : Plan) (after : Obs) : Bool :=
  match p.consumed with
  | some rid => !decide (rid ∈ after.pending)
  | none => true

/-- Every front-channel request handed to the caller is pending afterwards. -/
def sentPendingOk (out : Out) (after : Obs) : Bool :=
  match out with
  | .sent reqs => reqs.all (fun r => decide (r.b = .soap) || decide (r.id ∈ after.pending))
  | _ => true

def requestOk (cfg : Cfg) (g : Ghost) (p : Plan) (out : Out) : Bool :=
  (emitted out).all (fun r =>
    decide (p.soi = some r.subj) && decide (r.id.step = g.stepNo) && decide (r.id.idp ∈ p.allowed) &&
    decide (r.b = cfg.bind r.id.idp) &&
    (r.sidx.isNone || g.live.any (fun l => decide (l.s = r.subj) && decide (l.i = r.id.idp) && decide (l.info.sidx = r.sidx))))

def statusOk (op : Op) (out : Out) (after : Obs) : Bool :=
  match op, out with
  | .slo named current _ _, .slo .success => decide (named = current) && !decide (current ∈ after.subjects)
  | _, _ => true

def register (ids : List ReqId) (o : Nat) (m : List (ReqId × Nat)) : List (ReqId × Nat) :=
  ids.foldl (fun acc rid => Dict.set rid o acc) m

/-- Bookkeeping after the step. -/
def ghostNext (g : Ghost) (p : Plan) (op : Op) (before after : Obs) : Ghost :=
  { now := match op with | .advance dt => g.now + dt | _ => g.now
    stepNo := g.stepNo + 1
    last := match op with | .resp sel _ => resolve before.pending g.last sel | _ => g.last
    live := (match op with
        | .login l => if l.kind = LoginKind.ok then ({ s := l.s, i := l.i, info := l.info } : Live) :: g.live else g.live
        | _ => g.live).filter (fun l => decide (l.s ∈ after.subjects))
    ops := p.ops
    reqOp := match p.opId with
      | some o => register (after.pending.filter (fun rid => decide (rid.step = g.stepNo))) o g.reqOp
      | none => g.reqOp }

def loggedInOk (g : Ghost) (after : Obs) : Bool :=
  after.loggedIn.all (fun s => liveFor g s [] true (fun _ => true))

def flag (ok : Bool) (f : Fail) : List Fail := if ok then [] else [f]

/-- Check one step; returns the violated clauses and the bookkeeping afterwards. -/
def specStep (cs : Bool) (cfg : Cfg) (g : Ghost) (before : Obs) (e : Ev) : List Fail × Ghost :=
  let p := planOf cs cfg g before e.op e.out
  let g' := ghostNext g p e.op before e.obs
  let mark : Fail → Fail := fun f => if p.soapFlag then .afterSoap f else f
  let fails :=
    (if readOk g (readCheck e.op) e.op e.out then []
     else if readOk g false e.op e.out then [Fail.expired] else [Fail.leak]) ++
    flag (endsOk p e.obs) (mark .notEnded) ++
    flag (presenceAllOk p before e.obs) .presence ++
    flag (sourcesOk p e.op before e.obs) .sources ++
    flag (pendingRemovedOk p before e.obs) .pendingRemoved ++
    flag (pendingAddedOk g p before e.obs) (mark .pendingAdded) ++
    flag (consumedGoneOk p e.obs) .answeredStillPending ++
    flag (sentPendingOk e.out e.obs) .sentNotPending ++
    flag (requestOk cfg g p e.out) (mark .request) ++
    flag (statusOk e.op e.out e.obs) .status ++
    flag (loggedInOk g' e.obs) .loggedIn
  (fails, g')

/-- Check a trace; returns (step number, violated clause) pairs. -/
def specTrace (cs : Bool) (cfg : Cfg) : Ghost → Obs → List Ev → List (Nat × Fail)
  | _, _, [] => []
  | g, before, e :: t =>
    let r := specStep cs cfg g before e
    r.1.map (fun f => (g.stepNo, f)) ++ specTrace cs cfg r.2 e.obs t

def Obs.empty : Obs := { subjects := [], sources := [], pending := [], loggedIn := [] }

/-- The decidable checker: a trace started from the empty client at time `now0` satisfies C19. -/
def specOk (cs : Bool) (cfg : Cfg) (now0 : Int) (tr : List Ev) : Bool :=
  (specTrace cs cfg { now := now0 } Obs.empty tr).isEmpty

/-- No identity provider is reached over SOAP. -/
def NoSoap (cfg : Cfg) : Prop := ∀ d ∈ cfg.idps, d.b ≠ .soap

instance (cfg : Cfg) : Decidable (NoSoap cfg) := by unfold NoSoap; infer_instance

end Session
