/-
  C13 — decidable specification, evaluated by the driver on the IMPLEMENTATION's output.

  * `specDoc`: a document emitted by a builder satisfies the property when it is valid against the
    regenerated schema set (`Validate.valid`, the Lean validator), the library's own schema oracle
    (`saml2.xml.schema.validate`, i.e. `xmlschema` over the shipped XSD files) accepts it, and the
    library's instance validation (`saml2.validate.valid_instance`) passes.  The last two verdicts
    are observed by the harness and passed in.
  * `specOrder`: the child-name sequence a class instance serialises to is in the language of the
    content model of its element's type (the part of validity `C13_order_partial` proves of the
    serialiser model).
-/
import PysamlModel.Model.Validate
import PysamlModel.Model.ClassOrder

namespace Validate

def specDoc (S : Schema) (t : XNode) (xsdOk instOk : Bool) : Bool :=
  valid S t && xsdOk && instOk

def specOrder (ps : List Particle) (tags : List QN) : Bool :=
  Re.matches Sym.sat (contentRe ps) tags

end Validate
