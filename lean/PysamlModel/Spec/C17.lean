/-
  C17 — declarative specification with decidable checkers, evaluated by the driver on the
  IMPLEMENTATION's output (and proved of the model's output in Props/C17.lean).

  What a map "gives" is read off the map dictionary itself (`sendDecl` / `recvDecl`: the list of
  declared pairs, no dictionary semantics): an identity key that is literally a key of "to" must be
  sent under the value written next to it; a wire name is known when some declared pair matches it
  (case-insensitively, surrounding white space ignored — that is what the lower-casing of the tables
  is for).  Where the declared pairs contradict each other (`ambiguous`) and wherever the property
  text is silent the checkers accept every outcome:
    * identity keys the sending map does not define, values that are not lists of strings
      (refusal is accepted for them; booleans/integers that are sent must read "true"/"false"/decimal),
    * wire attributes without a Name, with non-text values, with format `unspecified` when no map
      has that format, white-space-padded unknown names, an empty converter list.
-/
import PysamlModel.Model.AttrConv

namespace C17Spec
open AttrConv

variable {α : Type} [DecidableEq α]

/-- One declared pair: `key` is the look-up key (already normalised the way the tables are),
    `raw` the key as written when the pair is written in the direction it is used in. -/
structure Decl (α : Type) where
  raw : Option α
  key : α
  val : α
deriving Repr, DecidableEq

/-- local name → wire name pairs a map declares ("to"; the mirror image of "fro" if "to" is absent). -/
def sendDecl (ops : StrOps α) (m : MapDict α) : List (Decl α) :=
  match m.to, m.fro with
  | some t, _ => t.map fun p => ⟨some p.1, ops.lower p.1, p.2⟩
  | none, some f => (lowerKeys ops f).map fun p => ⟨none, ops.lower p.2, p.1⟩
  | none, none => []

/-- wire name → local name pairs a map declares ("fro"; the mirror image of "to" if "fro" is absent). -/
def recvDecl (ops : StrOps α) (m : MapDict α) : List (Decl α) :=
  match m.fro, m.to with
  | some f, _ => f.map fun p => ⟨none, ops.lower p.1, p.2⟩
  | none, some t => (lowerKeys ops t).map fun p => ⟨none, ops.lower p.2, p.1⟩
  | none, none => []

/-- What the specification reads off one map dictionary. -/
structure DeclMap (α : Type) where
  identifier : α
  send : List (Decl α)
  recv : List (Decl α)
deriving Repr

def declMap (ops : StrOps α) (m : MapDict α) : DeclMap α := ⟨m.identifier, sendDecl ops m, recvDecl ops m⟩

def allEq : List α → Bool
  | [] => true
  | a :: t => t.all (fun b => b = a)

inductive Resolution (α : Type) where
  | must (v : α)
  | ambiguous
  | undefined
deriving Repr, DecidableEq

def candidates (D : List (Decl α)) (q : α) : List α := (D.filter (fun d => d.key = q)).map (·.val)
def exact (D : List (Decl α)) (rawq : α) : List α := (D.filter (fun d => d.raw = some rawq)).map (·.val)

/-- What the declared pairs say about `rawq` (normalised: `q`): a literal declaration wins,
    otherwise the normalised matches, if they agree. -/
def resolve (D : List (Decl α)) (rawq q : α) : Resolution α :=
  match exact D rawq with
  | v :: t => if allEq (v :: t) then .must v else .ambiguous
  | [] =>
    match candidates D q with
    | [] => .undefined
    | v :: t => if allEq (v :: t) then .must v else .ambiguous

/-- No two declared pairs with the same look-up key disagree. -/
def coherentAt (D : List (Decl α)) (q : α) : Bool := allEq (candidates D q)
def coherentDecl (D : List (Decl α)) : Bool := D.all fun d => coherentAt D d.key
def coherent (ops : StrOps α) (m : MapDict α) : Bool :=
  coherentDecl (sendDecl ops m) && coherentDecl (recvDecl ops m)

/-- Every wire name the map sends is a wire name the map knows on receipt. -/
def roundTripWf (ops : StrOps α) (m : MapDict α) : Bool :=
  (sendDecl ops m).all fun d =>
    !ops.truthy d.val || (recvDecl ops m).any (fun r => r.key = ops.lower (ops.strip d.val))

def mapWf (ops : StrOps α) (m : MapDict α) : Bool := coherent ops m && roundTripWf ops m

def distinctFormats : List α → Bool
  | [] => true
  | a :: t => !t.contains a && distinctFormats t

/-- The map used for sending (`maps` = the maps that are attribute maps, in converter order). -/
def senderMap (maps : List (DeclMap α)) : Sender α → Option (DeclMap α)
  | .index i => maps[i]?
  | .format nf => maps.find? (fun m => m.identifier = nf)

/-! ### sending -/

def renderText (ops : StrOps α) : LVal α → Option α
  | .str s => some s
  | .bool b => some (ops.ofBool b)
  | .int i => some (ops.ofInt i)
  | .none => none

/-- The wire value carries the given value: as its text, or as the text of a single NameID element. -/
def carriesOk (ops : StrOps α) (v : LVal α) (w : WireValue α) : Bool :=
  match renderText ops v with
  | none => false
  | some r =>
    (w.ext.isEmpty && w.text = some r) ||
    (match w.ext with
     | [e] => e.text = v || e.text = .str r
     | _ => false)

def carriesAll (ops : StrOps α) : List (LVal α) → List (WireValue α) → Bool
  | [], [] => true
  | v :: vs, w :: ws => carriesOk ops v w && carriesAll ops vs ws
  | _, _ => false

def isStr : LVal α → Bool
  | .str _ => true
  | _ => false

/-- The entry's value is something other than a list of strings. -/
def nonStringEntry (e : α × LVals α) : Bool :=
  match e.2 with
  | .list vs => !vs.all isStr
  | .bare _ => true

/-- What the property demands of the wire attribute produced for one identity entry
    (`none`: nothing — the sending map does not define the key, or the value is not a list). -/
def wireExpectation (ops : StrOps α) (m : DeclMap α) (e : α × LVals α) : Option (WireAttr α → Bool) :=
  match e.2 with
  | .bare _ => none
  | .list vs =>
    if vs.any (fun v => (renderText ops v).isNone) then none else
    match resolve m.send e.1 (ops.lower e.1) with
    | .must v =>
      if ops.truthy v then
        some fun a => a.name = some v && a.nameFormat = some m.identifier && a.friendlyName = some e.1 &&
          (match a.values with
           | some ws => carriesAll ops vs ws
           | none => false)
      else none
    | _ => none

/-- Every expectation is met by some element, in order (a subsequence). -/
def matchSub {β : Type} : List (β → Bool) → List β → Bool
  | [], _ => true
  | _ :: _, [] => false
  | p :: ps, a :: as => if p a then matchSub ps as else matchSub (p :: ps) as

def specToWire (ops : StrOps α) (maps : List (DeclMap α)) (s : Sender α) (ava : List (α × LVals α))
    (out : Option (Res (List (WireAttr α)))) : Bool :=
  match senderMap maps s, out with
  | none, none => true
  | none, some _ => false
  | some _, none => false
  | some _, some .raised => ava.any nonStringEntry
  | some m, some (.ok l) => matchSub (ava.filterMap (wireExpectation ops m)) l

/-! ### receipt -/

inductive Expect (α : Type) where
  | must (k : α) (vs : List (RVal α))
  | drop
  | any
deriving Repr, DecidableEq

/-- `ava_from`'s reading of a text value: white space trimmed. -/
def trimmed (ops : StrOps α) (t : Option α) : α :=
  match t.filter ops.truthy with
  | some s => ops.strip s
  | none => ops.empty

def knownValues (ops : StrOps α) (vs : List (WireValue α)) : List (RVal α) :=
  vs.map fun v => .str (trimmed ops v.text)

/-- values of an attribute that is passed on under its wire name -/
def plainValues (ops : StrOps α) (vs : List (WireValue α)) : List (RVal α) :=
  vs.map fun v => .str (ops.strip (v.text.getD ops.empty))

def expectLocal (ops : StrOps α) (maps : List (DeclMap α)) (allow : Bool) (a : WireAttr α) : Expect α :=
  match a.name, a.values with
  | some n, some vs =>
    if vs.any (fun v => !v.ext.isEmpty) then .any else
    let unknown : Expect α :=
      if allow then (if ops.strip n = n then .must n (plainValues ops vs) else .any) else .drop
    if maps.isEmpty then
      (if a.nameFormat = some ops.empty || a.nameFormat = some ops.unspecified then .any else unknown)
    else
      match a.nameFormat with
      | none => unknown
      | some f =>
        let ms := maps.filter (fun m => m.identifier = f)
        if ms.isEmpty then (if f = ops.unspecified then .any else unknown)
        else
          match resolve (ms.flatMap (·.recv)) n (ops.lower (ops.strip n)) with
          | .must l => .must l (knownValues ops vs)
          | .undefined => unknown
          | .ambiguous => .any
  | _, _ => .any

def expectedDict (es : List (Expect α)) : Dict α (List (RVal α)) :=
  es.foldl (fun d e => match e with
    | .must k vs => Dict.extend d k vs
    | _ => d) []

/-- Same key/value pairs, in any order. -/
def dictEq {β : Type} [DecidableEq β] (a b : Dict α β) : Bool :=
  a.all (fun p => b.contains p) && b.all (fun p => a.contains p)

def isAny : Expect α → Bool
  | .any => true
  | _ => false

def specToLocal (ops : StrOps α) (maps : List (DeclMap α)) (allow : Bool) (attrs : List (WireAttr α))
    (out : Res (Dict α (List (RVal α)))) : Bool :=
  let es := attrs.map (expectLocal ops maps allow)
  if es.any isAny then true
  else match out with
    | .raised => false
    | .ok d => dictEq d (expectedDict es)

/-- Typed values: the specification is about the statement as parsed (the text of a value is its
    character content, for the XSD numeric / boolean / date types the canonical form Python computes);
    a statement with a value that does not fit its declared type is unconstrained. -/
def specParsed {β : Type} (parsed : Res β) (check : β → Bool) : Bool :=
  match parsed with
  | .raised => true
  | .ok x => check x

/-! ### receipt of several attribute statements (`AuthnResponse.get_identity`) -/

def mustKeys (es : List (Expect α)) : List α :=
  es.filterMap fun e => match e with
    | .must k _ => some k
    | _ => none

/-- some local name is demanded by two different statements -/
def collide : List (List α) → Bool
  | [] => false
  | ks :: rest => rest.any (fun ks' => ks.any fun k => ks'.contains k) || collide rest

/-- Every statement by itself as in `specToLocal`; the identity is the union of the statements'
    dictionaries.  The property does not say what happens when two statements carry the same local name
    (the code lets the later statement replace the earlier one): such inputs are unconstrained. -/
def specIdentity (ops : StrOps α) (maps : List (DeclMap α)) (allow : Bool) (stmts : List (List (WireAttr α)))
    (out : Res (Dict α (List (RVal α)))) : Bool :=
  let ess := stmts.map fun st => st.map (expectLocal ops maps allow)
  if ess.any (fun es => es.any isAny) then true
  else if collide (ess.map mustKeys) then true
  else match out with
    | .raised => false
    | .ok d => dictEq d (ess.foldl (fun acc es => Dict.update acc (expectedDict es)) [])

/-! ### send, then receive -/

inductive ExpectRT (α : Type) where
  | must (l : α) (vs : List (RVal α))     -- comes back under `l` with these values
  | lost                                   -- the receiving maps do not know the wire name that is sent
  | free                                   -- nothing demanded
deriving Repr, DecidableEq

def expectRT (ops : StrOps α) (maps : List (DeclMap α)) (m : DeclMap α) (e : α × LVals α) : ExpectRT α :=
  match e.2 with
  | .bare _ => .free
  | .list vs =>
    if vs.any (fun v => (renderText ops v).isNone) then .free else
    match resolve m.send e.1 (ops.lower e.1) with
    | .must v =>
      if !ops.truthy v then .free else
      let ms := maps.filter (fun m' => m'.identifier = m.identifier)
      match resolve (ms.flatMap (·.recv)) v (ops.lower (ops.strip v)) with
      | .must l =>
        if v = ops.eptidOid then
          (if l = ops.eptidLocal && vs.all isStr then .must l (vs.map fun x => .str (trimmed ops (renderText ops x)))
           else .free)
        else .must l (vs.map fun x => .str (trimmed ops (renderText ops x)))
      | .undefined => .lost
      | .ambiguous => .free
    | _ => .free

/-- Side condition of the round-trip theorem (finding `C17/eptid-empty-value`): an entry that goes out
    through the eduPersonTargetedID special case has no empty-string value. -/
def eptidValuesOk (ops : StrOps α) (m : DeclMap α) (e : α × LVals α) : Bool :=
  match resolve m.send e.1 (ops.lower e.1), e.2 with
  | .must v, .list vs =>
    !(v = ops.eptidOid) || vs.all (fun x => match x with
      | .str s => ops.truthy s
      | _ => true)
  | _, _ => true

def isLost : ExpectRT α → Bool
  | .lost => true
  | _ => false

/-- all values demanded under local name `l`, in identity order -/
def demanded (es : List (ExpectRT α)) (l : α) : List (RVal α) :=
  es.flatMap fun e => match e with
    | .must l' vs => if l' = l then vs else []
    | _ => []

def demandedKeys (es : List (ExpectRT α)) : List α :=
  es.filterMap fun e => match e with
    | .must l _ => some l
    | _ => none

def specRoundTrip (ops : StrOps α) (maps : List (DeclMap α)) (s : Sender α) (_allow : Bool)
    (ava : List (α × LVals α)) (out : Option (Res (Dict α (List (RVal α))))) : Bool :=
  match senderMap maps s, out with
  | none, none => true
  | none, some _ => false
  | some _, none => false
  | some _, some .raised => ava.any nonStringEntry
  | some m, some (.ok d) =>
    let es := ava.map (expectRT ops maps m)
    !es.any isLost &&
    (demandedKeys es).all fun l =>
      match Dict.get d l with
      | none => false
      | some got => (demanded es l).isSublist got

/-! ### decidable side conditions of the theorems (each excludes a recorded defect of the pinned code) -/

/-- The map dictionary used for sending. -/
def sendingMap (maps : List (MapDict α)) : Sender α → Option (MapDict α)
  | .index i => maps[i]?
  | .format nf => maps.find? (fun m => m.identifier = nf)

/-- For the keys of the identity, the sending map does not declare different wire names under local
    names that differ only in case (`C17/case-colliding-map-keys`). -/
def sendSide (ops : StrOps α) (maps : List (MapDict α)) (s : Sender α) (ava : List (α × LVals α)) : Bool :=
  match sendingMap maps s with
  | none => true
  | some m => ava.all fun e => coherentAt (sendDecl ops m) (ops.lower e.1)

/-- `sendSide`, the sending map knows on receipt every wire name it sends (what `C17_bundled_wf`
    establishes for the bundled maps), and `withEptid`: no empty-string value goes through the
    eduPersonTargetedID special case (`C17/eptid-empty-value`). -/
def rtSide (ops : StrOps α) (maps : List (MapDict α)) (s : Sender α) (ava : List (α × LVals α))
    (withEptid : Bool := true) : Bool :=
  match sendingMap maps s with
  | none => true
  | some m =>
    (ava.all fun e => coherentAt (sendDecl ops m) (ops.lower e.1)) && roundTripWf ops m &&
    (!withEptid || ava.all (eptidValuesOk ops (declMap ops m)))

/-! ### diagnostics for the harness (which entry fails, and how) — not part of the specification -/

def whyToWire (ops : StrOps α) (maps : List (DeclMap α)) (s : Sender α) (ava : List (α × LVals α))
    (out : Option (Res (List (WireAttr α)))) : List (String × α) :=
  match senderMap maps s, out with
  | some m, some (.ok l) =>
    ava.filterMap fun e => match wireExpectation ops m e with
      | some p => if l.any p then none else some ("wire-attribute-not-as-declared", e.1)
      | none => none
  | _, _ => []

def whyToLocal (ops : StrOps α) (maps : List (DeclMap α)) (allow : Bool) (attrs : List (WireAttr α))
    (out : Res (Dict α (List (RVal α)))) : List (String × α) :=
  match out with
  | .raised => []
  | .ok d =>
    let es := attrs.map (expectLocal ops maps allow)
    let want := expectedDict es
    (want.filterMap fun p => match Dict.get d p.1 with
      | none => some ("known-attribute-missing", p.1)
      | some got => if got = p.2 then none else some ("values-differ", p.1)) ++
    (d.filterMap fun p => match Dict.get want p.1 with
      | none => some ("unexpected-attribute", p.1)
      | some _ => none)

def whyIdentity (ops : StrOps α) (maps : List (DeclMap α)) (allow : Bool) (stmts : List (List (WireAttr α)))
    (out : Res (Dict α (List (RVal α)))) : List (String × α) :=
  match out with
  | .raised => []
  | .ok d =>
    let ess := stmts.map fun st => st.map (expectLocal ops maps allow)
    let want := ess.foldl (fun acc es => Dict.update acc (expectedDict es)) []
    (want.filterMap fun p => match Dict.get d p.1 with
      | none => some ("known-attribute-missing", p.1)
      | some got => if got = p.2 then none else some ("values-differ", p.1)) ++
    (d.filterMap fun p => match Dict.get want p.1 with
      | none => some ("unexpected-attribute", p.1)
      | some _ => none)

def whyRoundTrip (ops : StrOps α) (maps : List (DeclMap α)) (s : Sender α)
    (ava : List (α × LVals α)) (out : Option (Res (Dict α (List (RVal α))))) : List (String × α) :=
  match senderMap maps s, out with
  | some m, some (.ok d) =>
    let es := ava.map (expectRT ops maps m)
    ava.filterMap fun e => match expectRT ops maps m e with
      | .lost => some ("wire-name-unknown-on-receipt", e.1)
      | .must l _ => match Dict.get d l with
        | none => some ("attribute-lost", e.1)
        | some got => if (demanded es l).isSublist got then none else some ("value-lost", e.1)
      | .free => none
  | _, _ => []

end C17Spec
