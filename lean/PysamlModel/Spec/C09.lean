/-
  C09 — "Issued assertions are scoped to the requester and accepted end to end", as decidable
  checkers over (configuration, arguments) and what was produced.  The driver evaluates them on the
  IMPLEMENTATION's output (the Response read back by an independent XML reader, and the real SP's
  outcome); Props/C09.lean proves them of the model for all inputs.

  Where the property text is silent the checkers accept both outcomes:
  * no lifetime configured for the requester → the code's documented default (Defaults.lifetime);
  * NotBefore of the Conditions: absent or not later than the issue time;
  * algorithms: constrained only when an argument or the configuration names one;
  * a NameIDPolicy carrying an SPNameQualifier: "the policy-configured format" may be the
    requester's or the qualifier's;
  * the caller hands in a ready-made NameID (`name_id=`): its format is the caller's business;
  * the caller presets Method, Recipient or InResponseTo of the confirmation in `farg=`: that field is
    the caller's; every field NOT preset must be the default (the expiry is never the caller's);
  * `status=`: silent (only the end-to-end precondition asks for Success);
  * no Response is created at all (an exception leaves create_authn_response);
  * an assertion inside `<Advice>` (PEFIM's attribute assertion): scoped like the assertion that carries it
    (issuer, audience, validity, expiry of a confirmation); Recipient / InResponseTo may be absent; whether it
    is signed or encrypted is not this property's business (C16);
  * a Response without any assertion (an error Response): it must name the provider, answer the request, not
    claim Success and be signed as demanded — and the receiving SP must not take identity from it.
-/
import PysamlModel.Model.Idp

namespace C09
open Idp

/-! ### "the policy … for that requester" -/

/-- The default entry of a policy configuration: `default`, or `""` when that is missing/empty. -/
def defaultEntry (rs : List (String × Option PolicySpec)) : Option PolicySpec :=
  match lookupSpec rs "default" with
  | some s => if s.truthy then some s else lookupSpec rs ""
  | none => lookupSpec rs ""

/-- The most specific configured entry that applies to `sp`: its own, else its registration
    authority's, else the default entry. -/
def entryFor (p : Restrictions) (sp : String) (ra : Option String) : Option PolicySpec :=
  match p with
  | none => none
  | some rs => (lookupSpec rs sp <|> ra.bind (lookupSpec rs)) <|> defaultEntry rs

def specLifetime (d : Defaults) (p : Restrictions) (sp : String) (ra : Option String) : Int :=
  (((entryFor p sp ra).bind (·.lifetime)).getD d.lifetime).secs

def specPolicyFormat (d : Defaults) (p : Restrictions) (sp : String) (ra : Option String) : String :=
  ((entryFor p sp ra).bind (·.nameidFormat)).getD d.nameidFormat

/-! ### "as the call arguments or configuration demand" -/

/-- argument, else configuration, else not demanded -/
def demanded (arg cfg : Option Bool) : Bool := (arg <|> cfg).getD false

/-- the algorithm an argument or the configuration names, if any -/
def demandedAlg (arg cfg : Option String) : Option String :=
  if truthy arg then arg else if truthy cfg then cfg else none

def sigAsDemanded (demand : Bool) (alg dig : Option String) (s : Option SigInfo) : Bool :=
  match s with
  | none => !demand
  | some i => demand && alg.all (· == i.sigAlg) && dig.all (· == i.digestAlg)

/-! ### what a configuration value demands -/

/-- The forms whose meaning is not in doubt: booleans, the documented textual forms "true" / "false",
    "True", the empty string, integers.  Any other string (e.g. "False", "no") is read as true by the
    code; the property cannot say what such a spelling demands. -/
def formDefined : CfgVal → Bool
  | .str s => s == "true" || s == "false" || s == "True" || s == ""
  | _ => true

/-- What a configuration value of a defined form demands (`none` = says nothing). -/
def cfgReading : CfgVal → Option Bool
  | .unset => none
  | .bool b => some b
  | .str s => some (s == "true" || s == "True")
  | .int n => some (n != 0)

/-! ### the scoping clauses -/

variable {W : Type}

def policyOf (cfg : Cfg) (a : Args W) : Restrictions := a.releasePolicy.getD cfg.policy

def lifetimeOf (d : Defaults) (cfg : Cfg) (a : Args W) : Int :=
  specLifetime d (policyOf cfg a) a.spEntityId (cfg.ras.lookup a.spEntityId)

/-- What the caller's `farg=` tree presets (a preset field is the caller's business, like `name_id=`). -/
def preset {α : Type} (a : Args W) (field : Farg → Option α) : Bool := (a.farg.bind field).isSome

/-- Recipient / InResponseTo of one confirmation, each demanded unless the caller preset it; the expiry
    is demanded always (the property ties it to the policy; the code overwrites a preset one). -/
def confDataOk (a : Args W) (life : Int) (c : Conf) : Bool :=
  (preset a (·.recipient) || c.recipient == some a.destination) &&
  (preset a (·.irt) || c.irt == some a.inResponseTo) &&
  c.nooa == some (a.now + life)

/-- "carries bearer confirmation whose Recipient … InResponseTo … expiry …": there is a bearer
    confirmation and every bearer confirmation carries exactly these data (other methods: silent).
    When the caller presets the Method, the confirmation(s) made — whatever their method — carry them. -/
def confsOk (a : Args W) (life : Int) (cs : List Conf) : Bool :=
  let relevant (c : Conf) : Bool := preset a (·.method) || c.method == .bearer
  cs.any relevant && cs.all (fun c => !relevant c || confDataOk a life c)

/-- The success status the SP model tests for. -/
def successUri : String := "urn:oasis:names:tc:SAML:2.0:status:Success"

/-- The caller's shaping arguments leave the confirmation acceptable to the requester: Method not preset
    or bearer, Recipient / InResponseTo / NotBefore not preset, an Address only where the SP is not told
    the client address; `status=` absent or Success. -/
def shapingNeutral (d : Defaults) (a : Args W) (convInfo : Bool) : Bool :=
  (match a.farg with
   | none => true
   | some f =>
     (match f.method with | none => true | some m => m == d.bearer) &&
     f.recipient.isNone && f.irt.isNone && f.notBefore.isNone && (!truthy f.address || !convInfo)) &&
  (match a.status with
   | none => true
   | some st => st.top == successUri)

/-- the format the request asks for -/
def requestedFormat (a : Args W) : Option String :=
  match a.nameIdPolicy with
  | some p => if truthy p.format then p.format else none
  | none => none

/-- "uses the requested or policy-configured name-identifier format". -/
def formatOk (d : Defaults) (cfg : Cfg) (a : Args W) (n : Option NameId) : Bool :=
  match a.nameId with
  | some _ => true
  | none =>
    match n with
    | none => false
    | some n =>
      match requestedFormat a with
      | some f => n.format == some f
      | none =>
        let p := policyOf cfg a
        let q := effectiveSpnq a
        n.format == some (specPolicyFormat d p a.spEntityId (cfg.ras.lookup a.spEntityId)) ||
        n.format == some (specPolicyFormat d p q (cfg.ras.lookup q))

/-- The side condition that excludes the recorded defect: when the request names no format, the
    IdentDB holds no identifier `find_nameid` would return for this user and qualifier. -/
def noStoredReuse (a : Args W) : Bool :=
  (requestedFormat a).isSome || (findNameid a).isEmpty

/-- issuer, audience, confirmation data, validity: everything but the format and the signatures -/
def assertionCoreOk (d : Defaults) (cfg : Cfg) (a : Args W) (x : IssuedAssertion W) : Bool :=
  let life := lifetimeOf d cfg a
  x.issuer == some cfg.entityId &&
  x.audiences == [[a.spEntityId]] &&
  confsOk a life x.confs &&
  x.condNooa == some (a.now + life) &&
  (match x.condNb with | some t => decide (t ≤ a.now) | none => true)

def signaturesOk (cfg : Cfg) (a : Args W) (r : Issued W) : Bool :=
  let alg := demandedAlg a.signAlg cfg.signingAlg
  let dig := demandedAlg a.digestAlg cfg.digestAlg
  sigAsDemanded (demanded a.signResponse cfg.signResponse) alg dig r.sig &&
  r.assertions.all fun x => sigAsDemanded (demanded a.signAssertion cfg.signAssertion) alg dig x.sig

/-- All clauses except the NameID format. -/
def specCore (d : Defaults) (cfg : Cfg) (a : Args W) (out : Except Refusal (Issued W)) : Bool :=
  match out with
  | .error _ => true
  | .ok r =>
    r.issuer == some cfg.entityId && r.issueInstant == a.now && r.assertions.length == 1 &&
    r.assertions.all (assertionCoreOk d cfg a) && signaturesOk cfg a r

def specFormat (d : Defaults) (cfg : Cfg) (a : Args W) (out : Except Refusal (Issued W)) : Bool :=
  match out with
  | .error _ => true
  | .ok r => r.assertions.all fun x => formatOk d cfg a x.nameId

/-! ### advice assertions and error Responses (`Idp.issue`) -/

/-- One confirmation of an advice assertion: expiry as for the assertion itself; Recipient / InResponseTo absent,
    or the consumer URL / request ID, or the caller's (preset). -/
def adviceConfOk (a : Args W) (life : Int) (c : Conf) : Bool :=
  (preset a (·.recipient) || c.recipient.all (· == a.destination)) &&
  (preset a (·.irt) || c.irt.all (· == a.inResponseTo)) &&
  c.nooa == some (a.now + life)

def adviceOk (d : Defaults) (cfg : Cfg) (a : Args W) (x : AdviceAssertion W) : Bool :=
  let life := lifetimeOf d cfg a
  x.issuer == some cfg.entityId &&
  x.audiences == [[a.spEntityId]] &&
  x.confs.all (adviceConfOk a life) &&
  x.condNooa == some (a.now + life) &&
  (match x.condNb with | some t => decide (t ≤ a.now) | none => true)

/-- An error Response: no assertion; issuer, IssueInstant, InResponseTo, a status that is not Success, and the
    Response signature exactly as demanded. -/
def errorResponseOk (cfg : Cfg) (a : Args W) (r : Issued W) : Bool :=
  r.issuer == some cfg.entityId && r.issueInstant == a.now && r.inResponseTo == some a.inResponseTo &&
  r.statusTop != successUri && signaturesOk cfg a r

/-- `specCore` widened to what `Idp.issue` may produce. -/
def specCoreX (d : Defaults) (cfg : Cfg) (a : Args W) (out : Except Refusal (Issued W)) : Bool :=
  match out with
  | .error _ => true
  | .ok r =>
    if r.assertions.isEmpty then errorResponseOk cfg a r
    else specCore d cfg a out && r.assertions.all fun x => x.advice.all (adviceOk d cfg a)

def specScopingX (d : Defaults) (cfg : Cfg) (a : Args W) (out : Except Refusal (Issued W)) : Bool :=
  specCoreX d cfg a out && specFormat d cfg a out

/-- The first sentence of the property. -/
def specScoping (d : Defaults) (cfg : Cfg) (a : Args W) (out : Except Refusal (Issued W)) : Bool :=
  specCore d cfg a out && specFormat d cfg a out

/-- names of the clauses that fail (for replays) -/
def whyScoping (d : Defaults) (cfg : Cfg) (a : Args W) (out : Except Refusal (Issued W)) : List String :=
  match out with
  | .error _ => []
  | .ok r =>
    (if r.issuer == some cfg.entityId && r.assertions.all (fun x => x.issuer == some cfg.entityId) then [] else ["issuer"]) ++
    (if r.issueInstant == a.now then [] else ["issue-instant"]) ++
    (if r.assertions.length == 1 then [] else ["assertion-count"]) ++
    (if r.assertions.all (fun x => x.audiences == [[a.spEntityId]]) then [] else ["audience"]) ++
    (if r.assertions.all (fun x => confsOk a (lifetimeOf d cfg a) x.confs) then [] else ["confirmation"]) ++
    (if r.assertions.all (fun x => x.condNooa == some (a.now + lifetimeOf d cfg a) &&
        (match x.condNb with | some t => decide (t ≤ a.now) | none => true)) then [] else ["conditions-window"]) ++
    (if signaturesOk cfg a r then [] else ["signature"]) ++
    (if specFormat d cfg a out then [] else ["format"])

def whyScopingX (d : Defaults) (cfg : Cfg) (a : Args W) (out : Except Refusal (Issued W)) : List String :=
  match out with
  | .error _ => []
  | .ok r =>
    if r.assertions.isEmpty then (if errorResponseOk cfg a r then [] else ["error-response"])
    else whyScoping d cfg a out ++
      (if r.assertions.all (fun x => x.advice.all (adviceOk d cfg a)) then [] else ["advice"])

/-! ### the second sentence: a service provider built from the same metadata accepts it -/

/-- The receiving side of a case. -/
structure SpSide where
  cfg : Sp.Cfg
  env : Sp.Env
  trusts : Bool          -- the SP's metadata binds the IdP's signing key to the IdP's entityID
deriving Repr, Inhabited

/-- "Built from the same metadata", the request is the SP's own outstanding one, the SP's signature
    options are met by what arguments/configuration demand, an authentication context (class reference)
    is supplied and the SP's clock is inside the issued windows. -/
def e2ePre (d : Defaults) (cfg : Cfg) (a : Args W) (s : SpSide) : Bool :=
  let life := lifetimeOf d cfg a
  let signR := demanded a.signResponse cfg.signResponse
  let signA := demanded a.signAssertion cfg.signAssertion
  let skew : Int := s.cfg.skew
  s.trusts && s.env.bindingOk && s.env.asynchop && shapingNeutral d a s.env.convInfo &&
  a.spEntityId != "" && Sp.pyStrip a.spEntityId == s.cfg.entityId &&
  a.destination != "" && s.cfg.returnAddrs.contains a.destination &&
  (s.env.outstanding.lookup a.inResponseTo).isSome &&
  (!s.cfg.wantResp || signR) && (!s.cfg.wantAssert || signA) && (!s.cfg.wantEither || signR || signA) &&
  (match a.authn with | some x => truthy x.classRef | none => false) &&
  decide (0 ≤ life) && decide (a.now ≤ s.env.now + skew) && decide (s.env.now ≤ a.now + life + skew) &&
  decide (s.env.now - 86400 - skew ≤ a.now) && decide (a.now < s.env.now + 86400 + skew) &&
  (match a.sessionNooa with | some t => decide (s.env.now ≤ t + skew) | none => true)

/-- the expiry the application is told -/
def expectedExpiry (d : Defaults) (cfg : Cfg) (a : Args W) : Int :=
  match a.sessionNooa with
  | some t => if t > 0 then t else a.now + lifetimeOf d cfg a
  | none => a.now + lifetimeOf d cfg a

/-- `L` = the released attributes as the application sees them. -/
def specE2E {L : Type} [BEq L] (d : Defaults) (cfg : Cfg) (a : Args W) (s : SpSide) (released : L)
    (out : Except Refusal (Issued W)) (spOut : Option (Sp.Outcome × Option L)) : Bool :=
  match out with
  | .error _ => true
  | .ok r =>
    !e2ePre d cfg a s ||
    match spOut with
    | some (.identity o, ava) =>
      o.issuer == Sp.pyStrip cfg.entityId &&
      (match r.assertions with | x :: _ => o.nameId == x.nameId.map (·.text) | [] => false) &&
      o.cameFrom == s.env.outstanding.lookup a.inResponseTo &&
      o.notOnOrAfter == expectedExpiry d cfg a &&
      ava == some released
    | _ => false

/-- The identifier store can be read, or the caller hands the identifier in. -/
def storeUsable (a : Args W) : Bool := !a.storeFails || a.nameId.isSome

/-- The second sentence for `Idp.issue`: an assertion-less Response never yields identity; when the IdP's
    identifier store is usable, `specE2E`. -/
def specE2EX {L : Type} [BEq L] (d : Defaults) (cfg : Cfg) (a : Args W) (s : SpSide) (released : L)
    (out : Except Refusal (Issued W)) (spOut : Option (Sp.Outcome × Option L)) : Bool :=
  match out with
  | .error _ => true
  | .ok r =>
    (!r.assertions.isEmpty || (match spOut with | some (.identity _, _) => false | _ => true)) &&
    (!storeUsable a || specE2E d cfg a s released out spOut)

end C09
