/-
  C11 — decidable checker evaluated by the driver on the IMPLEMENTATION's observations.

  The reference is the store machine of `Model/MdStore.lean` under `Policy.ideal` (certificate
  configured => only a document whose signature verifies is accepted).  What that machine serves is characterised, against the documents
  themselves, by the theorems of `Props/C11.lean` (soundness, completeness, filters, first source
  wins, authenticity, failed loads / refreshes).  The checker compares observation by observation,
  and only as far as the property speaks:
  * list answers are compared as sets (order and multiplicity are not part of the property);
  * all ways of answering "nothing" (KeyError, UnknownSystemEntity, UnsupportedBinding, `None`,
    an empty list, another exception) are one class;
  * whether `imp` / `reload` itself reported success is not constrained (only what is served is).
-/
import PysamlModel.Model.MdStore

namespace MdStore
variable {α : Type} [DecidableEq α]

def subset {β : Type} [DecidableEq β] (a b : List β) : Bool := a.all (fun x => b.contains x)
def sameSet {β : Type} [DecidableEq β] (a b : List β) : Bool := subset a b && subset b a

/-- The observation serves nothing. -/
def isNothing : Ans α → Bool
  | .missing => true
  | .unsupported => true
  | .raised => true
  | .eps l => l.isEmpty
  | .strs l => l.isEmpty
  | .ents l => l.isEmpty
  | .req a b => a.isEmpty && b.isEmpty
  | .reg r => r.isNone
  | _ => false

/-- `impl` is an acceptable observation where the reference observes `ref`. -/
def ansOk (ref impl : Ans α) : Bool :=
  match ref, impl with
  | .done _, .done _ => true
  | .ent t k, .ent t' k' => decide (t = t') && decide (k = k')
  | .eps l, .eps l' => sameSet l l'
  | .strs l, .strs l' => sameSet l l'
  | .req a b, .req a' b' => sameSet a a' && sameSet b b'
  | .reg r, .reg r' => decide (r = r')
  | .ents l, .ents l' => sameSet l l'
  | r, i => isNothing r && isNothing i

def allOk : List (Ans α) → List (Ans α) → Bool
  | [], [] => true
  | r :: rs, i :: is => ansOk r i && allOk rs is
  | _, _ => false

/-- index of the first observation that is not acceptable -/
def firstBad : List (Ans α) → List (Ans α) → Nat → Option Nat
  | [], [], _ => none
  | r :: rs, i :: is, n => if ansOk r i then firstBad rs is (n + 1) else some n
  | _, _, n => some n

/-- The specification: on history `h` (from the empty store) the observations `obs` are acceptable
    w.r.t. the reference machine under policy `pol` (`Policy.ideal` for the property itself). -/
def specRunWith (pol : Policy) (c : Consts α) (h : List (Step α)) (obs : List (Ans α)) : Bool :=
  allOk (run pol c [] h).1 obs

def specRun (c : Consts α) (h : List (Step α)) (obs : List (Ans α)) : Bool :=
  specRunWith Policy.ideal c h obs

/-! The explicit side condition under which the pinned code meets the specification: the history
    never presents an unsigned document to a source with a certificate — at load time or as an MDQ
    answer (F9). -/

def specClean (sp : SrcSpec α) : Bool :=
  match sp.fetch with
  | .doc d => !(effCert sp.kind sp.cert && decide (d.sig = .unsigned))
  | _ => true

def respClean (st : Store α) (r : MdqResp α) : Bool :=
  match r.fetch with
  | .doc d =>
    !(st.any (fun s => decide (s.kind = .mdq) && s.cert && decide (s.key = r.src))) || !decide (d.sig = .unsigned)
  | _ => true

def cleanStep (st : Store α) (s : Step α) : Bool :=
  match s.op with
  | .imp specs => specs.all specClean
  | .reload specs => specs.all specClean
  | .q _ => s.mdq.all (respClean st)

def cleanRun (c : Consts α) : Store α → List (Step α) → Bool
  | _, [] => true
  | st, s :: rest => cleanStep st s && cleanRun c (step Policy.ideal c st s).2 rest

end MdStore
