/-
  C14 — the property as decidable checkers, evaluated by the driver on the IMPLEMENTATION's output
  (and proved of the model's output in `Props/C14.lean`).

  "Intact": what the receiver extracts (form controls read by the HTML scanner, query parameters
  read by `parse_qsl`, base64 / inflate undone as `Entity.unravel` does) is the message and the
  RelayState the sender was given.  "Inert": the scanner finds the template's own tags and
  attributes and nothing else; every caller-supplied string shows up only as an escaped attribute
  value / as a percent-encoded parameter.
-/
import PysamlModel.Model.Codec
import PysamlModel.Model.HtmlScan
import PysamlModel.Model.Bindings

namespace C14Spec
open Codec HtmlScan Bindings

/-! ### codecs -/

def specB64 (data enc : Bytes) : Bool := b64decode enc == some data

def specEscape (s esc : Bytes) : Bool := inertEscaped esc && htmlUnescape esc == s

def specQuote (s q : Bytes) : Bool :=
  unquotePlus q == s && q.all (fun c => c != 38 && c != 61 && c != 35 && c != 63 && c != 32)

/-- `urlencode` output reads back as the same parameters (those with a non-empty value). -/
def specUrlencode (ps : List (Bytes × Bytes)) (q : Bytes) : Bool :=
  parseQsl q == ps.filter (fun kv => !kv.2.isEmpty)

/-! ### HTTP-POST -/

/-- A tag without its attribute values. -/
def shape (t : Tag Nat) : Bool × List Nat × List (List Nat) × Bool :=
  (t.closing, t.name, t.attrs.map (·.1), t.selfClosing)

/-- Raw (escaped) attribute value that is safe and decodes to `want`. -/
def escapedIs (raw want : Bytes) : Bool :=
  !raw.contains 60 && ampOk raw && htmlUnescape raw == want

/-- What the receiving side does with the POSTed control (`Entity.unravel`, HTTP-POST). -/
def specPostDelivery (inflate : Bytes → Option Bytes) (payload msg : Bytes) : Bool :=
  unravelPost inflate payload == some msg

/-- The value of the SAML control delivers the message: through `unravel` for the two SAML
    parameter names, verbatim otherwise. -/
def delivers (inflate : Bytes → Option Bytes) (typ value msg : Bytes) : Bool :=
  if typ = sSAMLRequest ∨ typ = sSAMLResponse then specPostDelivery inflate value msg else value == msg

/-- The submitted controls are exactly: the SAML parameter (delivering `msg`), then RelayState
    (iff a relay state was given), both as escaped data. -/
def fieldsOk (inflate : Bytes → Option Bytes) (typ msg rs : Bytes) (raw : List (Bytes × Bytes)) : Bool :=
  match raw with
  | [(n, v)] => rs.isEmpty && escapedIs n typ && !v.contains 60 && ampOk v && delivers inflate typ (htmlUnescape v) msg
  | [(n, v), (n2, v2)] =>
    !rs.isEmpty && escapedIs n typ && !v.contains 60 && ampOk v && delivers inflate typ (htmlUnescape v) msg &&
    escapedIs n2 sRelayState && escapedIs v2 rs
  | _ => false

/-- `html` is an acceptable HTTP-POST form for (`typ`, `msg`, `loc`, `rs`): well formed, the same
    tags and attribute names as the reference form `ref` (the template filled with harmless values),
    exactly the expected controls, the expected action, all as escaped data. -/
def specForm (inflate : Bytes → Option Bytes) (ref : Bytes) (typ msg loc rs html : Bytes) : Bool :=
  let doc := scanDoc html
  doc.1 &&
  doc.2.map shape == (tags ref).map shape &&
  fieldsOk inflate typ msg rs (rawFields doc.2) &&
  (match rawActions doc.2 with
   | [a] => escapedIs a loc
   | _ => false)

/-! ### HTTP-Redirect / artifact URL -/

/-- The receiver's query parameters are the destination's own parameters followed by exactly the
    intended ones. -/
def specUrl (loc : Bytes) (args : List (Bytes × Bytes)) (url : Bytes) : Bool :=
  parseQsl (queryOf url) == parseQsl (queryOf loc) ++ args

def specRedirectDelivery (inflate : Bytes → Option Bytes) (payload msg : Bytes) : Bool :=
  unravelRedirect inflate payload == some msg

/-- Redirect: the receiver's parameters are the destination's own followed by the SAML parameter
    (whose value delivers `msg`) and RelayState (iff given, with the given value).  An empty
    artifact is not a message (`parse_qsl` drops blank values): unconstrained. -/
def specRedirect (inflate : Bytes → Option Bytes) (typ msg loc rs url : Bytes) : Bool :=
  let ps := parseQsl (queryOf url)
  let own := parseQsl (queryOf loc)
  (typ == sSAMLart && msg.isEmpty) ||
  (ps.take own.length == own &&
  (match ps.drop own.length with
   | [(k, v)] => rs.isEmpty && k == typ &&
      (if typ = sSAMLart then v == msg else specRedirectDelivery inflate v msg)
   | [(k, v), (k2, v2)] => !rs.isEmpty && k == typ &&
      (if typ = sSAMLart then v == msg else specRedirectDelivery inflate v msg) && k2 == sRelayState && v2 == rs
   | _ => false))

/-- The artifact URL of `use_http_artifact`; an empty artifact is unconstrained. -/
def specArtifactUrl (art loc rs url : Bytes) : Bool :=
  art.isEmpty || specUrl loc (withRelay (sSAMLart, art) rs) url

/-! ### SOAP -/

/-- The envelope contains the message, whole, as the only child of its only Body. -/
def specSoapTree {ε τ : Type} [DecidableEq ε] [DecidableEq τ] (tagOf : ε → τ) (expected : List τ) (e : ε)
    (wrapped : Envelope ε) (out : Unwrapped ε) : Bool :=
  wrapped.tagOk && (wrapped.parts.filterMap (fun p => match p with | .body cs => some cs | _ => none)) == [[e]] &&
  (if tagOf e ∈ expected then out == .elem e else out == .refused)

/-- SOAP with header blocks (ECP / PAOS), receiver `class_instances_from_soap_enveloped_saml_thingies`:
    the envelope's Body parts are exactly `[[message]]`, its header blocks exactly the ones given, in
    order, and opening it gives all of them back, each whole.  An element of a class the receiver's
    schema modules do not list may be refused instead (never delivered as something else). -/
def specSoapOpen {ε : Type} [DecidableEq ε] (known : ε → Bool) (hdrs : List ε) (e : ε)
    (wrapped : Envelope ε) (out : Opened ε) : Bool :=
  wrapped.tagOk && (wrapped.parts.filterMap (fun p => match p with | .body cs => some cs | _ => none)) == [[e]] &&
  headerItems wrapped.parts == hdrs &&
  (out == .ok hdrs (some e) || (!(known e && hdrs.all known) && out == .refused))

/-- An envelope made elsewhere (any number and order of Header, Body and foreign parts): when the
    receiver accepts it, nothing is lost or reordered among the header blocks, and with exactly one
    Body holding exactly one element that element is the body (no Body part: no body).  Envelopes
    with several Body parts or several Body children: unconstrained. -/
def specSoapOpenForeign {ε : Type} [DecidableEq ε] (env : Envelope ε) (out : Opened ε) : Bool :=
  match out with
  | .refused => true
  | .ok hs b => env.tagOk && hs == headerItems env.parts &&
      (match bodyParts env.parts with
       | [[e]] => b == some e
       | [] => b == none
       | _ => true)

/-! ### URI binding.  The property text names four bindings and not this one: the checkers ask only
    what the general sentences ask (caller strings are data; the message arrives) and only on the
    inputs where the binding is defined at all. -/

/-- `SAMLRequest` form, EVERY destination (no query, empty query, existing query, trailing `&` or
    `?`, fragment): the receiver's parameters are the destination's own followed by exactly `ID` =
    the message and RelayState iff given.  (The empty message: unconstrained, `parse_qsl` drops blank
    values.) -/
def specUriRequest (msg dest rs url : Bytes) : Bool :=
  msg.isEmpty || specUrl dest (withRelay (sID, msg) rs) url

/-- `SAMLResponse` form: a one-line message without surrounding white space is the body, unchanged
    (code points). -/
def specUriResponse (msg data : List Nat) : Bool :=
  msg.contains 10 || msg.head?.any pyIsSpace || msg.getLast?.any pyIsSpace || data == msg

/-! ### Artifact -/

/-- The artifact decodes to the index it was created with and to the issuer's source id. -/
def specArtifact (sourceId : Bytes) (idx : Int) (art : Option Bytes) : Bool :=
  match art with
  | some a => decodeArtifact a == some { index := idx, sourceId := sourceId }
  | none => !(0 ≤ idx && idx ≤ 255)     -- an index that does not fit the field may be refused, never mis-encoded

/-- The destination the artifact resolves to is an endpoint of the issuer carrying the index. -/
def specArtDest {α : Type} [DecidableEq α] (showInt : Int → α) (store : List (ArtEntity α)) (sourceId : Bytes) (idx : Int)
    (out : ArtDest α) : Bool :=
  match store.find? (fun e => e.sourceId = sourceId) with
  | none => out == .refused
  | some e =>
    let cands := (e.descriptors.filterMap id).flatten.filter (fun ep => ep.1 = showInt idx)
    if e.descriptors.contains none then true
    else if cands.isEmpty then out == .noEndpoint
    else cands.any (fun ep => out == .dest ep.2)

end C14Spec
