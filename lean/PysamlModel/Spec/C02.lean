/-
  C02 — specification evaluated on the implementation's outcome: a variant of a genuinely signed
  message is either not accepted, or what is reported equals what a genuinely signed message reports (the original, or — for
  splices — the other genuine message).
-/
import PysamlModel.Model.Xsw

namespace Xsw

/-- `out = none`: rejected / no identity; `some r`: the reported data. -/
def specCovered {ρ : Type} [BEq ρ] (genuine : List ρ) (out : Option ρ) : Bool :=
  match out with
  | none => true
  | some r => genuine.contains r

end Xsw
