/-
  C02 — specification evaluated on the implementation's outcome: a variant of a genuinely signed
  message is either not accepted, or what is reported equals what a genuinely signed message reports (the original, or — for
  splices — the other genuine message).
-/
import PysamlModel.Model.Xsw

namespace Xsw

/-- `out = none`: rejected / no identity; `some r`: the reported data. -/
def specCovered {ρ : Type} [BEq ρ] (genuine : List ρ) (out : Option ρ) : Bool :=
  match out with
  | none => true
  | some r => genuine.contains r

end Xsw

namespace Xsw

/-- `item` is covered by `key`: one of its ds:Signature children carries `key`'s signature over
    its SignedInfo, and a Reference of that SignedInfo names the item's own ID and digests exactly
    the item minus that Signature child. -/
def coveredB (item : XNode) (key : Nat) : Bool :=
  item.kids.zipIdx.any fun p =>
    p.1.tag == dsSignature &&
    match firstChild p.1 dsSignedInfo, item.attr "ID" with
    | some (_, si), some id =>
      (childrenWith si dsReference).any (fun ref =>
        ref.attr "URI" == some ("#" ++ id) &&
        (match firstChild ref dsDigestValue with
         | some (_, dv) => valueKids dv == [XNode.digest (removeAt item [p.2])]
         | none => false)) &&
      (match firstChild p.1 dsSignatureValue with
       | some (_, sv) => valueKids sv == [XNode.sigval key si]
       | none => false)
    | _, _ => false

end Xsw
