/-
  C20 — specification with a decidable checker.  The driver evaluates `specOk` on the
  IMPLEMENTATION's observable; Props/C20.lean proves it of the model's observable for every thread
  set and every schedule.

  A result is `(thread t, index i of the operation in t's program, observation)`.  The entity "that
  made the call" is the one thread t acts for when it carries out operation i: its initial entity, or
  the one it most recently set up (`keyAfter th.key (th.prog.take i)`), whose key pair is what the key
  file held when that entity was set up.
    * signature produced (sign operation): it verifies — judged by an INDEPENDENT verifier, for the
      SigAlg and octets of the URL itself — under the caller's certificate and under no other key of
      the universe;
    * verdict of the library's own verifier for a call that is given a certificate: never `true`
      unless the signature was made by that certificate's key pair over these octets with this digest
      ("under no other entity's certificate", whichever entity's backend does the checking), and `true`
      when it was and the algorithm has a signer entry;
    * verification without a certificate, refusals, crashes, set-up results: not constrained.
-/
import PysamlModel.Model.Signer

namespace Signer
variable {κ α μ : Type} [DecidableEq κ] [DecidableEq α] [DecidableEq μ]

/-- What the harness can see of an operation's result. -/
inductive Obs (κ : Type) where
  | refused
  | crashed
  /-- the keys of the universe (in universe order, repetitions kept) under which the signature in
      the URL verifies for the `SigAlg` and octets the URL itself carries -/
  | signed (verifiers : List κ)
  | verified (ok : Bool)
  | setupDone
deriving DecidableEq, Repr

def setupContent : Op κ α μ → Option κ
  | .setup _ c => some c
  | _ => none

/-- All certificates a signature is tried against: per thread its initial entity's key and the keys of
    the entities it sets up, then bystanders (which may be of any kind: RSA, EC, Ed25519 …). -/
def certUniverse (threads : List (Thread κ α μ)) (extra : List κ) : List κ :=
  threads.flatMap (fun th => th.key :: th.prog.filterMap setupContent) ++ extra

def observeEvent (univ : List κ) : Event κ α μ → Obs κ
  | .refused => .refused
  | .crashed => .crashed
  | .signed alg msg s => .signed (univ.filter (fun k => verifies k alg msg s))
  | .verified ok => .verified ok
  | .setupDone => .setupDone

def observe (univ : List κ) (out : List (Nat × Nat × Event κ α μ)) : List (Nat × Nat × Obs κ) :=
  out.map (fun p => (p.1, p.2.1, observeEvent univ p.2.2))

/-- The property for the result of operation `op` carried out for the entity with key `own`. -/
def specOp (tb : Tables α) (own : κ) : Op κ α μ → Obs κ → Bool
  | .sign _ _, .signed vs => vs.contains own && vs.all (fun k => decide (k = own))
  | .sign _ _, .refused => true
  | .sign _ _, .crashed => true
  | .verify alg msg sig (some c) _, .verified ok =>
      (!ok || verifies c alg msg sig) && (!(tb.hasSigner alg && verifies c alg msg sig) || ok)
  | .verify _ _ _ none _, .verified _ => true
  | .verify _ _ _ _ _, .crashed => true
  | .setup _ _, .setupDone => true
  | .setup _ _, .crashed => true
  | _, _ => false

def specEntry (tb : Tables α) (threads : List (Thread κ α μ)) (p : Nat × Nat × Obs κ) : Bool :=
  match threads[p.1]? with
  | none => false
  | some th =>
    match th.prog[p.2.1]? with
    | none => false
    | some op => specOp tb (keyAfter th.key (th.prog.take p.2.1)) op p.2.2

def specOk (tb : Tables α) (threads : List (Thread κ α μ)) (obs : List (Nat × Nat × Obs κ)) : Bool :=
  obs.all (specEntry tb threads)

end Signer
