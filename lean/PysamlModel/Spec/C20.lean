/-
  C20 — specification with a decidable checker.  The driver evaluates `specOk` on the
  IMPLEMENTATION's observable (for every produced redirect signature: the list of entity keys of
  the universe under whose certificate it verifies); Props/C20.lean proves it of the model's
  observable for every thread set and every schedule.
-/
import PysamlModel.Model.Signer

namespace Signer
variable {κ α μ : Type} [DecidableEq κ] [DecidableEq α] [DecidableEq μ]

/-- What the harness can see of an operation's result. -/
inductive Obs (κ : Type) where
  | refused
  | crashed
  /-- the keys of the universe (in universe order, repetitions kept) under which the signature in
      the URL verifies for the `SigAlg` and octets the URL itself carries -/
  | signed (verifiers : List κ)
  | verified (ok : Bool)
deriving DecidableEq, Repr

/-- All certificates a signature is tried against: the acting threads' entities, then bystanders. -/
def certUniverse (threads : List (Thread κ α μ)) (extra : List κ) : List κ :=
  threads.map (·.key) ++ extra

def observeEvent (univ : List κ) : Event κ α μ → Obs κ
  | .refused => .refused
  | .crashed => .crashed
  | .signed alg msg s => .signed (univ.filter (fun k => verifies k alg msg s))
  | .verified ok => .verified ok

def observe (univ : List κ) (out : List (Nat × Event κ α μ)) : List (Nat × Obs κ) :=
  out.map (fun p => (p.1, observeEvent univ p.2))

/-- The property for one result of a thread whose entity key is `own`: a signature verifies under
    the caller's certificate and under no other key of the universe.  Results that are not
    signatures are not constrained (the property speaks about signatures produced). -/
def specEvent (own : κ) : Obs κ → Bool
  | .signed vs => vs.contains own && vs.all (fun k => decide (k = own))
  | _ => true

/-- `keys[t]` = key of the entity thread `t` acts for. -/
def specOk (keys : List κ) (obs : List (Nat × Obs κ)) : Bool :=
  obs.all (fun p => match keys[p.1]? with
                    | some own => specEvent own p.2
                    | none => false)

end Signer
