/-
  C20 — specification with a decidable checker.  The driver evaluates `specOk` on the
  IMPLEMENTATION's observable; Props/C20.lean proves it of the model's observable for every thread
  set and every schedule.

  A result is `(thread t, index i of the operation in t's program, observation)`.  The entity "that
  made the call" is the one thread t acts for when it carries out operation i: its initial entity, or
  the one it most recently set up (`keyAfter th.key (th.prog.take i)`), whose key pair is what the key
  file held when that entity was set up.
    * signature produced (sign operation): it verifies — judged by an INDEPENDENT verifier, for the
      SigAlg and octets of the URL itself — under the caller's certificate and under no other key of
      the universe;
    * verdict of the library's own verifier for a call that is given a certificate: never `true`
      unless the signature was made by that certificate's key pair over these octets with this digest
      ("under no other entity's certificate", whichever entity's backend does the checking), and `true`
      when it was and the algorithm has a signer entry;
    * verdict of the library's RECEIVING path (a receiver whose metadata publishes, for the issuer the
      caller claims to be, the certificates `pub own` in that order) on a produced signature, when the
      harness asked for it: accepted iff the caller's certificate is among the published ones;
    * verification without a certificate, refusals, crashes, set-up results: not constrained.
-/
import PysamlModel.Model.Signer

namespace Signer
variable {κ α μ : Type} [DecidableEq κ] [DecidableEq α] [DecidableEq μ]

/-- What the harness can see of an operation's result. -/
inductive Obs (κ : Type) where
  | refused
  | crashed
  /-- the keys of the universe (in universe order, repetitions kept) under which the signature in
      the URL verifies for the `SigAlg` and octets the URL itself carries; `accepted` = verdict of a real
      receiver (`parse_authn_request` / `parse_logout_request`) if one was asked -/
  | signed (verifiers : List κ) (accepted : Option Bool)
  | verified (ok : Bool)
  | setupDone
deriving DecidableEq, Repr

def setupContent : Op κ α μ → Option κ
  | .setup _ c => some c
  | _ => none

/-- All certificates a signature is tried against: per thread its initial entity's key and the keys of
    the entities it sets up, then bystanders (which may be of any kind: RSA, EC, Ed25519 …). -/
def certUniverse (threads : List (Thread κ α μ)) (extra : List κ) : List κ :=
  threads.flatMap (fun th => th.key :: th.prog.filterMap setupContent) ++ extra

/-- Key of the entity thread `t` acts for when it carries out its operation `i`. -/
def ownAt (threads : List (Thread κ α μ)) (t i : Nat) : Option κ :=
  threads[t]?.map (fun th => keyAfter th.key (th.prog.take i))

/-- `pub` = what the receiver's metadata publishes per issuer (`none`: no receiver in this run).  The
    receiver tries the signature against every published certificate of the claimed issuer
    (`Request._do_redirect_sig_check`: `any(verify_redirect_signature(…, cert) for cert in certs)`). -/
def observeEvent (univ : List κ) (pub : Option (κ → List κ)) (own : Option κ) : Event κ α μ → Obs κ
  | .refused => .refused
  | .crashed => .crashed
  | .signed alg msg s =>
      .signed (univ.filter (fun k => verifies k alg msg s))
        (match pub, own with
         | some f, some o => some ((f o).any (fun k => verifies k alg msg s))
         | _, _ => none)
  | .verified ok => .verified ok
  | .setupDone => .setupDone

def observe (threads : List (Thread κ α μ)) (univ : List κ) (pub : Option (κ → List κ))
    (out : List (Nat × Nat × Event κ α μ)) : List (Nat × Nat × Obs κ) :=
  out.map (fun p => (p.1, p.2.1, observeEvent univ pub (ownAt threads p.1 p.2.1) p.2.2))

/-- The property for the result of operation `op` carried out for the entity with key `own`. -/
def specOp (tb : Tables α) (pub : Option (κ → List κ)) (own : κ) : Op κ α μ → Obs κ → Bool
  | .sign _ _, .signed vs acc =>
      vs.contains own && vs.all (fun k => decide (k = own)) &&
      (match pub, acc with
       | some f, some a => a == (f own).contains own
       | _, _ => true)
  | .sign _ _, .refused => true
  | .sign _ _, .crashed => true
  | .verify alg msg sig (some c) _, .verified ok =>
      (!ok || verifies c alg msg sig) && (!(tb.hasSigner alg && verifies c alg msg sig) || ok)
  | .verify _ _ _ none _, .verified _ => true
  | .verify _ _ _ _ _, .crashed => true
  | .setup _ _, .setupDone => true
  | .setup _ _, .crashed => true
  | _, _ => false

def specEntry (tb : Tables α) (pub : Option (κ → List κ)) (threads : List (Thread κ α μ))
    (p : Nat × Nat × Obs κ) : Bool :=
  match threads[p.1]? with
  | none => false
  | some th =>
    match th.prog[p.2.1]? with
    | none => false
    | some op => specOp tb pub (keyAfter th.key (th.prog.take p.2.1)) op p.2.2

def specOk (tb : Tables α) (pub : Option (κ → List κ)) (threads : List (Thread κ α μ))
    (obs : List (Nat × Nat × Obs κ)) : Bool :=
  obs.all (specEntry tb pub threads)

end Signer
