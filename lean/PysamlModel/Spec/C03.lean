/-
  C03 — declarative specification with a decidable checker, evaluated by the driver on the
  IMPLEMENTATION's output (and proved of the model's output in Props/C03.lean).

  "A signed message is accepted only if its signature verifies under a certificate published for
  signing (or with no declared use) under the message issuer's entityID in the loaded metadata
  [...].  Only when only_use_keys_in_metadata is switched off and metadata holds no key for that
  issuer may the certificate embedded in the message be used."
-/
import PysamlModel.Model.Keys

namespace Keys
variable {ι κ : Type} [DecidableEq κ]

/-- What one key descriptor publishes for signing: its certificates when `use` is `signing` or
    absent (a descriptor without certificate publishes none). -/
def kdBound (kd : KeyDescr κ) : List κ :=
  match kd.use with
  | some .encryption => []
  | _ => kd.x509.filterMap id

def entBound (ent : Entity κ) : List κ :=
  ent.roles.flatMap (fun r => r.keys.flatMap kdBound)

/-- Certificates the metadata binds to `issuer` for signing: every certificate of every key
    descriptor whose `use` is `signing` or absent, in any role descriptor of that entity.
    (Declarative: no role order, no failure.) -/
def boundKeys (md : Metadata ι κ) (issuer : Option ι) : List κ :=
  match issuer with
  | none => []
  | some i =>
    match md i with
    | none => []
    | some ent => entBound ent

/-- The property: where may the key that validated the signature come from.
    `onlyMd` is the policy in force (`true` for default settings). -/
def KeyOrigin (onlyMd : Bool) (md : Metadata ι κ) (m : Msg ι κ) : Prop :=
  (∃ k, m.signer = some k ∧ k ∈ boundKeys md m.issuer) ∨
  (onlyMd = false ∧ boundKeys md m.issuer = [] ∧ ∃ k, m.signer = some k ∧ k ∈ m.keyInfo.certs)

def keyOriginB (onlyMd : Bool) (md : Metadata ι κ) (m : Msg ι κ) : Bool :=
  match m.signer with
  | none => false
  | some k =>
    decide (k ∈ boundKeys md m.issuer) ||
    (!onlyMd && (boundKeys md m.issuer).isEmpty && decide (k ∈ m.keyInfo.certs))

theorem keyOriginB_iff (onlyMd : Bool) (md : Metadata ι κ) (m : Msg ι κ) :
    keyOriginB onlyMd md m = true ↔ KeyOrigin onlyMd md m := by
  unfold keyOriginB KeyOrigin
  cases hs : m.signer with
  | none => simp
  | some k =>
    simp only [Bool.or_eq_true, decide_eq_true_eq, Bool.and_eq_true, Bool.not_eq_true',
      List.isEmpty_iff, Option.some.injEq, exists_eq_left']
    constructor
    · rintro (h | ⟨⟨h1, h2⟩, h3⟩)
      · exact Or.inl h
      · exact Or.inr ⟨h1, h2, h3⟩
    · rintro (h | ⟨h1, h2, h3⟩)
      · exact Or.inl h
      · exact Or.inr ⟨⟨h1, h2⟩, h3⟩

/-- What the writer of a configuration value means, where that is beyond doubt. -/
def intended : CfgForm → Option Bool
  | .bool b => some b
  | .int 0 => some false
  | .int 1 => some true
  | .textTrue => some true
  | .textFalse => some false
  | .textEmpty => some false
  | _ => none

/-- The value the property reads: the intended one, else what the code makes of it. -/
def meaning (norm : CfgForm → Bool) (f : CfgForm) : Bool :=
  match intended f with
  | some b => b
  | none => norm f

/-- The policy the property demands for a configuration: the option's meaning when it is set,
    metadata-only when the configuration does not mention it ("with default settings"). -/
def policy (cfgOnlyMd : CfgForm) : Bool :=
  match cfgOnlyMd with
  | .absent => true
  | f => meaning (normCommon true) f

/-- Checker: an accepted message satisfies `KeyOrigin` under the demanded policy; nothing is
    demanded of a refusal (the property is an "only if"). -/
def specAccept (cfgOnlyMd : CfgForm) (md : Metadata ι κ) (m : Msg ι κ) (accepted : Bool) : Bool :=
  !accepted || keyOriginB (policy cfgOnlyMd) md m

/-- The item as the property reads it: the issuer is the one the signed item itself names; only an
    item that names none is attributed to the issuer its caller supplies (`effIssuer`). -/
def attributed (arg : Option ι) (m : Msg ι κ) : Msg ι κ :=
  { m with issuer := effIssuer arg m }

/-- Checker for every way a signed item travels.
    * `want_authn_requests_only_with_valid_cert` meant on (`ovcF`): nothing is demanded — the option's
      documented meaning is "ignore the signature" (outside the property's default settings);
    * detached signature while `want_authn_requests_signed` is meant off (`mustF`): the query-string
      signature is not looked at by design; only an additional enveloped signature counts;
    * detached signature, signed requests meant required, a parameter missing or a `SigAlg` the library
      does not implement: no key verifies anything, the request must be refused;
    * `after first withArg`: acceptance needs `KeyOrigin` for BOTH items, each under the issuer it
      names itself. -/
def specKind (cfgOnlyMd ovcF mustF : CfgForm) (md : Metadata ι κ) (kind : Kind ι κ) (m : Msg ι κ)
    (accepted : Bool) : Bool :=
  match kind with
  | .after first withArg =>
    !accepted || (keyOriginB (policy cfgOnlyMd) md first &&
      keyOriginB (policy cfgOnlyMd) md (attributed (if withArg then first.issuer else none) m))
  | .enveloped => meaning normService ovcF || specAccept cfgOnlyMd md m accepted
  | .detached env p =>
    meaning normService ovcF || (!meaning normService mustF && !env) ||
    (if meaning normService mustF && p != .ok then !accepted   -- verified under NO key: never counts as signed
     else specAccept cfgOnlyMd md m accepted)

end Keys
