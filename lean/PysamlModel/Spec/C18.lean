/-
  C18 — declarative specification with decidable checkers, evaluated by the driver on the
  IMPLEMENTATION's observed results and store contents (and proved of the model in Props/C18.lean).

  The history clauses are stated per step on the observed store before (`P`) and after (`Q`)
  the operation; `specTrace` checks them along a history, up to the first operation that is
  outside the property's quantifier (`opOk`/`stOk` false: a user name presented as an identifier
  value, a candidate id equal to a user name, an unknown user, …).
-/
import PysamlModel.Model.Ident

namespace Ident

/-! ### encoding -/

/-- lossless (`decode (code x) = norm x`), collision-free (equal codes ⇒ equal identifiers up to
    empty ≡ absent), and free of the separator the store joins codes with. -/
def specCodec (a b : NameId) (codeA codeB : Str) (decA decB : Option NameId) : Bool :=
  decA == some a.norm && decB == some b.norm &&
  (codeA != codeB || a.norm == b.norm) && (a.norm != b.norm || codeA == codeB) &&
  !codeA.contains 32 && !codeB.contains 32

/-! ### what a store says -/

/-- the identifier a stored piece stands for (`""` pieces, left behind by `"".split(" ")`, are not identifiers) -/
def pieceNid (p : Str) : Option NameId := if p.isEmpty then none else (decode p).toOption

def userPieces (db : DB) (u : Str) : List Str := (pieces db u).getD []

/-- identifiers registered for user `u` -/
def held (db : DB) (u : Str) : List NameId := (userPieces db u).filterMap pieceNid

/-- same requester and same qualifier (empty ≡ absent) -/
def sameQual (m : NameId) (spq nq : Option Str) : Bool :=
  normF m.spq == normF spq && normF m.nq == normF nq

/-- `m` is a persistent identifier for (requester, qualifier) -/
def isReg (K : Consts) (spq nq : Option Str) (m : NameId) : Bool :=
  m.fmt == some K.persistent && sameQual m spq nq

/-- the persistent identifier registered for (requester, qualifier) among `l`: the first one -/
def regIn (K : Consts) (l : List NameId) (spq nq : Option Str) : Option NameId := l.find? (isReg K spq nq)
def regTextIn (K : Consts) (l : List NameId) (spq nq : Option Str) : Option Str := (regIn K l spq nq).bind (·.text)

def regText (K : Consts) (db : DB) (u : Str) (spq nq : Option Str) : Option Str :=
  regTextIn K (held db u) spq nq

def heldTexts (users : List Str) (db : DB) : List Str :=
  users.flatMap (fun u => (held db u).filterMap (·.text))

def ownedBy (Q : DB) (t : Option Str) (u : Option Str) : Bool :=
  match t with
  | some t => u.isSome && Q.get t == u
  | none => false

/-- (A) reversible: every registered identifier maps back to exactly the user holding it -/
def revOk (users : List Str) (db : DB) : Bool :=
  users.all fun u => (held db u).all fun m => ownedBy db m.text (some u)

/-- (B) distinct: no user holds one value twice (with (A): no value is held by two users) -/
def distinctOk (users : List Str) (db : DB) : Bool :=
  users.all fun u => decide ((held db u).map (·.text)).Nodup

/-- (E) no user holds two persistent identifiers for one (requester, qualifier) -/
def uniqueRegOk (K : Consts) (users : List Str) (db : DB) : Bool :=
  users.all fun u => decide ((held db u).Pairwise
    (fun a b => ¬ (a.fmt = some K.persistent ∧ isReg K a.spq a.nq b = true)))

/-! ### per operation -/

/-- the value of the one identifier an operation with this outcome may add, change or remove -/
def touched : Op → Res → Option Str
  | .persistent .., .nid n => n.text
  | .transient .., .nid n => n.text
  | .getNameid .., .nid n => n.text
  | .construct .., .nid n => n.text
  | .mapping .., .nid n => n.text
  | .manage n _, .nid _ => n.text
  | .removeRemote n, .done => n.text
  | _, _ => none

def untouched (tt : Option Str) (m : NameId) : Bool := !(tt.isSome && m.text == tt)

/-- (D) an operation affects only that identifier: every user's other identifiers are the same,
    in the same order, before and after (with (E) this keeps every other registered persistent
    identifier what it was: `frame_keeps_reg` in Props) -/
def frameOk (users : List Str) (P Q : DB) (op : Op) (res : Res) : Bool :=
  let tt := touched op res
  users.all fun u => (held Q u).filter (untouched tt) == (held P u).filter (untouched tt)

def isFresh (users : List Str) (P : DB) (t : Str) : Bool :=
  !P.has t && !(heldTexts users P).contains t

/-- the answer is an identifier the store holds for that user — all five fields, empty ≡ absent — and
    its value maps back to that user -/
def answered (Q : DB) (u : Option Str) (n : NameId) : Bool :=
  ownedBy Q n.text u &&
  (match u with
   | some u => (held Q u).contains n.norm
   | none => false)

def fltOk (flt : List (Nat × Option Str)) (n : NameId) : Bool := flt.all (fun kv => getField n kv.1 == kv.2)

/-- (C) what the answer of each operation must be -/
def resOk (K : Consts) (users : List Str) (P Q : DB) : Op → Res → Bool
  | .persistent u spq nq _, .nid n =>
    answered Q (some u) n && sameQual n spq nq && regText K Q u spq nq == n.text &&
    n.fmt == some K.persistent &&
    (match regText K P u spq nq with
     | some t0 => n.text == some t0                                        -- stable
     | none => match n.text with | some t => isFresh users P t | none => false)
  | .transient u spq nq _, .nid n =>
    answered Q (some u) n && sameQual n spq nq && n.fmt == some K.transient &&
    (match n.text with | some t => isFresh users P t | none => false)
  -- the other issuing calls: an identifier of that user, for the requester (and format) asked for
  | .getNameid u fmt spq nq _, .nid n => answered Q (some u) n && sameQual n spq nq && n.fmt == some fmt
  | .construct u lf spq pol _ _, .nid n =>
    answered Q (some u) n && normF n.spq == normF (constructSpq spq pol) && n.fmt == constructFmt lf pol
  | .mapping n0 pol _, .nid n =>
    answered Q (n0.text.bind P.get) n && normF n.spq == normF pol.spq && normF n.fmt == normF pol.fmt
  | .findLocalId n, .user x =>
    (users.all fun u => (held P u).all fun m => m.text != n.text || x == some u) &&
    ((n.text.bind P.get).isSome || x == none)
  | .findNameid u flt, .nids l =>
    (l.all fun m => m.text.isNone || ((held P u).contains m && fltOk flt m)) &&
    ((held P u).all fun m => !fltOk flt m || l.contains m)
  | .manage n m, .nid n' =>
    n'.text == n.text &&
    (m == .noop || match n.text.bind P.get with
      | some u => (held Q u).contains n'.norm
      | none => false)
  | .removeRemote n, .done =>
    (match n.text with
     | some t => !Q.has t && !(heldTexts users Q).contains t
     | none => false)
  | _, _ => true

def cnt (s : Sdb) (m : NameId) : Nat := (s.count (code m)).getD 0

/-- statements stored under `code(name_id)`: storing touches that identifier only, cleaning out a user
    touches that user's identifiers only -/
def sdbOk (watch : List NameId) (P Q : State) : Op → Res → Bool
  | .storeAuthn m, .done => watch.all fun w => cnt Q.sdb w == cnt P.sdb w + (if w.norm = m.norm then 1 else 0)
  | .cleanOut n, .user lid =>
    lid == n.text.bind P.db.get &&
    watch.all fun w =>
      !truthy w.text ||                    -- an identifier without a value is not an identifier
      (match lid with
       | some u => (held P.db u).contains w.norm
       | none => false) || cnt Q.sdb w == cnt P.sdb w
  | .authnCount m, .count c => c == cnt P.sdb m
  | _, _ => watch.all fun w => cnt Q.sdb w == cnt P.sdb w

/-! ### scope of the property (its quantifier) -/

def candsOk (users : List Str) (cfg : Cfg) (cands : List Str) : Bool :=
  cands.all fun c => !c.isEmpty && !users.contains c && !users.contains (c ++ 64 :: cfg.domain)

/-- a presented identifier value: non-empty and not a user name -/
def textOk (users : List Str) (n : NameId) : Bool :=
  match n.text with
  | some t => !t.isEmpty && !users.contains t
  | none => false

def opOk (users : List Str) (cfg : Cfg) : Op → Bool
  | .persistent u _ _ cands => users.contains u && candsOk users cfg cands
  | .transient u _ _ cands => users.contains u && candsOk users cfg cands
  | .getNameid u _ _ _ cands => users.contains u && candsOk users cfg cands
  | .construct u _ _ _ _ cands => users.contains u && candsOk users cfg cands
  | .findNameid u _ => users.contains u
  | .findLocalId n => match n.text with | some t => !users.contains t | none => true
  | .mapping n pol cands => textOk users n && truthy pol.fmt && candsOk users cfg cands
  | .manage n _ => textOk users n
  | .removeRemote n => textOk users n
  | .removeLocal _ => true
  | .storeAuthn n => truthy n.text
  | .authnCount _ => true
  | .cleanOut n => textOk users n

/-- format an issuing operation uses -/
def effFmt (K : Consts) : Op → Option Str
  | .persistent .. => some K.persistent
  | .transient .. => some K.transient
  | .getNameid _ fmt _ _ _ => some fmt
  | .construct _ lf _ pol _ _ => constructFmt lf pol
  | .mapping _ pol _ => pol.fmt
  | _ => none

def opCands : Op → List Str
  | .persistent _ _ _ c | .transient _ _ _ c | .getNameid _ _ _ _ c | .construct _ _ _ _ _ c | .mapping _ _ c => c
  | _ => []

/-- the part of the freshness assumption the `create_id` loop does not enforce itself: for e-mail
    format the loop tests the bare id while `id@domain` is what gets stored -/
def stOk (K : Consts) (cfg : Cfg) (P : DB) (op : Op) : Bool :=
  effFmt K op != some K.email || (opCands op).all fun c => !P.has (c ++ 64 :: cfg.domain)

def specStep (K : Consts) (users : List Str) (watch : List NameId) (P : State) (op : Op) (res : Res) (Q : State) : Bool :=
  revOk users Q.db && distinctOk users Q.db && uniqueRegOk K users Q.db && frameOk users P.db Q.db op res &&
  resOk K users P.db Q.db op res && sdbOk watch P Q op res

/-- walk along a history: `steps` = (operation, observed result, observed state after it) -/
def specTrace (K : Consts) (cfg : Cfg) (users : List Str) (watch : List NameId) : State → List (Op × Res × State) → Bool
  | _, [] => true
  | P, (op, res, Q) :: rest =>
    if opOk users cfg op && stOk K cfg P.db op then
      specStep K users watch P op res Q && specTrace K cfg users watch Q rest
    else true            -- outside the quantifier from here on: correspondence only

/-! ### targeted ids -/

/-- over a history of `get(idp, sp, user)` calls: equal (requester, user) ⇒ equal value,
    different (requester, user) ⇒ different value -/
def specEptid (calls : List (Str × Str)) (vals : List Str) : Bool :=
  vals.length == calls.length &&
  (List.range calls.length).all fun i => (List.range calls.length).all fun j =>
    (calls[i]? == calls[j]?) == (vals[i]? == vals[j]?)

end Ident
