/-
  C10 — declarative specification with a decidable checker.  The driver evaluates it on the
  IMPLEMENTATION's output; Props/C10.lean proves it of the model's output.

  A release `r` (attribute ↦ values) for identity `identity`, requester context `c`, requested
  attributes `required`/`optional` is acceptable when EVERY released entry
    (held)     is an attribute the user holds, with no value more often than the user holds it;
    (restr)    is listed in the `attribute_restrictions` of the most specific applicable policy
               section (requester, else registration authority, else default) whenever that
               section has any, each value matching one of the patterns listed for the attribute;
    (cats)     when that section configures entity categories (and there is a metadata store):
               is contributed by a `RELEASE` item that applies to the requester's categories
               (ONLY_REQUIRED items: only attributes the requester requires; an item flagged
               NO_AGGREGATION discards what earlier items contributed);
    (request)  otherwise, when the requester declares required/optional attributes: is matched
               (case-insensitively, through the attribute maps / FriendlyName) by one of them, each
               value being among the values that entry lists when it lists any;
  and (missing) no assertion at all is acceptable when the required/optional filter is the one in
  effect, failing on missing attributes is in effect, and a required attribute (or every listed
  value of it) is not held.  Errors are always acceptable (nothing is released).
  The empty attribute name is left unconstrained by (cats): the code uses the key `""` as a marker.
-/
import PysamlModel.Model.Release

namespace Release
variable {α : Type} [DecidableEq α] {ρ : Type}

/-- The most specific applicable policy section, written as a first-match chain. -/
def specSection (c : Ctx α ρ) : Option (Section α ρ) :=
  (secOf c.secs c.sp).orElse fun _ =>
    (c.ra.bind (secOf c.secs)).orElse fun _ =>
      ((secOf c.secs c.dflt).filter (·.nonEmpty)).orElse fun _ => secOf c.secs c.S.empty

/-- (held) -/
def heldDominates (identity : Ava α) (p : α × Val α) : Bool :=
  identity.any (fun q => decide (q.1 = p.1) &&
    p.2.values.all (fun v => decide (p.2.values.count v ≤ q.2.values.count v)))

/-- (restr) for one value -/
def rawAllows (S : StrOps α) (M : ρ → α → Bool) (raw : RawRestr α ρ) (a v : α) : Bool :=
  raw.any (fun q => decide (S.lower q.1 = S.lower a) &&
    (match q.2 with
     | some (x :: xs) => (x :: xs).any (fun r => M r v)
     | _ => true))

def rawLists (S : StrOps α) (raw : RawRestr α ρ) (a : α) : Bool :=
  raw.any (fun q => decide (S.lower q.1 = S.lower a))

def restrOk (c : Ctx α ρ) (p : α × Val α) : Bool :=
  match (specSection c).bind (·.attrRestr) with
  | none => true
  | some raw => raw.isEmpty || (rawLists c.S raw p.1 && p.2.values.all (rawAllows c.S c.M raw p.1))

/-- Lower-cased friendly names of the required attributes (`ONLY_REQUIRED` items look at these). -/
def reqNames (S : StrOps α) (acs : List (Conv α)) (required : List (ReqAttr α)) : List α :=
  required.filterMap (fun d => match reqFriendly S acs d with | .ok f => some f | .error _ => none)

/-- One `RELEASE` item permits the (lower-cased) attribute name `a` for a requester with entity
    categories `ecs` that requires the attributes `req`. -/
def entryPermits (S : StrOps α) (ecs req : List α) (e : CatEntry α) (a : α) : Bool :=
  decide (a ∈ e.attrs.map S.lower) &&
  (match e.key with
   | .always => true
   | .single k => decide (k ∈ ecs) && (!e.onlyRequired || decide (a ∈ req))
   | .all ks => ks.all (fun k => decide (k ∈ ecs)) && (!e.onlyRequired || decide (a ∈ req)))

/-- The item contributes something and is flagged NO_AGGREGATION: earlier contributions are dropped. -/
def entryResets (S : StrOps α) (ecs req : List α) (e : CatEntry α) : Bool :=
  e.noAggregation && (e.attrs.map S.lower).any (entryPermits S ecs req e)

/-- `a` is permitted by an item that no later NO_AGGREGATION item overrides. -/
def allowedBy (S : StrOps α) (ecs req : List α) : List (CatEntry α) → α → Bool
  | [], _ => false
  | e :: rest, a =>
    allowedBy S ecs req rest a ||
      (entryPermits S ecs req e a && rest.all (fun e' => !entryResets S ecs req e'))

/-- The `RELEASE` items that govern the release, when the entity-category filter is in effect. -/
def catsInEffect (c : Ctx α ρ) : Option (List (CatEntry α)) :=
  match specSection c with
  | none => none
  | some s => if c.hasMds && !s.entCats.flatten.isEmpty then some s.entCats.flatten else none

/-- Case-insensitive name test of `_match`: equal, equal to the lower-cased name, or equal after
    lower-casing both. -/
def nameIs (S : StrOps α) (n a : α) : Bool :=
  decide (a = n) || decide (a = S.lower n) || decide (S.lower a = S.lower n)

/-- The requested attribute `q` designates the identity attribute `a`. -/
def reqMatches (S : StrOps α) (acs : List (Conv α)) (q : ReqAttr α) (a : α) : Bool :=
  S.truthy a && (nameIs S (localName S acs q) a || nameIs S (S.lower q.name) a)

/-- (request) -/
def requestOk (S : StrOps α) (acs : List (Conv α)) (reqs : List (ReqAttr α)) (p : α × Val α) : Bool :=
  reqs.any (fun q => reqMatches S acs q p.1) &&
  p.2.values.all (fun v => reqs.any (fun q => reqMatches S acs q p.1 &&
    (q.values.isEmpty || decide (v ∈ q.values))))

/-- The user holds no attribute the required entry `q` designates, or none of the values it lists. -/
def unavailable (S : StrOps α) (acs : List (Conv α)) (identity : Ava α) (q : ReqAttr α) : Bool :=
  identity.all (fun p => !reqMatches S acs q p.1 ||
    (!q.values.isEmpty && q.values.all (fun v => !decide (v ∈ p.2.values))))

/-- (missing): an assertion is not acceptable. -/
def mustFail (c : Ctx α ρ) (identity : Ava α) (required optional : List (ReqAttr α)) : Bool :=
  (catsInEffect c).isNone && (!required.isEmpty || !optional.isEmpty) &&
  failOnOf (specSection c) && required.any (unavailable c.S c.acs identity)

/-- Per released entry. -/
def entryOk (c : Ctx α ρ) (identity : Ava α) (required optional : List (ReqAttr α)) (p : α × Val α) : Bool :=
  heldDominates identity p && restrOk c p &&
  (match catsInEffect c with
   | some entries =>
     decide (c.S.lower p.1 = c.S.empty) ||
       allowedBy c.S c.spCats (reqNames c.S c.acs required) entries (c.S.lower p.1)
   | none =>
     (required.isEmpty && optional.isEmpty) || requestOk c.S c.acs (required ++ optional) p)

/-- `Policy.filter` (and, with `required := addSubjectReqs …`, `Policy.restrict` / `apply_policy`). -/
def specFilter (c : Ctx α ρ) (identity : Ava α) (required optional : List (ReqAttr α))
    (out : Except Err (Ava α)) : Bool :=
  match out with
  | .error _ => true
  | .ok r => r.all (entryOk c identity required optional) && !mustFail c identity required optional

def specRestrict (c : Ctx α ρ) (identity : Ava α) (required optional subj : List (ReqAttr α))
    (out : Except Err (Ava α)) : Bool :=
  specFilter c identity (addSubjectReqs required subj) optional out

/-- Response level: what the created Response carries. -/
def specResponse (c : Ctx α ρ) (identity : Ava α) (required optional subj : List (ReqAttr α))
    (out : Release α) : Bool :=
  match out with
  | .assertion ava => specRestrict c identity required optional subj (.ok ava)
  | .errorResponse => true
  | .raised _ => true

/-- Side condition that delimits the known finding `C10/missing-required-releases-unfiltered`:
    `apply_policy` raised `MissingValue` (decidable). -/
def restrictMissing (c : Ctx α ρ) (identity : Ava α) (required optional subj : List (ReqAttr α)) : Bool :=
  match policyRestrict c identity required optional subj with
  | .error .missing => true
  | _ => false

/-! ### pinned facts about the category tables

The category tables are regenerated from the source, so a table edit changes model and
implementation alike.  Two facts about them are therefore pinned here independently of the table:
an item keyed by a category for which `coco` holds (Code of Conduct) is ONLY_REQUIRED whatever
the table says, and the always-released item (key `""`) releases nothing but attributes for which
`keep` holds (eduPersonTargetedID).  Props/C10.lean proves by kernel evaluation of the regenerated
table that the bundled tables are fixed points of `pinEntry` (`C10_tables_pinned`), and that the
model then meets this clause too (`C10_pinned`). -/

def keyMentions (coco : α → Bool) : CatKey α → Bool
  | .always => false
  | .single k => coco k
  | .all ks => ks.any coco

def pinEntry (coco keep : α → Bool) (e : CatEntry α) : CatEntry α :=
  match e.key with
  | .always => { e with attrs := e.attrs.filter keep }
  | k => { e with onlyRequired := e.onlyRequired || keyMentions coco k }

def pinnedOk (coco keep : α → Bool) (c : Ctx α ρ) (required : List (ReqAttr α)) (out : Except Err (Ava α)) : Bool :=
  match out, catsInEffect c with
  | .ok r, some entries =>
    r.all (fun p => decide (c.S.lower p.1 = c.S.empty) ||
      allowedBy c.S c.spCats (reqNames c.S c.acs required) (entries.map (pinEntry coco keep)) (c.S.lower p.1))
  | _, _ => true

end Release
