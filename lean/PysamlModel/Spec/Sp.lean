/-
  Declarative specifications of C01, C04, C05, C06 over the abstract SP input, as decidable
  checkers evaluated by the driver on the IMPLEMENTATION's outcome and proved of the model's
  outcome in Props/C0x.lean.  Each is a projection of "what an accepted Response must satisfy";
  the completeness halves ("otherwise valid ⇒ accepted") refer to the model run on a sanitised
  copy of the input as the definition of "otherwise valid".
-/
import PysamlModel.Model.Sp

namespace Sp

def Outcome.isIdentity : Outcome → Bool
  | .identity _ => true
  | _ => false

/-- The assertions the SP can see: the plain ones and the decryptable prefix of the encrypted ones. -/
def visible (r : Response) : List Assertion := decOf r ++ plainOf r

/-! ### C01 -/

/-- The three signature options as the caller set them (`none` = unset) and the property's defaults. -/
structure SigOpts where
  wantResp : Option Bool := none
  wantAssert : Option Bool := none
  wantEither : Option Bool := none
deriving Repr, DecidableEq, Inhabited

def SigOpts.resolve (o : SigOpts) (dResp dAssert dEither : Bool) : Bool × Bool × Bool :=
  (o.wantResp.getD dResp, o.wantAssert.getD dAssert, o.wantEither.getD dEither)

def sigOk (s : Sig) : Bool := s == .absent || s == .valid

/-- `SigPolicyOk`: every signature present verifies and the demanded ones are there. -/
def sigPolicyOk (wantResp wantAssert wantEither : Bool) (r : Response) : Bool :=
  let vis := visible r
  sigOk r.sig && vis.all (fun a => sigOk a.sig) &&
  (!wantResp || r.sig == .valid) &&
  (!wantAssert || vis.all (fun a => a.sig == .valid)) &&
  (!wantEither || r.sig == .valid || (vis.all (fun a => a.sig == .valid)))

/-- C01, soundness half: identity ⇒ policy satisfied (options resolved with the PROPERTY's defaults:
    want_response_signed = true, the other two false). -/
def specC01Sound (o : SigOpts) (r : Response) (out : Outcome) : Bool :=
  let (wr, wa, we) := o.resolve true false false
  !out.isIdentity || sigPolicyOk wr wa we r

/-- All signatures made valid (used to define "otherwise valid"). -/
def allSigned (r : Response) : Response :=
  { r with sig := .valid, assertions := r.assertions.map (fun a => { a with sig := .valid }) }

/-- C01, completeness half: if the fully signed copy is accepted by the model ("otherwise valid") and
    the policy is satisfied, the message itself must be accepted. -/
def specC01Complete (o : SigOpts) (cfg : Cfg) (env : Env) (r : Response) (out : Outcome) : Bool :=
  let (wr, wa, we) := o.resolve true false false
  !((process cfg env (allSigned r)).isIdentity && sigPolicyOk wr wa we r) || out.isIdentity

/-! ### C04 -/

def audienceOk (me : String) (a : Assertion) : Bool :=
  match a.conditions with
  | none => true
  | some c => c.audiences.all (fun r => r.isEmpty || r.any (fun x => pyStrip x == me))

def destinationOk (cfg : Cfg) (env : Env) (r : Response) : Bool :=
  !env.asynchop || !truthy r.destination || cfg.returnAddrs.contains (r.destination.getD "")

/-- A bearer confirmation the SP would use: data present, window not inverted. -/
def bearerUsable (sc : SubjConf) : Bool :=
  sc.method == .bearer &&
  match sc.data with
  | none => false
  | some d => laterThan d.nooa d.nb

def recipientsOk (cfg : Cfg) (env : Env) (a : Assertion) : Bool :=
  !env.convInfo ||
  match a.subject with
  | none => true
  | some s => s.confs.all (fun sc => !bearerUsable sc ||
      match sc.data with
      | some d => (match d.recipient with
          | some rcp => env.convEntityId == some rcp || cfg.returnAddrs.contains rcp
          | none => false)
      | none => true)

def specC04 (cfg : Cfg) (env : Env) (r : Response) (out : Outcome) : Bool :=
  !out.isIdentity ||
  (destinationOk cfg env r && (visible r).all (fun a => audienceOk cfg.entityId a && recipientsOk cfg env a))

/-! ### C05 -/

def windowOk (now : Int) (skew : Nat) (nb nooa : Option Int) : Bool :=
  (match nooa with | some t => decide (now ≤ t + skew) | none => true) &&
  (match nb with | some t => decide (t ≤ now + skew) | none => true) &&
  (match nb, nooa with | some b, some a => decide (b ≤ a) | _, _ => true)

def timesOk (cfg : Cfg) (env : Env) (a : Assertion) : Bool :=
  (match a.conditions with
   | none => true
   | some c => windowOk env.now cfg.skew c.nb c.nooa) &&
  (a.authn.all fun s => match s.sessionNooa with | some t => decide (env.now ≤ t + cfg.skew) | none => true) &&
  (match a.subject with
   | none => true
   | some s => s.confs.all fun sc => !bearerUsable sc ||
       match sc.data with
       | some d => windowOk env.now cfg.skew d.nb d.nooa
       | none => true)

def issueInstantWithin (cfg : Cfg) (env : Env) (r : Response) : Bool :=
  decide (env.now - r.issueInstant ≤ 86400 + cfg.skew) && decide (r.issueInstant - env.now ≤ 86400 + cfg.skew)

/-- The expiry the application must be told: SessionNotOnOrAfter when present, else Conditions NotOnOrAfter
    of the assertion that is reported (the first visible one). -/
def expectedExpiry (r : Response) : Option Int :=
  match visible r with
  | a :: _ =>
    match a.authn with
    | s :: _ =>
      match s.sessionNooa with
      | some t => some t
      | none => (a.conditions.bind (·.nooa))
    | [] => none
  | [] => none

def specC05Sound (cfg : Cfg) (env : Env) (r : Response) (out : Outcome) : Bool :=
  match out with
  | .identity o =>
    issueInstantWithin cfg env r && (visible r).all (timesOk cfg env) &&
    -- reported expiry (single-assertion responses; with several assertions the last processed wins)
    ((visible r).length != 1 || (match expectedExpiry r with
        | some t => t ≤ 0 || o.notOnOrAfter == t
        | none => true))
  | _ => true

/-- Strictly inside every skew-extended window (`now < NotOnOrAfter + skew`, `NotBefore − skew < now`,
    IssueInstant less than a day plus skew away), and no window inverted (`NotBefore ≤ NotOnOrAfter`).
    The single second `now = bound ± skew`, which the code still accepts, is left out: unspecified. -/
def strictlyInside (cfg : Cfg) (env : Env) (r : Response) : Bool :=
  let inside (nb nooa : Option Int) : Bool :=
    (match nooa with | some t => decide (env.now < t + cfg.skew) | none => true) &&
    (match nb with | some b => decide (b < env.now + cfg.skew) | none => true) &&
    (match nb, nooa with | some b, some t => decide (b ≤ t) | _, _ => true)
  decide (env.now - r.issueInstant < 86400 + cfg.skew) && decide (r.issueInstant - env.now < 86400 + cfg.skew) &&
  (visible r).all fun a =>
    (match a.conditions with | none => true | some c => inside c.nb c.nooa) &&
    (a.authn.all fun s => inside none s.sessionNooa) &&
    (match a.subject with
     | none => true
     | some s => s.confs.all fun sc => match sc.data with | some d => inside d.nb d.nooa | none => true)

/-- Timestamps replaced by canonical safe ones (defines "otherwise valid" for C05). -/
def sanitiseTimes (env : Env) (r : Response) : Response :=
  let fixNb (t : Option Int) : Option Int := t.map (fun _ => env.now - 10)
  let fixNooa (t : Option Int) : Option Int := t.map (fun _ => env.now + 10)
  { r with
    issueInstant := env.now
    assertions := r.assertions.map fun a =>
      { a with
        conditions := a.conditions.map (fun c => { c with nb := fixNb c.nb, nooa := fixNooa c.nooa })
        authn := a.authn.map (fun s => { s with sessionNooa := fixNooa s.sessionNooa })
        subject := a.subject.map (fun s => { s with confs := s.confs.map (fun sc =>
          { sc with data := sc.data.map (fun d => { d with nb := fixNb d.nb, nooa := fixNooa d.nooa }) }) }) } }

def specC05Complete (cfg : Cfg) (env : Env) (r : Response) (out : Outcome) : Bool :=
  !((process cfg env (sanitiseTimes env r)).isIdentity && strictlyInside cfg env r) || out.isIdentity

/-! ### C06 -/

def scIrtsEqual (r : Response) (a : Assertion) : Bool :=
  match a.subject with
  | none => true
  | some s => s.confs.all fun sc => match sc.data with | some d => d.irt == r.inResponseTo | none => true

def shapeOk (r : Response) : Bool :=
  r.statusTop == "urn:oasis:names:tc:SAML:2.0:status:Success" && r.version == "2.0" &&
  !(visible r).isEmpty && (visible r).all (fun a => a.authn.length == 1 && a.subject.isSome)

/-- Correlation for plain assertions (the repaired/pinned code does not compare the confirmation
    data of ENCRYPTED assertions; `encIrt` selects whether the spec demands it there too). -/
def correlated (encToo : Bool) (cfg : Cfg) (env : Env) (r : Response) (o : Reported) : Bool :=
  !env.asynchop || cfg.allowUnsolicited ||
  (match r.inResponseTo.bind (fun i => env.outstanding.lookup i) with
   | none => false
   | some cf => o.cameFrom == some cf &&
       (visible r).all (fun a => (a.encrypted && !encToo) || scIrtsEqual r a))

def specC06 (cfg : Cfg) (env : Env) (r : Response) (out : Outcome) : Bool :=
  match out with
  | .identity o => shapeOk r && correlated true cfg env r o
  | .rejected _ => true
  | .noIdentity => true

end Sp
