/-
  C07 — declarative specification with a decidable checker, evaluated by the driver on the
  IMPLEMENTATION's outcome (processed / rejected) and proved of the model in Props/C07.lean.

  The property only says when a request may be *processed*; every rejection satisfies it.
-/
import PysamlModel.Model.Request

namespace Request
variable {α κ : Type} [DecidableEq α] [DecidableEq κ]

/-- The message carries an enveloped signature that verifies *over the request element that is
    processed* and was made with a key the metadata binds to the claimed issuer for signing. -/
def envelopedValid (md : List (Cert κ)) (m : Msg α κ) : Bool :=
  match m.enveloped with
  | .absent => false
  | .signed k _ => m.covers && md.any (fun c => decide (c.key = k))

/-- What the abstraction assumes of XML signatures (C02's subject, a hypothesis here): a signature
    that meets the profile (one Reference to the enclosing element, enveloped transform, no
    ds:Object, …) and that xmlsec verifies, verifies over the enclosing element. -/
def coherent (m : Msg α κ) : Bool :=
  match m.enveloped with
  | .absent => true
  | .signed _ i => !(m.profileOk && i) || m.covers

def envelopedPresent : Enveloped κ → Bool
  | .absent => false
  | .signed _ _ => true

/-- The query carries a detached signature made with a metadata key of the issuer over exactly the
    SAMLRequest, RelayState and SigAlg that arrived. -/
def detachedValid (md : List (Cert κ)) (m : Msg α κ) : Bool :=
  match m.sigAlg, m.signature with
  | some alg, some (.signed k msg relay a) =>
    md.any (fun c => decide (c.key = k)) && decide (msg = m.samlRequest) && decide (relay = m.relayState) &&
      decide (a = alg)
  | _, _ => false

/-- An entity requires signed requests when `want_authn_requests_signed` is set, or when it opted
    into certificate-only validation (which is a way of requiring signed requests). -/
def requiresSigned (cfg : Cfg α) : Bool := cfg.wantSigned || cfg.certOnly

/-- Signature clause.  Certificate-only validation is the explicit opt-in of the property text:
    there the enveloped signature must be present, its validity is not promised. -/
def sigClause (cfg : Cfg α) (md : List (Cert κ)) (m : Msg α κ) : Bool :=
  (if requiresSigned cfg then
     if m.binding = .redirect then detachedValid md m
     else if cfg.certOnly then envelopedPresent m.enveloped
     else envelopedValid md m
   else true) &&
  (if cfg.certOnly then true
   else !envelopedPresent m.enveloped || envelopedValid md m)

/-- Every URL the receiver configured for the service with this binding or with no binding at all,
    in its own context and (identity provider) in the aa / aq / pdp contexts. -/
def allowedAddrs (cfg : Cfg α) (b : Binding) : List α :=
  let ctxs := cfg.own :: (if cfg.isIdp then cfg.fallback else [])
  (ctxs.flatten.filter (fun e => decide (e.binding = .bare) || decide (e.binding = .known b))).map (·.url)

def destClause (truthy : α → Bool) (cfg : Cfg α) (m : Msg α κ) : Bool :=
  match m.destination.filter truthy with
  | none => true
  | some d => (allowedAddrs cfg m.binding).isEmpty || decide (d ∈ allowedAddrs cfg m.binding)

def versionClause (v20 : α) (m : Msg α κ) : Bool := decide (m.version = v20)

/-- Not more than a day plus the configured skew off, either way. -/
def instantClause (cfg : Cfg α) (now : Int) (m : Msg α κ) : Bool :=
  match m.issueInstant with
  | none => false
  | some ts => decide (now - ts ≤ 86400 + (cfg.slack : Int)) && decide (ts - now ≤ 86400 + (cfg.slack : Int))

def specOk (v20 : α) (truthy : α → Bool) (cfg : Cfg α) (md : List (Cert κ)) (now : Int) (m : Msg α κ)
    (processed : Bool) : Bool :=
  !processed ||
    (sigClause cfg md m && versionClause v20 m && destClause truthy cfg m && instantClause cfg now m)

/-- The first clause that fails (for the replay file). -/
def specWhy (v20 : α) (truthy : α → Bool) (cfg : Cfg α) (md : List (Cert κ)) (now : Int) (m : Msg α κ)
    (processed : Bool) : Option String :=
  if !processed then none
  else if !sigClause cfg md m then some "processed without the signature the configuration calls for / with a bad enveloped signature"
  else if !versionClause v20 m then some "processed with a version other than 2.0"
  else if !destClause truthy cfg m then some "processed although Destination matches no configured endpoint"
  else if !instantClause cfg now m then some "processed although IssueInstant is more than a day plus skew off"
  else none

/-- Histories on one receiver: every delivered request is judged by `specOk` against the metadata
    *in force at that step* — the sources of the last reload whose import succeeded (the initial
    store before any).  Reload steps themselves are not constrained.  `outs` = the observed flags,
    one per step. -/
def specHistory (v20 : α) (truthy : α → Bool) :
    List (Source α κ) → List (Step α κ) → List Bool → Bool
  | _, [], _ => true
  | _, _ :: _, [] => false
  | _, .reload (some new) :: rest, _ :: outs => specHistory v20 truthy new rest outs
  | srcs, .reload none :: rest, _ :: outs => specHistory v20 truthy srcs rest outs
  | srcs, .recv r :: rest, p :: outs =>
    specOk v20 truthy r.cfg (lookupCerts srcs r.issuer) r.now r.msg p && specHistory v20 truthy srcs rest outs

/-- index of the first request of a history that breaks the specification -/
def specHistoryWhy (v20 : α) (truthy : α → Bool) :
    List (Source α κ) → List (Step α κ) → List Bool → Nat → Option (Nat × String)
  | _, [], _, _ => none
  | _, _ :: _, [], i => some (i, "no outcome reported for this step")
  | _, .reload (some new) :: rest, _ :: outs, i => specHistoryWhy v20 truthy new rest outs (i + 1)
  | srcs, .reload none :: rest, _ :: outs, i => specHistoryWhy v20 truthy srcs rest outs (i + 1)
  | srcs, .recv r :: rest, p :: outs, i =>
    match specWhy v20 truthy r.cfg (lookupCerts srcs r.issuer) r.now r.msg p with
    | some w => some (i, w)
    | none => specHistoryWhy v20 truthy srcs rest outs (i + 1)

end Request
