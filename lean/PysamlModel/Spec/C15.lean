/-
  C15 — declarative specification with decidable checkers, evaluated by the driver on the
  IMPLEMENTATION's output (and proved of the model's output in Props/C15.lean).

  The specification does not look at the regenerated tables: the five allowed RSA-SHA*
  algorithms with their digests and the canonical octet string
      <SAMLRequest|SAMLResponse>=enc(value)[&RelayState=enc(rs)]&SigAlg=enc(alg)
  are written out here by hand.
-/
import PysamlModel.Model.RedirectSig

namespace RedirectSig

/-- `"http://www.w3.org/2000/09/xmldsig#rsa-sha1"` -/
def uriRsaSha1 : Str := [104, 116, 116, 112, 58, 47, 47, 119, 119, 119, 46, 119, 51, 46, 111, 114, 103, 47, 50, 48, 48, 48, 47, 48, 57, 47, 120, 109, 108, 100, 115, 105, 103, 35, 114, 115, 97, 45, 115, 104, 97, 49]
/-- `"http://www.w3.org/2001/04/xmldsig-more#rsa-sha224"` -/
def uriRsaSha224 : Str := [104, 116, 116, 112, 58, 47, 47, 119, 119, 119, 46, 119, 51, 46, 111, 114, 103, 47, 50, 48, 48, 49, 47, 48, 52, 47, 120, 109, 108, 100, 115, 105, 103, 45, 109, 111, 114, 101, 35, 114, 115, 97, 45, 115, 104, 97, 50, 50, 52]
/-- `"http://www.w3.org/2001/04/xmldsig-more#rsa-sha256"` -/
def uriRsaSha256 : Str := [104, 116, 116, 112, 58, 47, 47, 119, 119, 119, 46, 119, 51, 46, 111, 114, 103, 47, 50, 48, 48, 49, 47, 48, 52, 47, 120, 109, 108, 100, 115, 105, 103, 45, 109, 111, 114, 101, 35, 114, 115, 97, 45, 115, 104, 97, 50, 53, 54]
/-- `"http://www.w3.org/2001/04/xmldsig-more#rsa-sha384"` -/
def uriRsaSha384 : Str := [104, 116, 116, 112, 58, 47, 47, 119, 119, 119, 46, 119, 51, 46, 111, 114, 103, 47, 50, 48, 48, 49, 47, 48, 52, 47, 120, 109, 108, 100, 115, 105, 103, 45, 109, 111, 114, 101, 35, 114, 115, 97, 45, 115, 104, 97, 51, 56, 52]
/-- `"http://www.w3.org/2001/04/xmldsig-more#rsa-sha512"` -/
def uriRsaSha512 : Str := [104, 116, 116, 112, 58, 47, 47, 119, 119, 119, 46, 119, 51, 46, 111, 114, 103, 47, 50, 48, 48, 49, 47, 48, 52, 47, 120, 109, 108, 100, 115, 105, 103, 45, 109, 111, 114, 101, 35, 114, 115, 97, 45, 115, 104, 97, 53, 49, 50]
/-- `"sha1"` -/
def dSha1 : Str := [115, 104, 97, 49]
/-- `"sha224"` -/
def dSha224 : Str := [115, 104, 97, 50, 50, 52]
/-- `"sha256"` -/
def dSha256 : Str := [115, 104, 97, 50, 53, 54]
/-- `"sha384"` -/
def dSha384 : Str := [115, 104, 97, 51, 56, 52]
/-- `"sha512"` -/
def dSha512 : Str := [115, 104, 97, 53, 49, 50]

/-- the five allowed RSA-SHA* signature algorithms, each with the digest its name announces -/
def stdSigners : List (Str × Str) :=
  [(uriRsaSha1, dSha1), (uriRsaSha224, dSha224), (uriRsaSha256, dSha256), (uriRsaSha384, dSha384),
   (uriRsaSha512, dSha512)]

def stdAllowed : List Str := stdSigners.map (·.1)

def stdDigest (alg : Str) : Option Str := Dict.get stdSigners alg

def stdReqOrder : List Str := [kSAMLRequest, kRelayState, kSigAlg]
def stdRespOrder : List Str := [kSAMLResponse, kRelayState, kSigAlg]

/-- the tables as the property expects them -/
def stdTables : Tables where
  allowedEntity := stdAllowed
  allowedPack := stdAllowed
  signers := stdSigners
  reqOrderS := stdReqOrder
  respOrderS := stdRespOrder
  reqOrderV := stdReqOrder
  respOrderV := stdRespOrder

/-- the octet string a redirect signature covers: message parameter, RelayState when present, SigAlg -/
def canonOctets (enc : Str → Str) (typ value : Str) (relayState : Option Str) (alg : Str) : Str :=
  pair enc typ value ++
    (match relayState with
     | some r => amp :: pair enc kRelayState r
     | none => []) ++
    amp :: pair enc kSigAlg alg

/-- `if relay_state:` — an empty relay state is not sent -/
def rsOpt (relayState : Str) : Option Str := if relayState ≠ [] then some relayState else none

/-- what a verifier takes as the message parameter of `msg`: SAMLRequest wins over SAMLResponse -/
def view (msg : Dict) : Option (Str × Str) :=
  match msg.get kSAMLRequest with
  | some v => some (kSAMLRequest, v)
  | none => match msg.get kSAMLResponse with
    | some v => some (kSAMLResponse, v)
    | none => none

variable {κ : Type} [DecidableEq κ]

/-- `msg`, read in direction `typ` (`SAMLRequest` or `SAMLResponse`), carries a signature made by
    the owner of `pk` with the digest its `SigAlg` announces over exactly its own covered values. -/
def authentic (C : Codec (Sig κ)) (msg : Dict) (pk : Pub κ) (typ : Str) : Bool :=
  match msg.get typ, msg.get kSigAlg, msg.get kSignature with
  | some v, some alg, some sigText =>
    match stdDigest alg, C.b64d sigText with
    | some dig, some (.signed k d m) =>
      decide (pk = pub k) && decide (d = dig) &&
        decide (m = canonOctets C.enc typ v (msg.get kRelayState) alg)
    | _, _ => false
  | _, _, _ => false

/-- Signer side.  `sign`/`alg` are the effective values (after `apply_binding`'s defaults).
    * signing with an algorithm outside the five allowed ones must be refused (any message type);
    * signing a SAMLRequest/SAMLResponse with an allowed algorithm must succeed, the emitted
      parameters must carry exactly the inputs (an empty relay state may be omitted), and the
      Signature parameter must be the signer's own signature (digest as announced) over the
      canonical octet string of the emitted values;
    * everything else (no signing, SAMLart, unknown types) is not constrained by the property. -/
def specSign (C : Codec (Sig κ)) (key : κ) (typ value relayState : Str) (sign : Bool) (alg : Option Str)
    (out : SignOut κ) : Bool :=
  if !sign then true
  else
    match alg.bind fun a => (stdDigest a).map fun d => (a, d) with
    | none =>
      (match out with
       | .refused _ => true
       | .ok _ _ => false)
    | some (a, dig) =>
      if typ ≠ kSAMLRequest ∧ typ ≠ kSAMLResponse then true else
      match out with
      | .refused _ => false
      | .ok _ none => false
      | .ok params (some sg) =>
        -- an empty relay state may be left out (the code does) or sent as an empty parameter
        let rs := params.get kRelayState
        let octets := canonOctets C.enc typ value rs a
        let other := if typ = kSAMLRequest then kSAMLResponse else kSAMLRequest
        decide (params.get typ = some value) && !params.has other &&
        (decide (rs = rsOpt relayState) || decide (rs = some relayState)) && decide (params.get kSigAlg = some a) &&
        decide (sg.octets = octets) && decide (sg.digest = dig) &&
        decide (sg.sig = Sig.signed key dig octets) &&
        decide (params.get kSignature = some (C.b64e sg.sig))

/-- The RSA public key a call of the verifier asks to verify under, if any: the key of the
    certificate when a (non-empty) certificate is given — none if that certificate holds no RSA key or
    is not a certificate —; without certificate the `sigkey` argument; without both the verifier's own
    key (calls without any key material are the caller's business, not the property's). -/
def verificationKey (own : Option κ) (cert : Option (Cert κ)) (sigkey : Option (VKey κ)) : Option (Pub κ) :=
  match cert, sigkey with
  | some (.holds (.rsa pk)), _ => some pk
  | some _, _ => none
  | none, some (.rsa pk) => some pk
  | none, some .other => none
  | none, none => own.map pub

/-- Verifier side; `pk` is the key the caller verifies under (`verificationKey`), `none` = there is
    no such key.
    * "verified" only for a message authentic under `pk` (in one of the directions present); never
      without a key;
    * an authentic message is verified (when both SAMLRequest and SAMLResponse are present the
      property does not say which one counts: unconstrained). -/
def specVerify (C : Codec (Sig κ)) (msg : Dict) (pk : Option (Pub κ)) (out : VOut) : Bool :=
  let a := match pk with
    | some pk => authentic C msg pk kSAMLRequest || authentic C msg pk kSAMLResponse
    | none => false
  match out with
  | .verified => a
  | _ => if msg.has kSAMLRequest && msg.has kSAMLResponse then true else !a

/-- Receiver side (`parse_authn_request` over HTTP-Redirect); `certs` = the keys of the sender's
    signing certificates in metadata.  When the receiver insists on signed requests: accepted only if
    SigAlg and Signature are present and the message is authentic under the RSA key of one of those
    certificates; an authentic, otherwise acceptable request is accepted.  When it does not insist,
    the property says nothing. -/
def specServer (C : Codec (Sig κ)) (must redirect wellformed : Bool) (certs : List (VKey κ)) (origdoc : Str)
    (relayState sigalg signature : Option Str) (accepted : Bool) : Bool :=
  if !(must && redirect) then true
  else
    let auth := match sigalg, signature with
      | some a, some s => certs.any fun c =>
          match c with
          | .rsa pk => authentic C (loadsMsg origdoc a s relayState) pk kSAMLRequest
          | .other => false
      | _, _ => false
    if accepted then auth else !(auth && wellformed)

end RedirectSig
