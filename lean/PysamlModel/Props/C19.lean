/-
  C19 — Session knowledge expires, ends with logout and never leaks across subjects.
  Property theorems only (plus non-vacuity examples).  All statements quantify over arbitrary
  configurations (any number of identity providers, any binding set-up), arbitrary clocks and
  arbitrary histories (any length, any order of operations, duplicates and unknown ids included).
  Helper lemmas: Proofs/C19*.lean.
-/
import PysamlModel.Proofs.C19Run

namespace C19
open Session

/-! ### the model against the specification the driver evaluates -/

/-- For every configuration and every history the model's own trace passes every clause of the
    specification when answers received over SOAP are NOT counted as answers (= what the code does). -/
theorem C19_model_meets_code_spec (cfg : Cfg) (now0 : Int) (ops : List Op) :
    specOk false cfg now0 (run cfg { now := now0 } ops) = true := by
  unfold specOk
  have := (run_ok cfg ops { now := now0 } { now := now0 } (inv_init now0)).1
  simp only [obsOf, Dict.keys, List.map_nil, List.filter_nil] at this
  simp only [Obs.empty, this, List.isEmpty_nil]

/-- Without SOAP the two readings of the specification coincide on every trace (also on the
    implementation's). -/
theorem C19_spec_readings_agree (cfg : Cfg) (h : NoSoap cfg) (now0 : Int) (tr : List Ev) :
    specOk true cfg now0 tr = specOk false cfg now0 tr := by
  unfold specOk
  rw [specTrace_nosoap h]

/-- The property as stated holds of the model for every history of every configuration in which no
    identity provider is reached over SOAP. -/
theorem C19_model_meets_spec_partial (cfg : Cfg) (h : NoSoap cfg) (now0 : Int) (ops : List Op) :
    specOk true cfg now0 (run cfg { now := now0 } ops) = true := by
  rw [C19_spec_readings_agree cfg h]
  exact C19_model_meets_code_spec cfg now0 ops

/-- The property as stated, for all configurations. -/
def C19_model_meets_spec_full : Prop :=
  ∀ (cfg : Cfg) (now0 : Int) (ops : List Op), specOk true cfg now0 (run cfg { now := now0 } ops) = true

private def cfgSoap : Cfg := { idps := [{ b := .soap, soap := .ok }] }
private def lgA : Login :=
  { s := 0, i := 0, cond := some 2000, sess := none, ava := [(0, [1])], sidx := some 5, kind := .ok }

/-- It is false: one identity provider reached over SOAP, login, global logout before the deadline — the
    provider answers (HTTP 200, Success) inside `do_logout`, yet the session stays
    (finding C19/soap-answer-not-counted). -/
theorem C19_model_meets_spec_counterexample : ¬ C19_model_meets_spec_full := by
  intro h
  have := h cfgSoap 1000 [.login lgA, .logout 0 (some 1500)]
  revert this
  decide

/-! ### isolation and expiry -/

/-- Per-issuer information returned for subject `s` and issuer `i` — at any later instant, with or
    without the expiry check — is exactly what an accepted login of `(s, i)` in the history stored. -/
theorem C19_isolation (cfg : Cfg) (now0 : Int) (ops : List Op) (now : Int) (s : Subj) (i : Idp) (check : Bool) (x : Info)
    (h : cacheGet (exec cfg { now := now0 } ops).db now s i check = .info x) :
    ∃ l, Op.login l ∈ ops ∧ l.kind = .ok ∧ l.s = s ∧ l.i = i ∧ l.info = x := by
  obtain ⟨_, hinv, hsub⟩ := run_ok cfg ops { now := now0 } { now := now0 } (inv_init now0)
  obtain ⟨e, he, hx, _⟩ := cacheGet_info h
  obtain ⟨hmem, _⟩ := hinv.live s i e x he hx
  rcases hsub _ hmem with h0 | ⟨lg, hm, hk, hl⟩
  · cases h0
  · cases hl
    exact ⟨lg, hm, hk, rfl, rfl, rfl⟩

/-- Every attribute value in a merged identity for subject `s` (restricted to `ents` if given) was
    stored by an accepted login of `s` from one of those issuers, and — when the expiry check is on —
    that login has an expiry and it has not passed. -/
theorem C19_isolation_identity (cfg : Cfg) (now0 : Int) (ops : List Op) (now : Int) (s : Subj) (ents : List Idp)
    (check : Bool) (r : Ava × List Idp) (h : getIdentity (exec cfg { now := now0 } ops).db now s ents check = some r) :
    ∀ kv ∈ r.1, ∀ v ∈ kv.2, ∃ l, Op.login l ∈ ops ∧ l.kind = .ok ∧ l.s = s ∧ (ents = [] ∨ l.i ∈ ents) ∧
      (∃ vs, (kv.1, vs) ∈ l.ava ∧ v ∈ vs) ∧ (check = true → l.nooa ≠ 0 ∧ now ≤ l.nooa) := by
  obtain ⟨_, hinv, hsub⟩ := run_ok cfg ops { now := now0 } { now := now0 } (inv_init now0)
  obtain ⟨all, hall, hfrom⟩ := getIdentity_from h
  intro kv hkv v hv
  obtain ⟨i, x, hi, ⟨e, he, hx, hc⟩, vs, hvs, hvv⟩ := (hfrom kv hkv).2 v hv
  obtain ⟨hmem, hts⟩ := hinv.live s i e x he hx
  rcases hsub _ hmem with h0 | ⟨lg, hm, hk, hl⟩
  · cases h0
  · cases hl
    refine ⟨lg, hm, hk, rfl, ?_, ⟨vs, hvs, hvv⟩, ?_⟩
    · cases ents with
      | nil => exact Or.inl rfl
      | cons a t => exact Or.inr (hall rfl ▸ hi)
    · intro hch
      have := after_false' (hc hch)
      rw [hts] at this
      exact this

/-- Information is returned (with the default expiry check) only until its not-on-or-after time. -/
theorem C19_expiry (cfg : Cfg) (now0 : Int) (ops : List Op) (now : Int) (s : Subj) (i : Idp) (x : Info)
    (h : cacheGet (exec cfg { now := now0 } ops).db now s i true = .info x) : x.nooa ≠ 0 ∧ now ≤ x.nooa := by
  obtain ⟨_, hinv, _⟩ := run_ok cfg ops { now := now0 } { now := now0 } (inv_init now0)
  obtain ⟨e, he, hx, hc⟩ := cacheGet_info h
  obtain ⟨_, hts⟩ := hinv.live s i e x he hx
  have := after_false' (hc rfl)
  rw [hts] at this
  exact this

/-! ### nothing after logout -/

/-- Once the session of `s` has ended (from ANY state in which `s` is not in the cache), no read returns
    anything about `s`, whatever happens next, until a login of `s` is accepted again (or somebody calls
    `Cache.reset` for `s`). -/
theorem C19_no_info_after_logout (cfg : Cfg) (st : St) (ops : List Op) (s : Subj) (h : s ∉ Dict.keys st.db)
    (hops : ∀ op ∈ ops, ¬ storesFor s op) (now : Int) (i : Idp) (check : Bool) :
    cacheGet (exec cfg st ops).db now s i check = .keyError ∧
    getIdentity (exec cfg st ops).db now s [] check = some ([], []) ∧
    isLoggedIn (exec cfg st ops).db now s = false := by
  have hn := (Dict.not_mem_keys_iff _ _).mp (absent_exec (cfg := cfg) ops st h hops)
  refine ⟨by simp [cacheGet, hn], by simp [getIdentity, hn], by simp [isLoggedIn, getIdentity, hn]⟩

/-! ### logout requests name the subject -/

/-- Every LogoutRequest that `global_logout(s)` emits names `s`, goes to an identity provider that
    issued information about `s`, over the binding that provider publishes, carrying the session index
    cached for `s` at that provider. -/
theorem C19_request_names_subject (cfg : Cfg) (st : St) (s : Subj) (expire : Option Int) (m : List (Idp × Entry))
    (hm : Dict.get? s st.db = some m) :
    ∀ r ∈ emitted (globalLogout cfg st s expire).2, r.subj = s ∧ r.id.idp ∈ Dict.keys m ∧
      r.b = cfg.bind r.id.idp ∧ sessionIndexOf st.db st.now s r.id.idp = some r.sidx := by
  intro r hr
  simp only [globalLogout, hm] at hr
  cases hdl : deadlinePassed st.now expire with
  | true =>
    have : emitted (doLogout cfg { st with heap := Dict.set st.stepNo (Dict.keys m) st.heap } s st.stepNo expire).2 = [] := by
      simp only [doLogout, hdl, if_true, localLogout]
      cases cacheDelete st.db s <;> rfl
    rw [this] at hr
    cases hr
  | false =>
    obtain ⟨ls, out, hdo, hpost, hem, _⟩ := doLogout_live (cfg := cfg)
      (st := { st with heap := Dict.set st.stepNo (Dict.keys m) st.heap }) (s := s) (cell := st.stepNo)
      (expire := expire) hdl
    rw [hdo] at hr
    simp only [heapGet_set_self] at hpost
    rcases hpost.sent r (hem r hr) with h | ⟨_, h2, h3, h4, h5⟩
    · cases h
    · exact ⟨h3, h2, h4, h5⟩

/-- The same for the requests emitted when `handle_logout_response` re-enters `do_logout`: they name the
    subject of the pending record that was answered and go to providers still on its list. -/
theorem C19_request_names_subject_reentry (cfg : Cfg) (st : St) (rid : ReqId) (rec : Rec) (x : Idp)
    (hrec : Dict.get? rid st.pending = some rec) :
    ∀ r ∈ emitted (handleResponse cfg st (some rid) x).2, r.subj = rec.subj ∧
      r.id.idp ∈ (heapGet st.heap rec.cell).erase x ∧ r.b = cfg.bind r.id.idp := by
  intro r hr
  by_cases hL : heapGet st.heap rec.cell = [x]
  · cases hd : cacheDelete st.db rec.subj with
    | none => rw [handleResponse_done_none hrec hL hd] at hr; cases hr
    | some db' => rw [handleResponse_done_some hrec hL hd] at hr; cases hr
  · by_cases hx : x ∈ heapGet st.heap rec.cell
    · rw [cont_eq hrec hL hx] at hr
      cases hdl : deadlinePassed st.now rec.expire with
      | true =>
        have : emitted (doLogout cfg (reentry st rid rec x) rec.subj rec.cell rec.expire).2 = [] := by
          simp only [doLogout, reentry, hdl, if_true, localLogout]
          cases cacheDelete st.db rec.subj <;> rfl
        rw [this] at hr
        cases hr
      | false =>
        obtain ⟨ls, out, hdo, hpost, hem, _⟩ := doLogout_live (cfg := cfg) (st := reentry st rid rec x)
          (s := rec.subj) (cell := rec.cell) (expire := rec.expire) hdl
        rw [hdo] at hr
        simp only [reentry, heapGet_set_self] at hpost
        rcases hpost.sent r (hem r hr) with h | ⟨_, h2, h3, h4, _⟩
        · cases h
        · exact ⟨h3, h2, h4⟩
    · rw [handleResponse_value hrec hL hx] at hr; cases hr

/-! ### logout responses -/

/-- A logout response whose `InResponseTo` is not a pending request (unknown id, duplicate, id of a
    SOAP request) is not consumed: `KeyError`, nothing changes. -/
theorem C19_response_needs_pending (cfg : Cfg) (st : St) (irt : Option ReqId) (x : Idp)
    (h : ∀ rid, irt = some rid → Dict.get? rid st.pending = none) :
    handleResponse cfg st irt x = (st, .error .key []) := by
  cases irt with
  | none => rfl
  | some rid => simp [handleResponse, h rid rfl]

/-- What `handle_logout_response` does to the session when the response answers the pending record
    `rec` and comes from `x`: the cache loses at most the record's subject, and the subject is gone
    afterwards exactly when it was gone before, or `x` was the last provider on the record's list, or
    `x` was on the list and the deadline has passed. -/
theorem C19_session_ends_exactly (cfg : Cfg) (st : St) (rid : ReqId) (rec : Rec) (x : Idp)
    (hrec : Dict.get? rid st.pending = some rec) :
    ((handleResponse cfg st (some rid) x).1.db = st.db ∨
      (handleResponse cfg st (some rid) x).1.db = Dict.del rec.subj st.db) ∧
    (rec.subj ∉ Dict.keys (handleResponse cfg st (some rid) x).1.db ↔
      (rec.subj ∉ Dict.keys st.db ∨ heapGet st.heap rec.cell = [x] ∨
        (x ∈ heapGet st.heap rec.cell ∧ deadlinePassed st.now rec.expire = true))) := by
  have hdel : rec.subj ∉ Dict.keys (Dict.del rec.subj st.db) := by simp [Dict.mem_keys_del]
  by_cases hL : heapGet st.heap rec.cell = [x]
  · cases hd : cacheDelete st.db rec.subj with
    | none =>
      rw [handleResponse_done_none hrec hL hd]
      exact ⟨Or.inl rfl, by simp [cacheDelete_none hd]⟩
    | some db' =>
      rw [handleResponse_done_some hrec hL hd]
      obtain ⟨h1, _⟩ := cacheDelete_some hd
      subst h1
      exact ⟨Or.inr rfl, by simp [hdel, hL]⟩
  · by_cases hx : x ∈ heapGet st.heap rec.cell
    · rw [cont_eq hrec hL hx]
      have hh := doLogout_db cfg (reentry st rid rec x) rec.subj rec.cell rec.expire
      cases hdl : deadlinePassed st.now rec.expire with
      | true =>
        cases hd : cacheDelete st.db rec.subj with
        | none =>
          have : (doLogout cfg (reentry st rid rec x) rec.subj rec.cell rec.expire).1.db = st.db := by
            simp [doLogout, reentry, hdl, localLogout, hd]
          rw [this]
          exact ⟨Or.inl rfl, by simp [cacheDelete_none hd]⟩
        | some db' =>
          obtain ⟨h1, _⟩ := cacheDelete_some hd
          have : (doLogout cfg (reentry st rid rec x) rec.subj rec.cell rec.expire).1.db = Dict.del rec.subj st.db := by
            simp [doLogout, reentry, hdl, localLogout, hd, h1]
          rw [this]
          exact ⟨Or.inr rfl, by simp [hdel, hx]⟩
      | false =>
        rcases hh with h | ⟨_, h⟩
        · rw [h]
          exact ⟨Or.inl rfl, by simp [reentry, hL, hdl]⟩
        · simp only [reentry] at h
          rw [hdl] at h
          cases h
    · rw [handleResponse_value hrec hL hx]
      exact ⟨Or.inl rfl, by simp [hL, hx]⟩

/-- `global_logout(s)` for a cached subject ends the session at once exactly when the deadline has
    already passed (answers received over SOAP during the call are not counted by the code). -/
theorem C19_session_ends_at_start (cfg : Cfg) (st : St) (s : Subj) (expire : Option Int) (hs : s ∈ Dict.keys st.db) :
    s ∉ Dict.keys (globalLogout cfg st s expire).1.db ↔ deadlinePassed st.now expire = true := by
  obtain ⟨m, hm⟩ := (Dict.mem_keys_iff _ _).mp hs
  simp only [globalLogout, hm]
  have hcd : cacheDelete st.db s = some (Dict.del s st.db) := by simp [cacheDelete, hm]
  cases hdl : deadlinePassed st.now expire with
  | true =>
    have : (doLogout cfg { st with heap := Dict.set st.stepNo (Dict.keys m) st.heap } s st.stepNo expire).1.db
        = Dict.del s st.db := by simp [doLogout, hdl, localLogout, hcd]
    rw [this]
    simp [Dict.mem_keys_del]
  | false =>
    obtain ⟨ls, out, hdo, _⟩ := doLogout_live (cfg := cfg)
      (st := { st with heap := Dict.set st.stepNo (Dict.keys m) st.heap }) (s := s) (cell := st.stepNo)
      (expire := expire) hdl
    rw [hdo]
    simp [hs]

/-! ### IdP-initiated logout requests -/

/-- A LogoutRequest that names somebody else than the current subject changes nothing and is answered
    `UnknownPrincipal` (or not at all); the session of the current subject ends only if it is named. -/
theorem C19_idp_request_only_current (cfg : Cfg) (st : St) (named current : Subj) (b : Bind) (j : Idp) :
    (named ≠ current → (handleRequest cfg st named current b j).1 = st ∧
      (handleRequest cfg st named current b j).2 ≠ .slo .success) ∧
    (∀ s, s ≠ current → (s ∈ Dict.keys (handleRequest cfg st named current b j).1.db ↔ s ∈ Dict.keys st.db)) ∧
    ((handleRequest cfg st named current b j).2 = .slo .success →
      named = current ∧ current ∉ Dict.keys (handleRequest cfg st named current b j).1.db) := by
  unfold handleRequest
  by_cases hn : named = current
  · subst hn
    simp only [if_true]
    cases hd : cacheDelete st.db named with
    | none =>
      simp only [localLogout, hd]
      refine ⟨fun h => absurd rfl h, fun s _ => by split <;> rfl, ?_⟩
      split <;> simp
    | some db' =>
      obtain ⟨h1, _⟩ := cacheDelete_some hd
      subst h1
      simp only [localLogout, hd]
      refine ⟨fun h => absurd rfl h, ?_, ?_⟩
      · intro s hs
        split <;> simp [Dict.mem_keys_del, hs]
      · intro _
        split <;> simp [Dict.mem_keys_del]
  · simp only [hn, if_false]
    refine ⟨fun _ => ?_, fun s _ => by split <;> rfl, ?_⟩
    · split <;> simp
    · split <;> simp

/-! ### Non-vacuity: concrete histories meeting the hypotheses -/

private def cfg2 : Cfg := { idps := [{ b := .redirect }, { b := .post }] }
private def lgB : Login :=
  { s := 0, i := 1, cond := some 1300, sess := some 1100, ava := [(0, [2]), (1, [7])], sidx := none, kind := .ok }
private def lgC : Login :=
  { s := 1, i := 0, cond := some 2000, sess := none, ava := [(0, [9])], sidx := some 6, kind := .ok }
private def hist : List Op :=
  [.login lgA, .login lgB, .login lgC, .logout 0 (some 1500), .resp (.pending 0) none, .resp (.pending 0) none]

-- two providers, subject 0 known at both: the session survives the first answer and ends with the second;
-- subject 1 is untouched; one re-issued request is left pending
example : (run cfg2 { now := 1000 } hist).map (fun e => e.obs.subjects) = [[0], [0], [0, 1], [0, 1], [0, 1], [1]] := by decide
example : Dict.keys (exec cfg2 { now := 1000 } hist).pending = [⟨4, 1⟩] := by decide
example : NoSoap cfg2 := by decide
example : specOk true cfg2 1000 (run cfg2 { now := 1000 } hist) = true := by decide
-- isolation / expiry: merged identity of subject 0 at 1100 (inside both windows) and at 1101 (second source stale)
example : getIdentity (exec cfg2 { now := 1000 } [.login lgA, .login lgB, .login lgC]).db 1100 0 [] true
    = some ([(0, [1, 2]), (1, [7])], []) := by decide
example : getIdentity (exec cfg2 { now := 1000 } [.login lgA, .login lgB, .login lgC]).db 1101 0 [] true
    = some ([(0, [1])], [1]) := by decide
-- a duplicate of an answered response and an unknown id are refused
example : ((run cfg2 { now := 1000 } (hist ++ [.resp .dup none, .resp .unknown none])).map (fun e => e.out)).drop 6
    = [.error .key [], .error .key []] := by decide
-- the deadline has passed when the first answer arrives: the session ends at once
example : ((run cfg2 { now := 1000 } [.login lgA, .login lgB, .logout 0 (some 1500), .advance 501, .resp (.pending 0) none]).map
    (fun e => (e.out, e.obs.subjects))).drop 4 = [(.timeout, [])] := by decide
-- an IdP-initiated request naming subject 1 while subject 0 is current ends nothing; naming 0 ends 0 only
example : (run cfg2 { now := 1000 } [.login lgA, .login lgC, .slo 1 0 .redirect 0, .slo 0 0 .post 1]).map
    (fun e => (e.out, e.obs.subjects)) =
    [(.accepted, [0]), (.accepted, [0, 1]), (.slo .unknownPrincipal, [0, 1]), (.slo .success, [1])] := by decide
-- the shared list object: a foreign issuer (provider 1) answering the request sent to provider 0
example : ((run cfg2 { now := 1000 } [.login lgA, .login lgB, .logout 0 none, .resp (.pending 0) (some 1),
    .resp (.pending 0) none]).map (fun e => (e.out, e.obs.subjects))).drop 4 = [(.error .value [], [0])] := by decide

end C19
