/-
  C20 — Signing uses the caller's own key under any thread interleaving.
  Property theorems only (plus non-vacuity examples); the invariant lemmas are in Proofs/C20.lean.

  All statements quantify over ARBITRARY thread sets (any number of threads, any programs made of
  sign / verify / entity set-up operations, threads may share an entity key), arbitrary algorithm
  tables and ARBITRARY schedules (any list of thread numbers, any length): proof by induction over
  the schedule with the invariant "a thread that is between get_signer and sign holds a signer object
  carrying the key of the entity it currently acts for".  The model of the repaired code has no shared
  signing state, no shared verification state and no state keyed by key-file path; the theorems say
  what follows from that for every history, the correspondence run checks that the code is like that.
-/
import PysamlModel.Model.Signer
import PysamlModel.Spec.C20
import PysamlModel.Proofs.C20

namespace C20
open Signer

variable {κ α μ : Type} [DecidableEq κ] [DecidableEq α] [DecidableEq μ]

/-! ### The property -/

/-- Whatever the tables, the threads, their programs and the interleaving: a signature reported by
    thread `t` for its operation number `i` belongs to a sign operation of its program and is exactly
    the signature of the key of the entity `t` acts for at that point (initial entity, or the one it most
    recently set up: the content of the key file at set-up time) over `t`'s own octets with the digest
    of the algorithm named in the URL. -/
theorem C20_signature_exact (tb : Tables α) (threads : List (Thread κ α μ)) (sched : List Nat)
    (t i : Nat) (alg : α) (msg : μ) (s : Sig κ α μ)
    (h : (t, i, Event.signed alg msg s) ∈ (run tb threads sched).out) :
    ∃ th : Thread κ α μ, threads[t]? = some th ∧ th.prog[i]? = some (.sign alg msg) ∧
      s = ⟨keyAfter th.key (th.prog.take i), alg, msg⟩ := by
  obtain ⟨th, hth, hev⟩ := (inv_run tb threads sched).events t i _ h
  exact ⟨th, hth, hev.1, hev.2⟩

/-- C20: every signature produced verifies under the certificate of the entity that made the call
    and under no other key, for every schedule (any number of threads, any length). -/
theorem C20_own_key (tb : Tables α) (threads : List (Thread κ α μ)) (sched : List Nat)
    (t i : Nat) (alg : α) (msg : μ) (s : Sig κ α μ)
    (h : (t, i, Event.signed alg msg s) ∈ (run tb threads sched).out) :
    ∃ th : Thread κ α μ, threads[t]? = some th ∧
      verifies (keyAfter th.key (th.prog.take i)) alg msg s = true ∧
      ∀ k, k ≠ keyAfter th.key (th.prog.take i) → verifies k alg msg s = false := by
  obtain ⟨th, hth, _, hs⟩ := C20_signature_exact tb threads sched t i alg msg s h
  refine ⟨th, hth, (verifies_iff _ _ _ _).mpr hs, ?_⟩
  intro k hk
  cases hv : verifies k alg msg s with
  | false => rfl
  | true =>
    have := (verifies_iff _ _ _ _).mp hv
    rw [hs] at this
    cases this
    exact absurd rfl hk

/-- In particular no OTHER thread's entity (one with a different key at any point of its program) can
    verify it; threads of one entity produce signatures of that entity. -/
theorem C20_no_other_thread (tb : Tables α) (threads : List (Thread κ α μ)) (sched : List Nat)
    (t t' i j : Nat) (th th' : Thread κ α μ) (alg : α) (msg : μ) (s : Sig κ α μ)
    (ht : threads[t]? = some th) (_ht' : threads[t']? = some th')
    (hne : keyAfter th'.key (th'.prog.take j) ≠ keyAfter th.key (th.prog.take i))
    (h : (t, i, Event.signed alg msg s) ∈ (run tb threads sched).out) :
    verifies (keyAfter th'.key (th'.prog.take j)) alg msg s = false := by
  obtain ⟨th0, hth0, _, hno⟩ := C20_own_key tb threads sched t i alg msg s h
  rw [ht] at hth0
  cases hth0
  exact hno _ hne

/-- Verification: the verdict reported for a call that is given a certificate is a function of
    (signature, certificate, claimed algorithm and octets) alone — for every schedule, whichever
    entity's backend does the checking and whatever was verified before: it is never `true` unless the
    signature was made by that certificate's key pair (no other entity's certificate accepts it), and
    it is `true` when it was, provided the algorithm has a signer entry. -/
theorem C20_verify_verdict (tb : Tables α) (threads : List (Thread κ α μ)) (sched : List Nat)
    (t i : Nat) (ok : Bool) (h : (t, i, Event.verified ok) ∈ (run tb threads sched).out) :
    ∃ (th : Thread κ α μ) (alg : α) (msg : μ) (sig : Sig κ α μ) (cert sk : Option κ),
      threads[t]? = some th ∧ th.prog[i]? = some (.verify alg msg sig cert sk) ∧
      ∀ c, cert = some c → (ok = true → verifies c alg msg sig = true) ∧
        (tb.hasSigner alg = true → ok = verifies c alg msg sig) := by
  obtain ⟨th, hth, alg, msg, sig, cert, sk, hop, hv⟩ := (inv_run tb threads sched).events t i _ h
  exact ⟨th, alg, msg, sig, cert, sk, hth, hop, hv⟩

/-- Receiving path: a receiver that tries a produced signature against the certificates `published`
    for the claimed issuer (in any order, any number, retired or foreign ones among them) accepts it iff
    the caller's own certificate is among them — for every schedule. -/
theorem C20_accepted_iff_published (tb : Tables α) (threads : List (Thread κ α μ)) (sched : List Nat)
    (t i : Nat) (alg : α) (msg : μ) (s : Sig κ α μ) (published : List κ)
    (h : (t, i, Event.signed alg msg s) ∈ (run tb threads sched).out) :
    ∃ th : Thread κ α μ, threads[t]? = some th ∧
      (published.any (fun k => verifies k alg msg s) = true ↔
        keyAfter th.key (th.prog.take i) ∈ published) := by
  obtain ⟨th, hth, _, hs⟩ := C20_signature_exact tb threads sched t i alg msg s h
  refine ⟨th, hth, ?_⟩
  subst hs
  rw [any_verifies_exact, List.contains_iff_mem]

/-- The repaired design never reaches the `crashed` outcome (a signer object always has a key). -/
theorem C20_never_crashes (tb : Tables α) (threads : List (Thread κ α μ)) (sched : List Nat) (t i : Nat) :
    (t, i, Event.crashed) ∉ (run tb threads sched).out := by
  intro h
  obtain ⟨_, _, hev⟩ := (inv_run tb threads sched).events t i _ h
  exact hev

/-! ### Entity churn: entities set up, used and dropped while others come after them -/

/-- Churn: a signature reported for operation `i` of thread `t` carries the key of the entity `t` set up LAST
    before `i` — whatever came before that set-up (`pre`: any number of earlier short-lived entities of this
    thread, with any keys, used or not) and whatever the other threads set up, signed or dropped meanwhile (any
    thread set, any schedule): nothing of an earlier entity survives into a later entity's signatures. -/
theorem C20_churn_last_setup (tb : Tables α) (threads : List (Thread κ α μ)) (sched : List Nat)
    (t i : Nat) (th : Thread κ α μ) (alg : α) (msg : μ) (s : Sig κ α μ)
    (pre post : List (Op κ α μ)) (p : Nat) (c : κ)
    (ht : threads[t]? = some th)
    (hsplit : th.prog.take i = pre ++ .setup p c :: post)
    (hpost : ∀ op ∈ post, setupContent op = none)
    (h : (t, i, Event.signed alg msg s) ∈ (run tb threads sched).out) :
    s = ⟨c, alg, msg⟩ ∧ verifies c alg msg s = true ∧ ∀ k, k ≠ c → verifies k alg msg s = false := by
  obtain ⟨th0, hth0, hv, hno⟩ := C20_own_key tb threads sched t i alg msg s h
  obtain ⟨th1, hth1, _, hs⟩ := C20_signature_exact tb threads sched t i alg msg s h
  rw [ht] at hth0 hth1
  cases hth0
  cases hth1
  have hk : keyAfter th.key (th.prog.take i) = c := by
    rw [hsplit]; exact keyAfter_last_setup _ _ _ _ _ hpost
  rw [hk] at hv hno hs
  exact ⟨hs, hv, hno⟩

/-- No process-wide state reaches a signature: two runs — any algorithm tables, ANY other threads, any
    schedules, any entities created and dropped by anybody before — that both report a signature for operation `i`
    of a thread with the same key and program report the SAME signature. -/
theorem C20_signature_history_free (tb tb' : Tables α) (threads threads' : List (Thread κ α μ)) (sched sched' : List Nat)
    (t t' i : Nat) (alg alg' : α) (msg msg' : μ) (s s' : Sig κ α μ)
    (hsame : threads[t]? = threads'[t']?)
    (h : (t, i, Event.signed alg msg s) ∈ (run tb threads sched).out)
    (h' : (t', i, Event.signed alg' msg' s') ∈ (run tb' threads' sched').out) :
    alg = alg' ∧ msg = msg' ∧ s = s' := by
  obtain ⟨th, hth, hop, hs⟩ := C20_signature_exact tb threads sched t i alg msg s h
  obtain ⟨th', hth', hop', hs'⟩ := C20_signature_exact tb' threads' sched' t' i alg' msg' s' h'
  rw [hsame, hth'] at hth
  cases hth
  rw [hop] at hop'
  cases hop'
  exact ⟨rfl, rfl, hs.trans hs'.symm⟩

/-! ### Link to the decidable specification evaluated on the implementation's output -/

/-- Reading of the checker for signatures: accepted only for a sign operation, with the caller's key
    among the verifiers and no other key. -/
theorem C20_spec_signed (tb : Tables α) (pub : Option (κ → List κ)) (own : κ) (op : Op κ α μ)
    (vs : List κ) (acc : Option Bool) (h : specOp tb pub own op (.signed vs acc) = true) :
    (∃ alg msg, op = .sign alg msg) ∧ own ∈ vs ∧ (∀ k ∈ vs, k = own) ∧
      ∀ f a, pub = some f → acc = some a → (a = true ↔ own ∈ f own) := by
  cases op with
  | sign alg msg =>
    simp only [specOp, Bool.and_eq_true, List.contains_iff_mem, List.all_eq_true, decide_eq_true_eq] at h
    refine ⟨⟨alg, msg, rfl⟩, h.1.1, h.1.2, ?_⟩
    intro f a hf ha
    subst hf ha
    have h2 := h.2
    simp only [beq_iff_eq] at h2
    rw [h2, List.contains_iff_mem]
  | verify alg msg sig cert sk => cases cert <;> simp [specOp] at h
  | setup p c => simp [specOp] at h

/-- Reading of the checker for verdicts under a certificate. -/
theorem C20_spec_verified (tb : Tables α) (pub : Option (κ → List κ)) (own c : κ) (alg : α) (msg : μ)
    (sig : Sig κ α μ) (sk : Option κ) (ok : Bool)
    (h : specOp tb pub own (.verify alg msg sig (some c) sk) (.verified ok) = true) :
    (ok = true → verifies c alg msg sig = true) ∧
      (tb.hasSigner alg = true → verifies c alg msg sig = true → ok = true) := by
  simp only [specOp, Bool.and_eq_true, Bool.or_eq_true, Bool.not_eq_true', Bool.and_eq_false_imp] at h
  constructor
  · intro hok
    rcases h.1 with h1 | h1
    · rw [hok] at h1; cases h1
    · exact h1
  · intro hs hv
    rcases h.2 with h2 | h2
    · have := h2 hs; rw [hv] at this; cases this
    · exact h2

/-- The model's observable satisfies the specification for every thread set, every bystander key
    list and every schedule (hence also for the completed schedules the driver runs). -/
theorem C20_model_meets_spec (tb : Tables α) (threads : List (Thread κ α μ)) (extra : List κ)
    (pub : Option (κ → List κ)) (sched : List Nat) :
    specOk tb pub threads (observe threads (certUniverse threads extra) pub (run tb threads sched).out) = true := by
  unfold specOk
  rw [List.all_eq_true]
  intro p hmem
  unfold observe at hmem
  obtain ⟨⟨t, i, e⟩, he, heq⟩ := List.mem_map.mp hmem
  subst heq
  obtain ⟨th, hth, hev⟩ := (inv_run tb threads sched).events t i e he
  simp only [specEntry, hth, ownAt, Option.map_some]
  cases e with
  | signed alg msg s =>
    obtain ⟨hop, hs⟩ := hev
    simp only [hop, observeEvent]
    subst hs
    rw [verifiers_exact]
    simp only [specOp, Bool.and_eq_true, List.contains_iff_mem, List.all_eq_true, decide_eq_true_eq]
    refine ⟨⟨?_, ?_⟩, ?_⟩
    rotate_left 2
    · cases pub with
      | none => rfl
      | some f =>
        simp only [beq_iff_eq]
        exact any_verifies_exact _ _ _ _
    · simp only [List.mem_filter, decide_eq_true_eq, and_true]
      unfold certUniverse
      apply List.mem_append_left
      rw [List.mem_flatMap]
      refine ⟨th, List.mem_of_getElem? hth, ?_⟩
      rcases keyAfter_mem th.key (th.prog.take i) with hk | hk
      · rw [hk]; exact List.mem_cons_self
      · apply List.mem_cons_of_mem
        obtain ⟨op, hop', hc⟩ := List.mem_filterMap.mp hk
        exact List.mem_filterMap.mpr ⟨op, List.mem_of_mem_take hop', hc⟩
    · intro k hk
      simpa using (List.mem_filter.mp hk).2
  | verified ok =>
    obtain ⟨alg, msg, sig, cert, sk, hop, hv⟩ := hev
    simp only [hop, observeEvent]
    cases cert with
    | none => rfl
    | some c =>
      obtain ⟨h1, h2⟩ := hv c rfl
      simp only [specOp, Bool.and_eq_true, Bool.or_eq_true, Bool.not_eq_true']
      constructor
      · cases ok with
        | false => left; rfl
        | true => right; exact h1 rfl
      · cases hs : tb.hasSigner alg with
        | false => left; simp
        | true =>
          rw [h2 hs]
          cases verifies c alg msg sig with
          | false => left; simp
          | true => right; rfl
  | refused =>
    obtain ⟨alg, msg, hop⟩ := hev
    simp [hop, observeEvent, specOp]
  | setupDone =>
    obtain ⟨p', c, hop⟩ := hev
    simp [hop, observeEvent, specOp]
  | crashed => exact absurd hev (by simp [EventOk])

/-! ### The design before the repair (F16): why the obligation exists -/

/-- The statement of `C20_own_key` for the shared-mutable-key design (`get_signer` stores the key on
    the table entry, `sign` reads it back later). -/
def C20_shared_design_full : Prop :=
  ∀ (tb : Tables Nat) (threads : List (Thread Nat Nat Nat)) (sched : List Nat)
    (t i alg msg : Nat) (s : Sig Nat Nat Nat),
    (t, i, Event.signed alg msg s) ∈ (runSh tb threads sched).out →
    ∃ th : Thread Nat Nat Nat, threads[t]? = some th ∧
      verifies (keyAfter th.key (th.prog.take i)) alg msg s = true ∧
      ∀ k, k ≠ keyAfter th.key (th.prog.take i) → verifies k alg msg s = false

def allAlgs : Tables Nat := { allowed := fun _ => true, hasSigner := fun _ => true }

/-- Entities A (key 10) and B (key 20), one signing operation each, same algorithm. -/
def raceThreads : List (Thread Nat Nat Nat) :=
  [⟨10, [.sign 1 100]⟩, ⟨20, [.sign 1 200]⟩]

/-- Schedule `[getSigner A, getSigner B, sign A]`: in the shared design A's message is signed with
    B's key. -/
theorem C20_shared_design_counterexample : ¬ C20_shared_design_full := by
  intro h
  obtain ⟨th, hth, hv, _⟩ := h allAlgs raceThreads [0, 1, 0] 0 0 1 100 ⟨20, 1, 100⟩ (by decide)
  have : th = ⟨10, [.sign 1 100]⟩ := by
    simp [raceThreads] at hth
    exact hth.symm
  subst this
  revert hv
  decide

/-! ### Non-vacuity -/

/-- `C20_own_key` / `C20_signature_exact` have instances: the race schedule, run through the repaired
    design, yields A's signature under A's key (hypothesis `h` is satisfiable). -/
example : (0, 0, Event.signed 1 100 ⟨10, 1, 100⟩) ∈ (run allAlgs raceThreads [0, 1, 0]).out := by decide

/-- Three entities, two operations each (sign and verify, mixed algorithms, one refused algorithm),
    fully interleaved: three signatures, each under its maker's key. -/
def threeThreads : List (Thread Nat Nat Nat) :=
  [⟨10, [.sign 1 100, .verify 1 300 ⟨30, 1, 300⟩ (some 30) none]⟩,
   ⟨20, [.verify 1 100 ⟨10, 1, 100⟩ none none, .sign 1 200]⟩,
   ⟨30, [.sign 2 300, .sign 9 301]⟩]

def someAlgs : Tables Nat := { allowed := fun a => a != 9, hasSigner := fun a => a != 9 }

example : (run someAlgs threeThreads [0, 1, 2, 1, 2, 0, 2, 1, 0, 1, 0]).out =
    [(1, 0, .verified false), (2, 0, .signed 2 300 ⟨30, 2, 300⟩), (0, 0, .signed 1 100 ⟨10, 1, 100⟩),
     (2, 1, .refused), (1, 1, .signed 1 200 ⟨20, 1, 200⟩), (0, 1, .verified true)] := by decide

/-- Entity set-up inside the history: key roll-over at an unchanged path (thread 1 sets up from path 7
    after thread 0 did, with another key) and the same content at two paths; each signature is under
    the key of the entity set up by ITS thread.  (`C20_verify_verdict` instance: B's signature checked
    against A's certificate by A's own backend is rejected.) -/
def setupThreads : List (Thread Nat Nat Nat) :=
  [⟨10, [.setup 7 11, .sign 1 100, .verify 1 200 ⟨12, 1, 200⟩ (some 11) none]⟩,
   ⟨20, [.setup 7 12, .sign 1 200, .setup 8 11, .sign 1 201]⟩]

example : (run allAlgs setupThreads [0, 1, 0, 1, 0, 1, 1, 1, 1, 0, 0]).out =
    [(0, 0, .setupDone), (1, 0, .setupDone), (0, 1, .signed 1 100 ⟨11, 1, 100⟩),
     (1, 1, .signed 1 200 ⟨12, 1, 200⟩), (1, 2, .setupDone), (1, 3, .signed 1 201 ⟨11, 1, 201⟩),
     (0, 2, .verified false)] := by decide

/-- `C20_no_other_thread` has instances (distinct keys, a signature in the output). -/
example : raceThreads[0]? = some ⟨10, [.sign 1 100]⟩ ∧ raceThreads[1]? = some ⟨20, [.sign 1 200]⟩ ∧
    (20 : Nat) ≠ 10 ∧ (0, 0, Event.signed 1 100 ⟨10, 1, 100⟩) ∈ (run allAlgs raceThreads [0, 1, 0, 1]).out := by
  decide

/-- The specification is not trivially true: it accepts the repaired design's observable and rejects
    the shared design's observable on the race schedule, a signature nobody can verify, a signature a
    second key verifies, a foreign certificate accepting, the own certificate refusing, and a signature
    under the key the caller's entity had BEFORE its latest set-up. -/
example : specOk allAlgs none raceThreads (observe raceThreads (certUniverse raceThreads [30]) none (run allAlgs raceThreads [0, 1, 0, 1]).out) = true := by decide
example : specOk allAlgs none raceThreads (observe raceThreads (certUniverse raceThreads [30]) none (runSh allAlgs raceThreads [0, 1, 0, 1]).out) = false := by decide
example : specOk allAlgs none raceThreads [(0, 0, Obs.signed [] none)] = false := by decide
example : specOk allAlgs none raceThreads [(0, 0, Obs.signed [10, 30] none)] = false := by decide
example : specOk allAlgs none [⟨10, [.sign 1 1]⟩, ⟨10, [.sign 9 2]⟩] [(1, 0, Obs.signed [10, 10] none), (0, 0, .refused)] = true := by decide
example : specOk allAlgs none setupThreads [(0, 2, Obs.verified true)] = false := by decide
example : specOk allAlgs none [⟨10, [.verify 1 5 ⟨11, 1, 5⟩ (some 11) none]⟩] [(0, 0, Obs.verified false)] = false := by decide
example : specOk allAlgs none setupThreads [(0, 1, Obs.signed [10] none)] = false := by decide
example : specOk allAlgs none setupThreads (observe setupThreads (certUniverse setupThreads []) none
    (run allAlgs setupThreads [0, 1, 0, 1, 0, 1, 1, 1, 1, 0, 0]).out) = true := by decide

/-- Receiving path: issuer 11 (thread 0 after its set-up) publishes a retired certificate first and its
    current one last, issuer 12 publishes only a retired one, everybody else publishes nothing.  The
    model's receiver accepts thread 0's signature and rejects thread 1's first one; the specification
    rejects a receiver that stops at the first certificate, and one that accepts an unpublished key. -/
def pubEx : Nat → List Nat := fun k => if k = 11 then [99, 98, 11] else if k = 12 then [97] else []

example : (observe setupThreads (certUniverse setupThreads []) (some pubEx)
    (run allAlgs setupThreads [0, 1, 0, 1, 0, 1]).out) =
    [(0, 0, .setupDone), (1, 0, .setupDone), (0, 1, .signed [11, 11] (some true)), (1, 1, .signed [12] (some false))] := by
  decide
example : specOk allAlgs (some pubEx) setupThreads (observe setupThreads (certUniverse setupThreads []) (some pubEx)
    (run allAlgs setupThreads [0, 1, 0, 1, 0, 1, 1, 1, 1, 0, 0]).out) = true := by decide
example : specOk allAlgs (some pubEx) setupThreads [(0, 1, Obs.signed [11] (some false))] = false := by decide
example : specOk allAlgs (some pubEx) setupThreads [(1, 1, Obs.signed [12] (some true))] = false := by decide

/-- The completion used by the driver finishes every program. -/
example : (run someAlgs threeThreads (complete threeThreads [2, 2])).ts.all
    (fun st => st.rest.isEmpty && decide (st.pend = .idle)) = true := by decide

/-- Churn (`C20_churn_last_setup` has instances): thread 0 sets up and drops entities with keys 11, 12, 11, 13 one
    after the other (one of them never used), thread 1 does the same with 12, 11 in between, a long-lived entity
    (key 30) keeps signing; every signature is under the key of its thread's LAST set-up.  The split of thread 0's
    program before its operation 6 is `pre ++ setup 1 13 :: []`. -/
def churnThreads : List (Thread Nat Nat Nat) :=
  [⟨10, [.setup 1 11, .sign 1 100, .setup 1 12, .setup 2 11, .sign 1 101, .setup 1 13, .sign 1 102]⟩,
   ⟨20, [.setup 1 12, .sign 1 200, .setup 1 11, .sign 1 201]⟩,
   ⟨30, [.sign 1 300, .sign 1 301]⟩]

example : ((run allAlgs churnThreads (complete churnThreads [0, 1, 1, 2, 0, 1, 0, 0, 2, 1, 0])).out.filter
      (fun p => match p.2.2 with | .signed _ _ _ => true | _ => false)).map (fun p => (p.1, p.2.1,
        match p.2.2 with | .signed _ _ s => s.key | _ => 0)) =
    [(1, 1, 12), (0, 1, 11), (2, 0, 30), (0, 4, 11), (0, 6, 13), (1, 3, 11), (2, 1, 30)] := by decide
example : (churnThreads[0]?.map (fun th => th.prog.take 6)) =
    some ([.setup 1 11, .sign 1 100, .setup 1 12, .setup 2 11, .sign 1 101] ++ .setup 1 13 :: []) := by decide
/-- the specification rejects a signature under the key of an entity the thread had dropped before (12, 11) -/
example : specOk allAlgs none churnThreads [(0, 6, Obs.signed [13] none)] = true := by decide
example : specOk allAlgs none churnThreads [(0, 6, Obs.signed [11] none)] = false := by decide
example : specOk allAlgs none churnThreads [(1, 3, Obs.signed [12] none)] = false := by decide

end C20
