/-
  C20 — Signing uses the caller's own key under any thread interleaving.
  Property theorems only (plus non-vacuity examples); the invariant lemmas are in Proofs/C20.lean.

  All statements quantify over ARBITRARY thread sets (any number of threads, any programs, threads
  may share an entity key), arbitrary algorithm tables and ARBITRARY schedules (any list of thread
  numbers, any length): proof by induction over the schedule with the invariant "a thread that is
  between get_signer and sign holds a signer object carrying its own entity's key".
-/
import PysamlModel.Model.Signer
import PysamlModel.Spec.C20
import PysamlModel.Proofs.C20

namespace C20
open Signer

variable {κ α μ : Type} [DecidableEq κ] [DecidableEq α] [DecidableEq μ]

/-! ### The property -/

/-- Whatever the tables, the threads, their programs and the interleaving: a signature reported by
    thread `t` is exactly the signature of `t`'s own entity key over `t`'s own octets with the
    digest of the algorithm named in the URL. -/
theorem C20_signature_exact (tb : Tables α) (threads : List (Thread κ α μ)) (sched : List Nat)
    (t : Nat) (alg : α) (msg : μ) (s : Sig κ α μ)
    (h : (t, Event.signed alg msg s) ∈ (run tb threads sched).out) :
    ∃ th : Thread κ α μ, threads[t]? = some th ∧ s = ⟨th.key, alg, msg⟩ :=
  (inv_run tb threads sched).sigs t alg msg s h

/-- C20: every signature produced verifies under the certificate of the entity that made the call
    and under no other key, for every schedule (any number of threads, any length). -/
theorem C20_own_key (tb : Tables α) (threads : List (Thread κ α μ)) (sched : List Nat)
    (t : Nat) (alg : α) (msg : μ) (s : Sig κ α μ)
    (h : (t, Event.signed alg msg s) ∈ (run tb threads sched).out) :
    ∃ th : Thread κ α μ, threads[t]? = some th ∧ verifies th.key alg msg s = true ∧
      ∀ k, k ≠ th.key → verifies k alg msg s = false := by
  obtain ⟨th, hth, hs⟩ := C20_signature_exact tb threads sched t alg msg s h
  refine ⟨th, hth, (verifies_iff _ _ _ _).mpr hs, ?_⟩
  intro k hk
  cases hv : verifies k alg msg s with
  | false => rfl
  | true =>
    have := (verifies_iff _ _ _ _).mp hv
    rw [hs] at this
    cases this
    exact absurd rfl hk

/-- In particular no OTHER thread's entity (one with a different key) can verify it, and threads
    of the same entity produce signatures of that entity. -/
theorem C20_no_other_thread (tb : Tables α) (threads : List (Thread κ α μ)) (sched : List Nat)
    (t t' : Nat) (th th' : Thread κ α μ) (alg : α) (msg : μ) (s : Sig κ α μ)
    (ht : threads[t]? = some th) (_ht' : threads[t']? = some th') (hne : th'.key ≠ th.key)
    (h : (t, Event.signed alg msg s) ∈ (run tb threads sched).out) :
    verifies th'.key alg msg s = false := by
  obtain ⟨th0, hth0, _, hno⟩ := C20_own_key tb threads sched t alg msg s h
  rw [ht] at hth0
  cases hth0
  exact hno th'.key hne

/-- The repaired design never reaches the `crashed` outcome (a signer object always has a key). -/
theorem C20_never_crashes (tb : Tables α) (threads : List (Thread κ α μ)) (sched : List Nat) (t : Nat) :
    (t, Event.crashed) ∉ (run tb threads sched).out := by
  suffices hs : ∀ (g : State κ α μ), (t, Event.crashed) ∉ g.out →
      (t, Event.crashed) ∉ (sched.foldl (step tb) g).out from hs _ (by simp [init])
  induction sched with
  | nil => intro g hg; exact hg
  | cons u rest ih =>
    intro g hg
    apply ih
    unfold step
    split
    · exact hg
    next st _ =>
      split
      · exact hg
      next st' b ev hstep =>
        simp only
        intro hmem
        rcases List.mem_append.mp hmem with hold | hnew
        · exact hg hold
        · unfold stepThread at hstep
          repeat' split at hstep
          all_goals cases hstep
          all_goals simp at hnew

/-! ### Link to the decidable specification evaluated on the implementation's output -/

/-- What `specOk` means. -/
theorem C20_spec_iff (keys : List κ) (obs : List (Nat × Obs κ)) :
    specOk keys obs = true ↔
      ∀ t o, (t, o) ∈ obs → ∃ own, keys[t]? = some own ∧
        ∀ vs, o = .signed vs → own ∈ vs ∧ ∀ k ∈ vs, k = own := by
  unfold specOk
  rw [List.all_eq_true]
  constructor
  · intro h t o hmem
    have := h (t, o) hmem
    simp only at this
    cases hk : keys[t]? with
    | none => simp [hk] at this
    | some own =>
      refine ⟨own, rfl, ?_⟩
      intro vs ho
      subst ho
      simp [hk, specEvent] at this
      exact this
  · intro h p hmem
    obtain ⟨own, hk, hvs⟩ := h p.1 p.2 hmem
    simp only [hk]
    cases ho : p.2 with
    | signed vs =>
      obtain ⟨h1, h2⟩ := hvs vs ho
      simp [specEvent, h1]
      exact h2
    | refused => rfl
    | crashed => rfl
    | verified ok => rfl

/-- The model's observable satisfies the specification for every thread set, every bystander key
    list and every schedule (hence also for the completed schedules the driver runs). -/
theorem C20_model_meets_spec (tb : Tables α) (threads : List (Thread κ α μ)) (extra : List κ)
    (sched : List Nat) :
    specOk (threads.map (·.key)) (observe (certUniverse threads extra) (run tb threads sched).out) = true := by
  rw [C20_spec_iff]
  intro t o hmem
  unfold observe at hmem
  obtain ⟨⟨t', e⟩, he, heq⟩ := List.mem_map.mp hmem
  simp only [Prod.mk.injEq] at heq
  obtain ⟨ht, ho⟩ := heq
  subst ht
  -- the thread exists: every event comes from a thread state of that number
  cases e with
  | signed alg msg s =>
    obtain ⟨th, hth, hs⟩ := C20_signature_exact tb threads sched t' alg msg s he
    refine ⟨th.key, by simp [hth], ?_⟩
    intro vs hvs
    rw [← ho] at hvs
    simp only [observeEvent, Obs.signed.injEq] at hvs
    subst hvs
    subst hs
    rw [verifiers_exact]
    constructor
    · simp only [List.mem_filter, decide_eq_true_eq, and_true]
      unfold certUniverse
      exact List.mem_append_left _ (List.mem_map.mpr ⟨th, List.mem_of_getElem? hth, rfl⟩)
    · intro k hk
      simpa using (List.mem_filter.mp hk).2
  | refused =>
    obtain ⟨own, hown⟩ := event_thread_exists tb threads sched t' _ he
    exact ⟨own, hown, by intro vs hvs; rw [← ho] at hvs; cases hvs⟩
  | crashed =>
    obtain ⟨own, hown⟩ := event_thread_exists tb threads sched t' _ he
    exact ⟨own, hown, by intro vs hvs; rw [← ho] at hvs; cases hvs⟩
  | verified ok =>
    obtain ⟨own, hown⟩ := event_thread_exists tb threads sched t' _ he
    exact ⟨own, hown, by intro vs hvs; rw [← ho] at hvs; cases hvs⟩

/-! ### The design before the repair (F16): why the obligation exists -/

/-- The statement of `C20_own_key` for the shared-mutable-key design (`get_signer` stores the key on
    the table entry, `sign` reads it back later). -/
def C20_shared_design_full : Prop :=
  ∀ (tb : Tables Nat) (threads : List (Thread Nat Nat Nat)) (sched : List Nat)
    (t alg msg : Nat) (s : Sig Nat Nat Nat),
    (t, Event.signed alg msg s) ∈ (runSh tb threads sched).out →
    ∃ th : Thread Nat Nat Nat, threads[t]? = some th ∧ verifies th.key alg msg s = true ∧
      ∀ k, k ≠ th.key → verifies k alg msg s = false

def allAlgs : Tables Nat := { allowed := fun _ => true, hasSigner := fun _ => true }

/-- Entities A (key 10) and B (key 20), one signing operation each, same algorithm. -/
def raceThreads : List (Thread Nat Nat Nat) :=
  [⟨10, [.sign 1 100]⟩, ⟨20, [.sign 1 200]⟩]

/-- Schedule `[getSigner A, getSigner B, sign A]`: in the shared design A's message is signed with
    B's key. -/
theorem C20_shared_design_counterexample : ¬ C20_shared_design_full := by
  intro h
  obtain ⟨th, hth, hv, _⟩ := h allAlgs raceThreads [0, 1, 0] 0 1 100 ⟨20, 1, 100⟩ (by decide)
  have : th = ⟨10, [.sign 1 100]⟩ := by
    simp [raceThreads] at hth
    exact hth.symm
  subst this
  revert hv
  decide

/-! ### Non-vacuity -/

/-- `C20_own_key` / `C20_signature_exact` have instances: the race schedule, run through the repaired
    design, yields A's signature under A's key (hypothesis `h` is satisfiable). -/
example : (0, Event.signed 1 100 ⟨10, 1, 100⟩) ∈ (run allAlgs raceThreads [0, 1, 0]).out := by decide

/-- Three entities, two operations each (sign and verify, mixed algorithms, one refused algorithm),
    fully interleaved: three signatures, each under its maker's key. -/
def threeThreads : List (Thread Nat Nat Nat) :=
  [⟨10, [.sign 1 100, .verify 1 300 ⟨30, 1, 300⟩ (some 30) none]⟩,
   ⟨20, [.verify 1 100 ⟨10, 1, 100⟩ none none, .sign 1 200]⟩,
   ⟨30, [.sign 2 300, .sign 9 301]⟩]

def someAlgs : Tables Nat := { allowed := fun a => a != 9, hasSigner := fun a => a != 9 }

example : (run someAlgs threeThreads [0, 1, 2, 1, 2, 0, 2, 1, 0, 1, 0]).out =
    [(1, .verified false), (2, .signed 2 300 ⟨30, 2, 300⟩), (0, .signed 1 100 ⟨10, 1, 100⟩), (2, .refused),
     (1, .signed 1 200 ⟨20, 1, 200⟩), (0, .verified true)] := by decide

/-- `C20_no_other_thread` has instances (distinct keys, a signature in the output). -/
example : raceThreads[0]? = some ⟨10, [.sign 1 100]⟩ ∧ raceThreads[1]? = some ⟨20, [.sign 1 200]⟩ ∧
    (20 : Nat) ≠ 10 ∧ (0, Event.signed 1 100 ⟨10, 1, 100⟩) ∈ (run allAlgs raceThreads [0, 1, 0, 1]).out := by decide

/-- The specification is not trivially true: it accepts the repaired design's observable and rejects
    the shared design's observable on the race schedule, and rejects a signature nobody can verify. -/
example : specOk [10, 20] (observe (certUniverse raceThreads [30]) (run allAlgs raceThreads [0, 1, 0, 1]).out) = true := by decide
example : specOk [10, 20] (observe (certUniverse raceThreads [30]) (runSh allAlgs raceThreads [0, 1, 0, 1]).out) = false := by decide
example : specOk [10, 20] [(0, Obs.signed [])] = false := by decide
example : specOk [10, 20] [(0, Obs.signed [10, 30])] = false := by decide
example : specOk [10, 10] [(1, Obs.signed [10, 10]), (0, .refused)] = true := by decide

/-- The completion used by the driver finishes every program. -/
example : (run someAlgs threeThreads (complete threeThreads [2, 2])).ts.all
    (fun st => st.rest.isEmpty && decide (st.pend = .idle)) = true := by decide

end C20
