/-
  C16 — Encrypted assertions stay confidential and are recoverable only by the recipient.

  Property theorems only (plus non-vacuity examples).  The statements quantify over every call of
  `create_authn_response` the model covers — all keyword / configuration / default settings of the five
  flags, PEFIM or not, any list of metadata key descriptors (any length, usable or not, any `use`), any
  explicit certificate arguments — and, on the recipient's side, over every configuration, clock,
  envelope and assertion content of the shared `Sp.process`, every set of private keys, damaged or
  intact ciphertext.

  Two defects of the pinned tree (the early return of `_response` before the advice was encrypted;
  `pre_encrypt_assertion` applied twice to a message still in object form) were repaired in /repo by
  130fd4d2 and 9b391349; the model mirrors the repaired code and every statement is proved at full
  strength.  The former counterexample witnesses are kept as regression examples.
-/
import PysamlModel.Proofs.C16
import PysamlModel.Gen.EncryptDefaults

namespace C16
open Encrypt

/-! ### confidentiality of the assertion -/

/-! Concrete calls used by the non-vacuity examples: keys 1, 2 are the recipient's, 3 is somebody else's. -/
private def mdOne : List MdKey := [⟨.signing, 4, true⟩, ⟨.encryption, 1, true⟩]
/-- encrypt_assertion with everything signed -/
private def callEnc : Call := { kw := ⟨some true, some true, some true, none, none⟩, md := mdOne }
/-- PEFIM, assertion and advice encrypted, everything signed -/
private def callPefim : Call := { kw := ⟨some true, some true, some true, none, none⟩, pefim := true, md := mdOne }
/-- PEFIM, advice only, Response and assertion signed -/
private def callAdvOnly : Call := { kw := ⟨some true, some true, some false, none, none⟩, pefim := true, md := mdOne }
/-- an unusable certificate first, then two usable ones -/
private def callRotate : Call :=
  { kw := ⟨none, none, some true, none, none⟩, md := [⟨.encryption, 3, false⟩, ⟨.unspecified, 2, true⟩, ⟨.encryption, 1, true⟩] }

private def okContent : Sp.Assertion :=
  { conditions := some { nb := some 100, nooa := some 1000, audiences := [["me"]] },
    authn := [{ sessionIndex := none }],
    subject := some { nameId := some "n", confs := [{ method := .bearer, data := some { nooa := some 1000, recipient := some "u", irt := some "r1" } }] } }
private def inputOf (c : Call) (keys : List Key) (tamper : Bool) : Input :=
  { call := c, rc := { configured := keys }, tamper := tamper,
    cfg := { wantResp := true, wantAssert := true, entityId := "me", returnAddrs := ["u"] },
    env := { now := 100, outstanding := [("r1", "/x")] },
    envelope := { issueInstant := 100, destination := some "u", inResponseTo := some "r1", issuer := some "idp" },
    content := okContent }
private def wireOfCall (c : Call) : Wire :=
  match createAuthnResponse c with
  | .ok iss => iss.wire
  | .error _ => { body := .clear {} }

/-- C16, confidentiality of the assertion: whenever assertion encryption is requested (by keyword,
    configuration or default) and the designated certificate is usable, the Response that is issued
    carries the assertion only as an EncryptedData sealed for one of the recipient's designated
    certificates: no clear-text assertion, advice assertion, subject identifier or attribute value —
    for every setting of the other flags and every metadata. -/
theorem C16_confidential_assertion (c : Call) (iss : Issued) (outerHasAttrs adviceHasAttrs : Bool)
    (heff : effA c = true) (h : createAuthnResponse c = .ok iss) :
    (∃ k o, iss.wire.body = .sealed k o true ∧ k ∈ candidates c.certAssertion c.md) ∧
    clearOf outerHasAttrs adviceHasAttrs iss.wire = ⟨false, false, false, false, false⟩ := by
  obtain ⟨_, he, hk, k, hc⟩ := effA_facts heff
  have hbody : ∃ o, iss.wire.body = .sealed k o true := by
    rcases response_inv h with ⟨he', _⟩ | ⟨_, hk', _⟩ | ⟨_, _, opsB, advB, ko, _, hs, _, hw⟩ | ⟨_, hk', _⟩
    · rw [he] at he'; cases he'
    · rw [hk] at hk'; cases hk'
    · rcases encryptStep_inv hs with ⟨hn, _⟩ | ⟨k', hk', hko⟩
      · rw [hc] at hn; cases hn
      · rw [hc] at hk'; cases hk'
        subst hko
        exact ⟨_, by rw [hw]; rfl⟩
    · rw [hk] at hk'; cases hk'
  obtain ⟨o, ho⟩ := hbody
  refine ⟨⟨k, o, ho, chooseCert_key_mem hc⟩, ?_⟩
  unfold clearOf
  rw [ho]

example : effA callEnc = true ∧ (wireOfCall callEnc).body = .sealed 1 { sig := some none } true := by decide
example : effA callRotate = true ∧ (wireOfCall callRotate).body = .sealed 2 {} true := by decide

/-! ### confidentiality of the advice -/

/-- C16, confidentiality of the advice: whenever advice encryption is requested
    (`encrypted_advice_attributes` or PEFIM, and there is an advice assertion) and the designated
    certificate is usable, the issued Response shows neither a clear-text advice assertion nor any of its
    attribute values: the advice leaves sealed for one of the recipient's designated certificates —
    for every setting of the other flags (in particular whatever is signed) and every metadata. -/
theorem C16_confidential_advice (c : Call) (iss : Issued) (outerHasAttrs adviceHasAttrs : Bool)
    (heff : effAdv c = true) (h : createAuthnResponse c = .ok iss) :
    ((clearOf outerHasAttrs adviceHasAttrs iss.wire).adviceAssertion = false ∧
     (clearOf outerHasAttrs adviceHasAttrs iss.wire).attrsAdvice = false) ∧
    ∃ k adv, iss.wire.body.outer.advice = some (.sealed k adv true) ∧ k ∈ candidates c.certAdvice c.md := by
  obtain ⟨k, adv, hadv, hc⟩ := advice_sealed heff h
  refine ⟨?_, k, adv, hadv, chooseCert_key_mem hc⟩
  unfold clearOf
  cases hb : iss.wire.body with
  | sealed k' o b => exact ⟨rfl, rfl⟩
  | clear o =>
    rw [hb] at hadv
    simp only [Body.outer] at hadv
    simp [Outer.adviceClear, hadv, AdvBox.isClearText]
  | wrapped o =>
    rw [hb] at hadv
    simp only [Body.outer] at hadv
    simp [Outer.adviceClear, hadv, AdvBox.isClearText]

/-- the former counterexample (repaired by 130fd4d2): PEFIM, sign_assertion=True, sign_response=False,
    encrypt_assertion=False, the recipient publishes one usable encryption certificate -/
def earlyWitness : Call :=
  { kw := ⟨some false, some true, some false, none, none⟩, pefim := true, md := [⟨.encryption, 1, true⟩] }

example : effAdv callAdvOnly = true ∧
    (wireOfCall callAdvOnly).body.outer.advice = some (.sealed 1 ⟨false, true⟩ true) := by decide
/-- regression: the old early-return input now has its advice sealed before the assertion is signed -/
example : effAdv earlyWitness = true ∧ earlyReturnClass earlyWitness = true ∧
    createAuthnResponse earlyWitness = .ok
      { ops := [.encAdvice 1, .signAssertion], wire := wireOfCall earlyWitness, asString := true,
        trace := { branch := .encrypting, partB := true } } ∧
    (wireOfCall earlyWitness).body.outer.advice = some (.sealed 1 ⟨false, true⟩ true) :=
  ⟨by decide, by decide, rfl, by decide⟩
/-- the early return is still taken when no advice is left to encrypt -/
example : createAuthnResponse { earlyWitness with pefim := false } = .ok
    { ops := [.signAssertion], wire := { sig := none, body := .clear { sig := some none, advice := none } },
      asString := true, trace := { branch := .early } } := rfl

/-! ### a Response is issued -/

/-- C16, every combination works: every setting of the flags whose requested encryptions have a usable
    certificate yields a Response (signed or not, self-contained or not, PEFIM or not). -/
theorem C16_issued (c : Call) (hw : wellPosed c = true) : ∃ iss, createAuthnResponse c = .ok iss := by
  obtain ⟨_, hA, hAdv⟩ := wellPosed_facts hw
  -- part B succeeds
  have hB : ∃ opsB advB, partB c.rargs = .ok (opsB, advB) := by
    unfold partB
    cases hadv : c.rargs.advice with
    | none => exact ⟨_, _, rfl⟩
    | some adv =>
      simp only
      cases hk : adviceKept c.rargs with
      | false => exact ⟨_, _, rfl⟩
      | true =>
        have heff := hAdv (requestedAdv_of_kept hk (by rw [hadv]; rfl))
        obtain ⟨_, _, _, k, hc⟩ := effAdv_facts heff
        simp only [Bool.not_true, Bool.false_eq_true, if_false, hc, encryptStep, Option.isNone_some, Bool.false_and]
        exact ⟨_, _, rfl⟩
  obtain ⟨opsB, advB, hB⟩ := hB
  unfold createAuthnResponse response
  simp only
  cases he : earlyReturn c.rargs with
  | true => exact ⟨_, rfl⟩
  | false =>
    simp only [Bool.false_eq_true, if_false]
    cases hk : assertionKept c.rargs with
    | true =>
      simp only [Bool.true_or, if_true, hB]
      have heff := hA (requestedA_of_kept hk)
      obtain ⟨_, _, _, k, hc⟩ := effA_facts heff
      unfold partC
      simp only [hc, encryptStep]
      exact ⟨_, rfl⟩
    | false =>
      simp only [Bool.false_or]
      cases hc : (adviceKept c.rargs && c.rargs.advice.isSome) with
      | true => simp only [if_true, hB, Bool.false_eq_true, if_false]; exact ⟨_, rfl⟩
      | false => exact ⟨_, rfl⟩

/-- the former counterexample (repaired by 9b391349): encrypt_assertion=True,
    encrypt_assertion_self_contained=False, nothing signed, one usable encryption certificate -/
def objectFormWitness : Call :=
  { kw := ⟨some false, some false, some true, some false, some false⟩, md := [⟨.encryption, 1, true⟩] }

example : wellPosed callPefim = true := by decide
/-- regression: the old object-form input now yields a sealed assertion -/
example : wellPosed objectFormWitness = true ∧ objectFormClass objectFormWitness = true ∧
    (wireOfCall objectFormWitness).body = .sealed 1 {} true ∧
    createAuthnResponse objectFormWitness = .ok
      { ops := [.encAssertion 1], wire := wireOfCall objectFormWitness, asString := true,
        trace := { branch := .encrypting, partC := true } } :=
  ⟨by decide, by decide, by decide, rfl⟩
/-- the remaining refusals: no usable certificate at all -/
example : createAuthnResponse { objectFormWitness with md := [⟨.encryption, 3, false⟩] } = .error .noUsableCert := rfl

/-! ### whose key -/

/-- C16, "only by the recipient": whatever leaves sealed — the assertion or the advice assertion — is
    sealed, intact, for a certificate the call designates for the recipient: the explicit one if one was
    passed, else one of the recipient's metadata certificates whose use is not "signing".  For every call. -/
theorem C16_key_of_recipient (c : Call) (iss : Issued) (h : createAuthnResponse c = .ok iss) :
    (∀ k o b, iss.wire.body = .sealed k o b → b = true ∧ k ∈ candidates c.certAssertion c.md) ∧
    (∀ k adv b, iss.wire.body.outer.advice = some (.sealed k adv b) → b = true ∧ k ∈ candidates c.certAdvice c.md) := by
  rcases response_inv h with ⟨_, _, hw⟩ | ⟨_, _, _, _, hw⟩ | ⟨_, _, opsB, advB, ko, hp, hst, _, hw⟩ | ⟨_, _, _, _, opsB, advB, hp, _, hw⟩
  · rw [hw]
    refine ⟨fun k o b hb => (by cases hb), fun k adv b hb => (map_clear_not_sealed hb).elim⟩
  · rw [hw]
    refine ⟨fun k o b hb => (by cases hb), fun k adv b hb => (map_clear_not_sealed hb).elim⟩
  · rw [hw]
    constructor
    · intro k o b hb
      rcases encryptStep_inv hst with ⟨_, hko⟩ | ⟨k', hk', hko⟩
      · subst hko; cases hb
      · subst hko
        simp only [wireOf, sealBody, Body.sealed.injEq] at hb
        obtain ⟨h1, _, h3⟩ := hb
        subst h1
        exact ⟨h3.symm, chooseCert_key_mem hk'⟩
    · intro k adv b hb
      have hb' : advB = some (.sealed k adv b) := by
        have : (sealBody ko { sig := if c.rargs.signAssertion then some advB else none, advice := advB }).outer.advice = advB := by
          rw [outer_sealBody]
        exact this ▸ hb
      obtain ⟨h1, h2⟩ := partB_sealed hp hb'
      exact ⟨h1, chooseCert_key_mem h2⟩
  · rw [hw]
    refine ⟨fun k o b hb => (by cases hb), ?_⟩
    intro k adv b hb
    obtain ⟨h1, h2⟩ := partB_sealed hp hb
    exact ⟨h1, chooseCert_key_mem h2⟩

example : (wireOfCall callRotate).body = .sealed 2 {} true ∧ candidates callRotate.certAssertion callRotate.md = [3, 2, 1] := by decide
example : (wireOfCall { callPefim with certAdvice := .cert 2 true }).body =
    .sealed 1 { sig := some (some (.sealed 2 ⟨false, true⟩ true)), advice := some (.sealed 2 ⟨false, true⟩ true) } true := by decide

/-! ### signatures: order and validity at the recipient -/

/-- C16, signature order (1): in every call the successful sign / encrypt operations happen in the order
    advice signed, advice encrypted, assertion signed, assertion encrypted, Response signed — each at most
    once: an assertion is signed before it is encrypted, the Response after everything else. -/
theorem C16_ops_ordered (c : Call) (iss : Issued) (h : createAuthnResponse c = .ok iss) :
    opsOrdered iss.ops = true := by
  have hB : ∀ {opsB advB}, partB c.rargs = .ok (opsB, advB) →
      opsB = [] ∨ (∃ k, opsB = [.encAdvice k]) ∨ opsB = [.signAdvice] ∨ (∃ k, opsB = [.signAdvice, .encAdvice k]) := by
    intro opsB advB hp
    rcases partB_inv hp with ⟨_, ho, _⟩ | ⟨_, _, _, ho, _⟩ | ⟨_, ko, _, _, _, ho, _⟩
    · exact Or.inl ho
    · exact Or.inl ho
    · rw [ho]
      cases signsAdvice c.rargs <;> cases ko <;> simp [optOp, keyOp]
  rcases response_inv h with ⟨_, ho, _⟩ | ⟨_, _, _, ho, _⟩ | ⟨_, _, opsB, advB, ko, hp, _, ho, _⟩ | ⟨_, _, _, _, opsB, advB, hp, ho, _⟩
  · rw [ho]; rfl
  · rw [ho]
    cases c.rargs.sign <;> cases c.rargs.toSign <;> rfl
  · rw [ho]
    rcases hB hp with hb | ⟨k, hb⟩ | hb | ⟨k, hb⟩ <;> subst hb <;>
      cases c.rargs.signAssertion <;> cases ko <;> cases c.rargs.sign <;>
      simp [optOp, keyOp, opsOrdered, Op.rank]
  · rw [ho]
    rcases hB hp with hb | ⟨k, hb⟩ | hb | ⟨k, hb⟩ <;> subst hb <;>
      cases c.rargs.toSign <;> cases c.rargs.sign <;>
      simp [optOp, opsOrdered, Op.rank]

example : createAuthnResponse callPefim = .ok
    { ops := [.encAdvice 1, .signAssertion, .encAssertion 1, .signResponse], wire := wireOfCall callPefim,
      asString := true, trace := { branch := .encrypting, partB := true, partC := true } } := rfl
example : opsOrdered [.encAssertion 1, .signAssertion] = false ∧ opsOrdered [.signResponse, .encAssertion 1] = false := by decide

/-- C16, signature order (2): in every call each signature that is present was computed over exactly
    what is finally sent — the Response signature over the body as it leaves (assertion already sealed),
    the assertion signature over the assertion with its advice as it leaves (advice already sealed) and
    before the assertion itself is sealed. -/
theorem C16_signature_order (c : Call) (iss : Issued) (h : createAuthnResponse c = .ok iss) :
    (∀ b, iss.wire.sig = some b → b = iss.wire.body) ∧
    (∀ v, iss.wire.body.outer.sig = some v → v = iss.wire.body.outer.advice) := by
  have hwire : ∀ (s : Bool) (body : Body), ∀ b, (wireOf s body).sig = some b → b = (wireOf s body).body := by
    intro s body b hb
    cases s <;> simp [wireOf] at hb ⊢
    exact hb.symm
  rcases response_inv h with ⟨_, _, hw⟩ | ⟨_, _, _, _, hw⟩ | ⟨_, _, opsB, advB, ko, _, _, _, hw⟩ | ⟨_, _, _, _, opsB, advB, _, _, hw⟩
  · rw [hw]
    refine ⟨fun b hb => (by cases hb), fun v hv => ?_⟩
    simp only [Body.outer, Option.some.injEq] at hv ⊢
    exact hv.symm
  · rw [hw]
    refine ⟨hwire _ _, fun v hv => ?_⟩
    simp only [wireOf, Body.outer] at hv ⊢
    split at hv
    · exact (Option.some.inj hv).symm
    · cases hv
  · rw [hw]
    refine ⟨hwire _ _, fun v hv => ?_⟩
    simp only [wireOf, outer_sealBody] at hv ⊢
    split at hv
    · exact (Option.some.inj hv).symm
    · cases hv
  · rw [hw]
    refine ⟨hwire _ _, fun v hv => ?_⟩
    simp only [wireOf, Body.outer] at hv ⊢
    split at hv
    · exact (Option.some.inj hv).symm
    · cases hv

example : (wireOfCall callPefim).sig = some (wireOfCall callPefim).body ∧
    (wireOfCall callPefim).body.outer.sig = some (wireOfCall callPefim).body.outer.advice := by decide

/-! ### the recipient -/

/-- C16, wrong key: a recipient that does not hold the private key matching the certificate the
    assertion was sealed for obtains no identity — whatever else it is configured with, whatever the
    message says, damaged or not.  If only the advice assertion is sealed for a key it does not hold, the
    advice assertion's content does not reach it. -/
theorem C16_wrong_key (i : Input) (w : Wire) :
    (∀ k o b, w.body = .sealed k o b → i.rc.holds k = false → (i.outcome w).isIdentity = false) ∧
    (∀ k adv b, w.body.outer.advice = some (.sealed k adv b) → i.rc.holds k = false →
       (receive i.rc (i.sent w)).adviceVisible = false) := by
  constructor
  · intro k o b hb hk
    obtain ⟨he, hd⟩ := receive_sealed (rc := i.rc) (sent_body_sealed (i := i) hb)
    apply outcome_shut he
    rw [hd, hk]; simp
  · intro k adv b hadv hk
    obtain ⟨b', hb', _⟩ := sent_advice_sealed (i := i) hadv
    rw [receive_advice_sealed hb', hk]; simp

/-- C16, corrupted ciphertext: after a bit flip in the ciphertext or the wrapped key of the EncryptedData
    on the wire, a sealed assertion yields no identity — even for the holder of the right key — and a
    sealed advice assertion (inside a clear assertion) stays unread. -/
theorem C16_corrupt (i : Input) (w : Wire) (ht : i.tamper = true) :
    (∀ k o b, w.body = .sealed k o b → (i.outcome w).isIdentity = false) ∧
    (∀ k adv b, w.body.outer.advice = some (.sealed k adv b) → (∀ k' o' b', w.body ≠ .sealed k' o' b') →
       (receive i.rc (i.sent w)).adviceVisible = false) := by
  constructor
  · intro k o b hb
    obtain ⟨he, hd⟩ := receive_sealed (rc := i.rc) (sent_body_sealed (i := i) hb)
    apply outcome_shut he
    rw [hd, ht]; simp
  · intro k adv b hadv hne
    obtain ⟨b', hb', hf, _⟩ := sent_advice_sealed (i := i) hadv
    rw [receive_advice_sealed hb', hf hne ht]; simp

example : (inputOf callEnc [2, 3] false).outcome (wireOfCall callEnc) = .noIdentity := by decide
example : ((inputOf callEnc [2, 1] false).outcome (wireOfCall callEnc)).isIdentity = true := by decide
example : (inputOf callEnc [1] true).outcome (wireOfCall callEnc) = .rejected .sigBadResponse := by decide
example : (inputOf { callEnc with kw := ⟨some false, some true, some true, none, none⟩ } [1] true).outcome
    (wireOfCall { callEnc with kw := ⟨some false, some true, some true, none, none⟩ }) = .rejected .sigMissingResponse := by decide
example : (receive (inputOf callAdvOnly [2] false).rc ((inputOf callAdvOnly [2] false).sent (wireOfCall callAdvOnly))).adviceVisible = false := by decide

/-- C16, signatures verify at the recipient: for every well-posed call the
    Response signature (computed after encryption) and the assertion signature (computed before the
    assertion is sealed, after its advice is) are valid when the recipient checks them, and present
    exactly when requested. -/
theorem C16_signatures_verify (c : Call) (iss : Issued) (hw : wellPosed c = true)
    (h : createAuthnResponse c = .ok iss) :
    respSig iss.wire = (if c.opts.signResponse then .valid else .absent) ∧
    outerSig iss.wire.body.outer = (if c.opts.signAssertion then .valid else .absent) := by
  obtain ⟨advB, hok, hshape⟩ := wellPosed_shape hw h
  rcases hshape with ⟨k, _, _, hwire⟩ | ⟨_, _, hwire⟩
  · rw [hwire]
    refine ⟨?_, outerSig_ok _ hok⟩
    rw [respSig_wireOf]; simp [Body.schemaOk]
  · rw [hwire]
    refine ⟨?_, outerSig_ok _ hok⟩
    rw [respSig_wireOf]
    have := hok.schemaOk (sig := if c.opts.signAssertion then some advB else none)
    simp [Body.schemaOk, this]

example : wellPosed callAdvOnly = true ∧ respSig (wireOfCall callAdvOnly) = .valid ∧
    outerSig (wireOfCall callAdvOnly).body.outer = .valid := by decide
/-- regression (130fd4d2): the assertion of the old early-return input is now signed over its sealed advice -/
example : outerSig (wireOfCall earlyWitness).body.outer = .valid := by decide
/-- outside the theorem's hypotheses (no certificate at all): the clear fall-back.  Since 8a6bffac PEFIM's
    advice assertion carries its Issuer, so the signed assertion around the clear advice verifies -/
example : outerSig (wireOfCall { earlyWitness with md := [] }).body.outer = .valid ∧
    (wireOfCall { earlyWitness with md := [] }).body.outer.advice = some (.clear ⟨false, true⟩) := by decide
/-- outside the hypotheses, still refused: "" as certificate leaves a wrapper without EncryptedData, which the
    schema check inside the Response signature verification rejects -/
example : respSig (wireOfCall { callEnc with md := [], certAssertion := .empty }) = .corrupted := by decide

/-- C16, recoverable: for every well-posed call, an undamaged Response and a
    recipient holding the private key(s) matching what was sealed — whenever the recipient's model accepts
    the same Response with the assertion in clear and the requested signatures in place (otherwise valid,
    signature policy satisfied), it accepts the encrypted one and reports exactly the same identity; the
    reported subject identifier is the issued one and the advice assertion's content is read.  For every
    sign / encrypt combination, every recipient configuration, clock, envelope and assertion content. -/
theorem C16_recoverable (i : Input) (iss : Issued) (hw : wellPosed i.call = true)
    (h : createAuthnResponse i.call = .ok iss) (hnt : i.tamper = false)
    (hkA : ∀ k o b, iss.wire.body = .sealed k o b → i.rc.holds k = true)
    (hkAdv : ∀ k adv b, iss.wire.body.outer.advice = some (.sealed k adv b) → i.rc.holds k = true)
    (o : Sp.Reported) (hplain : Sp.process i.cfg i.env (plainVariant i) = .identity o) :
    i.outcome iss.wire = .identity o ∧ o.nameId = i.content.subject.bind (·.nameId) ∧
    (i.hasAdvice = true → (receive i.rc (i.sent iss.wire)).adviceVisible = true) := by
  obtain ⟨h1, h2, h3, h4⟩ := receive_wellPosed hw h hnt hkA hkAdv
  rw [plainVariant_eq] at hplain
  refine ⟨?_, (Sp.process_nameId hplain : o.nameId = (asrtOf i).subject.bind (·.nameId)), h4⟩
  unfold Input.outcome
  rw [toSp_eq, h1, h2, h3]
  cases he : (receive i.rc (i.sent iss.wire)).encrypted with
  | false => exact hplain
  | true => exact Sp.process_transparent hplain

example : (Sp.process (inputOf callPefim [1] false).cfg (inputOf callPefim [1] false).env (plainVariant (inputOf callPefim [1] false))).isIdentity = true ∧
    ((inputOf callPefim [1] false).outcome (wireOfCall callPefim)).isIdentity = true ∧
    (receive (inputOf callPefim [1] false).rc (wireOfCall callPefim)).adviceVisible = true := by decide
example : ((inputOf callAdvOnly [1] false).outcome (wireOfCall callAdvOnly)).isIdentity = true := by decide

/-! ### the model meets the decidable specification

  (`obsOk` … `specIssued_model` are helper lemmas, one per clause of `Encrypt.spec`; they rest on the property
  theorems above, which is why they live here and not in Proofs/C16.lean.) -/

def obsOk (i : Input) (iss : Issued) : Obs :=
  { issued := true
    ops := iss.ops
    wire := wireObs iss.wire
    leak := clearOf i.outerHasAttrs i.adviceHasAttrs iss.wire
    tampered := i.tamper && iss.wire.hasCiphertext
    sp := spObs i (receive i.rc (i.sent iss.wire)) (i.outcome iss.wire) }

theorem issue_ok {i : Input} {iss : Issued} (h : i.issue = .ok iss) : createAuthnResponse i.call = .ok iss := by
  unfold Input.issue at h
  split at h
  · split at h
    · cases h
    next iss' hc =>
      unfold ecpWrap at h
      split at h
      · cases h
      · cases h; exact hc
  · exact h

theorem observe_ok {i : Input} {iss : Issued} (h : i.issue = .ok iss) : observe i = obsOk i iss := by
  unfold observe; rw [h]; rfl

theorem observe_err {i : Input} {e : Refusal} (h : i.issue = .error e) :
    observe i = { issued := false } := by
  unfold observe; rw [h]

theorem spObs_kind (i : Input) (s : Seen) (out : Sp.Outcome) :
    ((spObs i s out).kind == .identity) = out.isIdentity := by
  cases out <;> rfl

theorem wireObs_body_sealed {w : Wire} (h : (wireObs w).body = .sealed) :
    ∃ k o b, w.body = .sealed k o b ∧ (wireObs w).bodyKey = some k := by
  cases hb : w.body with
  | sealed k o b => exact ⟨k, o, b, rfl, by simp [wireObs, hb]⟩
  | clear o => simp [wireObs, hb, bodyKind] at h
  | wrapped o => simp [wireObs, hb, bodyKind] at h

theorem wireObs_advice_sealed {w : Wire} (h : (wireObs w).advice = .sealed) :
    ∃ k adv b, w.body.outer.advice = some (.sealed k adv b) ∧ (wireObs w).adviceKey = some k := by
  cases ha : w.body.outer.advice with
  | none => simp [wireObs, ha, advKind] at h
  | some bx =>
    cases bx with
    | sealed k adv b => exact ⟨k, adv, b, rfl, by simp [wireObs, ha]⟩
    | clear adv => simp [wireObs, ha, advKind] at h
    | wrapped adv => simp [wireObs, ha, advKind] at h

theorem specConfA_model (i : Input) (iss : Issued) (h : createAuthnResponse i.call = .ok iss) :
    specConfA i (obsOk i iss) = true := by
  unfold specConfA
  cases heff : effA i.call with
  | false => simp
  | true =>
    obtain ⟨⟨k, o, hb, _⟩, hclear⟩ := C16_confidential_assertion i.call iss i.outerHasAttrs i.adviceHasAttrs heff h
    simp [obsOk, hclear, wireObs, hb, bodyKind]

theorem specConfAdv_model (i : Input) (iss : Issued)
    (h : createAuthnResponse i.call = .ok iss) : specConfAdv i (obsOk i iss) = true := by
  unfold specConfAdv
  cases heff : effAdv i.call with
  | false => simp
  | true =>
    obtain ⟨⟨h1, h2⟩, _⟩ := C16_confidential_advice i.call iss i.outerHasAttrs i.adviceHasAttrs heff h
    simp [obsOk, h1, h2]

theorem specKey_model (i : Input) (iss : Issued) (h : createAuthnResponse i.call = .ok iss) :
    specKey i (obsOk i iss) = true := by
  obtain ⟨hA, hAdv⟩ := C16_key_of_recipient i.call iss h
  unfold specKey
  simp only [obsOk, Bool.not_true, Bool.false_or, Bool.and_eq_true, Bool.or_eq_true, bne_iff_ne, ne_eq]
  constructor
  · by_cases hs : (wireObs iss.wire).body = .sealed
    · right
      obtain ⟨k, o, b, hb, hk⟩ := wireObs_body_sealed hs
      rw [hk]
      simpa [keyAmong] using (hA k o b hb).2
    · exact Or.inl hs
  · by_cases hs : (wireObs iss.wire).advice = .sealed
    · right
      obtain ⟨k, adv, b, hb, hk⟩ := wireObs_advice_sealed hs
      rw [hk]
      simpa [keyAmong] using (hAdv k adv b hb).2
    · exact Or.inl hs

theorem specWrongKey_model (i : Input) (iss : Issued) : specWrongKey i (obsOk i iss) = true := by
  obtain ⟨hA, hAdv⟩ := C16_wrong_key i iss.wire
  unfold specWrongKey
  simp only [obsOk, Bool.not_true, Bool.false_or, Bool.and_eq_true, Bool.or_eq_true, Bool.not_eq_true',
    Bool.and_eq_false_iff, bne_iff_ne, ne_eq, beq_iff_eq]
  constructor
  · by_cases hs : (wireObs iss.wire).body = .sealed
    · obtain ⟨k, o, b, hb, hk⟩ := wireObs_body_sealed hs
      cases hh : i.rc.holds k with
      | true => left; right; rw [hk]; simpa [keyHeld] using hh
      | false =>
        right
        have := hA k o b hb hh
        rw [← spObs_kind i (receive i.rc (i.sent iss.wire))] at this
        simpa using this
    · exact Or.inl (Or.inl (by simpa using hs))
  · by_cases hs : (wireObs iss.wire).advice = .sealed
    · obtain ⟨k, adv, b, hb, hk⟩ := wireObs_advice_sealed hs
      cases hh : i.rc.holds k with
      | true => left; left; right; rw [hk]; simpa [keyHeld] using hh
      | false =>
        have hv := hAdv k adv b hb hh
        cases hout : i.outcome iss.wire with
        | identity o => right; simp [spObs, hv]
        | noIdentity => left; right; simp [spObs]
        | rejected e => left; right; simp [spObs]
    · exact Or.inl (Or.inl (Or.inl (by simpa using hs)))

theorem specCorrupt_model (i : Input) (iss : Issued) : specCorrupt i (obsOk i iss) = true := by
  unfold specCorrupt
  cases ht : (i.tamper && iss.wire.hasCiphertext) with
  | false => simp [obsOk, ht]
  | true =>
    simp only [Bool.and_eq_true] at ht
    obtain ⟨ht, hc⟩ := ht
    obtain ⟨hA, hAdv⟩ := C16_corrupt i iss.wire ht
    simp only [obsOk, ht, hc, Bool.and_self, Bool.not_true, Bool.false_or]
    by_cases hs : (wireObs iss.wire).body = .sealed
    · obtain ⟨k, o, b, hb, _⟩ := wireObs_body_sealed hs
      have := hA k o b hb
      rw [← spObs_kind i (receive i.rc (i.sent iss.wire))] at this
      simp only [hs, beq_self_eq_true, if_true]
      simpa using this
    · have hne : ∀ k' o' b', iss.wire.body ≠ .sealed k' o' b' := by
        intro k' o' b' hb
        apply hs
        simp [wireObs, hb, bodyKind]
      -- the ciphertext on the wire is then the advice's
      have hadv : ∃ k adv b, iss.wire.body.outer.advice = some (.sealed k adv b) := by
        unfold Wire.hasCiphertext at hc
        cases hb : iss.wire.body with
        | sealed k' o' b' => exact (hne k' o' b' hb).elim
        | clear o =>
          rw [hb] at hc
          simp only at hc
          split at hc
          next k adv b ha => exact ⟨k, adv, b, by simpa [Body.outer] using ha⟩
          · cases hc
        | wrapped o =>
          rw [hb] at hc
          simp only at hc
          split at hc
          next k adv b ha => exact ⟨k, adv, b, by simpa [Body.outer] using ha⟩
          · cases hc
      obtain ⟨k, adv, b, ha⟩ := hadv
      have hv := hAdv k adv b ha hne
      have hs' : ((wireObs iss.wire).body == BodyKind.sealed) = false := by simpa using hs
      simp only [hs', Bool.false_eq_true, if_false]
      cases hout : i.outcome iss.wire with
      | identity o => simp [spObs, hv]
      | noIdentity => simp [spObs]
      | rejected e => simp [spObs]

theorem specRecover_model (i : Input) (iss : Issued)
    (h : createAuthnResponse i.call = .ok iss) : specRecover i (obsOk i iss) = true := by
  unfold specRecover
  cases hhyp : (wellPosed i.call && (obsOk i iss).issued && !(obsOk i iss).tampered &&
      ((obsOk i iss).wire.body != .sealed || keyHeld i.rc (obsOk i iss).wire.bodyKey) &&
      ((obsOk i iss).wire.advice != .sealed || keyHeld i.rc (obsOk i iss).wire.adviceKey) && plainAccepted i) with
  | false => rfl
  | true =>
    simp only [Bool.and_eq_true, Bool.or_eq_true, Bool.not_eq_true', bne_iff_ne, ne_eq] at hhyp
    obtain ⟨⟨⟨⟨⟨hw, _⟩, htam⟩, hkb⟩, hka⟩, hpl⟩ := hhyp
    have hct := shape_hasCiphertext hw h
    have hnt : i.tamper = false := by
      simp only [obsOk, hct, Bool.and_true] at htam
      exact htam
    have hkA : ∀ k o b, iss.wire.body = .sealed k o b → i.rc.holds k = true := by
      intro k o b hb
      rcases hkb with hkb | hkb
      · exact (hkb (by simp [obsOk, wireObs, hb, bodyKind])).elim
      · simpa [obsOk, wireObs, hb, keyHeld] using hkb
    have hkAdv : ∀ k adv b, iss.wire.body.outer.advice = some (.sealed k adv b) → i.rc.holds k = true := by
      intro k adv b hb
      rcases hka with hka | hka
      · exact (hka (by simp [obsOk, wireObs, hb, advKind])).elim
      · simpa [obsOk, wireObs, hb, keyHeld] using hka
    unfold plainAccepted at hpl
    cases hout : Sp.process i.cfg i.env (plainVariant i) with
    | noIdentity => rw [hout] at hpl; cases hpl
    | rejected e => rw [hout] at hpl; cases hpl
    | identity o =>
      obtain ⟨h1, h2, h3⟩ := C16_recoverable i iss hw h hnt hkA hkAdv o hout
      simp only [Bool.not_true, Bool.false_or, obsOk, h1, spObs, h2, beq_self_eq_true, Bool.and_true, Bool.true_and]
      cases hattr : i.adviceHasAttrs with
      | false => simp
      | true =>
        -- attribute values in an advice assertion: there is an advice assertion
        have hadv : i.hasAdvice = true := by
          unfold Input.adviceHasAttrs at hattr
          unfold Input.hasAdvice Call.advice
          cases hp : i.call.pefim with
          | true => simp
          | false =>
            simp only [hp, Bool.false_eq_true, if_false, Bool.and_eq_true] at hattr
            simp [hattr.1]
        simp [h3 hadv]

theorem specOrder_model (i : Input) (iss : Issued)
    (h : createAuthnResponse i.call = .ok iss) : specOrder i (obsOk i iss) = true := by
  unfold specOrder
  cases hw : wellPosed i.call with
  | false => simp
  | true =>
    obtain ⟨advB, _, hshape⟩ := wellPosed_shape hw h
    have hord := C16_ops_ordered i.call iss h
    simp only [obsOk, Bool.and_self, Bool.not_true, Bool.false_or, hord, Bool.and_true]
    rcases hshape with ⟨k, _, _, hwire⟩ | ⟨_, _, hwire⟩ <;> rw [hwire] <;>
      cases i.call.opts.signResponse <;> cases i.call.opts.signAssertion <;> simp [wireObs, wireOf, Body.outer]

theorem specIssued_model (i : Input) : specIssued i (observe i) = true := by
  unfold specIssued
  cases hw : wellPosed i.call with
  | false => rfl
  | true =>
    cases he : i.ecp with
    | true => simp
    | false =>
      obtain ⟨iss, h⟩ := C16_issued i.call hw
      have hi : i.issue = .ok iss := by simp [Input.issue, he, h]
      rw [observe_ok hi]
      simp [obsOk]

/-- The model's observation satisfies the decidable specification the driver evaluates on the
    implementation's observation — for every input. -/
theorem C16_model_meets_spec (i : Input) : spec i (observe i) = true := by
  have hiss := specIssued_model i
  cases hi : i.issue with
  | error e =>
    rw [observe_err hi] at hiss ⊢
    simp only [spec, hiss, Bool.and_true]
    simp [specConfA, specConfAdv, specKey, specRecover, specWrongKey, specCorrupt, specOrder]
  | ok iss =>
    have h := issue_ok hi
    rw [observe_ok hi] at hiss ⊢
    simp only [spec, hiss, specConfA_model i iss h, specConfAdv_model i iss h, specKey_model i iss h,
      specRecover_model i iss h, specWrongKey_model i iss, specCorrupt_model i iss,
      specOrder_model i iss h, Bool.and_self]

example : spec (inputOf callPefim [1] false) (observe (inputOf callPefim [1] false)) = true := by decide
/-- regressions: the two former counterexamples now satisfy the specification -/
example : spec (inputOf earlyWitness [1] false) (observe (inputOf earlyWitness [1] false)) = true ∧
    (observe (inputOf earlyWitness [1] false)).leak.attrsAdvice = false ∧
    (observe (inputOf earlyWitness [1] false)).wire.advice = .sealed := by decide
example : spec (inputOf objectFormWitness [1] false) (observe (inputOf objectFormWitness [1] false)) = true ∧
    (observe (inputOf objectFormWitness [1] false)).issued = true := by decide

/-! ### where a flag comes from -/

/-- The signature defaults in the CURRENT source (regenerated table) are the ones the property's reading of
    "requested" rests on: an omitted `sign_response` / `sign_assertion` / `encrypt_assertion` is `None`, so the
    idp configuration is asked (for all three entry points), an omitted `encrypted_advice_attributes` is
    `False`, an omitted `encrypt_assertion_self_contained` is `True`, an omitted `pefim` is `False`. -/
theorem C16_entry_defaults :
    (⟨Gen.EncryptDefaults.signResponse, Gen.EncryptDefaults.signAssertion, Gen.EncryptDefaults.encryptAssertion,
      Gen.EncryptDefaults.encryptedAdvice, Gen.EncryptDefaults.selfContained⟩ : Opts Tri) = propSig ∧
    Gen.EncryptDefaults.pefim = some false ∧
    Gen.EncryptDefaults.rrSignResponse = none ∧ Gen.EncryptDefaults.rrSignAssertion = none ∧
    Gen.EncryptDefaults.ecpSignResponse = none ∧ Gen.EncryptDefaults.ecpSignAssertion = none := by decide

/-- encryption requested by the configuration alone: the argument is omitted, so it is `None` and the
    configured `encrypt_assertion: true` decides - through `create_authn_response` and through the wrapper -/
example : (resolve (kwOf .direct propSig none none ⟨none, none, none, none, none⟩) ⟨none, none, some true, none, none⟩
    ⟨false, false, false, false, true⟩).encryptAssertion = true ∧
    (resolve (kwOf .requestResponse propSig none none ⟨none, none, some (some false), none, none⟩) ⟨none, none, some true, none, none⟩
    ⟨false, false, false, false, true⟩).encryptAssertion = true := by decide
/-- the ECP entry point: issues an untouched Response object only -/
example : (Input.issue { call := { kw := ⟨none, none, none, none, none⟩ }, ecp := true }).toOption.isSome = true ∧
    Input.issue { call := callEnc, ecp := true } = .error .ecpNeedsObject := ⟨by decide, rfl⟩

/-! ### histories -/

/-- C16 over histories: whatever sequence of calls one IdP answers — recipients interleaved, metadata
    reloaded between calls, explicit-certificate and metadata-certificate calls in any order, PEFIM and
    non-PEFIM — every answer satisfies the per-call specification with respect to the store in force at that
    call.  Immediate from `C16_model_meets_spec`, because the model is stateless: each step's observation
    depends on that step's input only.  The content of the statement for the real code (no answer depends on
    an earlier call or an earlier store) is carried by the correspondence run over histories. -/
theorem C16_history_meets_spec (steps : List Input) : specHistory steps (observeHistory steps) = true := by
  unfold specHistory observeHistory
  simp only [List.length_map, decide_true, Bool.true_and]
  induction steps with
  | nil => rfl
  | cons a t ih => simp only [List.map_cons, List.zip_cons_cons, List.all_cons, C16_model_meets_spec a, ih, Bool.and_self]

/-- the seeded scenario: no certificate (clear fall-back), then the recipient publishes one: sealed -/
example : (observeHistory [inputOf { callEnc with md := [⟨.signing, 4, true⟩] } [1] false, inputOf callEnc [1] false]).map
    (fun o => o.wire.body) = [.clear, .sealed] := by decide

end C16
