import PysamlModel.Model.Encrypt
import PysamlModel.Spec.C16
import PysamlModel.Proofs.Sp

namespace C16
open Encrypt

theorem C16_placeholder : True := trivial

end C16
