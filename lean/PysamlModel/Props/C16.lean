/-
  C16 — Encrypted assertions stay confidential and are recoverable only by the recipient.

  Property theorems only (plus non-vacuity examples).  The statements quantify over every call of
  `create_authn_response` the model covers — all keyword / configuration / default settings of the five
  flags, PEFIM or not, any list of metadata key descriptors (any length, usable or not, any `use`), any
  explicit certificate arguments — and, on the recipient's side, over every configuration, clock,
  envelope and assertion content of the shared `Sp.process`, every set of private keys, damaged or
  intact ciphertext.

  The pinned code does not meet the property on two input classes (see `earlyReturnClass`,
  `objectFormClass` in Spec/C16.lean): for those the full statements are kept as `def … _full : Prop`,
  proved under the decidable side condition (`_partial`) and refuted from a concrete witness
  (`_counterexample`).
-/
import PysamlModel.Proofs.C16

namespace C16
open Encrypt

/-! ### facts about the arguments `_authn_response` hands to `_response` -/

theorem effA_facts {c : Call} (h : effA c = true) :
    c.rargs.encryptAssertion = true ∧ earlyReturn c.rargs = false ∧ assertionKept c.rargs = true ∧
    ∃ k, chooseCert c.rargs.certAssertion c.rargs.md = .key k := by
  unfold effA requestedA at h
  simp only [Bool.and_eq_true] at h
  obtain ⟨hr, ha⟩ := h
  have h1 : c.rargs.encryptAssertion = true := hr
  refine ⟨h1, ?_, ?_, chooseCert_available ha⟩
  · simp [earlyReturn, h1]
  · unfold assertionKept
    rw [h1]
    have := available_kept ha
    simpa [Call.rargs] using this

/-- C16, confidentiality of the assertion: whenever assertion encryption is requested (by keyword,
    configuration or default) and the designated certificate is usable, the Response that is issued
    carries the assertion only as an EncryptedData sealed for one of the recipient's designated
    certificates: no clear-text assertion, advice assertion, subject identifier or attribute value —
    for every setting of the other flags and every metadata. -/
theorem C16_confidential_assertion (c : Call) (iss : Issued) (outerHasAttrs : Bool)
    (heff : effA c = true) (h : createAuthnResponse c = .ok iss) :
    (∃ k o, iss.wire.body = .sealed k o true ∧ k ∈ candidates c.certAssertion c.md) ∧
    clearOf outerHasAttrs iss.wire = ⟨false, false, false, false, false⟩ := by
  obtain ⟨_, he, hk, k, hc⟩ := effA_facts heff
  have hbody : ∃ o, iss.wire.body = .sealed k o true := by
    rcases response_inv h with ⟨he', _⟩ | ⟨_, hk', _⟩ | ⟨_, _, opsB, advB, ko, _, hs, _, hw⟩ | ⟨_, hk', _⟩
    · rw [he] at he'; cases he'
    · rw [hk] at hk'; cases hk'
    · rcases encryptStep_inv hs with ⟨hn, _⟩ | ⟨k', hk', hko, _⟩
      · rw [hc] at hn; cases hn
      · rw [hc] at hk'; cases hk'
        subst hko
        exact ⟨_, by rw [hw]; rfl⟩
    · rw [hk] at hk'; cases hk'
  obtain ⟨o, ho⟩ := hbody
  refine ⟨⟨k, o, ho, chooseCert_key_mem hc⟩, ?_⟩
  unfold clearOf
  rw [ho]

/-! ### advice -/

theorem outer_sealBody (ko : Option Key) (o : Outer) : (sealBody ko o).outer = o := by
  cases ko <;> rfl

theorem effAdv_facts {c : Call} (h : effAdv c = true) :
    (∃ adv, c.rargs.advice = some adv) ∧ c.rargs.encryptedAdvice = true ∧ adviceKept c.rargs = true ∧
    ∃ k, chooseCert c.rargs.certAdvice c.rargs.md = .key k := by
  unfold effAdv requestedAdv at h
  simp only [Bool.and_eq_true] at h
  obtain ⟨⟨hr, hadv⟩, ha⟩ := h
  have h1 : c.rargs.encryptedAdvice = true := hr
  refine ⟨?_, h1, ?_, chooseCert_available ha⟩
  · cases hc : c.advice with
    | none => rw [hc] at hadv; cases hadv
    | some adv => exact ⟨adv, hc⟩
  · unfold adviceKept
    rw [h1]
    have := available_kept ha
    simpa [Call.rargs] using this

/-- the early return is taken exactly when the assertion is to be signed, not encrypted, and the Response
    is not signed -/
theorem earlyReturn_iff (c : Call) :
    earlyReturn c.rargs = (c.opts.signAssertion && !c.opts.encryptAssertion && !c.opts.signResponse) := by
  simp only [earlyReturn, Call.rargs]
  cases c.opts.signAssertion <;> cases c.opts.encryptAssertion <;> cases c.opts.signResponse <;> rfl

/-- Unless `_response` returns early, an advice assertion whose encryption is in effect leaves sealed
    for one of the recipient's designated certificates — whatever happens to the assertion around it. -/
theorem advice_sealed {c : Call} {iss : Issued} (heff : effAdv c = true) (he : earlyReturn c.rargs = false)
    (h : createAuthnResponse c = .ok iss) :
    ∃ k adv, iss.wire.body.outer.advice = some (.sealed k adv true) ∧ chooseCert c.certAdvice c.md = .key k := by
  obtain ⟨⟨adv, hadv⟩, _, hkept, k, hc⟩ := effAdv_facts heff
  have hB : ∀ {opsB advB}, partB c.rargs = .ok (opsB, advB) → advB = some (.sealed k (advAfterB c.rargs adv) true) := by
    intro opsB advB hp
    rcases partB_inv hp with ⟨hn, _⟩ | ⟨adv', _, hk', _⟩ | ⟨adv', ko, ha', _, hs, _, hb⟩
    · rw [hadv] at hn; cases hn
    · rw [hkept] at hk'; cases hk'
    · rw [hadv] at ha'; cases ha'
      rcases encryptStep_inv hs with ⟨hn, _⟩ | ⟨k', hk', hko, _⟩
      · rw [hc] at hn; cases hn
      · rw [hc] at hk'; cases hk'
        subst hko
        exact hb
  refine ⟨k, advAfterB c.rargs adv, ?_, hc⟩
  rcases response_inv h with ⟨he', _⟩ | ⟨_, _, hk', _⟩ | ⟨_, _, opsB, advB, ko, hp, _, _, hw⟩ | ⟨_, _, _, _, opsB, advB, hp, _, hw⟩
  · rw [he] at he'; cases he'
  · rw [hkept, hadv] at hk'; cases hk'
  · rw [hw]
    show (sealBody ko _).outer.advice = _
    rw [outer_sealBody]
    exact hB hp
  · rw [hw]
    exact hB hp

/-- C16, confidentiality of the advice, FULL statement: whenever advice encryption is requested
    (`encrypted_advice_attributes` or PEFIM, and there is an advice assertion) and the designated
    certificate is usable, the issued Response shows neither a clear-text advice assertion nor any of
    its attribute values. -/
def C16_confidential_advice_full : Prop :=
  ∀ (c : Call) (iss : Issued) (outerHasAttrs : Bool), effAdv c = true → createAuthnResponse c = .ok iss →
    (clearOf outerHasAttrs iss.wire).adviceAssertion = false ∧ (clearOf outerHasAttrs iss.wire).attrsAdvice = false

/-- … holds for every call outside the early-return class; the advice is then sealed for one of the
    recipient's designated certificates. -/
theorem C16_confidential_advice_partial (c : Call) (iss : Issued) (outerHasAttrs : Bool)
    (heff : effAdv c = true) (hcls : earlyReturnClass c = false) (h : createAuthnResponse c = .ok iss) :
    ((clearOf outerHasAttrs iss.wire).adviceAssertion = false ∧ (clearOf outerHasAttrs iss.wire).attrsAdvice = false) ∧
    ∃ k adv, iss.wire.body.outer.advice = some (.sealed k adv true) ∧ k ∈ candidates c.certAdvice c.md := by
  have he : earlyReturn c.rargs = false := by
    rw [earlyReturn_iff]
    unfold earlyReturnClass at hcls
    rw [heff] at hcls
    simpa using hcls
  obtain ⟨k, adv, hadv, hc⟩ := advice_sealed heff he h
  refine ⟨?_, k, adv, hadv, chooseCert_key_mem hc⟩
  unfold clearOf
  cases hb : iss.wire.body with
  | sealed k' o b => exact ⟨rfl, rfl⟩
  | clear o =>
    rw [hb] at hadv
    simp only [Body.outer] at hadv
    simp [Outer.adviceClear, hadv, AdvBox.isClearText]
  | wrapped o =>
    rw [hb] at hadv
    simp only [Body.outer] at hadv
    simp [Outer.adviceClear, hadv, AdvBox.isClearText]

/-- the witness: PEFIM, sign_assertion=True, sign_response=False, encrypt_assertion=False, the recipient
    publishes one usable encryption certificate -/
def earlyWitness : Call :=
  { kw := ⟨some false, some true, some false, none, none⟩, pefim := true, md := [⟨.encryption, 1, true⟩] }

theorem C16_confidential_advice_counterexample : ¬ C16_confidential_advice_full := by
  intro hfull
  have := hfull earlyWitness
    { ops := [.signAssertion],
      wire := { sig := none, body := .clear { sig := some (some (.clear ⟨false, false⟩)), advice := some (.clear ⟨false, false⟩) } },
      trace := { branch := .early } } false (by decide) rfl
  revert this
  decide

/-! ### a Response is issued -/

theorem wellPosed_facts {c : Call} (h : wellPosed c = true) :
    (requestedA c = true ∨ requestedAdv c = true) ∧ (requestedA c = true → effA c = true) ∧
    (requestedAdv c = true → effAdv c = true) := by
  unfold wellPosed at h
  simp only [Bool.and_eq_true, Bool.or_eq_true, Bool.not_eq_true'] at h
  obtain ⟨⟨h1, h2⟩, h3⟩ := h
  refine ⟨h1, ?_, ?_⟩
  · intro hr; rcases h2 with h2 | h2
    · rw [hr] at h2; cases h2
    · exact h2
  · intro hr; rcases h3 with h3 | h3
    · rw [hr] at h3; cases h3
    · exact h3

/-- advice encryption kept by `_response` on an existing advice assertion was requested -/
theorem requestedAdv_of_kept {c : Call} (hk : adviceKept c.rargs = true) (ha : c.rargs.advice.isSome = true) :
    requestedAdv c = true := by
  unfold adviceKept at hk
  simp only [Bool.and_eq_true] at hk
  unfold requestedAdv
  have h1 : (c.opts.encryptedAdvice || c.pefim) = true := hk.1
  have h2 : c.advice.isSome = true := ha
  simp [h1, h2]

theorem requestedA_of_kept {c : Call} (hk : assertionKept c.rargs = true) : requestedA c = true := by
  unfold assertionKept at hk
  simp only [Bool.and_eq_true] at hk
  exact hk.1

/-- C16, FULL statement: every combination of the flags whose requested encryptions have a usable
    certificate yields a Response. -/
def C16_issued_full : Prop := ∀ c : Call, wellPosed c = true → ∃ iss, createAuthnResponse c = .ok iss

/-- … holds for every call in which no encryption step meets a message that is still an object. -/
theorem C16_issued_partial (c : Call) (hw : wellPosed c = true) (hcls : objectFormClass c = false) :
    ∃ iss, createAuthnResponse c = .ok iss := by
  obtain ⟨_, hA, hAdv⟩ := wellPosed_facts hw
  unfold objectFormClass at hcls
  simp only [Bool.or_eq_false_iff] at hcls
  obtain ⟨hoA, hoAdv⟩ := hcls
  -- part B succeeds
  have hB : ∃ opsB advB, partB c.rargs = .ok (opsB, advB) := by
    unfold partB
    cases hadv : c.rargs.advice with
    | none => exact ⟨_, _, rfl⟩
    | some adv =>
      simp only
      cases hk : adviceKept c.rargs with
      | false => exact ⟨_, _, rfl⟩
      | true =>
        have heff := hAdv (requestedAdv_of_kept hk (by rw [hadv]; rfl))
        obtain ⟨_, _, _, k, hc⟩ := effAdv_facts heff
        have hf : formB c.rargs = .str := by
          rw [heff] at hoAdv
          unfold formB signsAdvice
          have h1 : c.rargs.selfContained = (c.opts.selfContained || c.pefim) := rfl
          have h2 : c.rargs.signAssertion = c.opts.signAssertion := rfl
          have h3 : c.rargs.pefim = c.pefim := rfl
          rw [h1, h2, h3]
          cases hs : (c.opts.selfContained || c.pefim) <;> cases hsa : c.opts.signAssertion <;> cases hp : c.pefim <;>
            simp_all
        simp only [Bool.not_true, Bool.false_eq_true, if_false, hc, hf, encryptStep]
        exact ⟨_, _, rfl⟩
  obtain ⟨opsB, advB, hB⟩ := hB
  unfold createAuthnResponse response
  simp only
  cases he : earlyReturn c.rargs with
  | true => exact ⟨_, rfl⟩
  | false =>
    simp only [Bool.false_eq_true, if_false]
    cases hk : assertionKept c.rargs with
    | true =>
      simp only [Bool.true_or, if_true, hB]
      have heff := hA (requestedA_of_kept hk)
      obtain ⟨_, _, _, k, hc⟩ := effA_facts heff
      have hf : formC c.rargs = .str := by
        rw [heff] at hoA
        unfold formC
        have h1 : c.rargs.selfContained = (c.opts.selfContained || c.pefim) := rfl
        have h2 : c.rargs.signAssertion = c.opts.signAssertion := rfl
        rw [h1, h2]
        cases hs : (c.opts.selfContained || c.pefim) <;> cases hsa : c.opts.signAssertion <;> simp_all
      unfold partC
      simp only [hc, hf, encryptStep]
      exact ⟨_, rfl⟩
    | false =>
      simp only [Bool.false_or]
      cases hc : (adviceKept c.rargs && c.rargs.advice.isSome) with
      | true => simp only [if_true, hB, Bool.false_eq_true, if_false]; exact ⟨_, rfl⟩
      | false => exact ⟨_, rfl⟩

/-- the witness: encrypt_assertion=True, encrypt_assertion_self_contained=False, nothing signed, the
    recipient publishes one usable encryption certificate -/
def objectFormWitness : Call :=
  { kw := ⟨some false, some false, some true, some false, some false⟩, md := [⟨.encryption, 1, true⟩] }

theorem C16_issued_counterexample : ¬ C16_issued_full := by
  intro hfull
  obtain ⟨iss, h⟩ := hfull objectFormWitness (by decide)
  have : createAuthnResponse objectFormWitness = .error .objectForm := rfl
  rw [this] at h
  cases h

/-! ### whose key -/

theorem map_clear_not_sealed {x : Option Adv} {k : Key} {adv : Adv} {b : Bool}
    (h : x.map AdvBox.clear = some (.sealed k adv b)) : False := by
  cases x <;> simp at h

theorem partB_sealed {a : RArgs} {opsB : List Op} {advB : Option AdvBox} {k : Key} {adv : Adv} {b : Bool}
    (hp : partB a = .ok (opsB, advB)) (hs : advB = some (.sealed k adv b)) :
    b = true ∧ chooseCert a.certAdvice a.md = .key k := by
  rcases partB_inv hp with ⟨_, _, hn⟩ | ⟨adv', _, _, _, hb⟩ | ⟨adv', ko, _, _, hst, _, hb⟩
  · rw [hn] at hs; cases hs
  · rw [hb] at hs; cases hs
  · rw [hb] at hs
    rcases encryptStep_inv hst with ⟨_, hko⟩ | ⟨k', hk', hko, _⟩
    · subst hko; simp [sealAdv] at hs
    · subst hko
      simp only [sealAdv, Option.some.injEq, AdvBox.sealed.injEq] at hs
      obtain ⟨h1, _, h3⟩ := hs
      subst h1
      exact ⟨h3.symm, hk'⟩

/-- C16, "only by the recipient": whatever leaves sealed — the assertion or the advice assertion — is
    sealed, intact, for a certificate the call designates for the recipient: the explicit one if one was
    passed, else one of the recipient's metadata certificates whose use is not "signing".  For every call. -/
theorem C16_key_of_recipient (c : Call) (iss : Issued) (h : createAuthnResponse c = .ok iss) :
    (∀ k o b, iss.wire.body = .sealed k o b → b = true ∧ k ∈ candidates c.certAssertion c.md) ∧
    (∀ k adv b, iss.wire.body.outer.advice = some (.sealed k adv b) → b = true ∧ k ∈ candidates c.certAdvice c.md) := by
  rcases response_inv h with ⟨_, _, hw⟩ | ⟨_, _, _, _, hw⟩ | ⟨_, _, opsB, advB, ko, hp, hst, _, hw⟩ | ⟨_, _, _, _, opsB, advB, hp, _, hw⟩
  · rw [hw]
    refine ⟨fun k o b hb => (by cases hb), fun k adv b hb => (map_clear_not_sealed hb).elim⟩
  · rw [hw]
    refine ⟨fun k o b hb => (by cases hb), fun k adv b hb => (map_clear_not_sealed hb).elim⟩
  · rw [hw]
    constructor
    · intro k o b hb
      rcases encryptStep_inv hst with ⟨_, hko⟩ | ⟨k', hk', hko, _⟩
      · subst hko; cases hb
      · subst hko
        simp only [wireOf, sealBody, Body.sealed.injEq] at hb
        obtain ⟨h1, _, h3⟩ := hb
        subst h1
        exact ⟨h3.symm, chooseCert_key_mem hk'⟩
    · intro k adv b hb
      have hb' : advB = some (.sealed k adv b) := by
        have : (sealBody ko { sig := if c.rargs.signAssertion then some advB else none, advice := advB }).outer.advice = advB := by
          rw [outer_sealBody]
        exact this ▸ hb
      obtain ⟨h1, h2⟩ := partB_sealed hp hb'
      exact ⟨h1, chooseCert_key_mem h2⟩
  · rw [hw]
    refine ⟨fun k o b hb => (by cases hb), ?_⟩
    intro k adv b hb
    obtain ⟨h1, h2⟩ := partB_sealed hp hb
    exact ⟨h1, chooseCert_key_mem h2⟩

/-! ### signatures: order and validity at the recipient -/

/-- C16, signature order (1): in every call the successful sign / encrypt operations happen in the order
    advice signed, advice encrypted, assertion signed, assertion encrypted, Response signed — each at most
    once: an assertion is signed before it is encrypted, the Response after everything else. -/
theorem C16_ops_ordered (c : Call) (iss : Issued) (h : createAuthnResponse c = .ok iss) :
    opsOrdered iss.ops = true := by
  have hB : ∀ {opsB advB}, partB c.rargs = .ok (opsB, advB) →
      opsB = [] ∨ (∃ k, opsB = [.encAdvice k]) ∨ opsB = [.signAdvice] ∨ (∃ k, opsB = [.signAdvice, .encAdvice k]) := by
    intro opsB advB hp
    rcases partB_inv hp with ⟨_, ho, _⟩ | ⟨_, _, _, ho, _⟩ | ⟨_, ko, _, _, _, ho, _⟩
    · exact Or.inl ho
    · exact Or.inl ho
    · rw [ho]
      cases signsAdvice c.rargs <;> cases ko <;> simp [optOp, keyOp]
  rcases response_inv h with ⟨_, ho, _⟩ | ⟨_, _, _, ho, _⟩ | ⟨_, _, opsB, advB, ko, hp, _, ho, _⟩ | ⟨_, _, _, _, opsB, advB, hp, ho, _⟩
  · rw [ho]; rfl
  · rw [ho]
    cases c.rargs.sign <;> cases c.rargs.toSign <;> rfl
  · rw [ho]
    rcases hB hp with hb | ⟨k, hb⟩ | hb | ⟨k, hb⟩ <;> subst hb <;>
      cases c.rargs.signAssertion <;> cases ko <;> cases c.rargs.sign <;>
      simp [optOp, keyOp, opsOrdered, Op.rank]
  · rw [ho]
    rcases hB hp with hb | ⟨k, hb⟩ | hb | ⟨k, hb⟩ <;> subst hb <;>
      cases c.rargs.toSign <;> cases c.rargs.sign <;>
      simp [optOp, opsOrdered, Op.rank]

/-- C16, signature order (2): in every call each signature that is present was computed over exactly
    what is finally sent — the Response signature over the body as it leaves (assertion already sealed),
    the assertion signature over the assertion with its advice as it leaves (advice already sealed) and
    before the assertion itself is sealed. -/
theorem C16_signature_order (c : Call) (iss : Issued) (h : createAuthnResponse c = .ok iss) :
    (∀ b, iss.wire.sig = some b → b = iss.wire.body) ∧
    (∀ v, iss.wire.body.outer.sig = some v → v = iss.wire.body.outer.advice) := by
  have hwire : ∀ (s : Bool) (body : Body), ∀ b, (wireOf s body).sig = some b → b = (wireOf s body).body := by
    intro s body b hb
    cases s <;> simp [wireOf] at hb ⊢
    exact hb.symm
  rcases response_inv h with ⟨_, _, hw⟩ | ⟨_, _, _, _, hw⟩ | ⟨_, _, opsB, advB, ko, _, _, _, hw⟩ | ⟨_, _, _, _, opsB, advB, _, _, hw⟩
  · rw [hw]
    refine ⟨fun b hb => (by cases hb), fun v hv => ?_⟩
    simp only [Body.outer, Option.some.injEq] at hv ⊢
    exact hv.symm
  · rw [hw]
    refine ⟨hwire _ _, fun v hv => ?_⟩
    simp only [wireOf, Body.outer] at hv ⊢
    split at hv
    · exact (Option.some.inj hv).symm
    · cases hv
  · rw [hw]
    refine ⟨hwire _ _, fun v hv => ?_⟩
    simp only [wireOf, outer_sealBody] at hv ⊢
    split at hv
    · exact (Option.some.inj hv).symm
    · cases hv
  · rw [hw]
    refine ⟨hwire _ _, fun v hv => ?_⟩
    simp only [wireOf, Body.outer] at hv ⊢
    split at hv
    · exact (Option.some.inj hv).symm
    · cases hv

/-- the advice as it can leave a well-posed call: absent, clear and schema-valid (its encryption was not
    requested), or sealed for the recipient -/
def AdvOk (c : Call) (advB : Option AdvBox) : Prop :=
  (c.advice = none ∧ advB = none) ∨
  (∃ adv, requestedAdv c = false ∧ advB = some (.clear adv) ∧ adv.schemaValid = true) ∨
  (∃ k adv, advB = some (.sealed k adv true) ∧ k ∈ candidates c.certAdvice c.md)

theorem AdvOk.schemaOk {c : Call} {advB : Option AdvBox} {sig : Option (Option AdvBox)} (h : AdvOk c advB) :
    Outer.schemaOk { sig := sig, advice := advB } = true := by
  rcases h with ⟨_, h⟩ | ⟨adv, _, h, hv⟩ | ⟨k, adv, h, _⟩
  · subst h; rfl
  · subst h; simpa [Outer.schemaOk, AdvBox.schemaOk] using hv
  · subst h; rfl

/-- What a well-posed call outside the early-return class issues: the assertion sealed for the recipient
    (advice inside absent, clear-by-request or sealed), or — when only advice encryption was requested —
    the assertion in clear around a sealed advice; signatures as requested. -/
theorem wellPosed_shape {c : Call} {iss : Issued} (hw : wellPosed c = true) (hcls : earlyReturnClass c = false)
    (h : createAuthnResponse c = .ok iss) :
    ∃ advB, AdvOk c advB ∧
      ((∃ k, k ∈ candidates c.certAssertion c.md ∧ requestedA c = true ∧
          iss.wire = wireOf c.opts.signResponse
            (.sealed k { sig := if c.opts.signAssertion then some advB else none, advice := advB } true)) ∨
       (requestedA c = false ∧ (∃ k adv, advB = some (.sealed k adv true)) ∧
          iss.wire = wireOf c.opts.signResponse
            (.clear { sig := if c.opts.signAssertion then some advB else none, advice := advB }))) := by
  obtain ⟨hsome, hA, hAdv⟩ := wellPosed_facts hw
  -- the early return is not taken
  have he : earlyReturn c.rargs = false := by
    cases hee : earlyReturn c.rargs with
    | false => rfl
    | true =>
      exfalso
      rw [earlyReturn_iff] at hee
      simp only [Bool.and_eq_true, Bool.not_eq_true'] at hee
      obtain ⟨⟨hsa, hea⟩, hsr⟩ := hee
      have hra : requestedA c = false := hea
      rcases hsome with h1 | h1
      · rw [hra] at h1; cases h1
      · have := hAdv h1
        unfold earlyReturnClass at hcls
        simp only [this, hsa, hea, hsr] at hcls
        cases hcls
  -- the advice as part B leaves it
  have hB : ∀ {opsB advB}, partB c.rargs = .ok (opsB, advB) → AdvOk c advB := by
    intro opsB advB hp
    cases hr : requestedAdv c with
    | true =>
      have heff := hAdv hr
      obtain ⟨⟨adv, hadv⟩, _, hkept, k, hc⟩ := effAdv_facts heff
      right; right
      rcases partB_inv hp with ⟨hn, _⟩ | ⟨adv', _, hk', _⟩ | ⟨adv', ko, _, _, hs, _, hb⟩
      · rw [hadv] at hn; cases hn
      · rw [hkept] at hk'; cases hk'
      · rcases encryptStep_inv hs with ⟨hn, _⟩ | ⟨k', hk', hko, _⟩
        · rw [hc] at hn; cases hn
        · subst hko
          exact ⟨k', _, hb, chooseCert_key_mem hk'⟩
    | false =>
      rcases partB_inv hp with ⟨hn, _, hb⟩ | ⟨adv', ha', _, _, hb⟩ | ⟨adv', ko, ha', hk', _⟩
      · exact Or.inl ⟨hn, hb⟩
      · right; left
        refine ⟨adv', hr, hb, ?_⟩
        -- not PEFIM (PEFIM requests advice encryption), so it is the schema-valid assertion handed in
        have ha'' : c.advice = some adv' := ha'
        unfold requestedAdv at hr
        rw [ha''] at hr
        simp only [Option.isSome_some, Bool.and_true, Bool.or_eq_false_iff] at hr
        unfold Call.advice at ha''
        rw [hr.2] at ha''
        simp only [Bool.false_eq_true, if_false] at ha''
        split at ha''
        · cases ha''; rfl
        · cases ha''
      · exfalso
        have := requestedAdv_of_kept hk' (by rw [ha']; rfl)
        rw [hr] at this; cases this
  have hsr : c.rargs.sign = c.opts.signResponse := rfl
  have hsa : c.rargs.signAssertion = c.opts.signAssertion := rfl
  rcases response_inv h with ⟨he', _⟩ | ⟨_, hkA, hkAdv, _, _⟩ | ⟨_, hkA, opsB, advB, ko, hp, hst, _, hwr⟩ | ⟨_, hkA, hkAdv, hsomeadv, opsB, advB, hp, _, hwr⟩
  · rw [he] at he'; cases he'
  · -- nothing kept: then nothing was requested
    exfalso
    rcases hsome with h1 | h1
    · obtain ⟨_, _, hk, _⟩ := effA_facts (hA h1)
      rw [hk] at hkA; cases hkA
    · obtain ⟨⟨adv, hadv⟩, _, hk, _⟩ := effAdv_facts (hAdv h1)
      rw [hk, hadv] at hkAdv; cases hkAdv
  · have hreq := requestedA_of_kept hkA
    obtain ⟨_, _, _, k, hc⟩ := effA_facts (hA hreq)
    refine ⟨advB, hB hp, Or.inl ⟨k, chooseCert_key_mem hc, hreq, ?_⟩⟩
    rcases encryptStep_inv hst with ⟨hn, _⟩ | ⟨k', hk', hko, _⟩
    · rw [hc] at hn; cases hn
    · rw [hc] at hk'; cases hk'
      subst hko
      rw [hwr, hsr, hsa]
      rfl
  · have hreq : requestedA c = false := by
      cases hr : requestedA c with
      | false => rfl
      | true =>
        obtain ⟨_, _, hk, _⟩ := effA_facts (hA hr)
        rw [hk] at hkA; cases hkA
    have hradv := requestedAdv_of_kept hkAdv hsomeadv
    have hts : c.rargs.toSign = c.opts.signAssertion := by
      have : c.opts.encryptAssertion = false := hreq
      simp [Call.rargs, this]
    refine ⟨advB, hB hp, Or.inr ⟨hreq, ?_, ?_⟩⟩
    · rcases hB hp with ⟨hn, _⟩ | ⟨adv, hr, _⟩ | ⟨k, adv, hb, _⟩
      · rw [show c.rargs.advice = c.advice from rfl, hn] at hsomeadv; cases hsomeadv
      · rw [hradv] at hr; cases hr
      · exact ⟨k, adv, hb⟩
    · rw [hwr, hsr, hts]

end C16
