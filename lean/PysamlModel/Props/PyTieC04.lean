import PysamlModel.Model.MiniPy
import PysamlModel.Model.Sp
import PysamlModel.Gen.PyFuns
import PysamlModel.Proofs.PyTie
import PysamlModel.Proofs.MiniPy

/-!
# C04: the hand-written `Sp.forMe` IS `saml2.response.for_me` (refinement over the regenerated MiniPy term)

`Gen/PyFuns.lean` is rewritten from the current pysaml2 source on every run.  Each theorem below says, for ALL
arguments, that running the regenerated term of a function under the MiniPy interpreter gives exactly what the
hand-written model function (the one the property theorems of C04/C05 are stated about) gives.  A change to the
Python text of one of these functions changes the term, and the theorem is re-checked against it.
-/

namespace PyTie
open MiniPy Gen.PyFuns

/-- **`for_me` refines `Sp.forMe`**: for every list of AudienceRestrictions (any number, each with any number of
    Audience elements with present, empty or absent text) and every own entityID, running the CURRENT text of
    `saml2.response.for_me` gives exactly what the model's `forMe` gives. -/
theorem for_me_refines_obj (me : String) (rs : List (List (Option String))) (fs : List (String × Val))
    (hfs : lookup fs "audience_restriction" = some (.list (rs.map encR))) :
    run Sp.pyStrip noExt for_me [.obj fs, .str me] = .value (.bool (Sp.forMe me (toModel rs))) := by
  rw [forMe_toModel]
  have hpar : for_me.params = ["conditions", "myself"] := rfl
  cases hrs : rs with
  | nil =>
    subst hrs
    have hc : lookup [("myself", Val.str me), ("conditions", Val.obj fs)] "conditions" = some (.obj fs) := by simp [lookup]
    simp [run, hpar, for_me_shape, defaultFuel, evalBlock, evalStmt, evalExpr, hc, hfs, truthy]
  | cons r0 rs0 =>
    rw [← hrs]
    have hne : rs.isEmpty = false := by rw [hrs]; rfl
    let envI : Env := [("myself", .str me), ("conditions", .obj fs)]
    let env0 : Env := setVar envI "matched" (.bool false)
    have hcI : lookup envI "conditions" = some (.obj fs) := by simp [envI, lookup]
    have hme0 : lookup env0 "myself" = some (.str me) := by
      show lookup (setVar _ "matched" _) "myself" = _
      rw [lookup_setVar_ne _ _ _ _ (by decide)]; simp [envI, lookup]
    have hc0 : lookup env0 "conditions" = some (.obj fs) := by
      show lookup (setVar _ "matched" _) "conditions" = _
      rw [lookup_setVar_ne _ _ _ _ (by decide)]; exact hcI
    have hma0 : lookup env0 "matched" = some (.bool false) := lookup_setVar_same _ _ _
    have h1 : evalStmt Sp.pyStrip noExt 63 envI
        (.ifs (.not (.attr (.name "conditions") "audience_restriction")) [(.ret (some (.bool true)))] []) = .normal envI := by
      simp [evalStmt, evalExpr, hcI, hfs, truthy, hne, evalBlock]
    have h2 : evalStmt Sp.pyStrip noExt 62 envI (.assign "matched" (.bool false)) = .normal env0 := by
      simp [evalStmt, evalExpr, env0]
    have h3 : evalStmt Sp.pyStrip noExt 61 env0
        (.for "restriction" (.attr (.name "conditions") "audience_restriction") outerBody []) =
        forLoop (outerB 49) (outerE 49) (rs.map encR) env0 := by
      simp [evalStmt, evalExpr, hc0, hfs]
      rfl
    have h4 : ∀ (env' : Env) (b : Bool), lookup env' "matched" = some (.bool b) →
        evalStmt Sp.pyStrip noExt 60 env' (.ifs (.not (.name "matched")) [] []) = .normal env' := by
      intro env' b hb
      cases b <;> simp [evalStmt, evalExpr, hb, truthy, evalBlock]
    have h5 : ∀ (env' : Env) (b : Bool), lookup env' "matched" = some (.bool b) →
        evalStmt Sp.pyStrip noExt 59 env' (.ret (some (.name "matched"))) = .ret (.bool b) env' := by
      intro env' b hb
      simp [evalStmt, evalExpr, hb]
    have hloop := outer_loop 49 me rs env0 false hme0 hma0
    have hrun : run Sp.pyStrip noExt for_me [.obj fs, .str me] =
        (match evalBlock Sp.pyStrip noExt 64 envI for_me.body with
         | .normal _ => .value .none
         | .ret v _ => .value v
         | .raise c _ => .raised c
         | .brk _ => .stuck "break outside a loop"
         | .cont _ => .stuck "continue outside a loop"
         | .stuck w => .stuck w) := by
      rfl
    rw [hrun, for_me_shape]
    rw [evalBlock_cons, h1]; simp only []
    rw [evalBlock_cons, h2]; simp only []
    rw [evalBlock_cons, h3]
    cases hall : rs.all (rOk me) with
    | false =>
      obtain ⟨e, hl⟩ := hloop.1 hall
      rw [hl]; simp [hne]
    | true =>
      obtain ⟨env', hl, _, hma'⟩ := hloop.2 hall
      rw [hl]; simp only []
      rw [evalBlock_cons, h4 env' _ hma']; simp only []
      rw [evalBlock_cons, h5 env' _ hma']
      simp [hne]


/-- **`for_me` refines `Sp.forMe`**, for the bare encoding of the audience restrictions. -/
theorem for_me_refines (me : String) (rs : List (List (Option String))) :
    run Sp.pyStrip noExt for_me [encC rs, .str me] = .value (.bool (Sp.forMe me (toModel rs))) :=
  for_me_refines_obj me rs _ (lookup_cons_same _ _ _)

/-! ## `StatusResponse._verify` (Destination against the own return addresses, IssueInstant, status) -/

theorem any_str_eq (addrs : List String) (d : String) :
    (addrs.map Val.str).any (fun y => match y with | .str t => t == d | _ => false) = addrs.contains d := by
  induction addrs with
  | nil => rfl
  | cons a as ih =>
    simp only [List.map_cons, List.any_cons, List.contains_cons, ih]
    congr 1
    exact Bool.beq_comm


def vS1 : Stmt := (.ifs (.and (.attr (.name "self") "request_id") (.and (.attr (.name "self") "in_response_to") (.cmp .ne (.attr (.name "self") "in_response_to") (.attr (.name "self") "request_id")))) [
      (.ret (some .none))] [])
def vS2 : Stmt := (.ifs (.cmp .ne (.attr (.attr (.name "self") "response") "version") (.str "2.0")) [
      (.assign "_ver" (.call "float" [(.attr (.attr (.name "self") "response") "version")])),
      (.ifs (.cmp .lt (.name "_ver") (.unsupported "Constant:float")) [
        (.raise "RequestVersionTooLow")] [
        (.raise "RequestVersionTooHigh")])] [])
def vS3 : Stmt := (.ifs (.attr (.name "self") "asynchop") [
      (.ifs (.and (.attr (.attr (.name "self") "response") "destination") (.cmp .notIn (.attr (.attr (.name "self") "response") "destination") (.attr (.name "self") "return_addrs"))) [
        (.ret (some .none))] [])] [])
def vS4 : Stmt := (.assign "valid" (.and (.callm (.name "self") "issue_instant_ok" []) (.callm (.name "self") "status_ok" [])))
def vS5 : Stmt := (.ret (some (.name "valid")))

/-- The shape of the regenerated term. -/
theorem verify_shape : StatusResponse__verify.body = [vS1, vS2, vS3, vS4, vS5] := rfl

/-- **`StatusResponse._verify` refines `Sp.verifyEnvelope`** (for SAML version 2.0, no `request_id` handed in): for
    every Destination (absent, empty, any value), every list of own return addresses, both kinds of binding, any
    outcome of the IssueInstant check and any status, the CURRENT text of the method returns a truthy value exactly when
    the model function answers `ok true`, a falsy one (`None` for a foreign Destination, `False` for a stale
    IssueInstant) when it answers `ok false`, and lets the status error through when it errs. -/
theorem verify_refines (cfg : Sp.Cfg) (env : Sp.Env) (r : Sp.Response) (tm : String → Int) (cls : String)
    (hv : r.version = "2.0") :
    run Sp.pyStrip (pyExt env.now tm (Sp.issueInstantOk env.now cfg.skew r.issueInstant) (statusExt r.statusTop cls))
        StatusResponse__verify [selfVerify env.asynchop r.destination cfg.returnAddrs] =
      (match Sp.verifyEnvelope cfg env r with
       | .ok true => .value (.bool true)
       | .ok false =>
         if env.asynchop && Sp.truthy r.destination && !(cfg.returnAddrs.contains (r.destination.getD "")) then .value .none
         else .value (.bool false)
       | .error _ => .raised cls) := by
  unfold Sp.verifyEnvelope statusExt
  have hv' : (r.version != "2.0") = false := by simp [hv]
  simp only [hv', Bool.false_eq_true, if_false]
  generalize Sp.issueInstantOk env.now cfg.skew r.issueInstant = ii
  have hsu : successUri = "urn:oasis:names:tc:SAML:2.0:status:Success" := rfl
  rw [← hsu]
  generalize (r.statusTop != successUri) = ns
  generalize cfg.returnAddrs = addrs
  generalize env.asynchop = asy
  generalize r.destination = dest
  cases asy with
  | false => cases ii <;> cases ns <;> rfl
  | true =>
    cases dest with
    | none => cases ii <;> cases ns <;> rfl
    | some d =>
      by_cases hd : d = ""
      · subst hd
        cases ii <;> cases ns <;> rfl
      · have hd' : (d != "") = true := by simpa using hd
        let selfV := selfVerify true (some d) addrs
        let env0 : Env := [("self", selfV)]
        let ext := pyExt env.now tm ii (if ns = true then R.raise cls else R.ok (Val.bool true))
        let A : Expr := .attr (.attr (.name "self") "response") "destination"
        let B : Expr := .cmp .notIn (.attr (.attr (.name "self") "response") "destination") (.attr (.name "self") "return_addrs")
        have hrun : run Sp.pyStrip ext StatusResponse__verify [selfV] =
            (match evalBlock Sp.pyStrip ext 64 env0 StatusResponse__verify.body with
             | .normal _ => .value .none
             | .ret v _ => .value v
             | .raise c _ => .raised c
             | .brk _ => .stuck "break outside a loop"
             | .cont _ => .stuck "continue outside a loop"
             | .stuck w => .stuck w) := rfl
        show run Sp.pyStrip ext StatusResponse__verify [selfV] = _
        rw [hrun, verify_shape]
        have h1 : evalStmt Sp.pyStrip ext 63 env0 vS1 = .normal env0 := rfl
        have h2 : evalStmt Sp.pyStrip ext 62 env0 vS2 = .normal env0 := rfl
        rw [evalBlock_cons, h1]; simp only []
        rw [evalBlock_cons, h2]; simp only []
        rw [evalBlock_cons]
        show (match (match evalStmt Sp.pyStrip ext 61 env0 (.ifs (.attr (.name "self") "asynchop") [(.ifs (.and A B) [(.ret (some .none))] [])] []) with
                | .normal env' => evalBlock Sp.pyStrip ext 61 env' [vS4, vS5]
                | other => other) with
          | .normal _ => Result.value .none
          | .ret v _ => .value v
          | .raise c _ => .raised c
          | .brk _ => .stuck "break outside a loop"
          | .cont _ => .stuck "continue outside a loop"
          | .stuck w => .stuck w) = _
        rw [evalStmt_ifs]
        have hasy : evalExpr Sp.pyStrip ext 60 env0 (.attr (.name "self") "asynchop") = .ok (.bool true) := rfl
        rw [hasy]
        simp only [truthy, if_true]
        rw [evalBlock_cons, evalStmt_ifs, evalExpr_and]
        have hA : evalExpr Sp.pyStrip ext 57 env0 A = .ok (.str d) := rfl
        have hB : evalExpr Sp.pyStrip ext 57 env0 B =
            .ok (.bool (!((addrs.map Val.str).any (fun y => match y with | .str t => t == d | _ => false)))) := rfl
        rw [hA]
        simp only [truthy, hd', if_true]
        rw [hB, any_str_eq]
        simp only [Sp.truthy, hd', Option.getD_some, Bool.true_and]
        cases hc : addrs.contains d with
        | false =>
          simp only [Bool.not_false, truthy, if_true]
          rfl
        | true =>
          simp only [Bool.not_true, truthy, Bool.false_eq_true, if_false]
          cases ii <;> cases ns <;> rfl


/-! Non-vacuity: the theorems are about terms that really compute (evaluated by the kernel). -/
example : run Sp.pyStrip noExt for_me [encC [[some " me ", some "x"], [none, some "me"]], .str "me"] = .value (.bool true) := by
  rw [for_me_refines]; congr 2
example : run Sp.pyStrip noExt for_me [encC [[some "me"], [some "other"]], .str "me"] = .value (.bool false) := by
  rw [for_me_refines]; congr 2

end PyTie
