import PysamlModel.Model.MiniPy
import PysamlModel.Model.Sp
import PysamlModel.Gen.PyFuns
import PysamlModel.Proofs.PyTie

/-!
# C04: the hand-written `Sp.forMe` IS `saml2.response.for_me` (refinement over the regenerated MiniPy term)

`Gen/PyFuns.lean` is rewritten from the current pysaml2 source on every run.  Each theorem below says, for ALL
arguments, that running the regenerated term of a function under the MiniPy interpreter gives exactly what the
hand-written model function (the one the property theorems of C04/C05 are stated about) gives.  A change to the
Python text of one of these functions changes the term, and the theorem is re-checked against it.
-/

namespace PyTie
open MiniPy Gen.PyFuns

/-- **`for_me` refines `Sp.forMe`**: for every list of AudienceRestrictions (any number, each with any number of
    Audience elements with present, empty or absent text) and every own entityID, running the CURRENT text of
    `saml2.response.for_me` gives exactly what the model's `forMe` gives. -/
theorem for_me_refines (me : String) (rs : List (List (Option String))) :
    run Sp.pyStrip noExt for_me [encC rs, .str me] = .value (.bool (Sp.forMe me (toModel rs))) := by
  rw [forMe_toModel]
  have hpar : for_me.params = ["conditions", "myself"] := rfl
  cases hrs : rs with
  | nil =>
    simp [run, hpar, for_me_shape, defaultFuel, evalBlock, evalStmt, evalExpr, encC, lookup_cons_same, truthy, lookup]
  | cons r0 rs0 =>
    rw [← hrs]
    have hne : rs.isEmpty = false := by rw [hrs]; rfl
    let envI : Env := [("myself", .str me), ("conditions", encC rs)]
    let env0 : Env := setVar envI "matched" (.bool false)
    have hcI : lookup envI "conditions" = some (encC rs) := by simp [envI, lookup]
    have hme0 : lookup env0 "myself" = some (.str me) := by
      show lookup (setVar _ "matched" _) "myself" = _
      rw [lookup_setVar_ne _ _ _ _ (by decide)]; simp [envI, lookup]
    have hc0 : lookup env0 "conditions" = some (encC rs) := by
      show lookup (setVar _ "matched" _) "conditions" = _
      rw [lookup_setVar_ne _ _ _ _ (by decide)]; exact hcI
    have hma0 : lookup env0 "matched" = some (.bool false) := lookup_setVar_same _ _ _
    have h1 : evalStmt Sp.pyStrip noExt 63 envI
        (.ifs (.not (.attr (.name "conditions") "audience_restriction")) [(.ret (some (.bool true)))] []) = .normal envI := by
      simp [evalStmt, evalExpr, hcI, encC, lookup_cons_same, truthy, hne, evalBlock]
    have h2 : evalStmt Sp.pyStrip noExt 62 envI (.assign "matched" (.bool false)) = .normal env0 := by
      simp [evalStmt, evalExpr, env0]
    have h3 : evalStmt Sp.pyStrip noExt 61 env0
        (.for "restriction" (.attr (.name "conditions") "audience_restriction") outerBody []) =
        forLoop (outerB 49) (outerE 49) (rs.map encR) env0 := by
      simp [evalStmt, evalExpr, hc0, encC, lookup_cons_same]
      rfl
    have h4 : ∀ (env' : Env) (b : Bool), lookup env' "matched" = some (.bool b) →
        evalStmt Sp.pyStrip noExt 60 env' (.ifs (.not (.name "matched")) [] []) = .normal env' := by
      intro env' b hb
      cases b <;> simp [evalStmt, evalExpr, hb, truthy, evalBlock]
    have h5 : ∀ (env' : Env) (b : Bool), lookup env' "matched" = some (.bool b) →
        evalStmt Sp.pyStrip noExt 59 env' (.ret (some (.name "matched"))) = .ret (.bool b) env' := by
      intro env' b hb
      simp [evalStmt, evalExpr, hb]
    have hloop := outer_loop 49 me rs env0 false hme0 hma0
    have hrun : run Sp.pyStrip noExt for_me [encC rs, .str me] =
        (match evalBlock Sp.pyStrip noExt 64 envI for_me.body with
         | .normal _ => .value .none
         | .ret v _ => .value v
         | .raise c _ => .raised c
         | .brk _ => .stuck "break outside a loop"
         | .cont _ => .stuck "continue outside a loop"
         | .stuck w => .stuck w) := by
      rfl
    rw [hrun, for_me_shape]
    rw [evalBlock_cons, h1]; simp only []
    rw [evalBlock_cons, h2]; simp only []
    rw [evalBlock_cons, h3]
    cases hall : rs.all (rOk me) with
    | false =>
      obtain ⟨e, hl⟩ := hloop.1 hall
      rw [hl]; simp [hne]
    | true =>
      obtain ⟨env', hl, _, hma'⟩ := hloop.2 hall
      rw [hl]; simp only []
      rw [evalBlock_cons, h4 env' _ hma']; simp only []
      rw [evalBlock_cons, h5 env' _ hma']
      simp [hne]


/-! Non-vacuity: the theorems are about terms that really compute (evaluated by the kernel). -/
example : run Sp.pyStrip noExt for_me [encC [[some " me ", some "x"], [none, some "me"]], .str "me"] = .value (.bool true) := by
  rw [for_me_refines]; congr 2
example : run Sp.pyStrip noExt for_me [encC [[some "me"], [some "other"]], .str "me"] = .value (.bool false) := by
  rw [for_me_refines]; congr 2

end PyTie
