import PysamlModel.Model.MiniPy
import PysamlModel.Model.Sp
import PysamlModel.Gen.PyFuns
import PysamlModel.Model.PyEnc
import PysamlModel.Proofs.MiniPy

/-!
# C05: `onOrAfterOk` / `beforeOk` ARE `saml2.validate.validate_on_or_after` / `validate_before` (refinement over the regenerated MiniPy terms)

`Gen/PyFuns.lean` is rewritten from the current pysaml2 source on every run.  Each theorem below says, for ALL
arguments, that running the regenerated term of a function under the MiniPy interpreter gives exactly what the
hand-written model function (the one the property theorems of C04/C05 are stated about) gives.  A change to the
Python text of one of these functions changes the term, and the theorem is re-checked against it.
-/

namespace PyTie
open MiniPy Gen.PyFuns

/-- `validate_on_or_after(not_on_or_after, slack)`: no value → `False`; otherwise raises `ResponseLifetimeExceed`
    exactly when the model's `onOrAfterOk` is false, else returns the instant. -/
theorem validate_on_or_after_refines (now : Int) (tm : String → Int) (skew : Nat) (t : Option String) :
    run Sp.pyStrip (timeExt now tm) validate_on_or_after [(match t with | some s => .str s | none => .none), .int skew] =
      (match t with
       | none => .value (.bool false)
       | some s => if s = "" then .value (.bool false)
                   else if Sp.onOrAfterOk now skew (tm s) then .value (.int (tm s)) else .raised "ResponseLifetimeExceed") := by
  cases t with
  | none => rfl
  | some s =>
    by_cases hs : s = ""
    · subst hs; rfl
    · simp only [hs, if_false]
      have hs' : (s != "") = true := by simpa using hs
      by_cases hgt : now > tm s + (skew : Int)
      · have : Sp.onOrAfterOk now skew (tm s) = false := by simp [Sp.onOrAfterOk, hgt]
        simp [this, run, validate_on_or_after, defaultFuel, evalBlock, evalStmt, evalExpr, evalArgs, lookup, setVar,
          truthy, hs', timeExt, cmpVals, builtin, hgt]
      · have : Sp.onOrAfterOk now skew (tm s) = true := by simp [Sp.onOrAfterOk, hgt]
        simp [this, run, validate_on_or_after, defaultFuel, evalBlock, evalStmt, evalExpr, evalArgs, lookup, setVar,
          truthy, hs', timeExt, cmpVals, builtin, hgt]

/-- `validate_before(not_before, slack)`: raises `ToEarly` exactly when the model's `beforeOk` is false, else `True`. -/
theorem validate_before_refines (now : Int) (tm : String → Int) (skew : Nat) (t : Option String) :
    run Sp.pyStrip (timeExt now tm) validate_before [(match t with | some s => .str s | none => .none), .int skew] =
      (match t with
       | none => .value (.bool true)
       | some s => if s = "" then .value (.bool true)
                   else if Sp.beforeOk now skew (tm s) then .value (.bool true) else .raised "ToEarly") := by
  cases t with
  | none => rfl
  | some s =>
    by_cases hs : s = ""
    · subst hs; rfl
    · simp only [hs, if_false]
      have hs' : (s != "") = true := by simpa using hs
      by_cases hgt : tm s > now + (skew : Int)
      · have : Sp.beforeOk now skew (tm s) = false := by simp [Sp.beforeOk, hgt]
        simp [this, run, validate_before, defaultFuel, evalBlock, evalStmt, evalExpr, evalArgs, lookup, setVar,
          truthy, hs', timeExt, cmpVals, builtin, hgt]
      · have : Sp.beforeOk now skew (tm s) = true := by simp [Sp.beforeOk, hgt]
        simp [this, run, validate_before, defaultFuel, evalBlock, evalStmt, evalExpr, evalArgs, lookup, setVar,
          truthy, hs', timeExt, cmpVals, builtin, hgt]

/-! ## `AuthnResponse.authn_statement_ok` (SessionNotOnOrAfter, number of AuthnStatements) -/

theorem voa_ext (now : Int) (tm : String → Int) (ii : Bool) (so : R Val) (skew : Nat) (t : Option String) :
    pyExt now tm ii so "validate_on_or_after" [optStr t, .int skew] =
      (match t with
       | none => .ok (.bool false)
       | some s => if s = "" then .ok (.bool false)
                   else if Sp.onOrAfterOk now skew (tm s) then .ok (.int (tm s)) else .raise "ResponseLifetimeExceed") := by
  have h := validate_on_or_after_refines now tm skew t
  cases t with
  | none => simp [pyExt, optStr] at *; rw [h]; rfl
  | some s =>
    simp only [pyExt, optStr] at *
    rw [h]
    by_cases hs : s = ""
    · simp [hs, asExt]
    · by_cases ho : Sp.onOrAfterOk now skew (tm s) = true <;> simp [hs, ho, asExt]


/-- The shape of the regenerated term. -/
theorem authn_statement_ok_shape : AuthnResponse_authn_statement_ok.body = [
    (.assign "n_authn_statements" (.call "len" [(.attr (.attr (.name "self") "assertion") "authn_statement")])),
    (.ifs (.cmp .ne (.name "n_authn_statements") (.int (1))) [
      (.ifs (.name "optional") [(.ret (some (.bool true)))] [(.assign "msg" .opaqueStr), (.raise "ValueError")])] []),
    (.assign "authn_statement" (.subscript (.attr (.attr (.name "self") "assertion") "authn_statement") (.int (0)))),
    (.ifs (.attr (.name "authn_statement") "session_not_on_or_after") [
      (.ifs (.call "validate_on_or_after" [(.attr (.name "authn_statement") "session_not_on_or_after"), (.attr (.name "self") "timeslack")]) [
        (.setattr "self" "session_not_on_or_after" (.call "calendar.timegm" [(.call "time_util.str_to_time" [(.attr (.name "authn_statement") "session_not_on_or_after")])]))] [
        (.ret (some (.bool false)))])] []),
    (.ret (some (.bool true)))] := rfl

/-- **`AuthnResponse.authn_statement_ok` refines `Sp.authnStatementOk`**: for every number of AuthnStatements,
    every lexical SessionNotOnOrAfter (absent, empty, any instant), every clock, skew and prior state, running the
    CURRENT text of the method (with `validate_on_or_after` run from ITS current text) raises exactly when the model
    function errs, with the class the model's error stands for, and otherwise leaves `self.session_not_on_or_after`
    at the value the model's state has. -/
theorem authn_statement_ok_refines (cfg : Sp.Cfg) (env : Sp.Env) (st : Sp.St) (a : Sp.Assertion) (tm : String → Int)
    (stmts : List (Option String × Option String)) (ha : a.authn = authnOf tm stmts) :
    match Sp.authnStatementOk cfg env st a with
    | .ok st' => (∃ b, (runMethod Sp.pyStrip (pyExt0 env.now tm) AuthnResponse_authn_statement_ok
          [selfAuthn (stmts.map (·.1)) cfg.skew st.sessionNooa, .bool false]).1 = .value (.bool b)) ∧
        sessionOf (runMethod Sp.pyStrip (pyExt0 env.now tm) AuthnResponse_authn_statement_ok
          [selfAuthn (stmts.map (·.1)) cfg.skew st.sessionNooa, .bool false]).2 = some (.int st'.sessionNooa)
    | .error e => (runMethod Sp.pyStrip (pyExt0 env.now tm) AuthnResponse_authn_statement_ok
          [selfAuthn (stmts.map (·.1)) cfg.skew st.sessionNooa, .bool false]).1 = .raised (errClass e) := by
  have hv := voa_ext env.now tm true (.ok (.bool true)) cfg.skew
  unfold Sp.authnStatementOk
  rw [ha]
  rcases stmts with _ | ⟨s, _ | ⟨s2, rest⟩⟩
  · -- no statement: ValueError
    simp only [authnOf, List.map_nil]
    rfl
  · -- exactly one statement
    obtain ⟨t, idx⟩ := s
    simp only [authnOf, List.map_cons, List.map_nil]
    cases t with
    | none =>
      simp only [lexTime]
      exact ⟨⟨true, rfl⟩, rfl⟩
    | some x =>
      by_cases hx : x = ""
      · subst hx
        simp only [lexTime, if_true]
        exact ⟨⟨true, rfl⟩, rfl⟩
      · have hx' : (x != "") = true := by simpa using hx
        have hv' := hv (some x)
        simp only [hx, if_false, optStr] at hv'
        simp only [lexTime, hx, if_false]
        -- the environment when the fourth statement starts
        let selfV := selfAuthn [some x] cfg.skew st.sessionNooa
        let env2 : Env := [("authn_statement", encStmt (some x)), ("n_authn_statements", .int 1), ("optional", .bool false), ("self", selfV)]
        have hrun : runMethod Sp.pyStrip (pyExt0 env.now tm) AuthnResponse_authn_statement_ok [selfV, .bool false] =
            (match (match evalStmt Sp.pyStrip (pyExt0 env.now tm) 60 env2
                      (.ifs (.attr (.name "authn_statement") "session_not_on_or_after") [
                        (.ifs (.call "validate_on_or_after" [(.attr (.name "authn_statement") "session_not_on_or_after"), (.attr (.name "self") "timeslack")]) [
                          (.setattr "self" "session_not_on_or_after" (.call "calendar.timegm" [(.call "time_util.str_to_time" [(.attr (.name "authn_statement") "session_not_on_or_after")])]))] [
                          (.ret (some (.bool false)))])] []) with
                    | .normal e => Flow.ret (.bool true) e
                    | other => other) with
             | .normal e => (.value .none, lookup e "self")
             | .ret v e => (.value v, lookup e "self")
             | .raise c e => (.raised c, lookup e "self")
             | .brk _ => (.stuck "break outside a loop", none)
             | .cont _ => (.stuck "continue outside a loop", none)
             | .stuck w => (.stuck w, none)) := rfl
        show (match (if Sp.onOrAfterOk env.now cfg.skew (tm x) = true then
                if (tm x != 0) = true then Except.ok { st with sessionNooa := tm x } else Except.ok st
              else Except.error Sp.Err.expired : Except Sp.Err Sp.St) with
          | .ok st' => (∃ b, (runMethod Sp.pyStrip (pyExt0 env.now tm) AuthnResponse_authn_statement_ok [selfV, .bool false]).1 = .value (.bool b)) ∧
              sessionOf (runMethod Sp.pyStrip (pyExt0 env.now tm) AuthnResponse_authn_statement_ok [selfV, .bool false]).2 = some (.int st'.sessionNooa)
          | .error e => (runMethod Sp.pyStrip (pyExt0 env.now tm) AuthnResponse_authn_statement_ok [selfV, .bool false]).1 = .raised (errClass e))
        rw [hrun, evalStmt_ifs]
        have hc : evalExpr Sp.pyStrip (pyExt0 env.now tm) 59 env2 (.attr (.name "authn_statement") "session_not_on_or_after") = .ok (.str x) := rfl
        rw [hc]
        simp only [truthy, hx', if_true]
        rw [evalBlock_cons, evalStmt_ifs]
        have hcall : evalExpr Sp.pyStrip (pyExt0 env.now tm) 57 env2
            (.call "validate_on_or_after" [(.attr (.name "authn_statement") "session_not_on_or_after"), (.attr (.name "self") "timeslack")]) =
            pyExt env.now tm true (.ok (.bool true)) "validate_on_or_after" [.str x, .int cfg.skew] := rfl
        rw [hcall, hv']
        by_cases ho : Sp.onOrAfterOk env.now cfg.skew (tm x) = true
        · simp only [ho, if_true, truthy]
          by_cases hz : tm x = 0
          · have hz' : (tm x != 0) = false := by simpa using hz
            simp only [hz', Bool.false_eq_true, if_false]
            exact ⟨⟨false, rfl⟩, rfl⟩
          · have hz' : (tm x != 0) = true := by simpa using hz
            simp only [hz', if_true]
            exact ⟨⟨true, rfl⟩, rfl⟩
        · simp only [ho, if_false]
          rfl
  · -- two or more statements: ValueError
    simp only [authnOf, List.map_cons]
    let selfV := selfAuthn (s.1 :: s2.1 :: rest.map (·.1)) cfg.skew st.sessionNooa
    let L : List Val := encStmt s.1 :: encStmt s2.1 :: (rest.map (·.1)).map encStmt
    let env1 : Env := [("n_authn_statements", .int L.length), ("optional", .bool false), ("self", selfV)]
    have hrun : runMethod Sp.pyStrip (pyExt0 env.now tm) AuthnResponse_authn_statement_ok [selfV, .bool false] =
        (match (match evalStmt Sp.pyStrip (pyExt0 env.now tm) 62 env1
                  (.ifs (.cmp .ne (.name "n_authn_statements") (.int (1))) [
                    (.ifs (.name "optional") [(.ret (some (.bool true)))] [(.assign "msg" .opaqueStr), (.raise "ValueError")])] []) with
                | .normal e => evalBlock Sp.pyStrip (pyExt0 env.now tm) 62 e (AuthnResponse_authn_statement_ok.body.drop 2)
                | other => other) with
         | .normal e => (.value .none, lookup e "self")
         | .ret v e => (.value v, lookup e "self")
         | .raise c e => (.raised c, lookup e "self")
         | .brk _ => (.stuck "break outside a loop", none)
         | .cont _ => (.stuck "continue outside a loop", none)
         | .stuck w => (.stuck w, none)) := rfl
    show (runMethod Sp.pyStrip (pyExt0 env.now tm) AuthnResponse_authn_statement_ok [selfV, .bool false]).1 = .raised (errClass .authnStmtCount)
    rw [hrun, evalStmt_ifs]
    have hc : evalExpr Sp.pyStrip (pyExt0 env.now tm) 61 env1 (.cmp .ne (.name "n_authn_statements") (.int (1))) =
        .ok (.bool ((L.length : Int) != 1)) := rfl
    rw [hc]
    have hlen : ((L.length : Int) != 1) = true := by
      have : (L.length : Int) ≠ 1 := by simp [L]; omega
      simpa using this
    simp only [truthy, hlen, if_true]
    rfl


/-! Non-vacuity: the theorems are about terms that really compute (evaluated by the kernel). -/
example : run Sp.pyStrip (timeExt 100 (fun _ => 40)) validate_on_or_after [.str "t", .int 59] = .raised "ResponseLifetimeExceed" := by
  have := validate_on_or_after_refines 100 (fun _ => 40) 59 (some "t")
  simpa [Sp.onOrAfterOk] using this
example : run Sp.pyStrip (timeExt 100 (fun _ => 40)) validate_on_or_after [.str "t", .int 60] = .value (.int 40) := by
  have := validate_on_or_after_refines 100 (fun _ => 40) 60 (some "t")
  simpa [Sp.onOrAfterOk] using this


end PyTie
