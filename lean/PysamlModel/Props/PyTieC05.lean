import PysamlModel.Model.MiniPy
import PysamlModel.Model.Sp
import PysamlModel.Gen.PyFuns
import PysamlModel.Model.PyEnc

/-!
# C05: `onOrAfterOk` / `beforeOk` ARE `saml2.validate.validate_on_or_after` / `validate_before` (refinement over the regenerated MiniPy terms)

`Gen/PyFuns.lean` is rewritten from the current pysaml2 source on every run.  Each theorem below says, for ALL
arguments, that running the regenerated term of a function under the MiniPy interpreter gives exactly what the
hand-written model function (the one the property theorems of C04/C05 are stated about) gives.  A change to the
Python text of one of these functions changes the term, and the theorem is re-checked against it.
-/

namespace PyTie
open MiniPy Gen.PyFuns

/-- `validate_on_or_after(not_on_or_after, slack)`: no value → `False`; otherwise raises `ResponseLifetimeExceed`
    exactly when the model's `onOrAfterOk` is false, else returns the instant. -/
theorem validate_on_or_after_refines (now : Int) (tm : String → Int) (skew : Nat) (t : Option String) :
    run Sp.pyStrip (timeExt now tm) validate_on_or_after [(match t with | some s => .str s | none => .none), .int skew] =
      (match t with
       | none => .value (.bool false)
       | some s => if s = "" then .value (.bool false)
                   else if Sp.onOrAfterOk now skew (tm s) then .value (.int (tm s)) else .raised "ResponseLifetimeExceed") := by
  cases t with
  | none => rfl
  | some s =>
    by_cases hs : s = ""
    · subst hs; rfl
    · simp only [hs, if_false]
      have hs' : (s != "") = true := by simpa using hs
      by_cases hgt : now > tm s + (skew : Int)
      · have : Sp.onOrAfterOk now skew (tm s) = false := by simp [Sp.onOrAfterOk, hgt]
        simp [this, run, validate_on_or_after, defaultFuel, evalBlock, evalStmt, evalExpr, evalArgs, lookup, setVar,
          truthy, hs', timeExt, cmpVals, builtin, hgt]
      · have : Sp.onOrAfterOk now skew (tm s) = true := by simp [Sp.onOrAfterOk, hgt]
        simp [this, run, validate_on_or_after, defaultFuel, evalBlock, evalStmt, evalExpr, evalArgs, lookup, setVar,
          truthy, hs', timeExt, cmpVals, builtin, hgt]

/-- `validate_before(not_before, slack)`: raises `ToEarly` exactly when the model's `beforeOk` is false, else `True`. -/
theorem validate_before_refines (now : Int) (tm : String → Int) (skew : Nat) (t : Option String) :
    run Sp.pyStrip (timeExt now tm) validate_before [(match t with | some s => .str s | none => .none), .int skew] =
      (match t with
       | none => .value (.bool true)
       | some s => if s = "" then .value (.bool true)
                   else if Sp.beforeOk now skew (tm s) then .value (.bool true) else .raised "ToEarly") := by
  cases t with
  | none => rfl
  | some s =>
    by_cases hs : s = ""
    · subst hs; rfl
    · simp only [hs, if_false]
      have hs' : (s != "") = true := by simpa using hs
      by_cases hgt : tm s > now + (skew : Int)
      · have : Sp.beforeOk now skew (tm s) = false := by simp [Sp.beforeOk, hgt]
        simp [this, run, validate_before, defaultFuel, evalBlock, evalStmt, evalExpr, evalArgs, lookup, setVar,
          truthy, hs', timeExt, cmpVals, builtin, hgt]
      · have : Sp.beforeOk now skew (tm s) = true := by simp [Sp.beforeOk, hgt]
        simp [this, run, validate_before, defaultFuel, evalBlock, evalStmt, evalExpr, evalArgs, lookup, setVar,
          truthy, hs', timeExt, cmpVals, builtin, hgt]

/-! Non-vacuity: the theorems are about terms that really compute (evaluated by the kernel). -/
example : run Sp.pyStrip (timeExt 100 (fun _ => 40)) validate_on_or_after [.str "t", .int 59] = .raised "ResponseLifetimeExceed" := by
  have := validate_on_or_after_refines 100 (fun _ => 40) 59 (some "t")
  simpa [Sp.onOrAfterOk] using this
example : run Sp.pyStrip (timeExt 100 (fun _ => 40)) validate_on_or_after [.str "t", .int 60] = .value (.int 40) := by
  have := validate_on_or_after_refines 100 (fun _ => 40) 60 (some "t")
  simpa [Sp.onOrAfterOk] using this


end PyTie
