/-
  C05 — Assertions are honoured only inside their validity windows plus configured skew.
  Clocks are unbounded `Int`s, skews unbounded `Nat`s; statements are about the full `Sp.process`.
-/
import PysamlModel.Proofs.Sp
import PysamlModel.Proofs.SpFactory
import PysamlModel.Proofs.SpTimes
import PysamlModel.Props.C04
import PysamlModel.Model.SpAttr
import PysamlModel.Model.SpLex

namespace C05
open Sp

/-- All time windows of one accepted assertion hold (Conditions, SessionNotOnOrAfter, every bearer
    confirmation that is used): not expired, not premature, not inverted. -/
theorem accepted_timesOk {cfg : Cfg} {env : Env} {rs v : Bool} {st st' : St} {a : Assertion}
    (h : checkAssertion cfg env rs v st a = .ok st') : timesOk cfg env a = true := by
  obtain ⟨hacc, st1, st2, e1, e2, e3, _⟩ := checkAssertion_inv h
  unfold timesOk
  simp only [Bool.and_eq_true]
  refine ⟨⟨(conditionOk_facts e2).2.1, ?_⟩, ?_⟩
  · obtain ⟨s, hs, hsess⟩ := hacc.authn
    rw [hs]
    simp only [List.all_cons, List.all_nil, Bool.and_true]
    cases ht : s.sessionNooa with
    | none => rfl
    | some t =>
      have := hsess t ht
      simp only [onOrAfterOk, Bool.not_eq_true', decide_eq_false_iff_not] at this
      simp only [decide_eq_true_eq]; omega
  · obtain ⟨s, hs, hfacts, _⟩ := getSubject_facts e3
    rw [hs]
    apply List.all_eq_true.mpr
    intro sc hsc
    cases hus : bearerUsable sc with
    | false => simp
    | true =>
      obtain ⟨d, hd, hexp, hpre, _⟩ := hfacts sc hsc hus
      simp only [Bool.not_true, Bool.false_or, hd]
      unfold bearerUsable at hus
      simp only [hd, Bool.and_eq_true] at hus
      have hlt := hus.2
      unfold windowOk
      cases hnb : d.nb <;> cases hno : d.nooa <;>
        simp_all [optExpired, optPremature, onOrAfterOk, beforeOk, laterThan] <;> omega

/-- `C05_expired`, `C05_premature`, `C05_inverted` in one statement: identity ⇒ for every visible
    assertion the current time is not later than NotOnOrAfter + skew, not earlier than NotBefore − skew,
    and NotOnOrAfter is not earlier than NotBefore — for Conditions, for the bearer confirmation data
    that is used and for SessionNotOnOrAfter. -/
theorem C05_windows {cfg : Cfg} {env : Env} {r : Response} {o : Reported}
    (h : process cfg env r = .identity o) : ∀ a ∈ visible r, timesOk cfg env a = true := by
  obtain ⟨rs, hacc⟩ := C04.visible_accepted h
  intro a ha
  obtain ⟨v, s, s', hs⟩ := hacc a ha
  exact accepted_timesOk hs

/-- `C05_windows` for the factory entry point (`authn_response(...)` + `loads()` + `verify()`): the same windows,
    for every visible assertion. -/
theorem C05_windows_factory {cfg : Cfg} {env : Env} {r : Response} {o : Reported}
    (h : processFactory cfg env r = .identity o) : ∀ a ∈ visible r, timesOk cfg env a = true := by
  obtain ⟨rs, hacc⟩ := C04.visible_accepted_factory h
  intro a ha
  obtain ⟨v, s, s', hs⟩ := hacc a ha
  exact accepted_timesOk hs

/-- Spelled out for the Conditions element. -/
theorem C05_expired {cfg : Cfg} {env : Env} {r : Response} {o : Reported}
    (h : process cfg env r = .identity o) (a : Assertion) (ha : a ∈ visible r) (c : Conditions)
    (hc : a.conditions = some c) (t : Int) (ht : c.nooa = some t) : env.now ≤ t + cfg.skew := by
  have := C05_windows h a ha
  unfold timesOk at this
  simp only [Bool.and_eq_true, hc, windowOk, ht] at this
  have h1 := this.1.1.1.1
  simpa using h1

theorem C05_premature {cfg : Cfg} {env : Env} {r : Response} {o : Reported}
    (h : process cfg env r = .identity o) (a : Assertion) (ha : a ∈ visible r) (c : Conditions)
    (hc : a.conditions = some c) (t : Int) (ht : c.nb = some t) : t ≤ env.now + cfg.skew := by
  have := C05_windows h a ha
  unfold timesOk at this
  simp only [Bool.and_eq_true, hc, windowOk, ht] at this
  have h1 := this.1.1.1.2
  simpa using h1

theorem C05_inverted {cfg : Cfg} {env : Env} {r : Response} {o : Reported}
    (h : process cfg env r = .identity o) (a : Assertion) (ha : a ∈ visible r) (c : Conditions)
    (hc : a.conditions = some c) (b t : Int) (hb : c.nb = some b) (ht : c.nooa = some t) : b ≤ t := by
  have := C05_windows h a ha
  unfold timesOk at this
  simp only [Bool.and_eq_true, hc, windowOk, ht, hb] at this
  have h1 := this.1.1.2
  simpa using h1

/-- IssueInstant, from one successful `verify()` (shared by both entry points). -/
theorem verify_stale_instant {cfg : Cfg} {env : Env} {rs : Bool} {st : St} {r : Response} {p : Parsed}
    (hv : verify cfg env rs st r = .ok (some p)) : issueInstantWithin cfg env r = true := by
  obtain ⟨henv, _⟩ := verify_some_inv hv
  obtain ⟨_, _, hii, _⟩ := verifyEnvelope_true_inv henv
  unfold issueInstantOk at hii
  unfold issueInstantWithin
  simp only [Bool.and_eq_true, decide_eq_true_eq] at hii ⊢
  omega

/-- The Response IssueInstant is at most a day plus skew away from now. -/
theorem C05_stale_instant {cfg : Cfg} {env : Env} {r : Response} {o : Reported}
    (h : process cfg env r = .identity o) : issueInstantWithin cfg env r = true := by
  obtain ⟨_, cf, _, rs, p, _, _, _, hv, _, _, _, _⟩ := process_identity_inv h
  exact verify_stale_instant hv

/-- `C05_stale_instant` for the factory entry point. -/
theorem C05_stale_instant_factory {cfg : Cfg} {env : Env} {r : Response} {o : Reported}
    (h : processFactory cfg env r = .identity o) : issueInstantWithin cfg env r = true := by
  obtain ⟨cf, p, _, hv, _⟩ := processFactory_identity_inv h
  exact verify_stale_instant hv

/-- The windows, for the third entry point (`response_factory(...)` + `verify()`, `Sp.processRespFactory`). -/
theorem C05_windows_respfactory {cfg : Cfg} {env : Env} {r : Response} {o : Reported}
    (h : processRespFactory cfg env r = .identity o) :
    (∀ a ∈ visible r, timesOk cfg env a = true) ∧ issueInstantWithin cfg env r = true := by
  obtain ⟨rs, hacc⟩ := C04.visible_accepted_respfactory h
  obtain ⟨cf, p, _, hv, _⟩ := processRespFactory_identity_inv h
  refine ⟨?_, verify_stale_instant hv⟩
  intro a ha
  obtain ⟨v, s, s', hs⟩ := hacc a ha
  exact accepted_timesOk hs


/-- The expiry reported to the application (single-assertion responses): SessionNotOnOrAfter when
    present (and positive), otherwise the Conditions NotOnOrAfter. -/
theorem C05_reported_expiry {cfg : Cfg} {env : Env} {r : Response} {o : Reported} {a : Assertion}
    (h : process cfg env r = .identity o) (hone : visible r = [a]) :
    ∃ s, a.authn = [s] ∧
      o.notOnOrAfter = (match s.sessionNooa with
        | some t => if t > 0 then t else (match a.conditions.bind (·.nooa) with | some u => u | none => 0)
        | none => (match a.conditions.bind (·.nooa) with | some u => u | none => 0)) := by
  obtain ⟨_, cf, _, rs, p, _, _, _, hv, _, _, _, a0, rest, s0, srest, hused, hauthn, ho⟩ := process_identity_inv h
  obtain ⟨_, hp⟩ := verify_some_inv hv
  obtain ⟨⟨st1, h1, h2⟩, _, _, hu, _, _⟩ := parseAssertion_inv hp
  -- exactly one visible assertion: it is either the plain one or the decrypted one
  have hvis : decOf r ++ plainOf r = [a] := hone
  -- the final state comes from checking `a` starting in a state with zeroed times
  have hfinal : ∃ v st0, st0.notOnOrAfter = 0 ∧ st0.sessionNooa = 0 ∧ checkAssertion cfg env rs v st0 a = .ok p.st := by
    rcases List.append_eq_cons_iff.mp hvis with ⟨hd, hp'⟩ | ⟨as, hd, hp'⟩
    · rw [hd] at h2; rw [hp'] at h1
      unfold checkAll at h2; cases h2
      unfold checkAll at h1
      split at h1
      · cases h1
      next st' hchk =>
        unfold checkAll at h1; cases h1
        exact ⟨false, _, rfl, rfl, hchk⟩
    · have has : as = [] ∧ plainOf r = [] := by
        have := List.append_eq_nil_iff.mp hp'.symm
        exact this
      rw [hd, has.1] at h2; rw [has.2] at h1
      unfold checkAll at h1; cases h1
      unfold checkAll at h2
      split at h2
      · cases h2
      next st' hchk =>
        unfold checkAll at h2; cases h2
        exact ⟨true, _, rfl, rfl, hchk⟩
  obtain ⟨v, st0, hz1, hz2, hchk⟩ := hfinal
  obtain ⟨_, sa, sb, e1, e2, e3, _⟩ := checkAssertion_inv hchk
  obtain ⟨s, hs, _, _, hno1, _, _, hse1⟩ := authnStatementOk_inv e1
  obtain ⟨_, _, hno2, hse2, _⟩ := conditionOk_facts e2
  obtain ⟨_, _, _, hno3, hse3⟩ := getSubject_facts e3
  refine ⟨s, hs, ?_⟩
  rw [ho]
  simp only
  rw [hno3, hse3, hno2, hse2, hse1, hno1]
  simp only [hz1, hz2]
  cases hb : (a.conditions.bind (·.nooa)) with
  | none =>
    cases hsn : s.sessionNooa with
    | none => simp
    | some t =>
      by_cases ht : t > 0
      · have : t ≠ 0 := by omega
        simp [ht, this]
      · by_cases ht0 : t = 0
        · simp [ht0]
        · simp [ht0, ht]
  | some u =>
    cases hsn : s.sessionNooa with
    | none => simp
    | some t =>
      by_cases ht : t > 0
      · have : t ≠ 0 := by omega
        simp [ht, this]
      · by_cases ht0 : t = 0
        · simp [ht0]
        · simp [ht0, ht]

/-- The model's outcome always satisfies the soundness half of the decidable specification. -/
theorem C05_model_meets_spec_sound (cfg : Cfg) (env : Env) (r : Response) :
    specC05Sound cfg env r (process cfg env r) = true := by
  unfold specC05Sound
  cases hres : process cfg env r with
  | noIdentity => rfl
  | rejected e => rfl
  | identity o =>
    simp only [Bool.and_eq_true]
    refine ⟨⟨C05_stale_instant hres, List.all_eq_true.mpr (fun a ha => C05_windows hres a ha)⟩, ?_⟩
    cases hlen : (visible r).length != 1 with
    | true => simp
    | false =>
      simp only [Bool.false_or]
      have hl : (visible r).length = 1 := by simpa using hlen
      obtain ⟨a, ha⟩ := List.length_eq_one_iff.mp hl
      obtain ⟨s, hs, hexp⟩ := C05_reported_expiry hres ha
      unfold expectedExpiry
      rw [ha]
      simp only [hs]
      cases hsn : s.sessionNooa with
      | some t =>
        simp only
        rw [hexp, hsn]
        by_cases ht : t > 0
        · simp [ht]
        · have : t ≤ 0 := by omega
          simp [this]
      | none =>
        simp only
        rw [hexp, hsn]
        cases hc : a.conditions.bind (·.nooa) with
        | none => rfl
        | some u => simp

/-- `strictlyInside` unpacked -/
theorem strictlyInside_inv {cfg : Cfg} {env : Env} {r : Response} (h : strictlyInside cfg env r = true) :
    (env.now - r.issueInstant < 86400 + cfg.skew ∧ r.issueInstant - env.now < 86400 + cfg.skew) ∧
    ∀ a ∈ visible r, insideA cfg env a := by
  unfold strictlyInside at h
  simp only [Bool.and_eq_true, decide_eq_true_eq] at h
  refine ⟨h.1, ?_⟩
  intro a ha
  have := List.all_eq_true.mp h.2 a ha
  simp only [Bool.and_eq_true] at this
  obtain ⟨⟨hc, hs⟩, hsub⟩ := this
  have mk : ∀ (nb nooa : Option Int),
      ((match nooa with | some t => decide (env.now < t + cfg.skew) | none => true) &&
       (match nb with | some b => decide (b < env.now + cfg.skew) | none => true) &&
       (match nb, nooa with | some b, some t => decide (b ≤ t) | _, _ => true)) = true →
      insideOpt env.now cfg.skew nb nooa := by
    intro nb nooa hh
    simp only [Bool.and_eq_true] at hh
    refine ⟨?_, ?_, ?_⟩
    · intro t ht; rw [ht] at hh; simpa using hh.1.1
    · intro b hb; rw [hb] at hh; simpa using hh.1.2
    · intro b t hb ht; rw [hb, ht] at hh; simpa using hh.2
  refine ⟨?_, ?_, ?_⟩
  · intro c hcc; rw [hcc] at hc; exact mk _ _ hc
  · intro s hss t ht
    have := List.all_eq_true.mp hs s hss
    exact (mk none s.sessionNooa this).1 t ht
  · intro s hss sc hsc d hd
    rw [hss] at hsub
    have := List.all_eq_true.mp hsub sc hsc
    rw [hd] at this
    exact mk _ _ this

/-- C05, completeness: strictly inside all validity windows widened by the skew (`now < NotOnOrAfter + skew`,
    `NotBefore − skew < now`, `NotBefore ≤ NotOnOrAfter`, for Conditions, SessionNotOnOrAfter and every
    SubjectConfirmationData; `|now − IssueInstant| < 86400 + skew`) an otherwise valid Response — its
    time-sanitised copy is accepted — is accepted; for every clock, skew and message.  Only the single
    second `now = bound ± skew` lies between this and the refusals of `C05_windows` / `C05_stale_instant`. -/
theorem C05_inside_accepted (cfg : Cfg) (env : Env) (r : Response)
    (hvalid : (process cfg env (sanitiseTimes env r)).isIdentity = true)
    (hinside : strictlyInside cfg env r = true) :
    (process cfg env r).isIdentity = true := by
  obtain ⟨hii, hin⟩ := strictlyInside_inv hinside
  cases hres : process cfg env (sanitiseTimes env r) with
  | noIdentity => rw [hres] at hvalid; cases hvalid
  | rejected e => rw [hres] at hvalid; cases hvalid
  | identity o' =>
    obtain ⟨hb, cf, rS, rs', p', aS', hp1, _, hv', haS', hrs', heither', a', rest', s', srest', hused', hauthn', _⟩ :=
      process_identity_inv hres
    rw [pass1_san] at hp1
    obtain ⟨henv', hpa'⟩ := verify_some_inv hv'
    have henv := verifyEnvelope_san hii henv'
    obtain ⟨p, hpa, _, _, hused⟩ := parseAssertion_times (Rel.refl _) hin hpa'
    -- the shape of the used list
    obtain ⟨_, _, _, hu', _, _⟩ := parseAssertion_inv hpa'
    rw [decOf_san, plainOf_san, ← List.map_append] at hu'
    rw [hu'] at hused'
    have hshape : ∃ a rest s srest, decOf r ++ plainOf r = a :: rest ∧ a.authn = s :: srest := by
      cases hl : decOf r ++ plainOf r with
      | nil => rw [hl] at hused'; cases hused'
      | cons a rest =>
        rw [hl] at hused'
        simp only [List.map_cons, List.cons.injEq] at hused'
        have hm : (sanA env a).authn = a.authn.map (sanAuthn env) := rfl
        rw [← hused'.1, hm] at hauthn'
        cases hal : a.authn with
        | nil => rw [hal] at hauthn'; cases hauthn'
        | cons s srest => exact ⟨a, rest, s, srest, rfl, hal⟩
    obtain ⟨a, rest, s, srest, hl, hauthn⟩ := hshape
    have hident : ∀ (q : Parsed) (aS : Bool), q.used = decOf r ++ plainOf r →
        (cfg.wantEither && !rS && !aS) = false →
        pass2 cfg env { cameFrom := cf } r = .ok (some q, aS) → (process cfg env r).isIdentity = true := by
      intro q aS hq heith hp2
      unfold process
      simp only [hb, Bool.not_true, Bool.false_eq_true, if_false, hp1, hp2, heith]
      rw [hq, hl]
      simp only [hauthn, Outcome.isIdentity]
    have hv : verify cfg env rs' { cameFrom := cf } r = .ok (some p) := by
      unfold verify; rw [henv, hpa]
    cases hrsv : rs' with
    | true =>
      subst hrsv
      apply hident p true hused
      · cases hw : cfg.wantEither <;> simp
      · unfold pass2; rw [hv]
    | false =>
      subst hrsv
      have haSf : aS' = false := by
        cases h : aS' with
        | false => rfl
        | true => have := haS' h; cases this
      have heith : ∀ aS, (cfg.wantEither && !rS && !aS) = false := by
        intro aS
        rw [haSf] at heither'
        cases hw : cfg.wantEither <;> cases hr : rS <;> simp_all
      have hwa := hrs' rfl
      rcases parseAssertion_forced_or hpa with hf | hf
      · apply hident p true hused (heith true)
        unfold pass2 verify; rw [henv, hf]
      · apply hident p false hused (heith false)
        unfold pass2
        have hv1 : verify cfg env true { cameFrom := cf } r = .error .sigMissingAssertion := by
          unfold verify; rw [henv, hf]
        rw [hv1]
        simp only [Err.isSignatureError, if_true, hwa, Bool.false_eq_true, if_false, hv]

/-- The completeness half of the decidable specification holds of the model. -/
theorem C05_model_meets_spec_complete (cfg : Cfg) (env : Env) (r : Response) :
    specC05Complete cfg env r (process cfg env r) = true := by
  unfold specC05Complete
  cases hv : (process cfg env (sanitiseTimes env r)).isIdentity with
  | false => simp
  | true =>
    cases hp : strictlyInside cfg env r with
    | false => simp
    | true => simp [C05_inside_accepted cfg env r hv hp]

/-! Non-vacuity -/
private def okAssertion : Assertion :=
  { conditions := some { nb := some 90, nooa := some 200, audiences := [["me"]] },
    authn := [{ sessionIndex := some "s", sessionNooa := some 500 }],
    subject := some { nameId := some "n", confs := [{ method := .bearer, data := some { nooa := some 200, recipient := some "u", irt := some "r1" } }] } }
private def okResp : Response :=
  { sig := .valid, issueInstant := 100, destination := some "u", inResponseTo := some "r1", assertions := [okAssertion] }
private def okCfg : Cfg := { entityId := "me", returnAddrs := ["u"], skew := 60 }
private def okEnv (now : Int) : Env := { now := now, outstanding := [("r1", "/x")] }

example : ∃ o, process okCfg (okEnv 100) okResp = .identity o ∧ o.notOnOrAfter = 500 :=
  ⟨{ nameId := some "n", issuer := "", cameFrom := some "/x", notOnOrAfter := 500, sessionIndex := some "s", cached := true },
   by decide, by decide⟩
example : process okCfg (okEnv 260) okResp = .identity
  { nameId := some "n", issuer := "", cameFrom := some "/x", notOnOrAfter := 500, sessionIndex := some "s", cached := true } := by decide
example : process okCfg (okEnv 261) okResp = .rejected .expired := by decide
example : process okCfg (okEnv 29) okResp = .rejected .premature := by decide

/-! Non-vacuity for the factory entry point: the same Response at the same clocks (accepted up to the skew boundary,
    refused one second beyond it; nothing is cached there). -/
example : processFactory okCfg (okEnv 100) okResp = .identity
  { nameId := some "n", issuer := "", cameFrom := some "/x", notOnOrAfter := 500, sessionIndex := some "s", cached := false } := by decide
example : (processFactory okCfg (okEnv 260) okResp).isIdentity = true := by decide
example : processFactory okCfg (okEnv 261) okResp = .rejected .expired := by decide
example : processFactory okCfg (okEnv 29) okResp = .rejected .premature := by decide
example : processFactory okCfg (okEnv 100) { okResp with issueInstant := 100 + 86400 + 60 } = .noIdentity := by decide

/-! The completeness premise reaches into the skew (skew 60, NotOnOrAfter 200, NotBefore 90):
    `now = 259 = NotOnOrAfter + skew − 1` and `now = 31 = NotBefore − skew + 1` fall under it, both premises of
    `C05_inside_accepted` hold there; `260` / `30` are the unspecified boundary seconds (accepted by the
    code, not demanded); `261` / `29` are refused (above). -/
example : strictlyInside okCfg (okEnv 259) okResp = true := by decide
example : (process okCfg (okEnv 259) okResp).isIdentity = true :=
  C05_inside_accepted _ _ _ (by decide) (by decide)
example : strictlyInside okCfg (okEnv 31) okResp = true := by decide
example : (process okCfg (okEnv 31) okResp).isIdentity = true :=
  C05_inside_accepted _ _ _ (by decide) (by decide)
example : strictlyInside okCfg (okEnv 260) okResp = false := by decide
example : strictlyInside okCfg (okEnv 30) okResp = false := by decide
example : (process okCfg (okEnv 30) okResp).isIdentity = true := by decide
/-- IssueInstant: a day plus skew minus one second old is inside, a day plus skew is the boundary. -/
example : strictlyInside okCfg (okEnv 100) { okResp with issueInstant := 100 - 86400 - 59 } = true := by decide
example : (process okCfg (okEnv 100) { okResp with issueInstant := 100 - 86400 - 59 }).isIdentity = true :=
  C05_inside_accepted _ _ _ (by decide) (by decide)
example : strictlyInside okCfg (okEnv 100) { okResp with issueInstant := 100 - 86400 - 60 } = false := by decide
example : strictlyInside okCfg (okEnv 100) { okResp with issueInstant := 100 + 86400 + 59 } = true := by decide
example : process okCfg (okEnv 100) { okResp with issueInstant := 100 + 86400 + 60 } = .noIdentity := by decide

/-! The "not inverted" clause is needed for confirmation data: an inverted bearer window is skipped, not
    refused, so a message strictly inside both skew-extended bounds (`145 < 140 + 60`, `150 < 145 + 60`) is
    refused for want of a usable confirmation although its sanitised copy is accepted.  A degenerate window
    `NotBefore = NotOnOrAfter` is not inverted and falls under the premise. -/
private def scWindow (nb nooa : Int) : SubjConf :=
  { method := .bearer, data := some { nb := some nb, nooa := some nooa, recipient := some "u", irt := some "r1" } }
private def withScWindow (nb nooa : Int) : Response :=
  { okResp with assertions := [{ okAssertion with subject := some { nameId := some "n", confs := [scWindow nb nooa] } }] }
example : process okCfg (okEnv 145) (withScWindow 150 140) = .rejected .noValidSc := by decide
example : (process okCfg (okEnv 145) (sanitiseTimes (okEnv 145) (withScWindow 150 140))).isIdentity = true := by decide
example : strictlyInside okCfg (okEnv 145) (withScWindow 150 140) = false := by decide
example : strictlyInside okCfg (okEnv 145) (withScWindow 150 150) = true := by decide
example : (process okCfg (okEnv 145) (withScWindow 150 150)).isIdentity = true :=
  C05_inside_accepted _ _ _ (by decide) (by decide)

/-! ### The attribute-query answer path (reduction `processAttr`, Model/SpAttr.lean) -/

/-- The windows the attribute path must respect: Conditions and usable bearer confirmation data
    (AuthnStatements are not looked at in this context). -/
def attrTimesOk (cfg : Cfg) (env : Env) (a : Assertion) : Bool :=
  timesOk cfg env { a with authn := [] }

theorem plainOf_attrView (r : Response) : plainOf (attrView r) = (plainOf r).map attrAssertion := by
  unfold plainOf attrView
  simp only [List.filter_map]
  congr 1

theorem encOf_attrView (r : Response) : encOf (attrView r) = (encOf r).map attrAssertion := by
  unfold encOf attrView
  simp only [List.filter_map]
  congr 1

theorem decOf_attrView (r : Response) : decOf (attrView r) = (decOf r).map attrAssertion := by
  unfold decOf
  rw [encOf_attrView, List.takeWhile_map]
  congr 1

theorem visible_attrView (r : Response) : visible (attrView r) = (visible r).map attrAssertion := by
  unfold visible
  rw [decOf_attrView, plainOf_attrView, List.map_append]

theorem timesOk_attrAssertion (cfg : Cfg) (env : Env) (a : Assertion) :
    timesOk cfg (attrEnv env) (attrAssertion a) = attrTimesOk cfg env a := by
  unfold attrTimesOk timesOk attrAssertion attrEnv neutralStmt
  simp

theorem processAttr_identity {cfg : Cfg} {env : Env} {r : Response} {o : Reported}
    (h : processAttr cfg env r = .identity o) :
    ∃ o', process (attrCfg cfg) (attrEnv env) (attrView r) = .identity o' := by
  unfold processAttr at h
  cases hp : process (attrCfg cfg) (attrEnv env) (attrView r) with
  | identity o' => exact ⟨o', rfl⟩
  | noIdentity => rw [hp] at h; cases h
  | rejected e => rw [hp] at h; cases h

/-- C05 on the attribute path: an attribute-query answer yields identity only inside the Conditions and
    confirmation windows (plus skew) of every assertion the SP can see, and only with a fresh IssueInstant. -/
theorem C05_windows_attr {cfg : Cfg} {env : Env} {r : Response} {o : Reported}
    (h : processAttr cfg env r = .identity o) :
    (∀ a ∈ visible r, attrTimesOk cfg env a = true) ∧ issueInstantWithin cfg env r = true := by
  obtain ⟨o', hp⟩ := processAttr_identity h
  refine ⟨?_, ?_⟩
  · intro a ha
    have hw : timesOk cfg (attrEnv env) (attrAssertion a) = true :=
      C05_windows hp (attrAssertion a) (by rw [visible_attrView]; exact List.mem_map_of_mem ha)
    rw [timesOk_attrAssertion] at hw
    exact hw
  · have hi := C05_stale_instant hp
    exact hi

/-! Non-vacuity for the attribute path: an attribute assertion (no AuthnStatement) is accepted inside its windows,
    within the skew, and refused one second later. -/
private def attrAssertionEx : Assertion :=
  { conditions := some { nb := some 90, nooa := some 200, audiences := [["me"]] },
    subject := some { nameId := some "n", confs := [{ method := .bearer, data := some { nooa := some 200, recipient := some "u" } }] } }
private def attrResp : Response := { sig := .valid, issueInstant := 100, assertions := [attrAssertionEx] }
example : processAttr okCfg (okEnv 100) attrResp = .identity
  { nameId := some "n", issuer := "", cameFrom := none, notOnOrAfter := 200, sessionIndex := none, cached := false } := by decide
example : (processAttr okCfg (okEnv 260) attrResp).isIdentity = true := by decide
example : processAttr okCfg (okEnv 261) attrResp = .rejected .expired := by decide

/-! ## Lexical form of the timestamps (Model/SpLex.lean)

The instants of a `Response` are the true instants its `xs:dateTime` values denote.  Whatever lexical form the
sender used, identity is produced only inside the windows of those instants: the forms the library reads (`Z`,
fractions, no designator) denote what it reads, and a numeric zone designator is refused outright. -/

theorem lexGate_identity {f : TimeForm} {x : Outcome} {o : Reported} (h : lexGate f x = .identity o) :
    f.read = true ∧ x = .identity o := by
  unfold lexGate at h
  cases hf : f.read
  · rw [hf] at h; cases h
  · rw [hf] at h; exact ⟨rfl, by simpa using h⟩

/-- C05 for every lexical form, all three entry points: identity ⇒ the windows of the true instants hold. -/
theorem C05_windows_lex {f : TimeForm} {cfg : Cfg} {env : Env} {r : Response} {o : Reported}
    (h : processLex f cfg env r = .identity o) : ∀ a ∈ visible r, timesOk cfg env a = true :=
  C05_windows (lexGate_identity h).2

theorem C05_windows_factory_lex {f : TimeForm} {cfg : Cfg} {env : Env} {r : Response} {o : Reported}
    (h : processFactoryLex f cfg env r = .identity o) : ∀ a ∈ visible r, timesOk cfg env a = true :=
  C05_windows_factory (lexGate_identity h).2

theorem C05_windows_attr_lex {f : TimeForm} {cfg : Cfg} {env : Env} {r : Response} {o : Reported}
    (h : processAttrLex f cfg env r = .identity o) :
    (∀ a ∈ visible r, attrTimesOk cfg env a = true) ∧ issueInstantWithin cfg env r = true :=
  C05_windows_attr (lexGate_identity h).2

/-- A timestamp with a numeric zone designator never yields identity, at any clock, under any configuration. -/
theorem C05_offset_refused (cfg : Cfg) (env : Env) (r : Response) :
    processLex .offset cfg env r = .rejected .timeForm ∧ processFactoryLex .offset cfg env r = .rejected .timeForm ∧
    processAttrLex .offset cfg env r = .rejected .timeForm := ⟨rfl, rfl, rfl⟩

/-- The forms that are read change nothing. -/
theorem C05_read_forms_transparent (f : TimeForm) (hf : f.read = true) (cfg : Cfg) (env : Env) (r : Response) :
    processLex f cfg env r = process cfg env r ∧ processFactoryLex f cfg env r = processFactory cfg env r ∧
    processAttrLex f cfg env r = processAttr cfg env r := by
  simp [processLex, processFactoryLex, processAttrLex, lexGate, hf]

example : (processLex .noZone okCfg (okEnv 260) okResp).isIdentity = true ∧
    processLex .offset okCfg (okEnv 260) okResp = .rejected .timeForm := by decide

end C05
