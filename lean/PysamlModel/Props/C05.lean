import PysamlModel.Model.Sp
import PysamlModel.Spec.Sp
namespace C05
end C05
