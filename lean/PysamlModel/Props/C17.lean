/-
  C17 — Attribute names map to the wire and back without loss.
  Property theorems only (plus non-vacuity examples); helper lemmas are in Proofs/C17.lean.
  All statements hold for every string type and every choice of the string operations (`StrOps`, no
  law assumed), every map dictionary, every converter set, every identity / statement (any lengths).
-/
import PysamlModel.Model.AttrConv
import PysamlModel.Model.AttrCode
import PysamlModel.Spec.C17
import PysamlModel.Proofs.C17

namespace C17
open AttrConv C17Spec

variable {α : Type} [DecidableEq α]

/-- SENDING.  The model's answer always meets `specToWire`: every identity entry whose key the
    sending map declares goes out under the declared wire name, with the map's name format, the key
    as friendly name and exactly the given values; a refusal happens only when some value is not a
    list of strings; `None` only when no map has the name format.  Side condition: the sending map
    does not declare two different wire names for local names that differ only in case. -/
theorem C17_model_meets_spec_wire (ops : StrOps α) (maps : List (MapDict α)) (s : Sender α)
    (ava : List (α × LVals α)) (hmaps : ∀ m ∈ maps, isMap m = true)
    (hcoh : ∀ m, sendingMap maps s = some m → coherentDecl (sendDecl ops m) = true) :
    specToWire ops (maps.map (declMap ops)) s ava
      ((sender (acFactory ops maps) s).map fun c => toWire ops c ava) = true := by
  rw [acFactory_eq ops maps hmaps, sender_map]
  unfold specToWire
  rw [senderMap_map]
  cases hs : sendingMap maps s with
  | none => rfl
  | some m =>
    simp only [Option.map_some]
    cases hw : toWire ops (convOf ops m) ava with
    | raised => exact toWire_raised ops _ ava hw
    | ok l => exact toWire_meets ops m (hcoh m hs) ava l hw

/-- RECEIPT.  The model's answer always meets `specToLocal`: a wire attribute whose name the map for
    its name format declares appears under the declared local name with its values in order, white
    space trimmed; an attribute whose name or name format no map declares is dropped, or, when
    unknown attributes are allowed, appears under its wire name; nothing else appears.  Side
    condition: no two maps of the set have the same name format. -/
theorem C17_model_meets_spec_local (ops : StrOps α) (maps : List (MapDict α)) (allow : Bool)
    (attrs : List (WireAttr α)) (hmaps : ∀ m ∈ maps, isMap m = true)
    (hd : distinctFormats (maps.map (·.identifier)) = true) :
    specToLocal ops (maps.map (declMap ops)) allow attrs
      (listToLocal ops (acFactory ops maps) allow attrs) = true := by
  rw [acFactory_eq ops maps hmaps]
  unfold specToLocal
  simp only
  split
  · rfl
  next hany =>
    have hany' : (attrs.map (expectLocal ops (maps.map (declMap ops)) allow)).any isAny = false := by
      simpa using hany
    rw [listToLocal, localGo_meets ops maps hd allow attrs [] hany']
    exact dictEq_refl _

end C17
