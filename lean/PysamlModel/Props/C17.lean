/-
  C17 — Attribute names map to the wire and back without loss.
  Property theorems only (plus non-vacuity examples); helper lemmas are in Proofs/C17.lean and
  Proofs/C17Tables.lean, the per-map table lemmas in the regenerated Gen/AttrMapsWf*.lean.

  The general theorems hold for every string type and every choice of the string operations
  (`StrOps`, no law assumed), every map dictionary, every converter set, every identity / wire
  statement (any lengths, any values).  The table theorems are about the regenerated bundled maps and
  the string operations on codes (`AttrCode.natOps`), the instance the driver runs.

  Three places where the pinned code does not do what the property says are recorded, each with the
  full statement (`…_full`), the theorem under an explicit decidable side condition, and a
  counter-example (`…_counterexample : ¬ …_full`):
    * `C17/bundled-maps-share-name-format` — `list_to_local` keeps ONE converter per name format
      (side condition `distinctFormats`; the bundled adfs_v1x / adfs_v20 both use `…:unspecified`);
    * `C17/case-colliding-map-keys` — `from_dict` lower-cases the keys of "to": local names that
      differ only in case overwrite each other (side condition `sendSide`; the bundled saml_uri map
      has DateOfBirth/dateOfBirth, BirthName/birthName, PlaceOfBirth/placeOfBirth, Gender/gender);
    * `C17/eptid-empty-value` — an empty string sent through the eduPersonTargetedID special case
      comes back as a dictionary, not as "" (side condition inside `rtSide`).
-/
import PysamlModel.Model.AttrConv
import PysamlModel.Model.AttrCode
import PysamlModel.Spec.C17
import PysamlModel.Proofs.C17
import PysamlModel.Proofs.C17Tables
import PysamlModel.Gen.AttrMapsWf

set_option linter.unusedSimpArgs false

namespace C17
open AttrConv C17Spec AttrCode

variable {α : Type} [DecidableEq α]

/-! ## Sending -/

/-- The model's answer always meets `specToWire`: every identity entry whose key the sending map
    declares goes out under the declared wire name, with the map's name format, the key as friendly
    name and exactly the given values; a refusal happens only when some value is not a list of
    strings; `None` only when no map has the name format.  Side condition `sendSide`: for the keys of
    the identity, the sending map does not declare two different wire names under local names that
    differ only in case. -/
theorem C17_model_meets_spec_wire (ops : StrOps α) (maps : List (MapDict α)) (s : Sender α)
    (ava : List (α × LVals α)) (hmaps : maps.all isMap = true) (hside : sendSide ops maps s ava = true) :
    specToWire ops (maps.map (declMap ops)) s ava
      ((sender (acFactory ops maps) s).map fun c => toWire ops c ava) = true := by
  rw [acFactory_eq ops maps (List.all_eq_true.mp hmaps), sender_map]
  unfold specToWire
  rw [senderMap_map]
  unfold sendSide at hside
  cases hs : sendingMap maps s with
  | none => rfl
  | some m =>
    rw [hs] at hside
    simp only [Option.map_some]
    cases hw : toWire ops (convOf ops m) ava with
    | raised => exact toWire_raised ops _ ava hw
    | ok l => exact toWire_meets ops m ava (List.all_eq_true.mp hside) l hw

/-- The statement without the side condition. -/
def C17_to_wire_full : Prop :=
  ∀ (maps : List (MapDict Nat)) (s : Sender Nat) (ava : List (Nat × LVals Nat)), maps.all isMap = true →
    specToWire natOps (maps.map (declMap natOps)) s ava
      ((sender (acFactory natOps maps) s).map fun c => toWire natOps c ava) = true

/-- "to": {"A": "x", "a": "y"} — the identity key "A" goes out as "y". -/
def caseCollisionMap : MapDict Nat :=
  { identifier := 0x166, to := some [(0x141, 0x178), (0x161, 0x179)] }

theorem C17_to_wire_counterexample : ¬ C17_to_wire_full := by
  intro h
  have := h [caseCollisionMap] (.index 0) [(0x141, .list [.str 0x176])] (by decide +kernel)
  revert this
  decide +kernel

/-- One entry, written out: a key the map declares (literally or up to case, coherently), a list of
    strings.  The wire attribute has the declared name, the map's format, the key as friendly name
    and one value per string, each carrying exactly that string (as text; inside a persistent NameID
    element for the eduPersonTargetedID wire name). -/
theorem C17_to_wire (ops : StrOps α) (m : MapDict α) (c : Conv α) (key v : α) (vs : List α)
    (hm : isMap m = true) (hc : fromDict ops m = some c)
    (hres : resolve (sendDecl ops m) key (ops.lower key) = .must v)
    (hcoh : coherentAt (sendDecl ops m) (ops.lower key) = true) (ht : ops.truthy v = true) :
    toWire1 ops c (key, .list (vs.map .str)) =
      .ok ⟨some v, some m.identifier, some key,
        some (if v = ops.eptidOid then vs.map (fun s => eptidValue ops (.str s))
              else vs.map fun s => { text := some s })⟩ := by
  rw [fromDict_eq ops m hm] at hc
  cases hc
  have hget : Dict.get (convOf ops m).to (ops.lower key) = some v :=
    get_of_must (sendDecl ops m) key _ v hres (sendDecl_raw ops m key) hcoh
  have hplain : doAvaList ops (vs.map LVal.str) = .ok (vs.map fun s => { text := some s }) := by
    induction vs with
    | nil => rfl
    | cons s t ih => simp [doAvaList, doAva1, ih]
  unfold toWire1
  simp only [hget, Option.filter, ht, if_true]
  by_cases hv : v = ops.eptidOid
  · simp [hv, eptidValues, convOf, List.map_map, Function.comp_def]
  · simp [hv, doAva, hplain, convOf]

/-! ## Receipt -/

/-- The model's answer always meets `specToLocal`: a wire attribute whose name the map for its name
    format declares appears under the declared local name with its values in order, white space
    trimmed; an attribute whose name or name format no map declares is dropped, or, when unknown
    attributes are allowed, appears under its wire name; nothing else appears.  Side condition: no
    two maps of the set have the same name format. -/
theorem C17_model_meets_spec_local (ops : StrOps α) (maps : List (MapDict α)) (allow : Bool)
    (attrs : List (WireAttr α)) (hmaps : maps.all isMap = true)
    (hd : distinctFormats (maps.map (·.identifier)) = true) :
    specToLocal ops (maps.map (declMap ops)) allow attrs
      (listToLocal ops (acFactory ops maps) allow attrs) = true := by
  rw [acFactory_eq ops maps (List.all_eq_true.mp hmaps)]
  unfold specToLocal
  simp only
  split
  · rfl
  next hany =>
    have hany' : (attrs.map (expectLocal ops (maps.map (declMap ops)) allow)).any isAny = false := by
      simpa using hany
    rw [listToLocal, localGo_meets ops maps hd allow attrs [] hany']
    exact dictEq_refl _

/-- SEVERAL ATTRIBUTE STATEMENTS (`AuthnResponse.get_identity`).  The model's answer meets
    `specIdentity`: every statement is converted as above and the identity is the union of the
    statements' dictionaries; when two statements demand the same local name the specification is silent
    (the model, like the code, lets the later statement replace the earlier one). -/
theorem C17_model_meets_spec_identity (ops : StrOps α) (maps : List (MapDict α)) (allow : Bool)
    (stmts : List (List (WireAttr α))) (hmaps : maps.all isMap = true)
    (hd : distinctFormats (maps.map (·.identifier)) = true) :
    specIdentity ops (maps.map (declMap ops)) allow stmts
      (getIdentity ops (acFactory ops maps) allow stmts []) = true := by
  rw [acFactory_eq ops maps (List.all_eq_true.mp hmaps)]
  unfold specIdentity
  simp only
  split
  · rfl
  next hany =>
    split
    · rfl
    · have hany' : (stmts.map fun st => st.map (expectLocal ops (maps.map (declMap ops)) allow)).any
          (fun es => es.any isAny) = false := by simpa using hany
      rw [getIdentity_meets ops maps hd allow stmts [] hany']
      exact dictEq_refl _

/-- One attribute whose name the map for its name format knows: it is stored under that map's local
    name with exactly its values, in order, white space trimmed. -/
theorem C17_to_local (ops : StrOps α) (maps : List (MapDict α)) (allow : Bool) (a : WireAttr α)
    (hmaps : maps.all isMap = true) (hd : distinctFormats (maps.map (·.identifier)) = true)
    (l : α) (vs : List (RVal α))
    (h : expectLocal ops (maps.map (declMap ops)) allow a = .must l vs) :
    localStep ops (acFactory ops maps) allow a = .put l vs := by
  rw [acFactory_eq ops maps (List.all_eq_true.mp hmaps)]
  exact (localStep_meets ops maps hd allow a).1 l vs h

/-- …and `expectLocal` says `must l (trimmed values)` exactly in the situation the property names:
    the attribute's name format is the identifier of map `m` of the set and `m`'s declared pairs
    resolve the (trimmed, lower-cased) name to `l`. -/
theorem C17_to_local_known (ops : StrOps α) (maps : List (MapDict α)) (allow : Bool) (m : MapDict α)
    (hd : distinctFormats (maps.map (·.identifier)) = true) (hm : m ∈ maps)
    (n l : α) (fn : Option α) (vs : List (WireValue α)) (hplain : vs.any (fun v => !v.ext.isEmpty) = false)
    (hres : resolve (recvDecl ops m) n (ops.lower (ops.strip n)) = .must l) :
    expectLocal ops (maps.map (declMap ops)) allow ⟨some n, some m.identifier, fn, some vs⟩ =
      .must l (vs.map fun v => .str (trimmed ops v.text)) := by
  have hne : (maps.map (declMap ops)).isEmpty = false := by
    cases maps with
    | nil => cases hm
    | cons _ _ => rfl
  unfold expectLocal
  simp only [hplain, Bool.false_eq_true, if_false, hne]
  rw [declMaps_filter ops maps hd m.identifier, find_of_distinct maps hd m hm]
  simp only [Option.map_some, Option.toList_some, List.isEmpty_cons, Bool.false_eq_true, if_false,
    List.flatMap_cons, List.flatMap_nil, List.append_nil, declMap, hres, knownValues]

/-- An attribute whose name or name format no map of the set declares is dropped … -/
theorem C17_unknown_dropped (ops : StrOps α) (maps : List (MapDict α)) (a : WireAttr α)
    (hmaps : maps.all isMap = true) (hd : distinctFormats (maps.map (·.identifier)) = true)
    (h : expectLocal ops (maps.map (declMap ops)) false a = .drop) :
    localStep ops (acFactory ops maps) false a = .skip := by
  rw [acFactory_eq ops maps (List.all_eq_true.mp hmaps)]
  exact (localStep_meets ops maps hd false a).2 h

/-- … and `expectLocal` says `drop` (unknown attributes not allowed) resp. `must <wire name>`
    (allowed) exactly when the name format is that of no map (and is not `unspecified`), or the map
    with that name format has no declared pair for the name. -/
theorem C17_unknown (ops : StrOps α) (maps : List (MapDict α)) (allow : Bool)
    (hd : distinctFormats (maps.map (·.identifier)) = true) (hne : maps ≠ [])
    (n f : α) (fn : Option α) (vs : List (WireValue α)) (hplain : vs.any (fun v => !v.ext.isEmpty) = false)
    (hstrip : ops.strip n = n)
    (hunk : (maps.find? (fun m => m.identifier = f) = none ∧ f ≠ ops.unspecified) ∨
      ∃ m, maps.find? (fun m => m.identifier = f) = some m ∧
        resolve (recvDecl ops m) n (ops.lower (ops.strip n)) = .undefined) :
    expectLocal ops (maps.map (declMap ops)) allow ⟨some n, some f, fn, some vs⟩ =
      (if allow then .must n (vs.map fun v => .str (ops.strip (v.text.getD ops.empty))) else .drop) := by
  have hne' : (maps.map (declMap ops)).isEmpty = false := by
    cases maps with
    | nil => exact absurd rfl hne
    | cons _ _ => rfl
  unfold expectLocal
  simp only [hplain, Bool.false_eq_true, if_false, hne', hstrip, if_true, plainValues]
  rw [declMaps_filter ops maps hd f]
  rcases hunk with ⟨h1, h2⟩ | ⟨m, h1, h2⟩
  · simp [h1, h2]
  · simp only [h1, Option.map_some, Option.toList_some, List.isEmpty_cons, Bool.false_eq_true, if_false,
      List.flatMap_cons, List.flatMap_nil, List.append_nil, declMap]
    rw [hstrip] at h2
    simp [h2]

/-! ## Send, then receive with the same set of maps -/

/-- The model's answer always meets `specRoundTrip`: every identity entry whose key the sending map
    declares comes back under the local name the map declares for the wire name used, with all its
    values, in order, white space trimmed (values of aliases that collapse to the same local name
    are all there); nothing is refused unless some value is not a list of strings.
    Side conditions: no two maps of the set share a name format; `rtSide` (see Spec/C17.lean). -/
theorem C17_set_roundtrip (ops : StrOps α) (maps : List (MapDict α)) (s : Sender α) (allow : Bool)
    (ava : List (α × LVals α)) (hmaps : maps.all isMap = true)
    (hd : distinctFormats (maps.map (·.identifier)) = true)
    (hside : rtSide ops maps s ava = true) :
    specRoundTrip ops (maps.map (declMap ops)) s allow ava
      (roundTrip ops (acFactory ops maps) s allow ava) = true := by
  rw [acFactory_eq ops maps (List.all_eq_true.mp hmaps)]
  unfold specRoundTrip roundTrip
  rw [sender_map, senderMap_map]
  unfold rtSide at hside
  cases hs : sendingMap maps s with
  | none => rfl
  | some m =>
    rw [hs] at hside
    simp only [Bool.not_true, Bool.false_or, Bool.and_eq_true] at hside
    obtain ⟨⟨hcoh', hwf⟩, hept⟩ := hside
    have hcoh := List.all_eq_true.mp hcoh'
    have hmem := sendingMap_mem hs
    have hne : (maps.map (convOf ops)).isEmpty = false := by
      cases maps with
      | nil => cases hmem
      | cons _ _ => rfl
    simp only [Option.map_some]
    cases hw : toWire ops (convOf ops m) ava with
    | raised => exact toWire_raised ops _ ava hw
    | ok w =>
      cases hl : listToLocal ops (maps.map (convOf ops)) allow w with
      | raised =>
        simp only [hl]
        cases hns : ava.any nonStringEntry with
        | true => rfl
        | false =>
          exfalso
          obtain ⟨a, ha, hr⟩ := localGo_raised ops _ allow w [] hl
          obtain ⟨e, he, hwe⟩ := toWire_mem ops _ ava w hw a ha
          have hes : nonStringEntry e = false := by
            simp only [List.any_eq_false] at hns
            simpa using hns e he
          obtain ⟨n, f, vals, hn, _, hv, hsafe⟩ := toWire1_shape ops _ e a hwe hes
          exact localStep_not_raised ops _ allow a hne n vals hn hv hsafe hr
      | ok d =>
        simp only [hl, Bool.and_eq_true, Bool.not_eq_true', List.all_eq_true]
        constructor
        · simp only [List.any_eq_false, List.mem_map]
          rintro x ⟨e, _, rfl⟩
          simp [rt_not_lost ops maps hd m hmem hwf e]
        · intro l hlk
          have hent : ∀ e ∈ ava, ∀ l vs a, expectRT ops (maps.map (declMap ops)) (declMap ops m) e = .must l vs →
              toWire1 ops (convOf ops m) e = .ok a →
              localStep ops (maps.map (convOf ops)) allow a = .put l vs := by
            intro e he l vs a hexp ha
            exact rt_entry ops maps hd m hmem allow e (by simpa using hcoh e he) l vs hexp
              ((List.all_eq_true.mp hept) e he) a ha
          obtain ⟨hsub, htouch⟩ := demanded_sublist ops (maps.map (convOf ops)) allow (convOf ops m)
            (expectRT ops (maps.map (declMap ops)) (declMap ops m)) ava w hw hent l
          rw [localGo_get ops _ allow w [] d hl l, htouch hlk]
          simp only [Bool.true_or, if_true, Dict.get, Option.getD_none, List.nil_append]
          exact List.isSublist_iff_sublist.mpr hsub

/-- The same when the attributes are serialised and parsed in between (a missing NameFormat would
    read as `unspecified`; every attribute the converters produce carries one). -/
theorem C17_set_roundtrip_xml (ops : StrOps α) (maps : List (MapDict α)) (s : Sender α) (allow : Bool)
    (ava : List (α × LVals α)) (hmaps : maps.all isMap = true)
    (hd : distinctFormats (maps.map (·.identifier)) = true)
    (hside : rtSide ops maps s ava = true) :
    specRoundTrip ops (maps.map (declMap ops)) s allow ava
      (roundTripXml ops (acFactory ops maps) s allow ava) = true := by
  rw [roundTripXml_eq]
  exact C17_set_roundtrip ops maps s allow ava hmaps hd hside

/-- One declared key, a list of strings, one map: the round trip gives back exactly the canonical
    local name with exactly the trimmed strings. -/
theorem C17_roundtrip (ops : StrOps α) (m : MapDict α) (allow : Bool) (key v l : α) (vs : List α)
    (hm : isMap m = true)
    (hsend : resolve (sendDecl ops m) key (ops.lower key) = .must v)
    (hcoh : coherentAt (sendDecl ops m) (ops.lower key) = true) (ht : ops.truthy v = true)
    (hrecv : resolve (recvDecl ops m) v (ops.lower (ops.strip v)) = .must l)
    (hept : v = ops.eptidOid → l = ops.eptidLocal ∧ ∀ s ∈ vs, ops.truthy s = true) :
    roundTrip ops (acFactory ops [m]) (.index 0) allow [(key, .list (vs.map .str))] =
      some (.ok [(l, vs.map fun s => .str (trimmed ops (some s)))]) := by
  have hmaps : ∀ m' ∈ [m], isMap m' = true := by simpa using hm
  have hd : distinctFormats ([m].map (·.identifier)) = true := by simp [distinctFormats]
  rw [acFactory_eq ops [m] hmaps]
  obtain ⟨c, hc⟩ : ∃ c, fromDict ops m = some c := ⟨_, fromDict_eq ops m hm⟩
  have hc' : c = convOf ops m := by rw [fromDict_eq ops m hm] at hc; cases hc; rfl
  have hw1 := C17_to_wire ops m c key v vs hm hc hsend hcoh ht
  rw [hc'] at hw1
  have hexp : expectRT ops ([m].map (declMap ops)) (declMap ops m) (key, .list (vs.map .str)) =
      .must l (vs.map fun s => .str (trimmed ops (some s))) := by
    have hren : (vs.map LVal.str).any (fun x => (renderText ops x).isNone) = false := by
      simp [renderText]
    have hallstr : (vs.map (LVal.str : α → LVal α)).all isStr = true := by simp [isStr]
    unfold expectRT
    simp only [hren, Bool.false_eq_true, if_false, declMap, hsend, ht, Bool.not_true, List.map_cons, List.map_nil,
      List.filter_cons, decide_true, if_true, List.filter_nil, List.flatMap_cons, List.flatMap_nil,
      List.append_nil, hrecv, List.map_map, Function.comp_def, renderText]
    by_cases hv : v = ops.eptidOid
    · obtain ⟨hl, _⟩ := hept hv
      simp [hv, hl, hallstr]
    · simp [hv]
  have hok : eptidValuesOk ops (declMap ops m) (key, .list (vs.map .str)) = true := by
    unfold eptidValuesOk
    simp only [declMap, hsend]
    by_cases hv : v = ops.eptidOid
    · obtain ⟨_, hall⟩ := hept hv
      simp only [hv, decide_true, Bool.not_true, Bool.false_or, List.all_map, List.all_eq_true]
      intro s hs
      exact hall s hs
    · simp [hv]
  have hstep := rt_entry ops [m] hd m (by simp) allow (key, .list (vs.map .str)) hcoh l _ hexp hok _ hw1
  simp only [List.map_cons, List.map_nil] at hstep
  simp only [roundTrip, sender, List.map_cons, List.map_nil, List.getElem?_cons_zero, toWire, hw1,
    listToLocal, localGo, hstep, Dict.extend, Dict.get, Dict.set]

/-- The statement without `distinctFormats`. -/
def C17_set_roundtrip_full : Prop :=
  ∀ (maps : List (MapDict Nat)) (s : Sender Nat) (allow : Bool) (ava : List (Nat × LVals Nat)),
    maps.all isMap = true → rtSide natOps maps s ava = true →
    specRoundTrip natOps (maps.map (declMap natOps)) s allow ava
      (roundTrip natOps (acFactory natOps maps) s allow ava) = true

/-- The first two bundled maps (adfs_v1x, adfs_v20), identity {"emailAddress": ["a"]} sent through
    the first: the attribute does not come back. -/
theorem C17_set_roundtrip_counterexample : ¬ C17_set_roundtrip_full := by
  intro h
  have := h (Gen.AttrMaps.attrMaps.take 2) (.index 0) false
    [(0x1656d61696c41646472657373, .list [.str 0x161])] (by decide +kernel) (by decide +kernel)
  revert this
  decide +kernel

/-- The statement without the eduPersonTargetedID side condition. -/
def C17_roundtrip_eptid_full : Prop :=
  ∀ (maps : List (MapDict Nat)) (s : Sender Nat) (allow : Bool) (ava : List (Nat × LVals Nat)),
    maps.all isMap = true → distinctFormats (maps.map (·.identifier)) = true →
    rtSide natOps maps s ava false = true →
    specRoundTrip natOps (maps.map (declMap natOps)) s allow ava
      (roundTrip natOps (acFactory natOps maps) s allow ava) = true

/-- a map with only the eduPersonTargetedID entry, in both directions -/
def eptidMap : MapDict Nat :=
  { identifier := 0x166
    to := some [(Gen.AttrMaps.eptidLocal, Gen.AttrMaps.eptidOid)]
    fro := some [(Gen.AttrMaps.eptidOid, Gen.AttrMaps.eptidLocal)] }

/-- {"eduPersonTargetedID": [""]} comes back as [{"NameID": {"format": persistent}}]. -/
theorem C17_roundtrip_eptid_counterexample : ¬ C17_roundtrip_eptid_full := by
  intro h
  have := h [eptidMap] (.index 0) false [(Gen.AttrMaps.eptidLocal, .list [.str 1])]
    (by decide +kernel) (by decide +kernel) (by decide +kernel)
  revert this
  decide +kernel

/-! ## The bundled maps (regenerated tables) -/

/-- Every bundled map is an attribute map, knows on receipt every wire name it sends, has no two
    receiving pairs that contradict each other, and — except under the four recorded look-up keys —
    no two sending pairs that contradict each other.  (`decide +kernel`, one lemma per map and check
    in Gen/AttrMapsWf/*.lean.) -/
theorem C17_bundled_wf : ∀ m ∈ Gen.AttrMaps.attrMaps,
    isMap m = true ∧ roundTripWf natOps m = true ∧ coherentDecl (recvDecl natOps m) = true ∧
    ∀ q, q ∉ knownCaseCollisions → coherentAt (sendDecl natOps m) q = true := by
  intro m hm
  obtain ⟨h1, h2, h3⟩ := Gen.AttrMaps.all_checked m hm
  obtain ⟨a, b, c, d⟩ := tableCheck_sound m _ h1 h2 h3
  exact ⟨a, d, c, fun q hq => coherentAt_of_except _ _ b q hq⟩

/-- The statement without the exception list. -/
def C17_bundled_wf_full : Prop := ∀ m ∈ Gen.AttrMaps.attrMaps, mapWf natOps m = true

/-- Some bundled map (saml_uri) declares two wire names under "dateofbirth". -/
theorem C17_bundled_wf_counterexample : ¬ C17_bundled_wf_full := by
  intro h
  have hany : Gen.AttrMaps.attrMaps.any
      (fun m => !coherentAt (sendDecl natOps m) 0x1646174656f666269727468) = true := by decide +kernel
  obtain ⟨m, hm, hq⟩ := List.any_eq_true.mp hany
  have hwf := h m hm
  simp only [mapWf, coherent, Bool.and_eq_true] at hwf
  rw [coherentAt_of_decl _ hwf.1.1] at hq
  cases hq

/-- The bundled set has two maps with the same name format. -/
theorem C17_bundled_not_distinct :
    distinctFormats (Gen.AttrMaps.attrMaps.map (·.identifier)) = false := by decide +kernel

/-- Hence: for every sub-set of the bundled maps with pairwise different name formats, every sender,
    every identity that avoids the four colliding keys and empty eduPersonTargetedID values, the
    round trip loses nothing. -/
theorem C17_bundled_roundtrip (maps : List (MapDict Nat)) (s : Sender Nat) (allow : Bool)
    (ava : List (Nat × LVals Nat)) (hsub : ∀ m ∈ maps, m ∈ Gen.AttrMaps.attrMaps)
    (hd : distinctFormats (maps.map (·.identifier)) = true)
    (hkeys : ∀ e ∈ ava, natOps.lower e.1 ∉ knownCaseCollisions)
    (hept : ∀ m, sendingMap maps s = some m → ava.all (eptidValuesOk natOps (declMap natOps m)) = true) :
    specRoundTrip natOps (maps.map (declMap natOps)) s allow ava
      (roundTrip natOps (acFactory natOps maps) s allow ava) = true := by
  apply C17_set_roundtrip natOps maps s allow ava
  · exact List.all_eq_true.mpr fun m hm => (C17_bundled_wf m (hsub m hm)).1
  · exact hd
  · unfold rtSide
    cases hs : sendingMap maps s with
    | none => rfl
    | some m =>
      obtain ⟨_, hwf, _, hcoh⟩ := C17_bundled_wf m (hsub m (sendingMap_mem hs))
      simp only [Bool.not_true, Bool.false_or, Bool.and_eq_true]
      refine ⟨⟨?_, hwf⟩, hept m hs⟩
      exact List.all_eq_true.mpr fun e he => hcoh _ (hkeys e he)

/-! ## Non-vacuity: concrete inputs meeting the hypotheses, with non-trivial outcomes -/

/-- "to": {"Mail": " URN:X "}, "fro": {"urn:x": "mail"} — mixed case, padded wire name -/
def demoMap : MapDict Nat :=
  { identifier := 0x166
    to := some [(0x14d61696c, 0x12055524e3a5820)]
    fro := some [(0x175726e3a78, 0x16d61696c)] }

-- sending {"MAIL": [" a "]}: the declared wire name, format "f", friendly name "MAIL", text " a "
example : sendSide natOps [demoMap] (.index 0) [(0x14d41494c, .list [.str 0x1206120])] = true ∧
    (sender (acFactory natOps [demoMap]) (.index 0)).map (fun c => toWire natOps c [(0x14d41494c, .list [.str 0x1206120])]) =
      some (.ok [⟨some 0x12055524e3a5820, some 0x166, some 0x14d41494c, some [{ text := some 0x1206120 }]⟩]) := by
  decide +kernel

-- receiving name "Urn:X" with format "f": local name "mail", value trimmed; format "g": dropped
example : distinctFormats ([demoMap].map (·.identifier)) = true ∧
    listToLocal natOps (acFactory natOps [demoMap]) false
      [⟨some 0x155726e3a58, some 0x166, none, some [{ text := some 0x1206120 }, { text := none }]⟩,
       ⟨some 0x155726e3a58, some 0x167, none, some [{ text := some 0x161 }]⟩] =
      .ok [(0x16d61696c, [.str 0x161, .str 1])] := by
  decide +kernel

-- unknown attributes allowed: the second one appears under its wire name
example : listToLocal natOps (acFactory natOps [demoMap]) true
      [⟨some 0x155726e3a58, some 0x167, none, some [{ text := some 0x161 }]⟩] =
      .ok [(0x155726e3a58, [.str 0x161])] := by
  decide +kernel

-- two statements with different local names are united; the same local name twice: the later one wins
example : getIdentity natOps (acFactory natOps [demoMap]) true
      [[⟨some 0x155726e3a58, some 0x166, none, some [{ text := some 0x1206120 }]⟩],
       [⟨some 0x161, some 0x167, none, some [{ text := some 0x161 }]⟩],
       [⟨some 0x155726e3a58, some 0x166, none, some [{ text := some 0x167 }]⟩]] [] =
      .ok [(0x16d61696c, [.str 0x167]), (0x161, [.str 0x161])] := by
  decide +kernel

-- the round trip of {"MAIL": [" a ", ""]} through demoMap gives {"mail": ["a", ""]}
example : rtSide natOps [demoMap] (.index 0) [(0x14d41494c, .list [.str 0x1206120, .str 1])] = true ∧
    roundTrip natOps (acFactory natOps [demoMap]) (.index 0) false [(0x14d41494c, .list [.str 0x1206120, .str 1])] =
      some (.ok [(0x16d61696c, [.str 0x161, .str 1])]) := by
  decide +kernel

-- eduPersonTargetedID with a non-empty value makes the round trip (hypotheses of C17_roundtrip hold)
example : rtSide natOps [eptidMap] (.index 0) [(Gen.AttrMaps.eptidLocal, .list [.str 0x1206120])] = true ∧
    roundTrip natOps (acFactory natOps [eptidMap]) (.index 0) false [(Gen.AttrMaps.eptidLocal, .list [.str 0x1206120])] =
      some (.ok [(Gen.AttrMaps.eptidLocal, [.str 0x161])]) := by
  decide +kernel

-- the bundled sub-set without adfs_v1x has pairwise different formats (C17_bundled_roundtrip applies)
example : distinctFormats ((Gen.AttrMaps.attrMaps.drop 1).map (·.identifier)) = true ∧
    (Gen.AttrMaps.attrMaps.drop 1).length = 4 := by
  decide +kernel

end C17
