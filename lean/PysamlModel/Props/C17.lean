import PysamlModel.Model.AttrConv
import PysamlModel.Model.AttrCode
import PysamlModel.Spec.C17
namespace C17
end C17
