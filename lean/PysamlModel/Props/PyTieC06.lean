import PysamlModel.Model.MiniPy
import PysamlModel.Model.Sp
import PysamlModel.Model.PyEnc
import PysamlModel.Gen.PyFuns
import PysamlModel.Proofs.MiniPy

/-!
# C06: the correlation with the outstanding requests in `Sp.loads` IS `AuthnResponse.loads` (refinement over the regenerated MiniPy term)
-/

namespace PyTie
open MiniPy Gen.PyFuns

theorem outs_in (outs : List (String × String)) (i : String) :
    (encOuts outs).any (fun p => p.1 == i) = (outs.lookup i).isSome := by
  induction outs with
  | nil => rfl
  | cons p ps ih =>
    rcases p with ⟨k, v⟩
    simp only [encOuts, List.map_cons, List.any_cons, List.lookup_cons] at ih ⊢
    by_cases hk : i = k
    · subst hk; simp
    · have h1 : (i == k) = false := by simpa using hk
      have h2 : (k == i) = false := by simpa using (fun e => hk e.symm)
      simp only [h1, h2, Bool.false_or]
      exact ih

theorem outs_get (outs : List (String × String)) (i : String) :
    ((encOuts outs).find? (fun p => p.1 == i)).map (·.2) = (outs.lookup i).map Val.str := by
  induction outs with
  | nil => rfl
  | cons p ps ih =>
    rcases p with ⟨k, v⟩
    simp only [encOuts, List.map_cons, List.find?_cons, List.lookup_cons] at ih ⊢
    by_cases hk : i = k
    · subst hk; simp
    · have h1 : (i == k) = false := by simpa using hk
      have h2 : (k == i) = false := by simpa using (fun e => hk e.symm)
      simp only [h1, h2]
      exact ih


def lS2 : Stmt := (.ifs (.attr (.name "self") "asynchop") [
      (.ifs (.cmp .isIn (.attr (.name "self") "in_response_to") (.attr (.name "self") "outstanding_queries")) [
        (.setattr "self" "came_from" (.subscript (.attr (.name "self") "outstanding_queries") (.attr (.name "self") "in_response_to"))),
        (.try [
          (.ifs (.not (.callm (.name "self") "check_subject_confirmation_in_response_to" [(.attr (.name "self") "in_response_to")])) [
            (.raise "UnsolicitedResponse")] [])] [("AttributeError", [
          .pass])])] [
        (.ifs (.attr (.name "self") "allow_unsolicited") [
          .pass] [
          (.raise "UnsolicitedResponse")])])] [])

theorem loads_shape : AuthnResponse_loads.body = [
    (.expr (.callm (.name "self") "_loads" [(.name "xmldata"), (.name "decode"), (.name "origxml")])),
    lS2, (.ret (some (.name "self")))] := rfl

/-- **`AuthnResponse.loads` refines `Sp.loads`**: for every signature state, binding kind, InResponseTo (absent or any
    value), set of outstanding requests, `allow_unsolicited`, and outcome of the subject-confirmation comparison, the
    CURRENT text of the method raises `UnsolicitedResponse` exactly when the model function answers `unsolicited`,
    lets the signature error of `_loads` through exactly when the model's signature gate refuses, and otherwise
    returns with `self.came_from` set to exactly the stored context of the answered request (untouched when the
    Response answers no outstanding request and unsolicited ones are allowed, or over a back-channel binding). -/
theorem loads_refines (cfg : Sp.Cfg) (env : Sp.Env) (req : Bool) (r : Sp.Response) (attrErr : Bool)
    (hattr : attrErr = true → Sp.scanAssertions r.inResponseTo (Sp.plainOf r) = false) :
    match Sp.loads cfg env req r with
    | .ok cf =>
      (∃ v, (runMethod Sp.pyStrip
        (loadsExt (match sigGate r.sig req with | some _ => .raise "SignatureError" | none => .ok .none)
                  (if attrErr then .raise "AttributeError" else .ok (.bool (!Sp.scanAssertions r.inResponseTo (Sp.plainOf r)))))
        AuthnResponse_loads [.obj (selfLoads env.asynchop r.inResponseTo env.outstanding cfg.allowUnsolicited), .str "<xml>", .bool false, .none]).1
          = .value v) ∧
      cameFromOf (runMethod Sp.pyStrip
        (loadsExt (match sigGate r.sig req with | some _ => .raise "SignatureError" | none => .ok .none)
                  (if attrErr then .raise "AttributeError" else .ok (.bool (!Sp.scanAssertions r.inResponseTo (Sp.plainOf r)))))
        AuthnResponse_loads [.obj (selfLoads env.asynchop r.inResponseTo env.outstanding cfg.allowUnsolicited), .str "<xml>", .bool false, .none]).2
          = some (match cf with | some c => .str c | none => .none)
    | .error .unsolicited =>
      (runMethod Sp.pyStrip
        (loadsExt (match sigGate r.sig req with | some _ => .raise "SignatureError" | none => .ok .none)
                  (if attrErr then .raise "AttributeError" else .ok (.bool (!Sp.scanAssertions r.inResponseTo (Sp.plainOf r)))))
        AuthnResponse_loads [.obj (selfLoads env.asynchop r.inResponseTo env.outstanding cfg.allowUnsolicited), .str "<xml>", .bool false, .none]).1
          = .raised "UnsolicitedResponse"
    | .error _ =>
      (runMethod Sp.pyStrip
        (loadsExt (match sigGate r.sig req with | some _ => .raise "SignatureError" | none => .ok .none)
                  (if attrErr then .raise "AttributeError" else .ok (.bool (!Sp.scanAssertions r.inResponseTo (Sp.plainOf r)))))
        AuthnResponse_loads [.obj (selfLoads env.asynchop r.inResponseTo env.outstanding cfg.allowUnsolicited), .str "<xml>", .bool false, .none]).1
          = .raised "SignatureError" := by
  unfold Sp.loads sigGate
  generalize hmis : Sp.scanAssertions r.inResponseTo (Sp.plainOf r) = mis at hattr ⊢
  generalize env.asynchop = asy
  generalize cfg.allowUnsolicited = uns
  generalize env.outstanding = outs
  generalize r.inResponseTo = irt
  by_cases h1 : (r.sig.present && r.sig != .valid) = true
  · simp only [h1, if_true]; rfl
  · simp only [h1, Bool.false_eq_true, if_false]
    by_cases h2 : (!r.sig.present && req) = true
    · simp only [h2, if_true]; rfl
    · simp only [h2, Bool.false_eq_true, if_false]
      cases asy with
      | false => exact ⟨⟨_, rfl⟩, rfl⟩
      | true =>
        simp only [if_true]
        cases irt with
        | none =>
          simp only [Option.bind_none]
          cases uns
          · rfl
          · exact ⟨⟨_, rfl⟩, rfl⟩
        | some i =>
          simp only [Option.bind_some]
          let chk : R Val := if attrErr = true then R.raise "AttributeError" else R.ok (Val.bool (!mis))
          let ext := loadsExt (R.ok Val.none) chk
          let self0 := selfLoads true (some i) outs uns
          let env0 : Env := [("origxml", .none), ("decode", .bool false), ("xmldata", .str "<xml>"), ("self", .obj self0)]
          have hrun : runMethod Sp.pyStrip ext AuthnResponse_loads [.obj self0, .str "<xml>", .bool false, .none] =
              obsL (evalBlock Sp.pyStrip ext 64 env0 AuthnResponse_loads.body) := rfl
          have h1s : evalStmt Sp.pyStrip ext 63 env0 (.expr (.callm (.name "self") "_loads" [(.name "xmldata"), (.name "decode"), (.name "origxml")])) =
              .normal env0 := rfl
          have hin : evalExpr Sp.pyStrip ext 59 env0 (.cmp .isIn (.attr (.name "self") "in_response_to") (.attr (.name "self") "outstanding_queries")) =
              .ok (.bool ((encOuts outs).any (fun p => p.1 == i))) := rfl
          have hasy : evalExpr Sp.pyStrip ext 61 env0 (.attr (.name "self") "asynchop") = .ok (.bool true) := rfl
          show (match (match outs.lookup i with
                  | some cf => if mis = true then Except.error Sp.Err.unsolicited else Except.ok (some cf)
                  | none => if uns = true then Except.ok none else Except.error Sp.Err.unsolicited : Except Sp.Err (Option String)) with
            | .ok cf => (∃ v, (runMethod Sp.pyStrip ext AuthnResponse_loads [.obj self0, .str "<xml>", .bool false, .none]).1 = .value v) ∧
                cameFromOf (runMethod Sp.pyStrip ext AuthnResponse_loads [.obj self0, .str "<xml>", .bool false, .none]).2 =
                  some (match cf with | some c => .str c | none => .none)
            | .error .unsolicited => (runMethod Sp.pyStrip ext AuthnResponse_loads [.obj self0, .str "<xml>", .bool false, .none]).1 = .raised "UnsolicitedResponse"
            | .error _ => (runMethod Sp.pyStrip ext AuthnResponse_loads [.obj self0, .str "<xml>", .bool false, .none]).1 = .raised "SignatureError")
          rw [hrun, loads_shape, evalBlock_cons, h1s]; simp only []
          rw [evalBlock_cons, lS2, evalStmt_ifs, hasy]; simp only [truthy, if_true]
          rw [evalBlock_cons, evalStmt_ifs, hin, outs_in]
          cases hl : outs.lookup i with
          | none =>
            simp only [Option.isSome_none, truthy, Bool.false_eq_true, if_false]
            cases uns
            · rfl
            · exact ⟨⟨_, rfl⟩, rfl⟩
          | some cf =>
            simp only [Option.isSome_some, truthy, if_true]
            have hsub : evalExpr Sp.pyStrip ext 57 env0 (.subscript (.attr (.name "self") "outstanding_queries") (.attr (.name "self") "in_response_to")) =
                (match ((encOuts outs).find? (fun p => p.1 == i)).map (·.2) with
                 | some v => R.ok v
                 | none => .raise "KeyError") := rfl
            rw [evalBlock_cons, evalStmt_setattr, hsub, outs_get, hl]
            simp only [Option.map_some]
            cases attrErr with
            | true =>
              have hm : mis = false := hattr rfl
              subst hm
              exact ⟨⟨_, rfl⟩, rfl⟩
            | false =>
              cases mis
              · exact ⟨⟨_, rfl⟩, rfl⟩
              · rfl


end PyTie
