import PysamlModel.Model.MiniPy
import PysamlModel.Model.Sp
import PysamlModel.Model.PyEnc
import PysamlModel.Gen.PyFuns
import PysamlModel.Proofs.MiniPy

/-!
# C06: the correlation with the outstanding requests in `Sp.loads` IS `AuthnResponse.loads` (refinement over the regenerated MiniPy term)
-/

namespace PyTie
open MiniPy Gen.PyFuns

theorem outs_in (outs : List (String × String)) (i : String) :
    (encOuts outs).any (fun p => p.1 == i) = (outs.lookup i).isSome := by
  induction outs with
  | nil => rfl
  | cons p ps ih =>
    rcases p with ⟨k, v⟩
    simp only [encOuts, List.map_cons, List.any_cons, List.lookup_cons] at ih ⊢
    by_cases hk : i = k
    · subst hk; simp
    · have h1 : (i == k) = false := by simpa using hk
      have h2 : (k == i) = false := by simpa using (fun e => hk e.symm)
      simp only [h1, h2, Bool.false_or]
      exact ih

theorem outs_get (outs : List (String × String)) (i : String) :
    ((encOuts outs).find? (fun p => p.1 == i)).map (·.2) = (outs.lookup i).map Val.str := by
  induction outs with
  | nil => rfl
  | cons p ps ih =>
    rcases p with ⟨k, v⟩
    simp only [encOuts, List.map_cons, List.find?_cons, List.lookup_cons] at ih ⊢
    by_cases hk : i = k
    · subst hk; simp
    · have h1 : (i == k) = false := by simpa using hk
      have h2 : (k == i) = false := by simpa using (fun e => hk e.symm)
      simp only [h1, h2]
      exact ih


def lS2 : Stmt := (.ifs (.attr (.name "self") "asynchop") [
      (.ifs (.cmp .isIn (.attr (.name "self") "in_response_to") (.attr (.name "self") "outstanding_queries")) [
        (.setattr "self" "came_from" (.subscript (.attr (.name "self") "outstanding_queries") (.attr (.name "self") "in_response_to"))),
        (.try [
          (.ifs (.not (.callm (.name "self") "check_subject_confirmation_in_response_to" [(.attr (.name "self") "in_response_to")])) [
            (.raise "UnsolicitedResponse")] [])] [("AttributeError", [
          .pass])])] [
        (.ifs (.attr (.name "self") "allow_unsolicited") [
          .pass] [
          (.raise "UnsolicitedResponse")])])] [])

theorem loads_shape : AuthnResponse_loads.body = [
    (.expr (.callm (.name "self") "_loads" [(.name "xmldata"), (.name "decode"), (.name "origxml")])),
    lS2, (.ret (some (.name "self")))] := rfl

/-- **`AuthnResponse.loads` refines `Sp.loads`**: for every signature state, binding kind, InResponseTo (absent or any
    value), set of outstanding requests, `allow_unsolicited`, and outcome of the subject-confirmation comparison, the
    CURRENT text of the method raises `UnsolicitedResponse` exactly when the model function answers `unsolicited`,
    lets the signature error of `_loads` through exactly when the model's signature gate refuses, and otherwise
    returns with `self.came_from` set to exactly the stored context of the answered request (untouched when the
    Response answers no outstanding request and unsolicited ones are allowed, or over a back-channel binding). -/
theorem loads_refines (cfg : Sp.Cfg) (env : Sp.Env) (req : Bool) (r : Sp.Response) (attrErr : Bool)
    (hattr : attrErr = true → Sp.scanAssertions r.inResponseTo (Sp.plainOf r) = false) :
    match Sp.loads cfg env req r with
    | .ok cf =>
      (∃ v, (runMethod Sp.pyStrip
        (loadsExt (match sigGate r.sig req with | some _ => .raise "SignatureError" | none => .ok .none)
                  (if attrErr then .raise "AttributeError" else .ok (.bool (!Sp.scanAssertions r.inResponseTo (Sp.plainOf r)))))
        AuthnResponse_loads [.obj (selfLoads env.asynchop r.inResponseTo env.outstanding cfg.allowUnsolicited), .str "<xml>", .bool false, .none]).1
          = .value v) ∧
      cameFromOf (runMethod Sp.pyStrip
        (loadsExt (match sigGate r.sig req with | some _ => .raise "SignatureError" | none => .ok .none)
                  (if attrErr then .raise "AttributeError" else .ok (.bool (!Sp.scanAssertions r.inResponseTo (Sp.plainOf r)))))
        AuthnResponse_loads [.obj (selfLoads env.asynchop r.inResponseTo env.outstanding cfg.allowUnsolicited), .str "<xml>", .bool false, .none]).2
          = some (match cf with | some c => .str c | none => .none)
    | .error .unsolicited =>
      (runMethod Sp.pyStrip
        (loadsExt (match sigGate r.sig req with | some _ => .raise "SignatureError" | none => .ok .none)
                  (if attrErr then .raise "AttributeError" else .ok (.bool (!Sp.scanAssertions r.inResponseTo (Sp.plainOf r)))))
        AuthnResponse_loads [.obj (selfLoads env.asynchop r.inResponseTo env.outstanding cfg.allowUnsolicited), .str "<xml>", .bool false, .none]).1
          = .raised "UnsolicitedResponse"
    | .error _ =>
      (runMethod Sp.pyStrip
        (loadsExt (match sigGate r.sig req with | some _ => .raise "SignatureError" | none => .ok .none)
                  (if attrErr then .raise "AttributeError" else .ok (.bool (!Sp.scanAssertions r.inResponseTo (Sp.plainOf r)))))
        AuthnResponse_loads [.obj (selfLoads env.asynchop r.inResponseTo env.outstanding cfg.allowUnsolicited), .str "<xml>", .bool false, .none]).1
          = .raised "SignatureError" := by
  unfold Sp.loads sigGate
  generalize hmis : Sp.scanAssertions r.inResponseTo (Sp.plainOf r) = mis at hattr ⊢
  generalize env.asynchop = asy
  generalize cfg.allowUnsolicited = uns
  generalize env.outstanding = outs
  generalize r.inResponseTo = irt
  by_cases h1 : (r.sig.present && r.sig != .valid) = true
  · simp only [h1, if_true]; rfl
  · simp only [h1, Bool.false_eq_true, if_false]
    by_cases h2 : (!r.sig.present && req) = true
    · simp only [h2, if_true]; rfl
    · simp only [h2, Bool.false_eq_true, if_false]
      cases asy with
      | false => exact ⟨⟨_, rfl⟩, rfl⟩
      | true =>
        simp only [if_true]
        cases irt with
        | none =>
          simp only [Option.bind_none]
          cases uns
          · rfl
          · exact ⟨⟨_, rfl⟩, rfl⟩
        | some i =>
          simp only [Option.bind_some]
          let chk : R Val := if attrErr = true then R.raise "AttributeError" else R.ok (Val.bool (!mis))
          let ext := loadsExt (R.ok Val.none) chk
          let self0 := selfLoads true (some i) outs uns
          let env0 : Env := [("origxml", .none), ("decode", .bool false), ("xmldata", .str "<xml>"), ("self", .obj self0)]
          have hrun : runMethod Sp.pyStrip ext AuthnResponse_loads [.obj self0, .str "<xml>", .bool false, .none] =
              obsL (evalBlock Sp.pyStrip ext 64 env0 AuthnResponse_loads.body) := rfl
          have h1s : evalStmt Sp.pyStrip ext 63 env0 (.expr (.callm (.name "self") "_loads" [(.name "xmldata"), (.name "decode"), (.name "origxml")])) =
              .normal env0 := rfl
          have hin : evalExpr Sp.pyStrip ext 59 env0 (.cmp .isIn (.attr (.name "self") "in_response_to") (.attr (.name "self") "outstanding_queries")) =
              .ok (.bool ((encOuts outs).any (fun p => p.1 == i))) := rfl
          have hasy : evalExpr Sp.pyStrip ext 61 env0 (.attr (.name "self") "asynchop") = .ok (.bool true) := rfl
          show (match (match outs.lookup i with
                  | some cf => if mis = true then Except.error Sp.Err.unsolicited else Except.ok (some cf)
                  | none => if uns = true then Except.ok none else Except.error Sp.Err.unsolicited : Except Sp.Err (Option String)) with
            | .ok cf => (∃ v, (runMethod Sp.pyStrip ext AuthnResponse_loads [.obj self0, .str "<xml>", .bool false, .none]).1 = .value v) ∧
                cameFromOf (runMethod Sp.pyStrip ext AuthnResponse_loads [.obj self0, .str "<xml>", .bool false, .none]).2 =
                  some (match cf with | some c => .str c | none => .none)
            | .error .unsolicited => (runMethod Sp.pyStrip ext AuthnResponse_loads [.obj self0, .str "<xml>", .bool false, .none]).1 = .raised "UnsolicitedResponse"
            | .error _ => (runMethod Sp.pyStrip ext AuthnResponse_loads [.obj self0, .str "<xml>", .bool false, .none]).1 = .raised "SignatureError")
          rw [hrun, loads_shape, evalBlock_cons, h1s]; simp only []
          rw [evalBlock_cons, lS2, evalStmt_ifs, hasy]; simp only [truthy, if_true]
          rw [evalBlock_cons, evalStmt_ifs, hin, outs_in]
          cases hl : outs.lookup i with
          | none =>
            simp only [Option.isSome_none, truthy, Bool.false_eq_true, if_false]
            cases uns
            · rfl
            · exact ⟨⟨_, rfl⟩, rfl⟩
          | some cf =>
            simp only [Option.isSome_some, truthy, if_true]
            have hsub : evalExpr Sp.pyStrip ext 57 env0 (.subscript (.attr (.name "self") "outstanding_queries") (.attr (.name "self") "in_response_to")) =
                (match ((encOuts outs).find? (fun p => p.1 == i)).map (·.2) with
                 | some v => R.ok v
                 | none => .raise "KeyError") := rfl
            rw [evalBlock_cons, evalStmt_setattr, hsub, outs_get, hl]
            simp only [Option.map_some]
            cases attrErr with
            | true =>
              have hm : mis = false := hattr rfl
              subst hm
              exact ⟨⟨_, rfl⟩, rfl⟩
            | false =>
              cases mis
              · exact ⟨⟨_, rfl⟩, rfl⟩
              · rfl


/-! ## `check_subject_confirmation_in_response_to` (the comparison `loads` delegates to) -/

theorem scanSc_eq (irp : Option String) (cs : List ConfD) :
    Sp.scanSc irp (cs.map (fun d => ({ method := .bearer, data := d.map (fun i => ({ irt := i } : Sp.ScData)) } : Sp.SubjConf))) = cs.any (confMis irp) := by
  induction cs with
  | nil => rfl
  | cons c cs ih =>
    cases c with
    | none => simp [Sp.scanSc, confMis, ih]
    | some i =>
      by_cases h : (i != irp) = true
      · simp [Sp.scanSc, confMis, h]
      · have h' : (i != irp) = false := by simpa using h
        simp only [List.map_cons, Sp.scanSc, Option.map_some, List.any_cons, confMis, h', Bool.false_or]
        simp only [Bool.false_eq_true, if_false]
        exact ih

def innerScanBody : List Stmt := [
  (.assign "_data" (.attr (.name "_sc") "subject_confirmation_data")),
  (.ifs (.and (.isNone (.name "_data") true) (.cmp .ne (.attr (.name "_data") "in_response_to") (.name "irp"))) [
    (.ret (some (.bool false)))] [])]

theorem optStr_ne (i irp : Option String) :
    cmpVals .ne (optStr i) (optStr irp) = .ok (.bool (i != irp)) := by
  cases i <;> cases irp <;> simp [optStr, cmpVals, bne]

theorem scan_inner_step (n : Nat) (ext : Ext) (env : Env) (irp : Option String) (c : ConfD)
    (hirp : lookup env "irp" = some (optStr irp)) :
    evalBlock Sp.pyStrip ext (n + 8) (setVar env "_sc" (encConfD c)) innerScanBody =
      if confMis irp c then .ret (.bool false) (setVar (setVar env "_sc" (encConfD c)) "_data" (dataOf c))
      else .normal (setVar (setVar env "_sc" (encConfD c)) "_data" (dataOf c)) := by
  have hirp' : ∀ v w, lookup (setVar (setVar env "_sc" v) "_data" w) "irp" = some (optStr irp) := by
    intro v w
    rw [lookup_setVar_ne _ _ _ _ (by decide), lookup_setVar_ne _ _ _ _ (by decide)]; exact hirp
  cases c with
  | none =>
    simp [innerScanBody, evalBlock, evalStmt, evalExpr, lookup_setVar_same, encConfD, dataOf, lookup_cons_same, truthy, confMis]
  | some i =>
    by_cases h : (i != irp) = true
    · simp [innerScanBody, evalBlock, evalStmt, evalExpr, lookup_setVar_same, encConfD, dataOf, lookup_cons_same, truthy, confMis, hirp',
        optStr_ne, h]
    · have h' : (i != irp) = false := by simpa using h
      simp [innerScanBody, evalBlock, evalStmt, evalExpr, lookup_setVar_same, encConfD, dataOf, lookup_cons_same, truthy, confMis, hirp',
        optStr_ne, h']


def scanInnerB (n : Nat) (ext : Ext) : Env → Val → Flow := fun env v => evalBlock Sp.pyStrip ext (n + 8) (setVar env "_sc" v) innerScanBody
def scanInnerE (n : Nat) (ext : Ext) : Env → Flow := fun env => evalBlock Sp.pyStrip ext (n + 8) env []

theorem scan_inner_loop (n : Nat) (ext : Ext) (irp : Option String) : ∀ (cs : List ConfD) (env : Env),
    lookup env "irp" = some (optStr irp) →
    (cs.any (confMis irp) = true → ∃ e, forLoop (scanInnerB n ext) (scanInnerE n ext) (cs.map encConfD) env = .ret (.bool false) e) ∧
    (cs.any (confMis irp) = false → ∃ e, forLoop (scanInnerB n ext) (scanInnerE n ext) (cs.map encConfD) env = .normal e ∧
        lookup e "irp" = some (optStr irp)) := by
  intro cs
  induction cs with
  | nil =>
    intro env hirp
    refine ⟨by simp, fun _ => ⟨env, by simp [forLoop, scanInnerE, evalBlock], hirp⟩⟩
  | cons c cs ih =>
    intro env hirp
    have hstep := scan_inner_step n ext env irp c hirp
    cases hm : confMis irp c with
    | true =>
      refine ⟨fun _ => ⟨setVar (setVar env "_sc" (encConfD c)) "_data" (dataOf c), ?_⟩, by simp [hm]⟩
      simp only [List.map_cons, forLoop, scanInnerB]
      rw [hstep]; simp [hm]
    | false =>
      have hirp2 : lookup (setVar (setVar env "_sc" (encConfD c)) "_data" (dataOf c)) "irp" = some (optStr irp) := by
        rw [lookup_setVar_ne _ _ _ _ (by decide), lookup_setVar_ne _ _ _ _ (by decide)]; exact hirp
      have ih' := ih _ hirp2
      have hunf : forLoop (scanInnerB n ext) (scanInnerE n ext) ((c :: cs).map encConfD) env =
          forLoop (scanInnerB n ext) (scanInnerE n ext) (cs.map encConfD)
            (setVar (setVar env "_sc" (encConfD c)) "_data" (dataOf c)) := by
        simp only [List.map_cons, forLoop, scanInnerB]
        rw [hstep]; simp [hm]
      rw [hunf]
      simpa [List.any_cons, hm] using ih'

def outerScanBody : List Stmt := [
  (.for "_sc" (.attr (.attr (.name "assertion") "subject") "subject_confirmation") innerScanBody [])]

def scanOuterB (n : Nat) (ext : Ext) : Env → Val → Flow := fun env v => evalBlock Sp.pyStrip ext (n + 11) (setVar env "assertion" v) outerScanBody
def scanOuterE (n : Nat) (ext : Ext) : Env → Flow := fun env => evalBlock Sp.pyStrip ext (n + 11) env []

theorem scan_outer_step (n : Nat) (ext : Ext) (env : Env) (a : AssD) :
    scanOuterB n ext env (encAssD a) =
      (match a with
       | none => .raise "AttributeError" (setVar env "assertion" (encAssD none))
       | some cs => forLoop (scanInnerB (n + 1) ext) (scanInnerE (n + 1) ext) (cs.map encConfD) (setVar env "assertion" (encAssD (some cs)))) := by
  cases a with
  | none => simp [scanOuterB, outerScanBody, evalBlock, evalStmt, evalExpr, lookup_setVar_same, encAssD, lookup_cons_same]
  | some cs =>
    have : scanOuterB n ext env (encAssD (some cs)) =
        (match forLoop (scanInnerB (n + 1) ext) (scanInnerE (n + 1) ext) (cs.map encConfD) (setVar env "assertion" (encAssD (some cs))) with
         | .normal e => Flow.normal e
         | other => other) := by
      simp [scanOuterB, outerScanBody, evalBlock, evalStmt, evalExpr, lookup_setVar_same, encAssD, lookup_cons_same]
      rfl
    show scanOuterB n ext env (encAssD (some cs)) =
      forLoop (scanInnerB (n + 1) ext) (scanInnerE (n + 1) ext) (cs.map encConfD) (setVar env "assertion" (encAssD (some cs)))
    rw [this]
    generalize forLoop (scanInnerB (n + 1) ext) (scanInnerE (n + 1) ext) (cs.map encConfD) (setVar env "assertion" (encAssD (some cs))) = F
    cases F <;> rfl

theorem scan3_model (irp : Option String) (as : List AssD) :
    Sp.scanAssertions irp (as.map toAssertion) = (scan3 irp as == .mismatch) := by
  induction as with
  | nil => rfl
  | cons a as ih =>
    cases a with
    | none => rfl
    | some cs =>
      simp only [List.map_cons, Sp.scanAssertions, toAssertion, Option.map_some, scan3, scanSc_eq]
      cases h : cs.any (confMis irp)
      · simpa using ih
      · rfl

theorem scan_outer_loop (n : Nat) (ext : Ext) (irp : Option String) : ∀ (as : List AssD) (env : Env),
    lookup env "irp" = some (optStr irp) →
    match scan3 irp as with
    | .ok => ∃ e, forLoop (scanOuterB n ext) (scanOuterE n ext) (as.map encAssD) env = .normal e
    | .mismatch => ∃ e, forLoop (scanOuterB n ext) (scanOuterE n ext) (as.map encAssD) env = .ret (.bool false) e
    | .attrErr => ∃ e, forLoop (scanOuterB n ext) (scanOuterE n ext) (as.map encAssD) env = .raise "AttributeError" e := by
  intro as
  induction as with
  | nil =>
    intro env _
    exact ⟨env, by simp [forLoop, scanOuterE, evalBlock]⟩
  | cons a as ih =>
    intro env hirp
    have hstep := scan_outer_step n ext env a
    cases a with
    | none =>
      refine ⟨setVar env "assertion" (encAssD none), ?_⟩
      simp only [List.map_cons, forLoop]
      rw [hstep]
    | some cs =>
      have hirp1 : lookup (setVar env "assertion" (encAssD (some cs))) "irp" = some (optStr irp) := by
        rw [lookup_setVar_ne _ _ _ _ (by decide)]; exact hirp
      have hin := scan_inner_loop (n + 1) ext irp cs _ hirp1
      cases hm : cs.any (confMis irp) with
      | true =>
        obtain ⟨e, hl⟩ := hin.1 hm
        simp only [scan3, hm, if_true]
        refine ⟨e, ?_⟩
        simp only [List.map_cons, forLoop]
        rw [hstep]; simp only []; rw [hl]
      | false =>
        obtain ⟨e, hl, hirpe⟩ := hin.2 hm
        simp only [scan3, hm, Bool.false_eq_true, if_false]
        have hunf : forLoop (scanOuterB n ext) (scanOuterE n ext) ((some cs :: as).map encAssD) env =
            forLoop (scanOuterB n ext) (scanOuterE n ext) (as.map encAssD) e := by
          simp only [List.map_cons, forLoop]
          rw [hstep]; simp only []; rw [hl]
        rw [hunf]
        exact ih e hirpe

theorem scan_shape : AuthnResponse_check_subject_confirmation_in_response_to.body = [
    (.ifs (.isNone (.name "assertions") false) [(.assign "assertions" (.attr (.attr (.name "self") "response") "assertion"))] []),
    (.for "assertion" (.name "assertions") outerScanBody []),
    (.ret (some (.bool true)))] := rfl

/-- **`check_subject_confirmation_in_response_to` refines `Sp.scanAssertions`**: for every list of assertions (each
    with or without a Subject, any number of confirmations, each with or without data, any InResponseTo) and every
    value to compare with, the CURRENT text of the method returns `False` exactly when the model's scan finds a
    mismatch, raises `AttributeError` exactly when it meets an assertion without Subject first, and returns `True`
    otherwise. -/
theorem scan_refines (irp : Option String) (as : List AssD) :
    run Sp.pyStrip noExt AuthnResponse_check_subject_confirmation_in_response_to [selfScan as, optStr irp, .none] =
      (match scan3 irp as with
       | .ok => .value (.bool true)
       | .mismatch => .value (.bool false)
       | .attrErr => .raised "AttributeError") ∧
    Sp.scanAssertions irp (as.map toAssertion) = (scan3 irp as == .mismatch) := by
  refine ⟨?_, scan3_model irp as⟩
  let env1 : Env := setVar [("assertions", .none), ("irp", optStr irp), ("self", selfScan as)] "assertions" (.list (as.map encAssD))
  have hirp : lookup env1 "irp" = some (optStr irp) := by
    show lookup (setVar _ "assertions" _) "irp" = _
    rw [lookup_setVar_ne _ _ _ _ (by decide)]; simp [lookup]
  have hrun : run Sp.pyStrip noExt AuthnResponse_check_subject_confirmation_in_response_to [selfScan as, optStr irp, .none] =
      (match (match forLoop (scanOuterB 50 noExt) (scanOuterE 50 noExt) (as.map encAssD) env1 with
              | .normal e => Flow.ret (.bool true) e
              | other => other) with
       | .normal _ => .value .none
       | .ret v _ => .value v
       | .raise c _ => .raised c
       | .brk _ => .stuck "break outside a loop"
       | .cont _ => .stuck "continue outside a loop"
       | .stuck w => .stuck w) := rfl
  rw [hrun]
  have hl := scan_outer_loop 50 noExt irp as env1 hirp
  cases h3 : scan3 irp as <;> simp only [h3] at hl <;> obtain ⟨e, hl⟩ := hl <;> rw [hl]


/-- `loads` with the comparison it delegates to RUN from its own regenerated term (not assumed): the externals of
    `AuthnResponse.loads` when the clear assertions of the Response are `as` -/
def loadsExtRun (sigR : R Val) (as : List AssD) (irt : Option String) : Ext :=
  loadsExt sigR (asExt (run Sp.pyStrip noExt AuthnResponse_check_subject_confirmation_in_response_to [selfScan as, optStr irt, .none]))

/-- **`AuthnResponse.loads` composed with `check_subject_confirmation_in_response_to`** — both from their current
    texts — refines `Sp.loads`, for every Response whose clear assertions are the ones the scan is run on. -/
theorem loads_refines_composed (cfg : Sp.Cfg) (env : Sp.Env) (req : Bool) (r : Sp.Response) (as : List AssD)
    (hplain : Sp.plainOf r = as.map toAssertion) :
    match Sp.loads cfg env req r with
    | .ok cf =>
      (∃ v, (runMethod Sp.pyStrip
        (loadsExtRun (match sigGate r.sig req with | some _ => .raise "SignatureError" | none => .ok .none) as r.inResponseTo)
        AuthnResponse_loads [.obj (selfLoads env.asynchop r.inResponseTo env.outstanding cfg.allowUnsolicited), .str "<xml>", .bool false, .none]).1
          = .value v) ∧
      cameFromOf (runMethod Sp.pyStrip
        (loadsExtRun (match sigGate r.sig req with | some _ => .raise "SignatureError" | none => .ok .none) as r.inResponseTo)
        AuthnResponse_loads [.obj (selfLoads env.asynchop r.inResponseTo env.outstanding cfg.allowUnsolicited), .str "<xml>", .bool false, .none]).2
          = some (match cf with | some c => .str c | none => .none)
    | .error .unsolicited =>
      (runMethod Sp.pyStrip
        (loadsExtRun (match sigGate r.sig req with | some _ => .raise "SignatureError" | none => .ok .none) as r.inResponseTo)
        AuthnResponse_loads [.obj (selfLoads env.asynchop r.inResponseTo env.outstanding cfg.allowUnsolicited), .str "<xml>", .bool false, .none]).1
          = .raised "UnsolicitedResponse"
    | .error _ =>
      (runMethod Sp.pyStrip
        (loadsExtRun (match sigGate r.sig req with | some _ => .raise "SignatureError" | none => .ok .none) as r.inResponseTo)
        AuthnResponse_loads [.obj (selfLoads env.asynchop r.inResponseTo env.outstanding cfg.allowUnsolicited), .str "<xml>", .bool false, .none]).1
          = .raised "SignatureError" := by
  have hs := scan_refines r.inResponseTo as
  have hmod : Sp.scanAssertions r.inResponseTo (Sp.plainOf r) = (scan3 r.inResponseTo as == .mismatch) := by
    rw [hplain]; exact hs.2
  -- the run of the scan is one of the three outcomes `loads_refines` is stated for
  have hchk : asExt (run Sp.pyStrip noExt AuthnResponse_check_subject_confirmation_in_response_to [selfScan as, optStr r.inResponseTo, .none]) =
      (if (scan3 r.inResponseTo as == .attrErr) then R.raise "AttributeError"
       else R.ok (Val.bool (!Sp.scanAssertions r.inResponseTo (Sp.plainOf r)))) := by
    rw [hs.1, hmod]
    cases scan3 r.inResponseTo as <;> rfl
  have hattr : (scan3 r.inResponseTo as == .attrErr) = true → Sp.scanAssertions r.inResponseTo (Sp.plainOf r) = false := by
    intro h
    rw [hmod]
    cases h3 : scan3 r.inResponseTo as <;> simp_all
  have := loads_refines cfg env req r (scan3 r.inResponseTo as == .attrErr) hattr
  unfold loadsExtRun
  rw [hchk]
  exact this


end PyTie
