/-
  C12 — Protocol objects survive serialisation and parsing unchanged.
  Property theorems (namespace `C12`, names `C12_…`) and their non-vacuity examples.

  All statements quantify over arbitrary class tables `T` (any number of classes, children,
  attributes), arbitrary instances (any depth, any fan-out, any strings) and arbitrary external
  conversions `conv`; the regenerated table of pysaml2 enters through `C12_table_wf` only.

  Reading guide
  * `serialise`  = SamlBase._to_element_tree, `harvest` = create_class_from_element_tree/harvest_element_tree,
    `wire` = ElementTree.tostring + defusedxml parse at the level of trees (Model/ObjModel.lean).
  * `treeWf T i`  = `i` is an instance in the sense of the property (members hold instances of the
    declared classes, singletons ≤ 1, extensions are foreign, dict keys unique) AND every attribute
    with a parse-time default is set (excludes the recorded defects
    C12/attribute-nameformat-defaulted-on-parse, C12/constructor-default-attribute-restored-on-parse).
  * `wireClean E i` = no carriage return in any text (C12/carriage-return-in-text-normalised), no
    extension attribute that is a namespace declaration, every AttributeValue node is in a state
    `set_text`/a fresh instance produces (excludes C12/attribute-value-mixed-content-text-stripped,
    C12/attribute-value-xmlns-attr-reordered, C12/attribute-value-type-without-text).
  * `instShape T i` = the first half of `treeWf` only: the full space the property quantifies over.
-/
import PysamlModel.Proofs.C12Emit
import PysamlModel.Proofs.C12Parse
import PysamlModel.Gen.ClassTable
import PysamlModel.Gen.ClassRows

set_option linter.unusedSimpArgs false
set_option linter.unusedVariables false

namespace C12
open ObjModel

/-! ## the regenerated class table is well-formed -/

/-- every class of a chunk is well-formed and each of its child declarations names a class with the declared tag -/
def chunkWf (T : Nat → ClassDef) (l : List ClassDef) : Bool :=
  l.all fun cd => classWf cd && cd.children.all (declSound T)

/-- the table of the pinned tree, as a total function of the class id -/
def theTable : Nat → ClassDef := tableOf Gen.ClassTable.classList

set_option maxRecDepth 100000 in
theorem chunk_wf_0 : chunkWf theTable (Gen.ClassTable.chunks.getD 0 []) = true := by decide +kernel
set_option maxRecDepth 100000 in
theorem chunk_wf_1 : chunkWf theTable (Gen.ClassTable.chunks.getD 1 []) = true := by decide +kernel
set_option maxRecDepth 100000 in
theorem chunk_wf_2 : chunkWf theTable (Gen.ClassTable.chunks.getD 2 []) = true := by decide +kernel
set_option maxRecDepth 100000 in
theorem chunk_wf_3 : chunkWf theTable (Gen.ClassTable.chunks.getD 3 []) = true := by decide +kernel
set_option maxRecDepth 100000 in
theorem chunk_wf_4 : chunkWf theTable (Gen.ClassTable.chunks.getD 4 []) = true := by decide +kernel
set_option maxRecDepth 100000 in
theorem chunk_wf_5 : chunkWf theTable (Gen.ClassTable.chunks.getD 5 []) = true := by decide +kernel
set_option maxRecDepth 100000 in
theorem chunk_wf_6 : chunkWf theTable (Gen.ClassTable.chunks.getD 6 []) = true := by decide +kernel
set_option maxRecDepth 100000 in
theorem chunk_wf_7 : chunkWf theTable (Gen.ClassTable.chunks.getD 7 []) = true := by decide +kernel
set_option maxRecDepth 100000 in
theorem chunk_wf_8 : chunkWf theTable (Gen.ClassTable.chunks.getD 8 []) = true := by decide +kernel
set_option maxRecDepth 100000 in
theorem chunk_wf_9 : chunkWf theTable (Gen.ClassTable.chunks.getD 9 []) = true := by decide +kernel
set_option maxRecDepth 100000 in
theorem chunk_wf_10 : chunkWf theTable (Gen.ClassTable.chunks.getD 10 []) = true := by decide +kernel
set_option maxRecDepth 100000 in
theorem chunk_wf_11 : chunkWf theTable (Gen.ClassTable.chunks.getD 11 []) = true := by decide +kernel
set_option maxRecDepth 100000 in
theorem chunk_wf_12 : chunkWf theTable (Gen.ClassTable.chunks.getD 12 []) = true := by decide +kernel
set_option maxRecDepth 100000 in
theorem chunk_wf_13 : chunkWf theTable (Gen.ClassTable.chunks.getD 13 []) = true := by decide +kernel
set_option maxRecDepth 100000 in
theorem chunk_wf_14 : chunkWf theTable (Gen.ClassTable.chunks.getD 14 []) = true := by decide +kernel
set_option maxRecDepth 100000 in
theorem chunk_wf_15 : chunkWf theTable (Gen.ClassTable.chunks.getD 15 []) = true := by decide +kernel

/-- the sixteen chunk lemmas cover the whole table -/
theorem chunk_count : Gen.ClassTable.chunks.length ≤ 16 := by decide +kernel

theorem chunk_wf_all : ∀ l ∈ Gen.ClassTable.chunks, chunkWf theTable l = true := by
  intro l hl
  obtain ⟨k, hk, rfl⟩ := List.mem_iff_getElem.mp hl
  have hk16 : k < 16 := Nat.lt_of_lt_of_le hk chunk_count
  have e : Gen.ClassTable.chunks[k] = Gen.ClassTable.chunks.getD k [] := by simp [List.getD, hk]
  rw [e]
  have h16 : ∀ k, k < 16 → chunkWf theTable (Gen.ClassTable.chunks.getD k []) = true := by
    intro k hk
    match k, hk with
    | 0, _ => exact chunk_wf_0
    | 1, _ => exact chunk_wf_1
    | 2, _ => exact chunk_wf_2
    | 3, _ => exact chunk_wf_3
    | 4, _ => exact chunk_wf_4
    | 5, _ => exact chunk_wf_5
    | 6, _ => exact chunk_wf_6
    | 7, _ => exact chunk_wf_7
    | 8, _ => exact chunk_wf_8
    | 9, _ => exact chunk_wf_9
    | 10, _ => exact chunk_wf_10
    | 11, _ => exact chunk_wf_11
    | 12, _ => exact chunk_wf_12
    | 13, _ => exact chunk_wf_13
    | 14, _ => exact chunk_wf_14
    | 15, _ => exact chunk_wf_15
    | n + 16, h => omega
  exact h16 k hk16

/-- **The class table regenerated from the current source is well-formed**: per class, child tags
    distinct, member names distinct, attribute names distinct, `_get_all_c_children_with_order`
    yields every child member exactly once and nothing else, no declared attribute is a namespace
    declaration, constructor defaults aligned, AttributeValueBase classes declare nothing; and every
    child declaration names a class whose own tag is the key it is registered under. -/
theorem C12_table_wf : TableWf theTable := by
  intro c
  have hall : ∀ cd ∈ Gen.ClassTable.classList, (classWf cd && cd.children.all (declSound theTable)) = true := by
    intro cd hcd
    simp only [Gen.ClassTable.classList, List.mem_flatten] at hcd
    obtain ⟨l, hl, hcdl⟩ := hcd
    have := chunk_wf_all l hl
    simp only [chunkWf, List.all_eq_true] at this
    exact this cd hcdl
  have hc : (classWf (theTable c) && (theTable c).children.all (declSound theTable)) = true := by
    simp only [theTable, tableOf, List.getD]
    cases h : Gen.ClassTable.classList[c]? with
    | none => decide
    | some cd => exact hall cd (List.mem_of_getElem? h)
  simp only [Bool.and_eq_true, List.all_eq_true] at hc
  exact ⟨hc.1, hc.2⟩

theorem C12_av_consts_ok : avConstsOk Gen.ClassTable.avConsts = true := by decide +kernel

/-! ## the order the class tables prescribe follows the XSD sequences

    `C12_roundtrip`/`C12_schema_order` are relative to the class table: "schema order" there is what
    `c_child_order` says.  That `c_child_order` itself follows the XSD is the obligation below, over tables
    regenerated on every run from the shipped XSD files and from the class tables by C13's translators
    (`harness/translate/schema.py`, `classrows.py` → `Gen/Schema.lean`, `Gen/ClassRows.lean`; model
    `Model/ClassOrder.lean`; all three used read-only — the statement is `C13_order_table`, re-checked here so
    that a class table whose child order leaves its XSD sequence breaks an obligation of C12 as well). -/

open Validate in
/-- For every element class of saml / samlp / md / xmldsig / xmlenc whose content model is a plain sequence
    (the rows C13 claims; 26 classes with choice content are listed in `Gen.ClassRows.excluded`): the row's
    particles ARE the content model of the element in the regenerated schema, and the members in
    `_get_all_c_children_with_order` order follow that sequence within its occurrence bounds. -/
theorem C12_order_follows_xsd :
    Gen.ClassRows.rows.all (fun r => particlesOf Gen.Schema.schema r.elem r.ps && orderCompat r.ps r.members) = true := by
  decide +kernel

/-! ## serialise → wire → parse -/

/-- **Round trip.** For every well-formed class table, every instance (any depth, any fan-out, any
    strings) that is tree-well-formed and wire-clean: parsing the serialised instance yields the
    instance — same class, same attribute values, same children in every member in their order, same
    text (an empty text and no text being the same text), same extension elements and extension
    attributes in their order. -/
theorem C12_roundtrip (E : Env) (hT : TableWf E.T) (hK : avConstsOk E.K = true) (i : Inst)
    (hwf : treeWf E.T i = true) (hcl : wireClean E i = true) :
    roundTrip E i = normInst i := by
  have hns : ∀ c, ∀ a ∈ (E.T c).attrs, isNsDecl a.name = false := fun c => (classWf_spec _ (hT c).1).2.2.2.1
  unfold roundTrip
  rw [wire_serialise E.T hns i, ← wireInst_cls i]
  rw [harvest_serialise E hT (wireInst i) (instOk_wireInst true E.T i hwf)]
  exact canon_wireInst E hK i hwf hcl

/-- The same at the level of element trees (pysaml2's own code only, no writer/parser in between), for
    instances without AttributeValue nodes: `harvest (serialise i) = i` literally. -/
theorem C12_roundtrip_tree (E : Env) (hT : TableWf E.T) (i : Inst) (hwf : treeWf E.T i = true)
    (hplain : canon E i = i) : harvest E i.cls (serialise E.T i) = i := by
  rw [harvest_serialise E hT i hwf, hplain]

/-- Nothing raises on the way: every member `_get_all_c_children_with_order` names exists, and the
    re-parse meets no class it cannot build and no typed AttributeValue text it cannot convert. -/
theorem C12_no_exception (E : Env) (hT : TableWf E.T) (hK : avConstsOk E.K = true) (i : Inst)
    (hwf : treeWf E.T i = true) (hcl : wireClean E i = true) :
    classSerialisable (E.T i.cls) = true ∧ roundTripRaises E i = false := by
  have hns : ∀ c, ∀ a ∈ (E.T c).attrs, isNsDecl a.name = false := fun c => (classWf_spec _ (hT c).1).2.2.2.1
  refine ⟨classSerialisable_of_orderOk _ (classWf_spec _ (hT i.cls).1).2.2.1, ?_⟩
  unfold roundTripRaises
  rw [wire_serialise E.T hns i, ← wireInst_cls i]
  exact raises_serialise E hT (wireInst i) (instOk_wireInst true E.T i hwf) (canonOk_wireInst E hK i hwf hcl)

/-- **Second serialisation.** Serialising the re-parsed object writes the same tree as the first
    serialisation (hence, the writer being a function of the tree, the same bytes). -/
theorem C12_idempotent (E : Env) (hT : TableWf E.T) (hK : avConstsOk E.K = true) (i : Inst)
    (hwf : treeWf E.T i = true) (hcl : wireClean E i = true) :
    emit (serialise E.T (roundTrip E i)) = emit (serialise E.T i) := by
  rw [C12_roundtrip E hT hK i hwf hcl, emit_serialise_norm]

/-- **Schema order.** The written document has, under the root, for each member in
    `_get_all_c_children_with_order` order one element with the declared tag per child, then the
    extension elements. -/
theorem C12_schema_order (T : Nat → ClassDef) (hT : TableWf T) (i : Inst) (hwf : treeWf T i = true) :
    (wire (serialise T i)).kids.map (·.tag) = expectedOrder T i :=
  serialise_kid_tags T hT i hwf

/-- **The model meets the specification** the driver evaluates on the implementation's output. -/
theorem C12_model_meets_spec (E : Env) (hT : TableWf E.T) (hK : avConstsOk E.K = true) (i : Inst)
    (hwf : treeWf E.T i = true) (hcl : wireClean E i = true) :
    specRoundTrip E.T i (modelRoundTrip E i) = true := by
  obtain ⟨h1, h2⟩ := C12_no_exception E hT hK i hwf hcl
  simp only [modelRoundTrip, h1, h2, Bool.not_true, Bool.or_self, Bool.false_eq_true, if_false, specRoundTrip,
    C12_idempotent E hT hK i hwf hcl, C12_roundtrip E hT hK i hwf hcl, Bool.and_eq_true, decide_eq_true_eq, and_true,
    serialise_kid_tags E.T hT i hwf]
  -- normInst is idempotent
  have : ∀ j, normInst (normInst j) = normInst j := by
    intro j
    induction j using Inst.induct with
    | h c as ss t ee ea ih =>
      simp only [normInst, normEmpty_idem]
      have h1 : normSlots (normSlots ss) = normSlots ss := by
        rw [normSlots_eq_map, normSlots_eq_map, List.map_map]
        apply List.map_congr_left
        intro s hs
        simp only [Function.comp, normList_eq_map, List.map_map]
        apply List.map_congr_left
        intro k hk
        exact ih s hs k hk
      have h2 : ∀ l : List ExtEl, normExtList (normExtList l) = normExtList l := by
        intro l
        have hE : ∀ e : ExtEl, normExt (normExt e) = normExt e := by
          intro e
          induction e using ExtEl.induct with
          | h ns tag attrs kids text ihk =>
            simp only [normExt, normEmpty_idem]
            congr 1
            rw [normExtList_eq_map, normExtList_eq_map, List.map_map]
            apply List.map_congr_left
            intro k hk
            exact ihk k hk
        rw [normExtList_eq_map, normExtList_eq_map, List.map_map]
        apply List.map_congr_left
        intro e _
        exact hE e
      rw [h1, h2]
  simp [this, emit_serialise_norm]

/-- **AttributeValue.** A single AttributeValue node whose state is what a fresh instance, an
    instance built from extension elements, or `set_type`/`set_text` produce — no text: `xsi:nil`
    first (or absent when there are extension elements); text: `xsi:type` in the form `set_text`
    derives, the text a fixed point of the type's conversion, `xmlns:xs`/`xmlns:xsd` last exactly when
    the type uses that prefix, text stripped when there are extension elements — survives the round
    trip with its extension attributes (in order), text and extension elements. -/
theorem C12_attribute_value (E : Env) (hT : TableWf E.T) (hK : avConstsOk E.K = true) (c : Nat)
    (hkind : (E.T c).kind = .attrValue) (t : Option Str) (ee : List ExtEl) (ea : Attrs)
    (hnd : nodupKeys ea = true) (hee : extWfList ee = true ∧ extCleanList ee = true) (hcr : noCRo t = true)
    (hcanon : avCanonical E.K E.conv ea t (!ee.isEmpty) = true) :
    roundTrip E (.mk c [] [] t ee ea) = .mk c [] [] (normEmpty t) (normExtList ee) ea := by
  obtain ⟨hc0, ha0, hd0⟩ := (classWf_spec _ (hT c).1).2.2.2.2.2.2 hkind
  have hini : (E.T c).attrInit = [] := by
    have := (classWf_spec _ (hT c).1).2.2.2.2.1
    rw [ha0] at this; exact List.eq_nil_of_length_eq_zero (by simpa using this)
  have hwf : treeWf E.T (.mk c [] [] t ee ea) = true := by
    simp only [treeWf, instOk, hc0, ha0, hd0, hini, slotsOk, findDecl, attrIdx, hnd, hee.1]
    simp
  have hcl : wireClean E (.mk c [] [] t ee ea) = true := by
    simp only [wireClean, hkind, hcr, hee.2, slotsClean, hcanon]
    simp
  rw [C12_roundtrip E hT hK _ hwf hcl]
  simp [normInst, normSlots]

/-- The extension-element form of serialisation is judged by the weaker checker `specRoundTripExt`
    (object equality and second serialisation; no order): implied by `C12_model_meets_spec` for the model,
    whose `serialise` is `_to_element_tree` — `element_to_extension_element` itself is NOT modelled. -/
theorem C12_model_meets_spec_ext (E : Env) (hT : TableWf E.T) (hK : avConstsOk E.K = true) (i : Inst)
    (hwf : treeWf E.T i = true) (hcl : wireClean E i = true) :
    specRoundTripExt i (modelRoundTrip E i) = true := by
  have h := C12_model_meets_spec E hT hK i hwf hcl
  cases hm : modelRoundTrip E i with
  | raised => rw [hm] at h; simp [specRoundTrip] at h
  | obj o same tags =>
    rw [hm] at h
    simp only [specRoundTrip, Bool.and_eq_true] at h
    simp only [specRoundTripExt, Bool.and_eq_true]
    exact h.1

/-! ## constructor defaults: the recorded ones and no others -/

/-- the (class tag, attribute) pairs the known finding C12/constructor-default-attribute-restored-on-parse
    was recorded for (hand-written; NOT regenerated) -/
def recordedCtorDefaults : List (QName × Name) := [
  -- shibmd.Scope regexp, shibmd.KeyAuthority VerifyDepth
  (⟨some 0x175726e3a6d6163653a73686962626f6c6574683a6d657461646174613a312e30, 0x153636f7065⟩, 0x1726567657870),
  (⟨some 0x175726e3a6d6163653a73686962626f6c6574683a6d657461646174613a312e30, 0x14b6579417574686f72697479⟩, 0x15665726966794465707468),
  -- pefim.SPCertEnc / SPCertEncType VerifyDepth
  (⟨some 0x175726e3a6e65743a6575737469783a6e616d65733a74633a504546494d3a302e303a617373657274696f6e, 0x1535043657274456e63⟩, 0x15665726966794465707468),
  (⟨some 0x175726e3a6e65743a6575737469783a6e616d65733a74633a504546494d3a302e303a617373657274696f6e, 0x1535043657274456e6354797065⟩, 0x15665726966794465707468),
  -- wsaddr.RelatesTo / RelatesToType RelationshipType
  (⟨some 0x1687474703a2f2f7777772e77332e6f72672f323030352f30382f61646472657373696e67, 0x152656c61746573546f⟩, 0x152656c6174696f6e7368697054797065),
  (⟨some 0x1687474703a2f2f7777772e77332e6f72672f323030352f30382f61646472657373696e67, 0x152656c61746573546f54797065⟩, 0x152656c6174696f6e7368697054797065),
  -- wspol.PolicyReference DigestAlgorithm
  (⟨some 0x1687474703a2f2f736368656d61732e786d6c736f61702e6f72672f77732f323030342f30392f706f6c696379, 0x1506f6c6963795265666572656e6365⟩, 0x1446967657374416c676f726974686d)]

set_option maxRecDepth 100000 in
/-- Every constructor default of the regenerated table (derived on every run by instantiating each class
    without arguments) is one of the recorded pairs: a new default anywhere else breaks this obligation. -/
theorem C12_ctor_defaults_recorded :
    (ctorDefaultPairs Gen.ClassTable.classList).all (fun p => recordedCtorDefaults.contains p) = true := by
  decide +kernel

/-! ## the full statement, and why it does not hold of the code as it is -/

/-- The property's first sentence at full strength: for EVERY instance of the instance space. -/
def C12_roundtrip_full (E : Env) : Prop :=
  ∀ i, instShape E.T i = true → specRoundTrip E.T i (modelRoundTrip E i) = true

/-- `C12_roundtrip_full` restricted by the two decidable side conditions (this is `C12_model_meets_spec`). -/
theorem C12_roundtrip_partial (E : Env) (hT : TableWf E.T) (hK : avConstsOk E.K = true) :
    ∀ i, instShape E.T i = true → treeWf E.T i = true → wireClean E i = true →
      specRoundTrip E.T i (modelRoundTrip E i) = true :=
  fun i _ hwf hcl => C12_model_meets_spec E hT hK i hwf hcl

/-- the pinned tree: regenerated table, the constants of saml2.saml, no numeric conversions needed -/
def theEnv : Env := { T := theTable, K := Gen.ClassTable.avConsts, conv := fun _ _ => none }

/-- an instance of class `c` with nothing set -/
def blank (c : Nat) : Inst :=
  .mk c ((theTable c).attrs.map fun _ => none) ((theTable c).children.map fun _ => []) none [] []

def withText (i : Inst) (t : Str) : Inst :=
  match i with
  | .mk c as ss _ ee ea => .mk c as ss (some t) ee ea

def withExtAttrs (i : Inst) (ea : Attrs) : Inst :=
  match i with
  | .mk c as ss t ee _ => .mk c as ss t ee ea

def withExtEls (i : Inst) (ee : List ExtEl) : Inst :=
  match i with
  | .mk c as ss t _ ea => .mk c as ss t ee ea

/-- every declared attribute set to `v` -/
def withAllAttrs (i : Inst) (v : Str) : Inst :=
  match i with
  | .mk c as ss t ee ea => .mk c (as.map fun _ => some v) ss t ee ea

/-- `kid` appended to the member of `i` declared for `kid`'s class -/
def withKid (i : Inst) (kid : Inst) : Inst :=
  match i with
  | .mk c as ss t ee ea =>
    match (theTable c).children.findIdx? (fun d => d.cls == some kid.cls) with
    | some j => .mk c as (ss.modify j (· ++ [kid])) t ee ea
    | none => .mk c as ss t ee ea

open Gen.ClassTable in
/-- `NameID(text="a\rb")`: C12/carriage-return-in-text-normalised -/
def wCR : Inst := withText (blank cid_saml_NameID) [97, 13, 98]
open Gen.ClassTable in
/-- `Attribute()` with NameFormat unset: C12/attribute-nameformat-defaulted-on-parse -/
def wNameFormat : Inst := blank cid_saml_Attribute
open Gen.ClassTable in
/-- `shibmd.Scope(regexp=None)`: C12/constructor-default-attribute-restored-on-parse -/
def wCtorDefault : Inst := blank cid_extension_shibmd_Scope
open Gen.ClassTable in
/-- `AttributeValue(text=" x", extension_elements=[<e/>])`: C12/attribute-value-mixed-content-text-stripped -/
def wAvStrip : Inst :=
  .mk cid_saml_AttributeValue [] [] (some [32, 120]) [.mk none 0x0165 [] [] none]
    [(avConsts.xsiType, [120, 115, 58] ++ sString), (avConsts.xmlnsXs, avConsts.xsNs)]
open Gen.ClassTable in
/-- `AttributeValue(text="x")` + a foreign attribute added afterwards: C12/attribute-value-xmlns-attr-reordered -/
def wAvReorder : Inst :=
  .mk cid_saml_AttributeValue [] [] (some [120]) []
    [(avConsts.xsiType, [120, 115, 58] ++ sString), (avConsts.xmlnsXs, avConsts.xsNs), (0x01666f6f, [98])]
open Gen.ClassTable in
/-- `AttributeValue(); set_type("xs:string")`: C12/attribute-value-type-without-text -/
def wAvTypeOnly : Inst :=
  .mk cid_saml_AttributeValue [] [] none []
    [(avConsts.xsiType, [120, 115, 58] ++ sString), (avConsts.xmlnsXs, avConsts.xsNs)]

set_option maxRecDepth 100000 in
theorem C12_counterexample_cr :
    instShape theTable wCR = true ∧ specRoundTrip theTable wCR (modelRoundTrip theEnv wCR) = false := by decide +kernel
set_option maxRecDepth 100000 in
theorem C12_counterexample_nameformat :
    instShape theTable wNameFormat = true ∧ specRoundTrip theTable wNameFormat (modelRoundTrip theEnv wNameFormat) = false := by
  decide +kernel
set_option maxRecDepth 100000 in
theorem C12_counterexample_ctor_default :
    instShape theTable wCtorDefault = true ∧ specRoundTrip theTable wCtorDefault (modelRoundTrip theEnv wCtorDefault) = false := by
  decide +kernel
set_option maxRecDepth 100000 in
theorem C12_counterexample_av_strip :
    instShape theTable wAvStrip = true ∧ specRoundTrip theTable wAvStrip (modelRoundTrip theEnv wAvStrip) = false := by
  decide +kernel
set_option maxRecDepth 100000 in
theorem C12_counterexample_av_reorder :
    instShape theTable wAvReorder = true ∧ specRoundTrip theTable wAvReorder (modelRoundTrip theEnv wAvReorder) = false := by
  decide +kernel
set_option maxRecDepth 100000 in
theorem C12_counterexample_av_type_only :
    instShape theTable wAvTypeOnly = true ∧ specRoundTrip theTable wAvTypeOnly (modelRoundTrip theEnv wAvTypeOnly) = false := by
  decide +kernel

/-- The full statement fails for the code as it is (six recorded root causes, one witness each above). -/
theorem C12_roundtrip_counterexample : ¬ C12_roundtrip_full theEnv := by
  intro h
  have h1 : specRoundTrip theEnv.T wCR (modelRoundTrip theEnv wCR) = true := h wCR C12_counterexample_cr.1
  have h2 : specRoundTrip theEnv.T wCR (modelRoundTrip theEnv wCR) = false := C12_counterexample_cr.2
  rw [h2] at h1
  cases h1

/-! ## parsing documents written by someone else -/

/-- **Unknown content surfaces as extensions.** For a plain class and any element tree (attribute names
    unique, as in every parsed document): the extension elements of the parsed object are exactly the
    children whose tag the class does not declare, the extension attributes exactly the attributes it
    does not declare, both in document order; the text is the element's text. -/
theorem C12_unknown_preserved (E : Env) (hT : TableWf E.T) (c : Nat) (hkind : (E.T c).kind = .plain)
    (x : XNode) (hx : nodupKeys x.attrs = true) :
    (harvest E c x).extEls = toExtList (x.kids.filter fun k => (findDecl (E.T c).children k.tag).isNone) ∧
    (harvest E c x).extAttrs = x.attrs.filter (fun p => (attrIdx (E.T c).attrs p.1).isNone) ∧
    (harvest E c x).text = x.text :=
  harvest_unknown E hT c hkind x hx

/-- **Parsing meets the specification** the driver evaluates on the implementation's output: whatever
    `parseDoc` answers for a document (DTD declarations + root element, any depth) satisfies `specDoc` —
    in particular the object it builds accounts for every child and attribute of the document
    (`specParse`, recursively through all declared children). -/
theorem C12_parse_meets_spec (E : Env) (hT : TableWf E.T) (c : Nat) (dtd : List DtdDecl) (x : XNode)
    (hx : xWf x = true) : specDoc E c dtd x (parseDoc E c dtd x) = true :=
  specDoc_parseDoc E hT c dtd x hx

/-- **Documents that declare entities are refused, and only those.** -/
theorem C12_entities_refused (E : Env) (c : Nat) (dtd : List DtdDecl) (x : XNode) :
    (dtd.any DtdDecl.isEntity = true → parseDoc E c dtd x = .refused) ∧
    (parseDoc E c dtd x = .refused → dtd.any DtdDecl.isEntity = true) := by
  constructor
  · intro h; simp [parseDoc, h]
  · intro h
    unfold parseDoc at h
    split at h
    · assumption
    · split at h
      · split at h <;> cases h
      · cases h

/-! ## non-vacuity -/

open Gen.ClassTable in
/-- an Assertion with ID/Version/IssueInstant, an Issuer with text, an Advice (serialised BEFORE the
    statements although declared after them: explicit `c_child_order`), an AttributeStatement holding an
    Attribute with all attributes set and two canonical AttributeValues, a foreign extension element
    with a child, and a foreign extension attribute -/
def sample : Inst :=
  let av1 : Inst := .mk cid_saml_AttributeValue [] [] (some [65, 38, 60])
    [] [(avConsts.xsiType, [120, 115, 58] ++ sString), (avConsts.xmlnsXs, avConsts.xsNs)]
  let av2 : Inst := .mk cid_saml_AttributeValue [] [] none [] [(avConsts.xsiNil, sTrue)]
  let attr := withKid (withKid (withAllAttrs (blank cid_saml_Attribute) [117, 114, 110]) av1) av2
  let stmt := withKid (blank cid_saml_AttributeStatement) attr
  let issuer := withText (blank cid_saml_Issuer) [105, 100, 112]
  let adv := blank cid_saml_Advice
  withExtAttrs
    (withExtEls (withKid (withKid (withKid (withAllAttrs (blank cid_saml_Assertion) [49]) stmt) adv) issuer)
      [.mk (some 0x0175726e3a78) 0x01657874 [(0x0161, [49])] [.mk none 0x016b6964 [] [] (some [])] none])
    [(0x01666f6f, [98, 97, 114])]

set_option maxRecDepth 100000 in
/-- the hypotheses of `C12_roundtrip` … are met by a non-trivial instance of the real table, and the
    serialisation really reorders (Advice before AttributeStatement) -/
example : treeWf theTable sample = true ∧ wireClean theEnv sample = true ∧
    (serialise theTable sample).kids.map (·.tag.name) = [0x01497373756572, 0x01416476696365, 0x0141747472696275746553746174656d656e74, 0x01657874] := by
  decide +kernel

set_option maxRecDepth 100000 in
/-- … and the conclusion, computed: the round trip returns the instance (the inner empty text as no text) -/
example : roundTrip theEnv sample = normInst sample ∧ normInst sample ≠ sample ∧
    specRoundTrip theTable sample (modelRoundTrip theEnv sample) = true := by decide +kernel

set_option maxRecDepth 100000 in
/-- `C12_attribute_value`: a typed value whose type uses the `xs` prefix -/
example : avCanonical theEnv.K theEnv.conv
    [(Gen.ClassTable.avConsts.xsiType, [120, 115, 58] ++ sString), (Gen.ClassTable.avConsts.xmlnsXs, Gen.ClassTable.avConsts.xsNs)]
    (some [120]) false = true := by decide +kernel

set_option maxRecDepth 100000 in
/-- `C12_unknown_preserved` / `C12_parse_meets_spec`: a NameID document with an unknown child, an unknown
    attribute and a declared attribute; a document that declares an entity -/
example :
    let x : XNode := .mk (theTable Gen.ClassTable.cid_saml_NameID).tag [(0x01466f726d6174, [117]), (0x01666f6f, [98])] (some [110])
      [.mk ⟨some 0x0175726e3a78, 0x01657874⟩ [] none []]
    xWf x = true ∧
    (harvest theEnv Gen.ClassTable.cid_saml_NameID x).extEls = [.mk (some 0x0175726e3a78) 0x01657874 [] [] none] ∧
    (harvest theEnv Gen.ClassTable.cid_saml_NameID x).extAttrs = [(0x01666f6f, [98])] ∧
    specDoc theEnv Gen.ClassTable.cid_saml_NameID [] x (parseDoc theEnv Gen.ClassTable.cid_saml_NameID [] x) = true ∧
    (match parseDoc theEnv Gen.ClassTable.cid_saml_NameID [.element, .entityInternal] x with
     | .refused => true
     | _ => false) = true := by
  decide +kernel

end C12
