/-
  C09 — Issued assertions are scoped to the requester and accepted end to end.

  Statements are about `Idp.create` (the model of Server.create_authn_response and what it calls)
  for ALL configurations, arguments, policy dictionaries, identifier stores, clocks and attribute
  payloads, and about its composition with the shared SP model `Sp.process`.
  `d : Idp.Defaults` are the constants of the source; `Gen.IdpDefaults.defaults` is their regenerated
  value, for which the table lemmas at the top are re-checked on every run.
-/
import PysamlModel.Proofs.C09
import PysamlModel.Gen.IdpDefaults

namespace C09
open Idp C09P

variable {W : Type}

/-! ### regenerated-table lemmas -/

/-- Neither the Response nor the assertion is signed unless an argument or the configuration says so. -/
theorem C09_defaults_unsigned :
    Gen.IdpDefaults.defaults.signResponse = false ∧ Gen.IdpDefaults.defaults.signAssertion = false := ⟨rfl, rfl⟩

/-- The algorithms used when nobody names one are themselves on the allow-lists `Entity.sign` tests
    (so a defaulted, demanded Response signature is never refused). -/
theorem C09_default_algorithms_allowed :
    Gen.IdpDefaults.defaults.sigAllowed.contains Gen.IdpDefaults.defaults.sigAlg = true ∧
    Gen.IdpDefaults.defaults.digestAllowed.contains Gen.IdpDefaults.defaults.digestAlg = true := by decide

/-- The lifetime used when no policy names one is not negative. -/
theorem C09_default_lifetime_nonneg : 0 ≤ Gen.IdpDefaults.defaults.lifetime.secs := by decide

/-- The two NameID formats `get_nameid` treats specially are different formats. -/
theorem C09_special_formats_distinct : Gen.IdpDefaults.defaults.persistent ≠ Gen.IdpDefaults.defaults.email := by decide

/-- The status used when no `status=` is given is the Success the SP model tests for. -/
theorem C09_default_status_success : Gen.IdpDefaults.defaults.statusSuccess = successUri := by decide

/-- The three confirmation-method URIs the model distinguishes are pairwise different. -/
theorem C09_methods_distinct :
    Gen.IdpDefaults.defaults.bearer ≠ Gen.IdpDefaults.defaults.holderOfKey ∧
    Gen.IdpDefaults.defaults.bearer ≠ Gen.IdpDefaults.defaults.senderVouches ∧
    Gen.IdpDefaults.defaults.holderOfKey ≠ Gen.IdpDefaults.defaults.senderVouches := by decide

/-! ### argument > configuration > default -/

theorem C09_precedence (arg cfg : Option Bool) (dflt : Bool) :
    (∀ b, arg = some b → resolve arg cfg dflt = b) ∧
    (∀ c, arg = none → cfg = some c → resolve arg cfg dflt = c) ∧
    (arg = none → cfg = none → resolve arg cfg dflt = dflt) := by
  refine ⟨?_, ?_, ?_⟩
  · intro b h; subst h; rfl
  · intro c h1 h2; subst h1; subst h2; rfl
  · intro h1 h2; subst h1; subst h2; rfl

theorem C09_algorithm_precedence (arg cfg : Option String) (dflt : String) :
    (∀ s, arg = some s → s ≠ "" → orElse arg (orElse cfg dflt) = s) ∧
    (∀ s, truthy arg = false → cfg = some s → s ≠ "" → orElse arg (orElse cfg dflt) = s) ∧
    (truthy arg = false → truthy cfg = false → orElse arg (orElse cfg dflt) = dflt) := by
  refine ⟨?_, ?_, ?_⟩
  · intro s h hs; subst h; simp [orElse, hs]
  · intro s h1 h2 hs; subst h2
    cases arg with
    | none => simp [orElse, hs]
    | some t =>
      have : t = "" := by simpa [truthy] using h1
      simp [orElse, hs, this]
  · intro h1 h2
    have e1 : orElse cfg dflt = dflt := by
      cases cfg with
      | none => rfl
      | some t => have : t = "" := by simpa [truthy] using h2
                  simp [orElse, this]
    cases arg with
    | none => simpa [orElse] using e1
    | some t =>
      have : t = "" := by simpa [truthy] using h1
      simpa [orElse, this] using e1

/-! ### scoping: what every created Response looks like -/

/-- Exactly one assertion is issued. -/
theorem C09_one_assertion {d : Defaults} {cfg : Cfg} {a : Args W} {r : Issued W} (h : create d cfg a = .ok r) :
    ∃ x, r.assertions = [x] := by
  obtain ⟨nid, _, hr, _⟩ := create_ok_inv h
  exact ⟨assertionOf d cfg a nid, by rw [hr]; rfl⟩

/-- Response and assertion name the provider as issuer. -/
theorem C09_issuer {d : Defaults} {cfg : Cfg} {a : Args W} {r : Issued W} (h : create d cfg a = .ok r) :
    r.issuer = some cfg.entityId ∧ ∀ x ∈ r.assertions, x.issuer = some cfg.entityId := by
  obtain ⟨nid, _, hr, _⟩ := create_ok_inv h
  subst hr
  refine ⟨rfl, ?_⟩
  intro x hx
  simp only [responseOf, List.mem_singleton] at hx
  subst hx; rfl

/-- The audience is restricted to the requesting entity: one restriction, one audience. -/
theorem C09_audience {d : Defaults} {cfg : Cfg} {a : Args W} {r : Issued W} (h : create d cfg a = .ok r) :
    ∀ x ∈ r.assertions, x.audiences = [[a.spEntityId]] := by
  obtain ⟨nid, _, hr, _⟩ := create_ok_inv h
  subst hr
  intro x hx
  simp only [responseOf, List.mem_singleton] at hx
  subst hx; rfl

/-- Exactly one confirmation.  Its NotOnOrAfter is ALWAYS issue time + the policy lifetime for the
    requester (a preset one is overwritten); Method / Recipient / InResponseTo are bearer / consumer URL /
    request ID unless the caller's `farg=` tree presets that very field, in which case the preset value
    is used (`update_farg`: each is filled in iff not preset).  The Response answers the same request and,
    for a non-empty URL, is addressed to it. -/
theorem C09_confirmation {d : Defaults} {cfg : Cfg} {a : Args W} {r : Issued W} (h : create d cfg a = .ok r) :
    r.inResponseTo = some a.inResponseTo ∧ (a.destination ≠ "" → r.destination = some a.destination) ∧
    ∀ x ∈ r.assertions, ∃ c, x.confs = [c] ∧
      c.nooa = some (a.now + lifetimeOf d cfg a) ∧
      (a.farg.bind (·.method) = none → c.method = .bearer) ∧
      (a.farg.bind (·.recipient) = none → c.recipient = some a.destination) ∧
      (a.farg.bind (·.irt) = none → c.irt = some a.inResponseTo) ∧
      (∀ m, a.farg.bind (·.method) = some m → c.method = methodOf d m) ∧
      (∀ v, a.farg.bind (·.recipient) = some v → c.recipient = some v) ∧
      (∀ v, a.farg.bind (·.irt) = some v → c.irt = some v) := by
  obtain ⟨nid, _, hr, _⟩ := create_ok_inv h
  subst hr
  refine ⟨rfl, ?_, ?_⟩
  · intro hd; simp [responseOf, hd]
  · intro x hx
    simp only [responseOf, List.mem_singleton] at hx
    subst hx
    refine ⟨_, rfl, ?_⟩
    simp only [confOf, lifetimeFor_eq]
    cases hf : a.farg with
    | none => simp
    | some f => cases hm : f.method <;> cases hr : f.recipient <;> cases hi : f.irt <;> simp [hm, hr, hi]

/-- Without `farg=` (or with one that presets none of the three): THE bearer confirmation of the property. -/
theorem C09_confirmation_default {d : Defaults} {cfg : Cfg} {a : Args W} {r : Issued W} (h : create d cfg a = .ok r)
    (hf : a.farg = none) :
    ∀ x ∈ r.assertions, x.confs = [{ method := .bearer, recipient := some a.destination, irt := some a.inResponseTo,
                                     nb := none, nooa := some (a.now + lifetimeOf d cfg a) }] := by
  obtain ⟨nid, _, hr, _⟩ := create_ok_inv h
  subst hr
  intro x hx
  simp only [responseOf, List.mem_singleton] at hx
  subst hx
  simp [assertionOf, confOf, hf, lifetimeFor_eq]

/-- Issue instant = clock; Conditions window = [issue time, issue time + policy lifetime for the requester). -/
theorem C09_validity {d : Defaults} {cfg : Cfg} {a : Args W} {r : Issued W} (h : create d cfg a = .ok r) :
    r.issueInstant = a.now ∧
    ∀ x ∈ r.assertions, x.condNb = some a.now ∧ x.condNooa = some (a.now + lifetimeOf d cfg a) := by
  obtain ⟨nid, _, hr, _⟩ := create_ok_inv h
  subst hr
  refine ⟨rfl, ?_⟩
  intro x hx
  simp only [responseOf, List.mem_singleton] at hx
  subst hx
  simp only [assertionOf, lifetimeFor_eq, and_self]

/-- "The policy lifetime for that requester", spelled out: the requester's own entry wins over its
    registration authority's, that over the default entry; an entry without a lifetime (and no policy
    at all) means the source's default. -/
theorem C09_lifetime_precedence (d : Defaults) (cfg : Cfg) (a : Args W) (rs : List (String × Option PolicySpec))
    (hp : policyOf cfg a = some rs) :
    (∀ s, lookupSpec rs a.spEntityId = some s → lifetimeOf d cfg a = (s.lifetime.getD d.lifetime).secs) ∧
    (∀ ra s, lookupSpec rs a.spEntityId = none → cfg.ras.lookup a.spEntityId = some ra → lookupSpec rs ra = some s →
        lifetimeOf d cfg a = (s.lifetime.getD d.lifetime).secs) ∧
    (lookupSpec rs a.spEntityId = none → (cfg.ras.lookup a.spEntityId).bind (lookupSpec rs) = none →
        lifetimeOf d cfg a = (((defaultEntry rs).bind (·.lifetime)).getD d.lifetime).secs) := by
  unfold lifetimeOf specLifetime entryFor
  rw [hp]
  refine ⟨?_, ?_, ?_⟩
  · intro s h1; simp [h1]
  · intro ra s h1 h2 h3; simp [h1, h2, h3]
  · intro h1 h2; simp [h1, h2]

theorem C09_lifetime_unconfigured (d : Defaults) (cfg : Cfg) (a : Args W) (hp : policyOf cfg a = none) :
    lifetimeOf d cfg a = d.lifetime.secs := by
  unfold lifetimeOf specLifetime entryFor
  rw [hp]; rfl

/-- Signed exactly as resolved from argument > configuration > default, on the Response and on the
    assertion independently, with the algorithms argument > configuration > default. -/
theorem C09_signatures {d : Defaults} {cfg : Cfg} {a : Args W} {r : Issued W} (h : create d cfg a = .ok r) :
    r.sig = (if resolve a.signResponse cfg.signResponse d.signResponse then some (sigInfo d cfg a) else none) ∧
    ∀ x ∈ r.assertions,
      x.sig = (if resolve a.signAssertion cfg.signAssertion d.signAssertion then some (sigInfo d cfg a) else none) := by
  obtain ⟨nid, _, hr, _⟩ := create_ok_inv h
  subst hr
  refine ⟨rfl, ?_⟩
  intro x hx
  simp only [responseOf, List.mem_singleton] at hx
  subst hx; rfl

/-- A Response signature is only ever made with allow-listed algorithms. -/
theorem C09_response_signature_allowed {d : Defaults} {cfg : Cfg} {a : Args W} {r : Issued W} {i : SigInfo}
    (h : create d cfg a = .ok r) (hs : r.sig = some i) : i.sigAlg ∈ d.sigAllowed ∧ i.digestAlg ∈ d.digestAllowed := by
  obtain ⟨nid, _, hr, _, hallow⟩ := create_ok_inv h
  have hsig := (C09_signatures h).1
  rw [hs] at hsig
  cases hres : resolve a.signResponse cfg.signResponse d.signResponse with
  | false => simp [hres] at hsig
  | true =>
    simp only [hres, if_true, Option.some.injEq] at hsig
    obtain ⟨h1, h2⟩ := hallow hres
    rw [hsig]
    exact ⟨by simpa using h1, by simpa using h2⟩

/-- No Response is created only when an e-mail identifier is due but no domain is configured, the
    caller's `farg=` tree is malformed or presets holder-of-key (no key_info is ever supplied), or a
    Response signature is demanded with an algorithm outside the allow-lists. -/
theorem C09_refusal {d : Defaults} {cfg : Cfg} {a : Args W} {e : Refusal} (h : create d cfg a = .error e) :
    (e = .emailNoDomain ∧ a.nameId = none ∧ truthy cfg.domain = false) ∨
    (∃ f, a.farg = some f ∧ (f.malformed = true ∨ f.method = some d.holderOfKey)) ∨
    (resolve a.signResponse cfg.signResponse d.signResponse = true ∧
      (d.sigAllowed.contains (sigInfo d cfg a).sigAlg = false ∨ d.digestAllowed.contains (sigInfo d cfg a).digestAlg = false)) := by
  rcases create_error_inv h with hn | hfa | ⟨hs, halg⟩
  · obtain ⟨he, hnone, _, _, hdom⟩ := chooseNameId_error_inv hn
    exact Or.inl ⟨he, hnone, hdom⟩
  · right; left
    unfold fargRefusal at hfa
    cases hf : a.farg with
    | none => simp [hf] at hfa
    | some f =>
      refine ⟨f, rfl, ?_⟩
      simp only [hf] at hfa
      by_cases hm : f.malformed = true
      · exact Or.inl hm
      · right
        simp only [hm, if_false] at hfa
        by_cases hk : (f.method == some d.holderOfKey) = true
        · simpa using hk
        · simp [hk] at hfa
  · right; right
    refine ⟨hs, ?_⟩
    rcases halg with ⟨_, h1⟩ | ⟨_, h2⟩
    · exact Or.inl h1
    · exact Or.inr h2

/-! ### the NameID format -/

/-- FULL statement: whenever the caller does not hand in a NameID, the issued one has the requested
    format, else the policy-configured one. -/
def C09_nameid_format_full : Prop :=
  ∀ (d : Defaults) (cfg : Cfg) (a : Args Unit) (r : Issued Unit), create d cfg a = .ok r →
    ∀ x ∈ r.assertions, formatOk d cfg a x.nameId = true

/-- It holds whenever no stored identifier is reused for a request that names no format. -/
theorem C09_nameid_format_partial {d : Defaults} {cfg : Cfg} {a : Args W} {r : Issued W}
    (h : create d cfg a = .ok r) (hside : noStoredReuse a = true) :
    ∀ x ∈ r.assertions, formatOk d cfg a x.nameId = true := by
  obtain ⟨nid, hn, hr, _⟩ := create_ok_inv h
  subst hr
  intro x hx
  simp only [responseOf, List.mem_singleton] at hx
  subst hx
  unfold formatOk
  cases hnone : a.nameId with
  | some _ => rfl
  | none =>
    simp only [assertionOf]
    cases hreq : requestedFormat a with
    | some f =>
      simp only [beq_iff_eq]
      rcases chooseNameId_ok_inv hn hnone with ⟨rest, hf⟩ | ⟨_, hfmt⟩
      · exact findNameid_format (by rw [hf]; exact List.mem_cons_self) hreq
      · rw [hfmt, chosenFormat_requested hreq]
    | none =>
      have hempty : findNameid a = [] := by
        unfold noStoredReuse at hside
        simpa [hreq] using hside
      rcases chooseNameId_ok_inv hn hnone with ⟨rest, hf⟩ | ⟨_, hfmt⟩
      · rw [hempty] at hf; cases hf
      · simp only [Bool.or_eq_true, beq_iff_eq]
        right
        rw [hfmt, chosenFormat_policy hreq]
        rfl

/-- FIRST SENTENCE, in one statement: every Response `create` produces names the provider as issuer
    (Response and its single assertion), carries exactly one AudienceRestriction with the requester
    as only audience, exactly one confirmation — NotOnOrAfter = issue time + policy lifetime for the
    requester; bearer, Recipient = consumer URL, InResponseTo = request ID, each unless the caller's
    `farg=` presets that field —, the same expiry on
    the Conditions (which start at the issue time), signatures on Response / assertion exactly as
    argument > configuration > default resolve, with the algorithms argument > configuration >
    default, and (when no stored identifier is reused for a request that names no format, see
    `C09_nameid_format_counterexample`) the requested or policy-configured NameID format. -/
theorem C09_scoping {d : Defaults} {cfg : Cfg} {a : Args W} {r : Issued W} (h : create d cfg a = .ok r) :
    r.issuer = some cfg.entityId ∧ r.issueInstant = a.now ∧ r.inResponseTo = some a.inResponseTo ∧
    r.sig = (if resolve a.signResponse cfg.signResponse d.signResponse then some (sigInfo d cfg a) else none) ∧
    ∃ x, r.assertions = [x] ∧
      x.issuer = some cfg.entityId ∧
      x.audiences = [[a.spEntityId]] ∧
      (∃ c, x.confs = [c] ∧ c.nooa = some (a.now + lifetimeOf d cfg a) ∧
        (a.farg.bind (·.method) = none → c.method = .bearer) ∧
        (a.farg.bind (·.recipient) = none → c.recipient = some a.destination) ∧
        (a.farg.bind (·.irt) = none → c.irt = some a.inResponseTo)) ∧
      x.condNb = some a.now ∧ x.condNooa = some (a.now + lifetimeOf d cfg a) ∧
      x.sig = (if resolve a.signAssertion cfg.signAssertion d.signAssertion then some (sigInfo d cfg a) else none) ∧
      (noStoredReuse a = true → formatOk d cfg a x.nameId = true) := by
  obtain ⟨x, hx⟩ := C09_one_assertion h
  have hmem : x ∈ r.assertions := by rw [hx]; exact List.mem_singleton.mpr rfl
  refine ⟨(C09_issuer h).1, (C09_validity h).1, (C09_confirmation h).1, (C09_signatures h).1, x, hx,
    (C09_issuer h).2 x hmem, C09_audience h x hmem,
    (by obtain ⟨c, hc, h1, h2, h3, h4, _⟩ := (C09_confirmation h).2.2 x hmem; exact ⟨c, hc, h1, h2, h3, h4⟩),
    ((C09_validity h).2 x hmem).1, ((C09_validity h).2 x hmem).2, (C09_signatures h).2 x hmem,
    fun hside => C09_nameid_format_partial h hside x hmem⟩

/-- … and fails without it: request without NameIDPolicy, policy format persistent, the user already
    holds a transient identifier for this SP (from an earlier request that asked for one): the stored
    transient identifier is issued again. -/
theorem C09_nameid_format_counterexample : ¬ C09_nameid_format_full := by
  intro hfull
  let d : Defaults := { signResponse := false, signAssertion := false, sigAlg := "s", digestAlg := "d", sigAllowed := ["s"],
                        digestAllowed := ["d"], lifetime := { hours := 1 }, nameidFormat := "t", persistent := "p", email := "e",
                        bearer := "b", holderOfKey := "h", senderVouches := "v", statusSuccess := "ok" }
  let cfg : Cfg := { entityId := "idp", policy := some [("default", some { nameidFormat := some "p" })] }
  let a : Args Unit := { inResponseTo := "r2", destination := "u", spEntityId := "sp", userid := "u1",
                         stored := [{ format := some "t", spNameQualifier := some "sp", nameQualifier := some "idp", text := "T1" }],
                         attrs := () }
  have hc : specFormat d cfg a (create d cfg a) = false := by decide
  cases hr : create d cfg a with
  | error e => rw [hr] at hc; cases hc
  | ok r =>
    rw [hr] at hc
    have : specFormat d cfg a (.ok r) = true := List.all_eq_true.mpr (hfull d cfg a r hr)
    rw [hc] at this
    cases this

/-! ### the model meets the specification the driver evaluates -/

/-- Every clause but the NameID format, for all inputs (given the table's `sign_* = False` defaults). -/
theorem C09_core_meets_spec (d : Defaults) (cfg : Cfg) (a : Args W)
    (hd : d.signResponse = false ∧ d.signAssertion = false) : specCore d cfg a (create d cfg a) = true := by
  cases h : create d cfg a with
  | error e => rfl
  | ok r =>
    obtain ⟨nid, _, hr, _⟩ := create_ok_inv h
    subst hr
    have hsigR : sigAsDemanded (demanded a.signResponse cfg.signResponse) (demandedAlg a.signAlg cfg.signingAlg)
        (demandedAlg a.digestAlg cfg.digestAlg)
        (if resolve a.signResponse cfg.signResponse d.signResponse then some (sigInfo d cfg a) else none) = true := by
      rw [demanded_eq_resolve, hd.1]
      cases resolve a.signResponse cfg.signResponse false
      · rfl
      · simp [sigAsDemanded, sigInfo, demandedAlg_all]
    have hsigA : sigAsDemanded (demanded a.signAssertion cfg.signAssertion) (demandedAlg a.signAlg cfg.signingAlg)
        (demandedAlg a.digestAlg cfg.digestAlg)
        (if resolve a.signAssertion cfg.signAssertion d.signAssertion then some (sigInfo d cfg a) else none) = true := by
      rw [demanded_eq_resolve, hd.2]
      cases resolve a.signAssertion cfg.signAssertion false
      · rfl
      · simp [sigAsDemanded, sigInfo, demandedAlg_all]
    have hconf : confsOk a (lifetimeOf d cfg a) [confOf d a (a.now + lifetimeOf d cfg a)] = true := by
      unfold confsOk confDataOk preset confOf
      cases hf : a.farg with
      | none => simp
      | some f =>
        cases hm : f.method <;> cases hr : f.recipient <;> cases hi : f.irt <;> simp [hm, hr, hi]
    simp only [specCore, responseOf, assertionOf, assertionCoreOk, signaturesOk, lifetimeFor_eq, hsigR, hsigA, hconf,
      List.all_cons, List.all_nil, List.length_singleton]
    simp

theorem C09_format_meets_spec_partial (d : Defaults) (cfg : Cfg) (a : Args W) (hside : noStoredReuse a = true) :
    specFormat d cfg a (create d cfg a) = true := by
  cases h : create d cfg a with
  | error e => rfl
  | ok r =>
    simp only [specFormat]
    exact List.all_eq_true.mpr (C09_nameid_format_partial h hside)

/-- `spec (model input) = true`: the first sentence of the property, for the regenerated defaults. -/
theorem C09_model_meets_spec (cfg : Cfg) (a : Args W) (hside : noStoredReuse a = true) :
    specScoping Gen.IdpDefaults.defaults cfg a (create Gen.IdpDefaults.defaults cfg a) = true := by
  unfold specScoping
  rw [C09_core_meets_spec _ cfg a C09_defaults_unsigned, C09_format_meets_spec_partial _ cfg a hside]
  rfl

/-! ### configuration forms and sibling entry points -/

/-- For every form whose meaning is not in doubt the code's reading (`load_special` + truthiness) is the
    demanded one; in particular the documented textual forms. -/
theorem C09_config_forms (v : CfgVal) (h : formDefined v = true) : loadBool v = cfgReading v := by
  cases v with
  | unset => rfl
  | bool b => rfl
  | int n => rfl
  | str s =>
    simp only [formDefined, Bool.or_eq_true, beq_iff_eq] at h
    rcases h with ((h | h) | h) | h <;> subst h <;> decide

theorem C09_config_textual_forms :
    loadBool (.str "true") = some true ∧ loadBool (.str "false") = some false ∧
    loadBool (.bool true) = some true ∧ loadBool (.bool false) = some false ∧ loadBool .unset = none := by decide

/-- The sibling entry points are `create_authn_response` on the forwarded arguments, and forwarding is
    the identity when the parameters they do not forward are at their defaults. -/
theorem C09_sibling_entry_points (d : Defaults) (cfg : Cfg) (a : Args W) :
    createVia .authnResponse d cfg a = create d cfg a ∧
    createVia .authnRequestResponse d cfg a = create d cfg (forward .authnRequestResponse a) ∧
    (a.farg = none → a.status = none → a.releasePolicy = none → a.pefim = false → a.bestEffort = none →
        forward .authnRequestResponse a = a) ∧
    (a.farg = none → a.status = none → a.releasePolicy = none → a.pefim = false → a.bestEffort = none →
        a.sessionNooa = none → forward .ecp a = a) ∧
    (∀ r, createVia .ecp d cfg a = .ok r → create d cfg (forward .ecp a) = .ok r ∧ isSigned r = false) := by
  refine ⟨?_, ?_, ?_, ?_, ?_⟩
  · unfold createVia forward
    cases create d cfg a <;> simp
  · unfold createVia
    cases create d cfg (forward .authnRequestResponse a) <;> simp
  · intro h1 h2 h3 h4 h5
    cases a; simp_all [forward]
  · intro h1 h2 h3 h4 h5 h6
    cases a; simp_all [forward]
  · intro r h
    unfold createVia at h
    cases hc : create d cfg (forward .ecp a) with
    | error x => simp [hc] at h
    | ok r' =>
      simp only [hc] at h
      cases hs : isSigned r' with
      | true => simp [hs] at h
      | false => simp [hs] at h; exact ⟨by rw [h], by rw [← h]; exact hs⟩

/-- Whatever an entry point returns satisfies the scoping clauses for the arguments it forwards. -/
theorem C09_entry_points_meet_spec (e : Entry) (d : Defaults) (cfg : Cfg) (a : Args W)
    (hd : d.signResponse = false ∧ d.signAssertion = false) :
    specCore d cfg (forward e a) (createVia e d cfg a) = true := by
  have h := C09_core_meets_spec d cfg (forward e a) hd
  unfold createVia
  cases hc : create d cfg (forward e a) with
  | error x => rfl
  | ok r =>
    rw [hc] at h
    simp only []
    by_cases hs : (e == Entry.ecp && isSigned r) = true
    · rw [if_pos hs]; rfl
    · rw [if_neg hs]; exact h

/-! ### end to end -/

/-- SECOND SENTENCE.  Whatever Response the IdP model creates, a service provider built from the same
    metadata (it trusts the IdP's key, is the requester, owns the consumer URL for the binding used,
    has the request outstanding), whose signature options are met by what arguments/configuration
    demand, at a clock inside the issued windows (± its skew), accepts it — `Sp.process` yields
    `.identity` — and reports the issuer, the issued NameID, the `came_from` of its request, the
    expiry (SessionNotOnOrAfter if given and positive, else issue time + policy lifetime) and, for
    converters that round-trip the released attributes, exactly those attributes. -/
theorem C09_end_to_end {L : Type} (d : Defaults) (cfg : Cfg) (a : Args W) (s : SpSide) (r : Issued W)
    (conv : Conv L W) (released : L)
    (hd : d.signResponse = false ∧ d.signAssertion = false) (hst : d.statusSuccess = successUri)
    (hcreate : create d cfg a = .ok r)
    (hpre : e2ePre d cfg a s = true)
    (hround : conv.toLocal a.attrs = released) :
    ∃ o nid, endToEnd conv s.cfg s.env s.trusts r = (.identity o, some released) ∧
      (∃ x rest, r.assertions = x :: rest ∧ x.nameId = some nid) ∧
      o.nameId = some nid.text ∧
      o.issuer = Sp.pyStrip cfg.entityId ∧
      o.cameFrom = s.env.outstanding.lookup a.inResponseTo ∧
      o.notOnOrAfter = expectedExpiry d cfg a ∧
      o.cached = true := by
  obtain ⟨nid, _, hr, _⟩ := create_ok_inv hcreate
  subst hr
  -- take the precondition apart
  unfold e2ePre at hpre
  simp only [Bool.and_eq_true, Bool.or_eq_true, Bool.not_eq_true', decide_eq_true_eq, bne_iff_ne, ne_eq, beq_iff_eq] at hpre
  obtain ⟨⟨⟨⟨⟨⟨⟨⟨⟨⟨⟨⟨⟨⟨⟨⟨⟨⟨htrust, hbind⟩, hasync⟩, hneutral⟩, haudne⟩, haudme⟩, hdestne⟩, hdestmine⟩, hout⟩, hwr⟩, hwa⟩, hwe⟩, hauthn⟩,
    hlife⟩, hprem⟩, hexp⟩, hilow⟩, hihigh⟩, hsess⟩ := hpre
  obtain ⟨cf, hcf⟩ := Option.isSome_iff_exists.mp hout
  obtain ⟨x, hax, hclass⟩ : ∃ x, a.authn = some x ∧ truthy x.classRef = true := by
    cases hx : a.authn with
    | none => simp [hx] at hauthn
    | some x => exact ⟨x, rfl, by simpa [hx] using hauthn⟩
  have hlifeEq := lifetimeFor_eq d cfg a
  have hacc : Accepts s.cfg s.env (scopedOf d cfg a nid) cf :=
    { bindingOk := hbind
      asynchop := hasync
      audNonempty := haudne
      audMe := haudme
      destNonempty := hdestne
      destMine := hdestmine
      outstanding := hcf
      wantResp := by
        intro hw
        rcases hwr with h | h
        · rw [hw] at h; cases h
        · simpa [scopedOf, demanded_eq_resolve, hd.1] using h
      wantAssert := by
        intro hw
        rcases hwa with h | h
        · rw [hw] at h; cases h
        · simpa [scopedOf, demanded_eq_resolve, hd.2] using h
      wantEither := by
        intro hw
        rcases hwe with (h | h) | h
        · rw [hw] at h; cases h
        · exact Or.inl (by simpa [scopedOf, demanded_eq_resolve, hd.1] using h)
        · exact Or.inr (by simpa [scopedOf, demanded_eq_resolve, hd.2] using h)
      lifeNonneg := by simpa [scopedOf, hlifeEq] using hlife
      notPremature := by simpa [scopedOf] using hprem
      notExpired := by simpa [scopedOf, hlifeEq] using hexp
      instantLow := by simpa [scopedOf] using hilow
      instantHigh := by simpa [scopedOf] using hihigh
      sessionOk := by
        intro t ht
        simp only [scopedOf] at ht
        simpa [ht] using hsess
      addrOk := by
        intro ht
        exact address_neutral hneutral (by simpa [scopedOf] using ht) }
  have hproc := process_scoped hacc
  rw [← toSp_responseOf hdestne hax hclass hneutral hst] at hproc
  refine ⟨{ nameId := some nid.text, issuer := Sp.pyStrip cfg.entityId, cameFrom := some cf,
            notOnOrAfter := expectedExpiry d cfg a, sessionIndex := some a.freshSession, cached := true },
    nid, ?_, ⟨assertionOf d cfg a nid, [], rfl, rfl⟩, rfl, rfl, hcf.symm, rfl, rfl⟩
  unfold endToEnd
  rw [htrust, hproc]
  simp [recovered, responseOf, assertionOf, hround, scopedOf, expectedExpiry, hlifeEq]
  cases a.sessionNooa <;> rfl

/-- `specE2E (model) = true` for all inputs (when no Response is created the checker is `true` by
    definition): the checker the driver evaluates on the real SP's outcome holds of the composed model. -/
theorem C09_e2e_meets_spec {L : Type} [BEq L] [LawfulBEq L] (d : Defaults) (cfg : Cfg) (a : Args W) (s : SpSide)
    (conv : Conv L W) (hd : d.signResponse = false ∧ d.signAssertion = false) (hst : d.statusSuccess = successUri)
    (r : Issued W) (hcreate : create d cfg a = .ok r) :
    specE2E d cfg a s (conv.toLocal a.attrs) (.ok r) (some (endToEnd conv s.cfg s.env s.trusts r)) = true := by
  unfold specE2E
  by_cases hpre : e2ePre d cfg a s = true
  · obtain ⟨o, nid, he, ⟨x, rest, hx, hxn⟩, hname, hiss, hcf, hexp, _⟩ :=
      C09_end_to_end d cfg a s r conv (conv.toLocal a.attrs) hd hst hcreate hpre rfl
    simp only [hpre, he, hx, hxn, hname, hiss, hcf, hexp]
    simp
  · simp [hpre]

/-! ### the PEFIM profile, the error Response, `issue` (round 5) -/

/-- Without `pefim` and with a usable identifier store `issue` IS `create`: every statement above carries over. -/
theorem C09_issue_plain (empty : W) (d : Defaults) (cfg : Cfg) (a : Args W) (hp : a.pefim = false)
    (hs : storeUsable a = true) : issue empty d cfg a = create d cfg a := by
  unfold storeUsable at hs
  unfold issue
  cases hf : a.storeFails <;> cases hn : a.nameId <;> simp_all

/-- The identifier store cannot be read and the caller hands no identifier in: whatever else is asked for
    (PEFIM or not), the outcome is the error Response. -/
theorem C09_issue_store_unreadable (empty : W) (d : Defaults) (cfg : Cfg) (a : Args W) (hs : storeUsable a = false) :
    issue empty d cfg a = errorResponse d cfg a := by
  unfold storeUsable at hs
  unfold issue
  cases hf : a.storeFails <;> cases hn : a.nameId <;> simp_all

/-- The error Response names the provider as issuer, answers the request at the clock's instant, carries NO
    assertion and the status Responder (not Success), and is signed iff argument-else-configuration says so,
    with allow-listed algorithms. -/
theorem C09_error_response {d : Defaults} {cfg : Cfg} {a : Args W} {r : Issued W} (h : errorResponse d cfg a = .ok r) :
    r.issuer = some cfg.entityId ∧ r.inResponseTo = some a.inResponseTo ∧ r.issueInstant = a.now ∧
    r.assertions = [] ∧ r.statusTop = statusResponder ∧ r.statusTop ≠ successUri ∧
    r.sig = (if demanded a.signResponse cfg.signResponse then some (sigInfo d cfg a) else none) ∧
    (∀ i, r.sig = some i → i.sigAlg ∈ d.sigAllowed ∧ i.digestAlg ∈ d.digestAllowed) := by
  have hdem : a.signResponse.getD (cfg.signResponse.getD false) = demanded a.signResponse cfg.signResponse := by
    cases a.signResponse <;> cases cfg.signResponse <;> rfl
  unfold errorResponse at h
  simp only [hdem] at h
  cases hs : demanded a.signResponse cfg.signResponse with
  | false =>
    simp only [hs] at h
    cases h
    simp [statusResponder, successUri]
  | true =>
    simp only [hs, if_true] at h
    split at h
    · cases h
    next h1 =>
      split at h
      · cases h
      next h2 =>
        cases h
        refine ⟨rfl, rfl, rfl, rfl, rfl, by simp [statusResponder, successUri], rfl, ?_⟩
        intro i hi
        simp only [if_true, Option.some.injEq] at hi
        subst hi
        exact ⟨by simpa using h1, by simpa using h2⟩

/-- A receiving SP — whatever its options, clock, outstanding requests and trust — never takes identity from
    an error Response. -/
theorem C09_error_response_refused {d : Defaults} {cfg : Cfg} {a : Args W} {r : Issued W}
    (h : errorResponse d cfg a = .ok r) (spCfg : Sp.Cfg) (env : Sp.Env) (trusts : Bool) :
    (Sp.process spCfg env (toSp trusts r)).isIdentity = false := by
  obtain ⟨_, _, _, hnone, hst, _⟩ := C09_error_response h
  have henv : Sp.verifyEnvelope spCfg env (toSp trusts r) = .ok false ∨
      ∃ e, Sp.verifyEnvelope spCfg env (toSp trusts r) = .error e := by
    unfold Sp.verifyEnvelope
    have hv : ((toSp trusts r).version != "2.0") = false := by simp [toSp]
    have hs : ((toSp trusts r).statusTop != "urn:oasis:names:tc:SAML:2.0:status:Success") = true := by
      simp [toSp, hst, statusResponder]
    simp only [hv, hs, Bool.false_eq_true, if_false, if_true]
    split
    · exact Or.inl rfl
    · split
      · exact Or.inl rfl
      · exact Or.inr ⟨_, rfl⟩
  have hver : ∀ req st, Sp.verify spCfg env req st (toSp trusts r) = .ok none ∨
      ∃ e, Sp.verify spCfg env req st (toSp trusts r) = .error e := by
    intro req st
    unfold Sp.verify
    rcases henv with h1 | ⟨e, h1⟩
    · rw [h1]; exact Or.inl rfl
    · rw [h1]; exact Or.inr ⟨_, rfl⟩
  have hp2 : ∀ st, (∃ b, Sp.pass2 spCfg env st (toSp trusts r) = .ok (none, b)) ∨
      ∃ e, Sp.pass2 spCfg env st (toSp trusts r) = .error e := by
    intro st
    unfold Sp.pass2
    rcases hver true st with h1 | ⟨e, h1⟩
    · rw [h1]; exact Or.inl ⟨true, rfl⟩
    · rw [h1]
      simp only []
      split
      · split
        · exact Or.inr ⟨_, rfl⟩
        · rcases hver false st with h2 | ⟨e', h2⟩
          · rw [h2]; exact Or.inl ⟨false, rfl⟩
          · rw [h2]; exact Or.inr ⟨_, rfl⟩
      · exact Or.inr ⟨_, rfl⟩
  unfold Sp.process
  split
  · rfl
  · split
    · rfl
    next cf rs _ =>
      rcases hp2 { cameFrom := cf } with ⟨b, h2⟩ | ⟨e, h2⟩
      · simp only [h2]
        split <;> rfl
      · simp only [h2]; rfl

/-- What `issue` returns under `pefim`: `create`'s Response reshaped, unless the requester requires an
    attribute the identity lacks and `best_effort` is off (then nothing usable is returned). -/
theorem C09_pefim_shape {empty : W} {d : Defaults} {cfg : Cfg} {a : Args W} {r : Issued W}
    (h : issue empty d cfg a = .ok r) (hp : a.pefim = true) (hs : storeUsable a = true) :
    ∃ r0, create d cfg a = .ok r0 ∧ r = pefimShape empty d cfg a r0 ∧
      (cfg.unmet.contains a.spEntityId = false ∨ bestEffortOf a = true) := by
  have hstore : (a.storeFails && a.nameId.isNone) = false := by
    unfold storeUsable at hs
    cases hf : a.storeFails <;> cases hn : a.nameId <;> simp_all
  unfold issue at h
  simp only [hstore, hp, if_true, Bool.false_eq_true, if_false] at h
  cases hc : create d cfg a with
  | error e => simp [hc] at h
  | ok r0 =>
    simp only [hc] at h
    split at h
    · cases h
    next hcond =>
      cases h
      refine ⟨r0, rfl, rfl, ?_⟩
      cases hu : cfg.unmet.contains a.spEntityId
      · exact Or.inl rfl
      · right
        cases hb : bestEffortOf a
        · exact absurd (by rw [hu, hb]; rfl) hcond
        · rfl

/-- FIRST SENTENCE under PEFIM.  The Response and its single assertion are `create`'s — issuer, audience, the
    confirmation with Recipient / InResponseTo / expiry, Conditions, signatures — except that the assertion
    carries no attributes but exactly one advice assertion, which is issued by the provider, restricted to the
    requester, valid for the policy lifetime, confirmed with that expiry (Recipient / InResponseTo absent unless
    preset), unsigned on its own, carries the released attributes, and is encrypted iff the requester publishes
    an encryption certificate. -/
theorem C09_pefim_scoping {empty : W} {d : Defaults} {cfg : Cfg} {a : Args W} {r : Issued W}
    (h : issue empty d cfg a = .ok r) (hp : a.pefim = true) (hs : storeUsable a = true) :
    r.issuer = some cfg.entityId ∧ r.issueInstant = a.now ∧ r.inResponseTo = some a.inResponseTo ∧
    r.sig = (if resolve a.signResponse cfg.signResponse d.signResponse then some (sigInfo d cfg a) else none) ∧
    ∃ x adv, r.assertions = [x] ∧ x.attrs = empty ∧ x.advice = [adv] ∧
      x.issuer = some cfg.entityId ∧ x.audiences = [[a.spEntityId]] ∧
      (∃ c, x.confs = [c] ∧ c.nooa = some (a.now + lifetimeOf d cfg a) ∧
        (a.farg.bind (·.method) = none → c.method = .bearer) ∧
        (a.farg.bind (·.recipient) = none → c.recipient = some a.destination) ∧
        (a.farg.bind (·.irt) = none → c.irt = some a.inResponseTo)) ∧
      x.condNb = some a.now ∧ x.condNooa = some (a.now + lifetimeOf d cfg a) ∧
      x.sig = (if resolve a.signAssertion cfg.signAssertion d.signAssertion then some (sigInfo d cfg a) else none) ∧
      adv.issuer = some cfg.entityId ∧ adv.audiences = [[a.spEntityId]] ∧
      adv.condNb = some a.now ∧ adv.condNooa = some (a.now + lifetimeOf d cfg a) ∧
      adv.nameId = none ∧ adv.authn = [] ∧ adv.sig = none ∧ adv.attrs = a.attrs ∧
      adv.encrypted = cfg.encCerts.contains a.spEntityId ∧
      (∃ c, adv.confs = [c] ∧ c.nooa = some (a.now + lifetimeOf d cfg a) ∧
        (a.farg.bind (·.method) = none → c.method = .bearer) ∧
        (a.farg.bind (·.recipient) = none → c.recipient = none) ∧
        (a.farg.bind (·.irt) = none → c.irt = none) ∧
        (∀ v, a.farg.bind (·.recipient) = some v → c.recipient = some v) ∧
        (∀ v, a.farg.bind (·.irt) = some v → c.irt = some v)) := by
  obtain ⟨r0, hc, hr, _⟩ := C09_pefim_shape h hp hs
  obtain ⟨hi, hinst, hirt, hsig, x, hx, hxi, haud, hconf, hnb, hnooa, hxsig, _⟩ := C09_scoping hc
  subst hr
  refine ⟨hi, hinst, hirt, hsig, { x with attrs := empty, advice := [adviceOf d cfg a] }, adviceOf d cfg a,
    by simp [pefimShape, hx], rfl, rfl, hxi, haud, hconf, hnb, hnooa, hxsig, rfl, rfl, rfl,
    by simp [adviceOf, lifetimeFor_eq], rfl, rfl, rfl, rfl, rfl, ?_⟩
  refine ⟨_, rfl, ?_⟩
  simp only [adviceConf, lifetimeFor_eq]
  cases hf : a.farg with
  | none => simp
  | some f => cases hm : f.method <;> cases hr : f.recipient <;> cases hi : f.irt <;> simp [hm, hr, hi]

/-- When `issue` creates nothing: `create` refuses (see `C09_refusal`), or the PEFIM advice cannot be built, or
    the error Response itself cannot be signed with the algorithms named. -/
theorem C09_issue_refusal {empty : W} {d : Defaults} {cfg : Cfg} {a : Args W} {e : Refusal}
    (h : issue empty d cfg a = .error e) :
    create d cfg a = .error e ∨
    (e = .adviceNotElement ∧ a.pefim = true ∧ cfg.unmet.contains a.spEntityId = true ∧ bestEffortOf a = false) ∨
    (storeUsable a = false ∧ errorResponse d cfg a = .error e) := by
  cases hs : storeUsable a with
  | false => right; right; exact ⟨rfl, by rw [← C09_issue_store_unreadable empty d cfg a hs]; exact h⟩
  | true =>
    cases hp : a.pefim with
    | false => left; rw [← C09_issue_plain empty d cfg a hp hs]; exact h
    | true =>
      have hstore : (a.storeFails && a.nameId.isNone) = false := by
        unfold storeUsable at hs
        cases hf : a.storeFails <;> cases hn : a.nameId <;> simp_all
      unfold issue at h
      simp only [hstore, hp, if_true, Bool.false_eq_true, if_false] at h
      cases hc : create d cfg a with
      | error e' => left; simp [hc] at h; rw [h]
      | ok r0 =>
        right; left
        simp only [hc] at h
        split at h
        next hcond =>
          cases h
          simp only [Bool.and_eq_true, Bool.not_eq_true'] at hcond
          exact ⟨rfl, rfl, hcond.1, hcond.2⟩
        · cases h

/-- `specCoreX (issue …) = true` for all inputs: error Response, PEFIM and plain. -/
theorem C09_issue_meets_spec (empty : W) (d : Defaults) (cfg : Cfg) (a : Args W)
    (hd : d.signResponse = false ∧ d.signAssertion = false) : specCoreX d cfg a (issue empty d cfg a) = true := by
  have hcore := C09_core_meets_spec d cfg a hd
  cases hs : storeUsable a with
  | false =>
    rw [C09_issue_store_unreadable empty d cfg a hs]
    cases he : errorResponse d cfg a with
    | error e => rfl
    | ok r =>
      obtain ⟨h1, h2, h3, h4, _, h6, h7, _⟩ := C09_error_response he
      simp only [specCoreX, h4, List.isEmpty_nil, if_true, errorResponseOk, h1, h2, h3, signaturesOk, h7, List.all_nil,
        Bool.and_true, beq_self_eq_true, Bool.true_and]
      have hne : (r.statusTop != successUri) = true := by simpa using h6
      rw [hne]
      cases hdem : demanded a.signResponse cfg.signResponse
      · simp [sigAsDemanded]
      · simp [sigAsDemanded, sigInfo, demandedAlg_all]
  | true =>
    cases hp : a.pefim with
    | false =>
      rw [C09_issue_plain empty d cfg a hp hs]
      cases hc : create d cfg a with
      | error e => rfl
      | ok r =>
        obtain ⟨nid, _, hr, _⟩ := create_ok_inv hc
        rw [hc] at hcore
        subst hr
        have hadv : (responseOf d cfg a nid).assertions.all (fun x => x.advice.all (adviceOk d cfg a)) = true := by
          simp [responseOf, assertionOf]
        have hne : (responseOf d cfg a nid).assertions.isEmpty = false := rfl
        unfold specCoreX
        simp only [hne, Bool.false_eq_true, if_false, hcore, hadv, Bool.and_self]
    | true =>
      cases hi : issue empty d cfg a with
      | error e => rfl
      | ok r =>
        obtain ⟨r0, hc, hr, _⟩ := C09_pefim_shape hi hp hs
        obtain ⟨nid, _, hr0, _⟩ := create_ok_inv hc
        rw [hc] at hcore
        subst hr0
        subst hr
        have hadv : adviceOk d cfg a (adviceOf d cfg a) = true := by
          unfold adviceOk adviceConfOk preset adviceOf adviceConf
          simp only [lifetimeFor_eq]
          cases hf : a.farg with
          | none => simp
          | some f => cases hr : f.recipient <;> cases hi : f.irt <;> simp [hr, hi]
        simp only [specCore, responseOf, assertionOf, List.all_cons, List.all_nil, List.length_singleton] at hcore
        simp only [specCoreX, specCore, pefimShape, responseOf, assertionOf, List.map_cons, List.map_nil, List.isEmpty_cons,
          Bool.false_eq_true, if_false, List.all_cons, List.all_nil, List.length_singleton, hadv, Bool.and_true]
        simpa [assertionCoreOk, signaturesOk] using hcore

/-- … and for every public entry point on the arguments it forwards. -/
theorem C09_issue_entry_points_meet_spec (empty : W) (e : Entry) (d : Defaults) (cfg : Cfg) (a : Args W)
    (hd : d.signResponse = false ∧ d.signAssertion = false) :
    specCoreX d cfg (forward e a) (issueVia empty e d cfg a) = true := by
  have h := C09_issue_meets_spec empty d cfg (forward e a) hd
  unfold issueVia
  cases hc : issue empty d cfg (forward e a) with
  | error x => rfl
  | ok r =>
    rw [hc] at h
    simp only []
    split
    · rfl
    · exact h

/-- SECOND SENTENCE under PEFIM: under the hypotheses of `C09_end_to_end` the SP accepts the Response and the
    application gets exactly the released attributes — from the advice assertion (opened with the SP's key when
    it is encrypted; the SP holds that key by assumption). -/
theorem C09_pefim_end_to_end {L : Type} (empty : W) (d : Defaults) (cfg : Cfg) (a : Args W) (s : SpSide) (r : Issued W)
    (conv : Conv L W) (released : L)
    (hd : d.signResponse = false ∧ d.signAssertion = false) (hst : d.statusSuccess = successUri)
    (hissue : issue empty d cfg a = .ok r) (hp : a.pefim = true) (hs : storeUsable a = true)
    (hpre : e2ePre d cfg a s = true)
    (hround : conv.toLocal a.attrs = released) :
    ∃ o nid, endToEndAdv conv s.cfg s.env s.trusts r = (.identity o, some released) ∧
      (∃ x rest, r.assertions = x :: rest ∧ x.nameId = some nid) ∧
      o.nameId = some nid.text ∧
      o.issuer = Sp.pyStrip cfg.entityId ∧
      o.cameFrom = s.env.outstanding.lookup a.inResponseTo ∧
      o.notOnOrAfter = expectedExpiry d cfg a := by
  obtain ⟨r0, hc, hr, _⟩ := C09_pefim_shape hissue hp hs
  obtain ⟨o, nid, he, ⟨x, rest, hx, hxn⟩, h1, h2, h3, h4, _⟩ :=
    C09_end_to_end d cfg a s r0 conv released hd hst hc hpre hround
  subst hr
  refine ⟨o, nid, ?_, ⟨{ x with attrs := empty, advice := [adviceOf d cfg a] }, _, by simp [pefimShape, hx]; rfl, hxn⟩,
    h1, h2, h3, h4⟩
  unfold endToEnd at he
  unfold endToEndAdv
  rw [toSp_pefimShape]
  have hproc : Sp.process s.cfg s.env (toSp s.trusts r0) = .identity o := by
    have := congrArg Prod.fst he
    simpa using this
  simp only [hproc]
  simp [recoveredAdv, pefimShape, hx, adviceOf, hround]

/-- `specE2EX (issue …) = true` for all inputs: the checker the driver evaluates on the real SP's outcome holds
    of the composed model — error Response (never identity), PEFIM and plain. -/
theorem C09_issue_e2e_meets_spec {L : Type} [BEq L] [LawfulBEq L] (empty : W) (d : Defaults) (cfg : Cfg) (a : Args W)
    (s : SpSide) (conv : Conv L W) (hd : d.signResponse = false ∧ d.signAssertion = false)
    (hst : d.statusSuccess = successUri) (r : Issued W) (hissue : issue empty d cfg a = .ok r) :
    specE2EX d cfg a s (conv.toLocal a.attrs) (.ok r) (some (endToEndAdv conv s.cfg s.env s.trusts r)) = true := by
  unfold specE2EX
  cases hs : storeUsable a with
  | false =>
    rw [C09_issue_store_unreadable empty d cfg a hs] at hissue
    have hno := C09_error_response_refused hissue s.cfg s.env s.trusts
    obtain ⟨_, _, _, hnone, _⟩ := C09_error_response hissue
    simp only [hnone, List.isEmpty_nil, Bool.not_true, Bool.false_or, Bool.not_false, Bool.true_or, Bool.and_true]
    unfold endToEndAdv
    cases hproc : Sp.process s.cfg s.env (toSp s.trusts r) with
    | identity o => rw [hproc] at hno; cases hno
    | noIdentity => rfl
    | rejected e => rfl
  | true =>
    cases hp : a.pefim with
    | false =>
      rw [C09_issue_plain empty d cfg a hp hs] at hissue
      obtain ⟨nid, _, hr, _⟩ := create_ok_inv hissue
      have hsame : endToEndAdv conv s.cfg s.env s.trusts r = endToEnd conv s.cfg s.env s.trusts r := by
        subst hr
        simp [endToEndAdv, endToEnd, recoveredAdv, recovered, responseOf, assertionOf]
      rw [hsame]
      have := C09_e2e_meets_spec d cfg a s conv hd hst r hissue
      have hne : r.assertions.isEmpty = false := by subst hr; rfl
      simp [hne, this]
    | true =>
      obtain ⟨r0, hc, hr, _⟩ := C09_pefim_shape hissue hp hs
      have hne : r.assertions.isEmpty = false := by
        obtain ⟨nid, _, hr0, _⟩ := create_ok_inv hc
        subst hr0; subst hr; rfl
      simp only [hne, Bool.not_false, Bool.true_or, Bool.true_and, Bool.not_true, Bool.false_or]
      unfold specE2E
      by_cases hpre : e2ePre d cfg a s = true
      · obtain ⟨o, nid, he, ⟨x, rest, hx, hxn⟩, hname, hiss, hcf, hexp⟩ :=
          C09_pefim_end_to_end empty d cfg a s r conv (conv.toLocal a.attrs) hd hst hissue hp hs hpre rfl
        simp only [hpre, he, hx, hxn, hname, hiss, hcf, hexp]
        simp
      · simp [hpre]

/-! ### non-vacuity -/

private def exD : Defaults :=
  { signResponse := false, signAssertion := false, sigAlg := "rsa-sha1", digestAlg := "sha1",
    sigAllowed := ["rsa-sha1", "rsa-sha256"], digestAllowed := ["sha1", "sha256"],
    lifetime := { hours := 1 }, nameidFormat := "transient", persistent := "persistent", email := "email",
    bearer := "bearer", holderOfKey := "hok", senderVouches := "sv", statusSuccess := successUri }
private def exCfg : Cfg :=
  { entityId := "idp", signAssertion := some true,
    policy := some [("sp", some { lifetime := some { minutes := 5 }, nameidFormat := some "persistent" }),
                    ("default", some { lifetime := some { minutes := 15 } })] }
private def exArgs : Args (List String) :=
  { inResponseTo := "r1", destination := "https://sp/acs", spEntityId := "sp", userid := "u",
    authn := some { classRef := some "pw", authnAuth := some "idp" }, signResponse := some true,
    signAlg := some "rsa-sha256", now := 1000, freshId := "F", freshSession := "S", attrs := ["givenName=A"] }
private def exSide : SpSide :=
  { cfg := { wantResp := true, wantAssert := true, entityId := "sp", returnAddrs := ["https://sp/acs"], skew := 60 },
    env := { now := 1290, outstanding := [("r1", "/came")] }, trusts := true }

-- a Response is created: signed on both levels with the argument's algorithm, lifetime 300 s from the requester's entry
example : (match create exD exCfg exArgs with
           | .ok r => r.sig == some { sigAlg := "rsa-sha256", digestAlg := "sha1" } &&
                      r.assertions.map (fun x => (x.sig, x.condNooa, x.audiences)) ==
                        [(some { sigAlg := "rsa-sha256", digestAlg := "sha1" }, some 1300, [["sp"]])]
           | .error _ => false) = true := by decide
-- the hypotheses of C09_end_to_end are satisfiable, and its conclusion is what evaluation gives
example : e2ePre exD exCfg exArgs exSide = true := by decide
example : (match create exD exCfg exArgs with
           | .ok r => (endToEnd ({ fromLocal := id, toLocal := id } : Conv (List String) (List String)) exSide.cfg exSide.env true r).1.isIdentity
           | .error _ => false) = true := by decide
-- one second after the window (+ skew) the same Response is refused; a foreign key is refused
example : (match create exD exCfg exArgs with
           | .ok r => Sp.process exSide.cfg { exSide.env with now := 1361 } (toSp true r)
           | .error _ => .noIdentity) = .rejected .expired := by decide
example : (match create exD exCfg exArgs with
           | .ok r => Sp.process exSide.cfg exSide.env (toSp false r)
           | .error _ => .noIdentity) = .rejected .sigBadResponse := by decide
-- refusals exist: disallowed algorithm with a demanded Response signature; e-mail format without a domain
example : (match create exD exCfg { exArgs with signAlg := some "rsa-md5" } with
           | .error e => some e | .ok _ => none) = some .sigAlgNotAllowed := by decide
example : (match create exD exCfg { exArgs with nameIdPolicy := some { format := some "email" } } with
           | .error e => some e | .ok _ => none) = some .emailNoDomain := by decide
-- a caller's tree that presets only the Address (or only the bearer Method) leaves the precondition true and the
-- Response accepted; presetting another Recipient does not
example : e2ePre exD exCfg { exArgs with farg := some { address := some "192.0.2.7" } } exSide = true := by decide
example : (match create exD exCfg { exArgs with farg := some { method := some "bearer" } } with
           | .ok r => (Sp.process exSide.cfg exSide.env (toSp true r)).isIdentity
           | .error _ => false) = true := by decide
example : e2ePre exD exCfg { exArgs with farg := some { recipient := some "https://else/acs" } } exSide = false := by decide
example : (match create exD exCfg { exArgs with farg := some { method := some "hok" } } with
           | .error e => some e | .ok _ => none) = some .hokNoKeyInfo := by decide
-- entry points: the request-response sibling gives the same Response; ECP refuses a signed one, wraps an unsigned one
example : (match createVia .ecp exD exCfg exArgs with | .error e => some e | .ok _ => none) = some .ecpSignedNotElement := by
  decide
example : (match createVia .ecp exD { exCfg with signAssertion := none } { exArgs with signResponse := none } with
           | .ok r => !isSigned r | .error _ => false) = true := by decide
example : formDefined (.str "False") = false ∧ loadBool (.str "False") = some true := by decide
-- the side condition of the partial format theorem is satisfiable and not trivial
example : noStoredReuse exArgs = true := by decide
example : noStoredReuse { exArgs with stored := [{ format := some "transient", spNameQualifier := some "sp", text := "T" }] } = false := by
  decide

-- PEFIM: the assertion carries no attributes; the advice assertion carries them, scoped to the requester, encrypted
-- iff the requester publishes an encryption certificate; the SP model accepts and the attributes come back
example : (match issue [] exD { exCfg with encCerts := ["sp"] } { exArgs with pefim := true } with
           | .ok r => r.assertions.map (fun x => (x.attrs, x.advice.map fun v => (v.encrypted, v.audiences, v.condNooa, v.attrs,
                        v.confs.map fun c => (c.recipient, c.irt, c.nooa)))) ==
                        [([], [(true, [["sp"]], some 1300, ["givenName=A"], [(none, none, some 1300)])])]
           | .error _ => false) = true := by decide
example : (match issue [] exD exCfg { exArgs with pefim := true } with
           | .ok r => (endToEndAdv ({ fromLocal := id, toLocal := id } : Conv (List String) (List String))
                        exSide.cfg exSide.env true r).2 == some ["givenName=A"] &&
                      r.assertions.all (fun x => x.advice.all (fun v => !v.encrypted))
           | .error _ => false) = true := by decide
example : storeUsable { exArgs with pefim := true } = true ∧ e2ePre exD exCfg { exArgs with pefim := true } exSide = true := by decide
-- PEFIM for a requester that requires an attribute nobody has: nothing usable unless best_effort
example : (match issue [] exD { exCfg with unmet := ["sp"] } { exArgs with pefim := true } with
           | .error e => some e | .ok _ => none) = some .adviceNotElement := by decide
example : (match issue [] exD { exCfg with unmet := ["sp"] } { exArgs with pefim := true, bestEffort := some true } with
           | .ok r => r.assertions.length == 1 | .error _ => false) = true := by decide
-- without pefim the same requester gets the plain Response (setup_assertion runs with best_effort=True)
example : (match issue [] exD { exCfg with unmet := ["sp"] } exArgs with
           | .ok r => r.assertions.map (fun x => (x.attrs, x.advice.length)) == [(["givenName=A"], 0)]
           | .error _ => false) = true := by decide
-- the identifier store cannot be read: an error Response (signed: the argument says so), which the SP refuses by status
example : storeUsable { exArgs with storeFails := true } = false := by decide
example : (match issue [] exD exCfg { exArgs with storeFails := true } with
           | .ok r => r.assertions.isEmpty && r.sig.isSome && r.statusTop == statusResponder &&
                      Sp.process exSide.cfg exSide.env (toSp true r) == .rejected (.status (some statusAuthnFailed))
           | .error _ => false) = true := by decide
-- … but not when the caller hands the identifier in
example : (match issue [] exD exCfg { exArgs with storeFails := true, nameId := some { text := "given" } } with
           | .ok r => r.assertions.length == 1 | .error _ => false) = true := by decide
-- the ECP entry point cannot wrap an error Response
example : (match issueVia [] .ecp exD { exCfg with signAssertion := none } { exArgs with signResponse := none, storeFails := true } with
           | .error e => some e | .ok _ => none) = some .ecpSignedNotElement := by decide

end C09
