/-
  C02 — Reported identity always comes from signature-covered content.

  What is proved (about the model of Model/Xsw.lean, i.e. relative to the stand-in's reading of
  xmlsec1 and to ideal digests/signatures): if `_check_signature` accepts an element that carries the
  node name its ID attribute is registered for (`htag` — pysaml2 always passes the class name of the
  element it checks) and that element's own, single ds:Signature child is the first ds:Signature in
  document order below it (`OwnSigFirst` — what a schema-ordered document satisfies), then the SignatureValue is the
  key-holder's signature over exactly that Signature's SignedInfo, whose single Reference names the
  element's own ID and whose DigestValue is the digest of exactly the element's content minus that
  signature.  Everything pysaml2 reports is harvested from that element, so it is covered.
  That the registered ID resolves to the checked element itself is not assumed: it is the lemma
  `Xsw.registerIds_resolves` (the traversal lists every reachable node; a repeated ID value makes
  registration fail, so the ID of the element can only map to the element's own path).

  The full statement without `OwnSigFirst` is FALSE of the model and of the implementation
  (signature wrapping, known finding C02/xsw-first-signature-not-own): `C02_counterexample`.
-/
import PysamlModel.Proofs.Xsw
import PysamlModel.Spec.C02

namespace C02
open Xsw

/-- The Algorithm attribute of a ds:Transform. -/
def algOf (t : XNode) : String := (t.attr "Algorithm").getD ""

/-- The element's own signature is what both xmlsec1 and the object model look at. -/
structure OwnSigFirst (item sig si : XNode) (j k : Nat) : Prop where
  /-- the first ds:Signature in document order below the element is its child number `j` … -/
  first : (preorder item []).find? (fun p => (nodeAt item p).map (·.tag) == some dsSignature) = some [j]
  sigAt : item.kids[j]? = some sig
  /-- … which is also the one the object model keeps (the last ds:Signature child) -/
  lastSig : lastChild item dsSignature = some (j, sig)
  /-- its first and last ds:SignedInfo children coincide -/
  firstSI : firstChild sig dsSignedInfo = some (k, si)
  lastSI : lastChild sig dsSignedInfo = some (k, si)
  /-- xmlsec1 (all descendant Transforms) and the object model (children of the last Transforms)
      see the same transform list -/
  transformsView : ∀ ref ∈ childrenWith si dsReference,
    (descendantsWith ref dsTransform).map (fun (t : XNode) => (t.attr "Algorithm").getD "") =
      (match lastChild ref dsTransforms with
       | some (_, ts) => (childrenWith ts dsTransform).map (fun (t : XNode) => (t.attr "Algorithm").getD "")
       | none => [])

theorem lookup_find (ids : List (String × Path)) (id : String) (p : Path) (h : ids.lookup id = some p) :
    (ids.find? (fun e => ("#" ++ id) == "#" ++ e.1)).map (·.2) = some p := by
  induction ids with
  | nil => simp [List.lookup] at h
  | cons e rest ih =>
    obtain ⟨i, q⟩ := e
    simp only [List.lookup] at h
    simp only [List.find?]
    by_cases hi : id = i
    · subst hi
      simp only [beq_self_eq_true] at h
      simp [h]
    · have hne : (id == i) = false := by simpa using hi
      rw [hne] at h
      have hne2 : (("#" ++ id) == "#" ++ i) = false := by
        apply beq_eq_false_iff_ne.mpr
        intro hh; exact hi (hash_cancel _ _ hh)
      simp only [hne2]
      exact ih h

/-- C02 (partial, under `OwnSigFirst`): what an accepted signature check establishes for an element
    that has the registered node name (`htag`). -/
theorem C02_covered_partial (doc item sig si : XNode) (itemPath : Path) (nodeName : String) (key : Nat)
    (schemaOk : Bool) (j k : Nat)
    (hitem : nodeAt doc itemPath = some item)
    (htag : item.tag = nodeName)
    (hown : OwnSigFirst item sig si j k)
    (hchk : checkSignature doc itemPath nodeName key schemaOk = true) :
    ∃ id ref dv sv,
      item.attr "ID" = some id ∧ childrenWith si dsReference = [ref] ∧ ref.attr "URI" = some ("#" ++ id) ∧
      firstChild ref dsDigestValue = some dv ∧ valueKids dv.2 = [XNode.digest (removeAt item [j])] ∧
      firstChild sig dsSignatureValue = some sv ∧ valueKids sv.2 = [XNode.sigval key si] := by
  unfold checkSignature at hchk
  rw [hitem] at hchk
  simp only [Bool.and_eq_true] at hchk
  obtain ⟨⟨_, hval⟩, hid⟩ := hchk
  cases hidv : item.attr "ID" with
  | none => simp [hidv] at hid
  | some id =>
    rw [hidv] at hid
    simp only at hid
    -- validators, on the object-model view
    unfold validatorsOk at hval
    rw [hown.lastSig] at hval
    simp only at hval
    rw [hown.lastSI] at hval
    simp only at hval
    cases hrefs : childrenWith si dsReference with
    | nil => simp [hrefs] at hval
    | cons ref more =>
      cases more with
      | cons r2 r3 => simp [hrefs] at hval
      | nil =>
        rw [hrefs] at hval
        simp only [Bool.and_eq_true] at hval
        obtain ⟨⟨⟨⟨⟨⟨hidOk, _⟩, _⟩, _⟩, _⟩, henv⟩, _⟩ := hval
        rw [hidv] at hidOk
        cases huri : ref.attr "URI" with
        | none => simp [huri] at hidOk
        | some u =>
          rw [huri] at hidOk
          simp only [Bool.and_eq_true, beq_iff_eq] at hidOk
          have hu : u = "#" ++ id := hidOk.1
          subst hu
          -- xmlsec's verification
          unfold xmlsecVerify at hid
          cases hreg : registerIds doc nodeName with
          | none => simp [hreg] at hid
          | some ids =>
            rw [hreg] at hid
            simp only at hid
            have hlk := registerIds_resolves doc item itemPath nodeName ids id hitem htag hidv hreg
            rw [hlk] at hid
            simp only at hid
            rw [hitem] at hid
            simp only at hid
            rw [hown.first] at hid
            simp only at hid
            have hsig : nodeAt doc (itemPath ++ [j]) = some sig := by
              rw [nodeAt_append, hitem]
              simp [nodeAt, hown.sigAt]
            rw [hsig] at hid
            simp only at hid
            rw [hown.firstSI] at hid
            simp only at hid
            rw [hrefs] at hid
            simp only [List.isEmpty_cons, Bool.not_false, Bool.true_and, List.all_cons, List.all_nil, Bool.and_true,
              Bool.and_eq_true] at hid
            obtain ⟨href, hsv⟩ := hid
            rw [huri] at href
            simp only [Option.getD_some] at href
            have hne : (("#" ++ id) == "") = false := by
              apply beq_eq_false_iff_ne.mpr
              intro hh
              have := congrArg String.length hh
              simp [String.length_append] at this
            rw [hne] at href
            simp only [Bool.false_eq_true, if_false] at href
            rw [lookup_find ids id itemPath hlk] at href
            simp only [Bool.and_eq_true] at href
            obtain ⟨_, hdig⟩ := href
            rw [hitem] at hdig
            simp only at hdig
            -- the enveloped transform is applied: both views of the transform list agree
            have hview := hown.transformsView ref (by rw [hrefs]; simp)
            have henv' : ((descendantsWith ref dsTransform).map (fun (t : XNode) => (t.attr "Algorithm").getD "")).contains algEnveloped = true := by
              rw [hview]; exact henv
            rw [henv'] at hdig
            have hpre : isPrefixPath itemPath (itemPath ++ [j]) = true := by
              unfold isPrefixPath
              exact List.isPrefixOf_iff_prefix.mpr (List.prefix_append _ _)
            rw [hpre] at hdig
            simp only [if_true, List.drop_left', and_self] at hdig
            cases hdv : firstChild ref dsDigestValue with
            | none => simp [hdv] at hdig
            | some dv =>
              rw [hdv] at hdig
              simp only at hdig
              cases hsvv : firstChild sig dsSignatureValue with
              | none => simp [hsvv] at hsv
              | some sv =>
                rw [hsvv] at hsv
                simp only at hsv
                exact ⟨id, ref, dv, sv, rfl, rfl, huri, hdv, list_beq_sound _ _ hdig, rfl, list_beq_sound _ _ hsv⟩

/-- The same conclusion through the decidable predicate the counterexample below refutes. -/
theorem C02_covered_partial_b (doc item sig si : XNode) (itemPath : Path) (nodeName : String) (key : Nat)
    (schemaOk : Bool) (j k : Nat)
    (hitem : nodeAt doc itemPath = some item)
    (htag : item.tag = nodeName)
    (hown : OwnSigFirst item sig si j k)
    (hchk : checkSignature doc itemPath nodeName key schemaOk = true) :
    coveredB item key = true := by
  obtain ⟨id, ref, dv, sv, hid, hrefs, huri, hdv, hdig, hsv, hsig⟩ :=
    C02_covered_partial doc item sig si itemPath nodeName key schemaOk j k hitem htag hown hchk
  unfold coveredB
  apply List.any_eq_true.mpr
  refine ⟨(sig, j), List.mem_zipIdx_iff_getElem?.mpr hown.sigAt, ?_⟩
  have hsigtag : (sig.tag == dsSignature) = true := by
    have := hown.lastSig
    unfold lastChild at this
    simp only [Option.map_eq_some_iff] at this
    obtain ⟨q, hq, hqe⟩ := this
    have hp := List.find?_some hq
    cases hqe
    exact hp
  simp only [hsigtag, Bool.true_and, hown.firstSI, hid, Bool.and_eq_true]
  refine ⟨?_, ?_⟩
  · apply List.any_eq_true.mpr
    refine ⟨ref, by rw [hrefs]; simp, ?_⟩
    simp only [huri, beq_self_eq_true, Bool.true_and, hdv]
    rw [hdig]; exact list_beq_refl _
  · simp only [hsv]
    rw [hsig]; exact list_beq_refl _

/-- The full statement: acceptance alone implies coverage. -/
def C02_full : Prop :=
  ∀ (doc item : XNode) (itemPath : Path) (nodeName : String) (key : Nat),
    nodeAt doc itemPath = some item → checkSignature doc itemPath nodeName key true = true → coveredB item key = true

/-! ### concrete documents: a genuinely signed Response (non-vacuity) and the wrapping attack -/

private def tResponse := "{urn:oasis:names:tc:SAML:2.0:protocol}Response"
private def el (t : String) (a : List (String × String)) (k : List XNode) : XNode := .elem t a k
private def statusOk : XNode := el "Status" [] [el "StatusCode" [("Value", "Success")] []]
private def assertion (who : String) : XNode := el "Assertion" [("ID", "a1")] [el "NameID" [] [.text who]]

private def signedInfo (uri : String) (content : XNode) : XNode :=
  el dsSignedInfo [] [
    el dsC14nMethod [("Algorithm", algExcC14n)] [],
    el dsReference [("URI", uri)] [
      el dsTransforms [] [el dsTransform [("Algorithm", algEnveloped)] [], el dsTransform [("Algorithm", algExcC14n)] []],
      el dsDigestValue [] [.digest content]]]

private def signature (uri : String) (content : XNode) (key : Nat) : XNode :=
  el dsSignature [] [signedInfo uri content, el dsSignatureValue [] [.sigval key (signedInfo uri content)]]

/-- what the identity provider signed: the Response without its signature -/
private def origContent : XNode := el tResponse [("ID", "orig")] [statusOk, assertion "alice"]
/-- the genuinely signed Response -/
private def genuineDoc : XNode :=
  el tResponse [("ID", "orig")] [signature "#orig" origContent 1, statusOk, assertion "alice"]

example : checkSignature genuineDoc [] tResponse 1 true = true := by decide
example : coveredB genuineDoc 1 = true := by decide
example : checkSignature genuineDoc [] tResponse 2 true = false := by decide       -- another key
/-- the hypotheses of `C02_covered_partial` are satisfiable: the element has the registered name … -/
example : nodeAt genuineDoc [] = some genuineDoc ∧ genuineDoc.tag = tResponse := ⟨rfl, rfl⟩
/-- … its registered ID resolves to its own path (an instance of `registerIds_resolves`) … -/
example : ∃ ids, registerIds genuineDoc tResponse = some ids ∧ ids.lookup "orig" = some [] := by
  cases h : registerIds genuineDoc tResponse with
  | none => exact absurd h (by decide)
  | some ids => exact ⟨ids, rfl, registerIds_resolves genuineDoc genuineDoc [] tResponse ids "orig" rfl rfl rfl h⟩
/-- … and its own signature comes first -/
example : OwnSigFirst genuineDoc (signature "#orig" origContent 1) (signedInfo "#orig" origContent) 0 0 :=
  { first := by decide, sigAt := rfl, lastSig := rfl, firstSI := rfl, lastSI := rfl,
    transformsView := by
      intro ref href
      have : ref = el dsReference [("URI", "#orig")] [
          el dsTransforms [] [el dsTransform [("Algorithm", algEnveloped)] [], el dsTransform [("Algorithm", algExcC14n)] []],
          el dsDigestValue [] [.digest origContent]] := by
        simp [childrenWith, signedInfo, el, XNode.kids, XNode.tag, dsReference, dsC14nMethod] at href
        exact href
      subst this
      decide }

/-- the wrapping attack (known finding C02/xsw-first-signature-not-own): the genuine signature is kept
    FIRST, a second Signature naming the new ID comes LAST, the signed original hides in StatusDetail -/
private def evilDoc : XNode :=
  el tResponse [("ID", "evil")] [
    signature "#orig" origContent 1,
    el dsSignature [] [signedInfo "#evil" (.junk "x"), el dsSignatureValue [] [.junk "y"]],
    el "Status" [] [el "StatusCode" [("Value", "Success")] [], el "StatusDetail" [] [origContent]],
    assertion "mallory"]

theorem C02_counterexample : ¬ C02_full := by
  intro h
  have hacc : checkSignature evilDoc [] tResponse 1 true = true := by decide
  have := h evilDoc evilDoc [] tResponse 1 rfl hacc
  have hcov : coveredB evilDoc 1 = false := by decide
  rw [hcov] at this
  cases this

end C02
