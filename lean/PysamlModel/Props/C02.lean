/-
  C02 — Reported identity always comes from signature-covered content.

  What is proved (about the model of Model/Xsw.lean, i.e. relative to the stand-in's reading of
  xmlsec1 and to ideal digests/signatures): if `_check_signature` accepts an element that carries the
  node name its ID attribute is registered for (`htag` — pysaml2 always passes the class name of the
  element it checks) and that element's own, single ds:Signature child is the first ds:Signature in
  document order below it (`OwnSigFirst` — what a schema-ordered document satisfies), then the SignatureValue is the
  key-holder's signature over exactly that Signature's SignedInfo, whose single Reference names the
  element's own ID and whose DigestValue is the digest of exactly the element's content minus that
  signature.  Everything pysaml2 reports is harvested from that element, so it is covered.
  That the registered ID resolves to the checked element itself is not assumed: it is the lemma
  `Xsw.registerIds_resolves` (the traversal lists every reachable node; a repeated ID value makes
  registration fail, so the ID of the element can only map to the element's own path).

  The full statement without `OwnSigFirst` is FALSE of the model and of the implementation
  (signature wrapping, known finding C02/xsw-first-signature-not-own): `C02_counterexample`.
-/
import PysamlModel.Proofs.Xsw
import PysamlModel.Proofs.XswFlow
import PysamlModel.Spec.C02

namespace C02
open Xsw

/-- The Algorithm attribute of a ds:Transform. -/
def algOf (t : XNode) : String := (t.attr "Algorithm").getD ""

/-- The element's own signature is what both xmlsec1 and the object model look at. -/
structure OwnSigFirst (item sig si : XNode) (j k : Nat) : Prop where
  /-- the first ds:Signature in document order below the element is its child number `j` … -/
  first : (preorder item []).find? (fun p => (nodeAt item p).map (·.tag) == some dsSignature) = some [j]
  sigAt : item.kids[j]? = some sig
  /-- … which is also the one the object model keeps (the last ds:Signature child) -/
  lastSig : lastChild item dsSignature = some (j, sig)
  /-- its first and last ds:SignedInfo children coincide -/
  firstSI : firstChild sig dsSignedInfo = some (k, si)
  lastSI : lastChild sig dsSignedInfo = some (k, si)
  /-- xmlsec1 (all descendant Transforms) and the object model (children of the last Transforms)
      see the same transform list -/
  transformsView : ∀ ref ∈ childrenWith si dsReference,
    (descendantsWith ref dsTransform).map (fun (t : XNode) => (t.attr "Algorithm").getD "") =
      (match lastChild ref dsTransforms with
       | some (_, ts) => (childrenWith ts dsTransform).map (fun (t : XNode) => (t.attr "Algorithm").getD "")
       | none => [])

theorem lookup_find (ids : List (String × Path)) (id : String) (p : Path) (h : ids.lookup id = some p) :
    (ids.find? (fun e => ("#" ++ id) == "#" ++ e.1)).map (·.2) = some p := by
  induction ids with
  | nil => simp [List.lookup] at h
  | cons e rest ih =>
    obtain ⟨i, q⟩ := e
    simp only [List.lookup] at h
    simp only [List.find?]
    by_cases hi : id = i
    · subst hi
      simp only [beq_self_eq_true] at h
      simp [h]
    · have hne : (id == i) = false := by simpa using hi
      rw [hne] at h
      have hne2 : (("#" ++ id) == "#" ++ i) = false := by
        apply beq_eq_false_iff_ne.mpr
        intro hh; exact hi (hash_cancel _ _ hh)
      simp only [hne2]
      exact ih h

/-- C02 (partial, under `OwnSigFirst`): what an accepted signature check establishes for an element
    that has the registered node name (`htag`). -/
theorem C02_covered_partial (doc item sig si : XNode) (itemPath : Path) (nodeName : String) (key : Nat)
    (schemaOk : Bool) (j k : Nat)
    (hitem : nodeAt doc itemPath = some item)
    (htag : item.tag = nodeName)
    (hown : OwnSigFirst item sig si j k)
    (hchk : checkSignature doc itemPath nodeName key schemaOk = true) :
    ∃ id ref dv sv,
      item.attr "ID" = some id ∧ childrenWith si dsReference = [ref] ∧ ref.attr "URI" = some ("#" ++ id) ∧
      firstChild ref dsDigestValue = some dv ∧ valueKids dv.2 = [XNode.digest (removeAt item [j])] ∧
      firstChild sig dsSignatureValue = some sv ∧ valueKids sv.2 = [XNode.sigval key si] := by
  unfold checkSignature at hchk
  rw [hitem] at hchk
  simp only [Bool.and_eq_true] at hchk
  obtain ⟨⟨_, hval⟩, hid⟩ := hchk
  cases hidv : item.attr "ID" with
  | none => simp [hidv] at hid
  | some id =>
    rw [hidv] at hid
    simp only at hid
    -- validators, on the object-model view
    unfold validatorsOk at hval
    rw [hown.lastSig] at hval
    simp only at hval
    rw [hown.lastSI] at hval
    simp only at hval
    cases hrefs : childrenWith si dsReference with
    | nil => simp [hrefs] at hval
    | cons ref more =>
      cases more with
      | cons r2 r3 => simp [hrefs] at hval
      | nil =>
        rw [hrefs] at hval
        simp only [Bool.and_eq_true] at hval
        obtain ⟨⟨⟨⟨⟨⟨hidOk, _⟩, _⟩, _⟩, _⟩, henv⟩, _⟩ := hval
        rw [hidv] at hidOk
        cases huri : ref.attr "URI" with
        | none => simp [huri] at hidOk
        | some u =>
          rw [huri] at hidOk
          simp only [Bool.and_eq_true, beq_iff_eq] at hidOk
          have hu : u = "#" ++ id := hidOk.1
          subst hu
          -- xmlsec's verification
          unfold xmlsecVerify at hid
          cases hreg : registerIds doc nodeName with
          | none => simp [hreg] at hid
          | some ids =>
            rw [hreg] at hid
            simp only at hid
            have hlk := registerIds_resolves doc item itemPath nodeName ids id hitem htag hidv hreg
            rw [hlk] at hid
            simp only at hid
            rw [hitem] at hid
            simp only at hid
            rw [hown.first] at hid
            simp only at hid
            have hsig : nodeAt doc (itemPath ++ [j]) = some sig := by
              rw [nodeAt_append, hitem]
              simp [nodeAt, hown.sigAt]
            rw [hsig] at hid
            simp only at hid
            rw [hown.firstSI] at hid
            simp only at hid
            rw [hrefs] at hid
            simp only [List.isEmpty_cons, Bool.not_false, Bool.true_and, List.all_cons, List.all_nil, Bool.and_true,
              Bool.and_eq_true] at hid
            obtain ⟨href, hsv⟩ := hid
            rw [huri] at href
            simp only [Option.getD_some] at href
            have hne : (("#" ++ id) == "") = false := by
              apply beq_eq_false_iff_ne.mpr
              intro hh
              have := congrArg String.length hh
              simp [String.length_append] at this
            rw [hne] at href
            simp only [Bool.false_eq_true, if_false] at href
            rw [lookup_find ids id itemPath hlk] at href
            simp only [Bool.and_eq_true] at href
            obtain ⟨_, hdig⟩ := href
            rw [hitem] at hdig
            simp only at hdig
            -- the enveloped transform is applied: both views of the transform list agree
            have hview := hown.transformsView ref (by rw [hrefs]; simp)
            have henv' : ((descendantsWith ref dsTransform).map (fun (t : XNode) => (t.attr "Algorithm").getD "")).contains algEnveloped = true := by
              rw [hview]; exact henv
            rw [henv'] at hdig
            have hpre : isPrefixPath itemPath (itemPath ++ [j]) = true := by
              unfold isPrefixPath
              exact List.isPrefixOf_iff_prefix.mpr (List.prefix_append _ _)
            rw [hpre] at hdig
            simp only [if_true, List.drop_left', and_self] at hdig
            cases hdv : firstChild ref dsDigestValue with
            | none => simp [hdv] at hdig
            | some dv =>
              rw [hdv] at hdig
              simp only at hdig
              cases hsvv : firstChild sig dsSignatureValue with
              | none => simp [hsvv] at hsv
              | some sv =>
                rw [hsvv] at hsv
                simp only at hsv
                exact ⟨id, ref, dv, sv, rfl, rfl, huri, hdv, list_beq_sound _ _ hdig, rfl, list_beq_sound _ _ hsv⟩

/-- The same conclusion through the decidable predicate the counterexample below refutes. -/
theorem C02_covered_partial_b (doc item sig si : XNode) (itemPath : Path) (nodeName : String) (key : Nat)
    (schemaOk : Bool) (j k : Nat)
    (hitem : nodeAt doc itemPath = some item)
    (htag : item.tag = nodeName)
    (hown : OwnSigFirst item sig si j k)
    (hchk : checkSignature doc itemPath nodeName key schemaOk = true) :
    coveredB item key = true := by
  obtain ⟨id, ref, dv, sv, hid, hrefs, huri, hdv, hdig, hsv, hsig⟩ :=
    C02_covered_partial doc item sig si itemPath nodeName key schemaOk j k hitem htag hown hchk
  unfold coveredB
  apply List.any_eq_true.mpr
  refine ⟨(sig, j), List.mem_zipIdx_iff_getElem?.mpr hown.sigAt, ?_⟩
  have hsigtag : (sig.tag == dsSignature) = true := by
    have := hown.lastSig
    unfold lastChild at this
    simp only [Option.map_eq_some_iff] at this
    obtain ⟨q, hq, hqe⟩ := this
    have hp := List.find?_some hq
    cases hqe
    exact hp
  simp only [hsigtag, Bool.true_and, hown.firstSI, hid, Bool.and_eq_true]
  refine ⟨?_, ?_⟩
  · apply List.any_eq_true.mpr
    refine ⟨ref, by rw [hrefs]; simp, ?_⟩
    simp only [huri, beq_self_eq_true, Bool.true_and, hdv]
    rw [hdig]; exact list_beq_refl _
  · simp only [hsv]
    rw [hsig]; exact list_beq_refl _

/-- The full statement: acceptance alone implies coverage. -/
def C02_full : Prop :=
  ∀ (doc item : XNode) (itemPath : Path) (nodeName : String) (key : Nat),
    nodeAt doc itemPath = some item → checkSignature doc itemPath nodeName key true = true → coveredB item key = true

/-! ### concrete documents: a genuinely signed Response (non-vacuity) and the wrapping attack -/

private def tResponse := "{urn:oasis:names:tc:SAML:2.0:protocol}Response"
private def el (t : String) (a : List (String × String)) (k : List XNode) : XNode := .elem t a k
private def statusOk : XNode := el "Status" [] [el "StatusCode" [("Value", "Success")] []]
private def assertion (who : String) : XNode := el "Assertion" [("ID", "a1")] [el "NameID" [] [.text who]]

private def signedInfo (uri : String) (content : XNode) : XNode :=
  el dsSignedInfo [] [
    el dsC14nMethod [("Algorithm", algExcC14n)] [],
    el dsReference [("URI", uri)] [
      el dsTransforms [] [el dsTransform [("Algorithm", algEnveloped)] [], el dsTransform [("Algorithm", algExcC14n)] []],
      el dsDigestValue [] [.digest content]]]

private def signature (uri : String) (content : XNode) (key : Nat) : XNode :=
  el dsSignature [] [signedInfo uri content, el dsSignatureValue [] [.sigval key (signedInfo uri content)]]

/-- what the identity provider signed: the Response without its signature -/
private def origContent : XNode := el tResponse [("ID", "orig")] [statusOk, assertion "alice"]
/-- the genuinely signed Response -/
private def genuineDoc : XNode :=
  el tResponse [("ID", "orig")] [signature "#orig" origContent 1, statusOk, assertion "alice"]

example : checkSignature genuineDoc [] tResponse 1 true = true := by decide
example : coveredB genuineDoc 1 = true := by decide
example : checkSignature genuineDoc [] tResponse 2 true = false := by decide       -- another key
/-- the hypotheses of `C02_covered_partial` are satisfiable: the element has the registered name … -/
example : nodeAt genuineDoc [] = some genuineDoc ∧ genuineDoc.tag = tResponse := ⟨rfl, rfl⟩
/-- … its registered ID resolves to its own path (an instance of `registerIds_resolves`) … -/
example : ∃ ids, registerIds genuineDoc tResponse = some ids ∧ ids.lookup "orig" = some [] := by
  cases h : registerIds genuineDoc tResponse with
  | none => exact absurd h (by decide)
  | some ids => exact ⟨ids, rfl, registerIds_resolves genuineDoc genuineDoc [] tResponse ids "orig" rfl rfl rfl h⟩
/-- … and its own signature comes first -/
example : OwnSigFirst genuineDoc (signature "#orig" origContent 1) (signedInfo "#orig" origContent) 0 0 :=
  { first := by decide, sigAt := rfl, lastSig := rfl, firstSI := rfl, lastSI := rfl,
    transformsView := by
      intro ref href
      have : ref = el dsReference [("URI", "#orig")] [
          el dsTransforms [] [el dsTransform [("Algorithm", algEnveloped)] [], el dsTransform [("Algorithm", algExcC14n)] []],
          el dsDigestValue [] [.digest origContent]] := by
        simp [childrenWith, signedInfo, el, XNode.kids, XNode.tag, dsReference, dsC14nMethod] at href
        exact href
      subst this
      decide }

/-- the wrapping attack (known finding C02/xsw-first-signature-not-own): the genuine signature is kept
    FIRST, a second Signature naming the new ID comes LAST, the signed original hides in StatusDetail -/
private def evilDoc : XNode :=
  el tResponse [("ID", "evil")] [
    signature "#orig" origContent 1,
    el dsSignature [] [signedInfo "#evil" (.junk "x"), el dsSignatureValue [] [.junk "y"]],
    el "Status" [] [el "StatusCode" [("Value", "Success")] [], el "StatusDetail" [] [origContent]],
    assertion "mallory"]

theorem C02_counterexample : ¬ C02_full := by
  intro h
  have hacc : checkSignature evilDoc [] tResponse 1 true = true := by decide
  have := h evilDoc evilDoc [] tResponse 1 rfl hacc
  have hcov : coveredB evilDoc 1 = false := by decide
  rw [hcov] at this
  cases this

/-! ### across the encryption boundary: what `parse_assertion` adopts has been checked (Model/XswFlow.lean) -/


/-- C02 (flow): when assertion signatures are required and `parse_assertion` gets through its signature stage,
    EVERY adopted assertion — clear or carried by an EncryptedAssertion, wherever it stands relative to the
    others and whatever ID / signature it carries — went through the signature check, on the document it was
    read from, and the check succeeded.  For every pair of documents and every check function. -/
theorem C02_flow_adopted_checked (recv decr : XNode) (chk : Bool → Path → Bool) (ad : List Adopted)
    (h : (flow recv decr true chk).adopted = some ad) :
    ∀ a ∈ ad, chk a.isDecr a.path = true := by
  unfold flow at h
  cases hp : plan recv decr true with
  | none => simp [hp] at h
  | some pa =>
    obtain ⟨acts, ad'⟩ := pa
    rw [hp] at h
    simp only at h
    cases hr : (runActs chk acts).2 with
    | false => simp [hr] at h
    | true =>
      simp only [hr, if_true, Option.some.injEq] at h
      subst h
      obtain ⟨hnf, hall⟩ := runActs_ok chk acts hr
      unfold plan at hp
      simp only at hp
      split at hp
      · cases hp
      · -- the clear assertions: their step is in the first stage
        have hclear : ∀ q ∈ kidsWith recv [] tAssertion,
            (∀ x ∈ actMust true false q, x ∈ acts) → chk false q.1 = true := by
          intro q _ hsub
          by_cases hs : hasSig q.2 = true
          · exact hall false q.1 (hsub _ (by simp [actMust, hs]))
          · exact absurd (hsub .fail (by simp [actMust, hs])) hnf
        split at hp
        · simp only [Option.some.injEq, Prod.mk.injEq] at hp
          obtain ⟨hacts, had⟩ := hp
          intro a ha
          rw [← had] at ha
          simp only [List.mem_append, List.mem_map] at ha
          rcases ha with ⟨q, hq, rfl⟩ | ⟨q, hq, rfl⟩
          · -- decrypted: signed -> checked by decrypt_assertions; unsigned -> refused by _assertion
            show chk true q.1 = true
            by_cases hs : hasSig q.2 = true
            · apply hall true q.1
              rw [← hacts]
              simp only [List.mem_append, List.mem_flatMap]
              exact Or.inl (Or.inl (Or.inr ⟨q, hq, by simp [actIfSigned, hs]⟩))
            · apply absurd _ hnf
              rw [← hacts]
              simp only [List.mem_append, List.mem_flatMap]
              exact Or.inr ⟨q, hq, by simp [actPresence, hs]⟩
          · show chk false q.1 = true
            apply hclear q hq
            intro x hx
            rw [← hacts]
            simp only [List.mem_append, List.mem_flatMap]
            exact Or.inl (Or.inl (Or.inl ⟨q, hq, hx⟩))
        · simp only [Option.some.injEq, Prod.mk.injEq] at hp
          obtain ⟨hacts, had⟩ := hp
          intro a ha
          rw [← had] at ha
          simp only [List.mem_map] at ha
          obtain ⟨q, hq, rfl⟩ := ha
          show chk false q.1 = true
          apply hclear q hq
          intro x hx
          rw [← hacts]
          simp only [List.mem_flatMap]
          exact ⟨q, hq, hx⟩

/-- every check the flow records is one `chk` answered (no result is invented, none is remembered from elsewhere) -/
theorem C02_flow_calls_are_checks (recv decr : XNode) (requireSig : Bool) (chk : Bool → Path → Bool) :
    ∀ d p r, (d, p, r) ∈ (flow recv decr requireSig chk).calls → r = chk d p := by
  intro d p r h
  unfold flow at h
  cases hp : plan recv decr requireSig with
  | none => simp [hp] at h
  | some pa =>
    rw [hp] at h
    exact (runActs_calls chk pa.1 d p r h).2

/-- an adopted assertion is an element tagged Assertion of the document it is attributed to -/
theorem C02_flow_adopted_is_assertion (recv decr : XNode) (requireSig : Bool) (chk : Bool → Path → Bool)
    (ad : List Adopted) (h : (flow recv decr requireSig chk).adopted = some ad) :
    ∀ a ∈ ad, ∃ item, nodeAt (a.doc recv decr) a.path = some item ∧ item.tag = tAssertion := by
  unfold flow at h
  cases hp : plan recv decr requireSig with
  | none => simp [hp] at h
  | some pa =>
    obtain ⟨acts, ad'⟩ := pa
    rw [hp] at h
    simp only at h
    cases hr : (runActs chk acts).2 with
    | false => simp [hr] at h
    | true =>
      simp only [hr, if_true, Option.some.injEq] at h
      subst h
      have hclear : ∀ q ∈ kidsWith recv [] tAssertion, nodeAt recv q.1 = some q.2 ∧ q.2.tag = tAssertion := by
        intro q hq
        obtain ⟨i, hp1, hk, ht⟩ := kidsWith_spec recv [] tAssertion q hq
        exact ⟨by rw [hp1]; exact nodeAt_kid recv recv [] i q.2 rfl hk, ht⟩
      unfold plan at hp
      simp only at hp
      split at hp
      · cases hp
      · split at hp
        · simp only [Option.some.injEq, Prod.mk.injEq] at hp
          intro a ha
          rw [← hp.2] at ha
          simp only [List.mem_append, List.mem_map] at ha
          rcases ha with ⟨q, hq, rfl⟩ | ⟨q, hq, rfl⟩
          · exact ⟨q.2, carried_spec decr decr [] rfl q hq⟩
          · exact ⟨q.2, hclear q hq⟩
        · simp only [Option.some.injEq, Prod.mk.injEq] at hp
          intro a ha
          rw [← hp.2] at ha
          simp only [List.mem_map] at ha
          obtain ⟨q, hq, rfl⟩ := ha
          exact ⟨q.2, hclear q hq⟩

/-- C02 (flow, composed with `C02_covered_partial_b`): with `_check_signature` as the check, every adopted
    assertion whose own signature comes first is covered by the key-holder's signature — whether it came in
    clear or inside an EncryptedAssertion. -/
theorem C02_flow_adopted_covered (recv decr : XNode) (key : Nat) (schema : Bool → Path → Bool) (ad : List Adopted)
    (h : (flow recv decr true
            (fun d p => checkSignature (if d then decr else recv) p tAssertion key (schema d p))).adopted = some ad) :
    ∀ a ∈ ad, ∃ item, nodeAt (a.doc recv decr) a.path = some item ∧
      ∀ sig si j k, OwnSigFirst item sig si j k → coveredB item key = true := by
  intro a ha
  obtain ⟨item, hitem, htag⟩ := C02_flow_adopted_is_assertion recv decr true _ ad h a ha
  have hchk := C02_flow_adopted_checked recv decr _ ad h a ha
  refine ⟨item, hitem, ?_⟩
  intro sig si j k hown
  cases a with
  | clear p =>
    exact C02_covered_partial_b recv item sig si p tAssertion key (schema false p) j k hitem htag hown
      (by simpa [Adopted.isDecr, Adopted.path] using hchk)
  | decrypted p =>
    exact C02_covered_partial_b decr item sig si p tAssertion key (schema true p) j k hitem htag hown
      (by simpa [Adopted.isDecr, Adopted.path] using hchk)

/-! non-vacuity of the flow theorems: a genuine signed assertion next to an EncryptedAssertion that carries a
    doctored copy with the same ID and the copied signature (ideal decryption: `decr` holds the plaintext) -/
private def tResp := "{urn:oasis:names:tc:SAML:2.0:protocol}Response"
private def sAssertion (who : String) : XNode :=
  el tAssertion [("ID", "a1")] [
    signature "#a1" (el tAssertion [("ID", "a1")] [el "NameID" [] [.text "alice"]]) 1,
    el "NameID" [] [.text who]]
private def recvDoc : XNode :=
  el tResp [("ID", "r1")] [sAssertion "alice", el tEncryptedAssertion [] [el tEncryptedData [] [.junk "cipher"]]]
private def decrDoc : XNode :=
  el tResp [("ID", "r1")] [sAssertion "alice", el tEncryptedAssertion [] [sAssertion "mallory"]]
private def chkOn (recv decr : XNode) : Bool → Path → Bool :=
  fun d p => checkSignature (if d then decr else recv) p tAssertion 1 true

/-- the genuine message alone is adopted … -/
example : (flow (el tResp [("ID", "r1")] [sAssertion "alice"]) (el tResp [] []) true
            (chkOn (el tResp [("ID", "r1")] [sAssertion "alice"]) (el tResp [] []))).adopted = some [.clear [0]] := by decide
/-- … the doctored copy behind the encryption boundary is checked on the decrypted text and refused
    (two elements named Assertion carry ID a1 there) … -/
example : (flow recvDoc decrDoc true (chkOn recvDoc decrDoc)).adopted = none := by decide
example : (flow recvDoc decrDoc true (chkOn recvDoc decrDoc)).calls = [(false, [0], true), (true, [1, 0], false)] := by decide
/-- … and an unsigned one is refused when signatures are required, adopted when they are not -/
private def decrUnsigned : XNode :=
  el tResp [("ID", "r1")] [sAssertion "alice", el tEncryptedAssertion [] [el tAssertion [("ID", "a2")] [el "NameID" [] [.text "mallory"]]]]
example : (flow recvDoc decrUnsigned true (chkOn recvDoc decrUnsigned)).adopted = none := by decide
example : (flow recvDoc decrUnsigned false (chkOn recvDoc decrUnsigned)).adopted = some [.decrypted [1, 0], .clear [0]] := by decide

end C02
