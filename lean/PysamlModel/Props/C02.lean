import PysamlModel.Model.Xsw
import PysamlModel.Spec.C02
namespace C02
end C02
