/-
  C10 — Attribute release never exceeds policy.
  Property theorems only (plus non-vacuity examples).  Every statement quantifies over arbitrary
  identities (any number of attributes, `str` or list values of any length), arbitrary policy
  configurations (any sections, restrictions, category tables), arbitrary requester metadata and
  arbitrary string operations / regular-expression match matrices.
-/
import PysamlModel.Model.Release
import PysamlModel.Spec.C10
import PysamlModel.Proofs.C10
import PysamlModel.Gen.EntityCategories

namespace C10
open Release

variable {α : Type} [DecidableEq α] {ρ : Type}

/-! ### what is released is the user's -/

/-- Every released attribute is an attribute of the user and every released value is one of the
    user's values for that attribute. -/
theorem C10_subset (c : Ctx α ρ) (identity : Ava α) (required optional : List (ReqAttr α)) (r : Ava α)
    (h : policyFilter c identity required optional = .ok r) (a : α) (x : Val α) (hax : (a, x) ∈ r) :
    ∃ y, (a, y) ∈ identity ∧ ∀ v ∈ x.values, v ∈ y.values := by
  obtain ⟨q, hq, hsub, _⟩ := (policyFilter_sound h).1 (a, x) hax
  refine ⟨q.2, ?_, fun v hv => hsub.mem hv⟩
  have : q.1 = a := hsub.1.symm
  rw [← this]; exact hq

/-- No value is released more often than the user holds it. -/
theorem C10_multiplicity (c : Ctx α ρ) (identity : Ava α) (required optional : List (ReqAttr α)) (r : Ava α)
    (h : policyFilter c identity required optional = .ok r) (a : α) (x : Val α) (hax : (a, x) ∈ r) :
    ∃ y, (a, y) ∈ identity ∧ ∀ v, x.values.count v ≤ y.values.count v := by
  obtain ⟨q, hq, hsub, _⟩ := (policyFilter_sound h).1 (a, x) hax
  refine ⟨q.2, ?_, hsub.2⟩
  have : q.1 = a := hsub.1.symm
  rw [← this]; exact hq

/-! ### precedence: requester, else registration authority, else default -/

/-- The section `Policy.get` reads is the first of: the requester's, its registration
    authority's, the non-empty `default`, the `""` section. -/
theorem C10_precedence (c : Ctx α ρ) : c.section = specSection c := section_eq_spec c

theorem C10_precedence_requester (c : Ctx α ρ) (s : Section α ρ) (h : secOf c.secs c.sp = some s) :
    c.section = some s := by
  rw [section_eq_spec]; unfold specSection; rw [h]; rfl

theorem C10_precedence_authority (c : Ctx α ρ) (s : Section α ρ) (ra : α) (h1 : secOf c.secs c.sp = none)
    (hra : c.ra = some ra) (h2 : secOf c.secs ra = some s) : c.section = some s := by
  rw [section_eq_spec]; unfold specSection; rw [h1, hra]; simp [Option.orElse, h2]

theorem C10_precedence_default (c : Ctx α ρ) (h1 : secOf c.secs c.sp = none)
    (h2 : c.ra.bind (secOf c.secs) = none) :
    c.section = ((secOf c.secs c.dflt).filter (·.nonEmpty)).orElse fun _ => secOf c.secs c.S.empty := by
  rw [section_eq_spec]; unfold specSection; rw [h1, h2]; rfl

/-! ### every released value is permitted -/

/-- Value restrictions of the applicable section: a released attribute is listed
    (case-insensitively) and each released value matches one of the patterns listed for it,
    unless the attribute is listed without patterns. -/
theorem C10_permitted_restrictions (c : Ctx α ρ) (identity : Ava α) (required optional : List (ReqAttr α))
    (r : Ava α) (h : policyFilter c identity required optional = .ok r)
    (s : Section α ρ) (raw : RawRestr α ρ) (hs : specSection c = some s) (hr : s.attrRestr = some raw)
    (hne : raw ≠ []) (a : α) (x : Val α) (hax : (a, x) ∈ r) :
    (∃ q ∈ raw, c.S.lower q.1 = c.S.lower a) ∧
    ∀ v ∈ x.values, ∃ q ∈ raw, c.S.lower q.1 = c.S.lower a ∧
      (q.2 = none ∨ q.2 = some [] ∨ ∃ rs, q.2 = some rs ∧ ∃ re ∈ rs, c.M re v = true) := by
  obtain ⟨_, _, _, hro, _⟩ := (policyFilter_sound h).1 (a, x) hax
  unfold restrOk at hro
  rw [hs] at hro
  simp only [Option.bind_some, hr] at hro
  have hemp : raw.isEmpty = false := by
    cases raw with
    | nil => exact absurd rfl hne
    | cons _ _ => rfl
  simp only [hemp, Bool.false_or, Bool.and_eq_true, List.all_eq_true] at hro
  obtain ⟨hl, hv⟩ := hro
  constructor
  · unfold rawLists at hl
    obtain ⟨q, hq, hk⟩ := List.any_eq_true.mp hl
    exact ⟨q, hq, by simpa using hk⟩
  · intro v hvx
    have := hv v hvx
    unfold rawAllows at this
    obtain ⟨q, hq, hk⟩ := List.any_eq_true.mp this
    simp only [Bool.and_eq_true, decide_eq_true_eq] at hk
    refine ⟨q, hq, hk.1, ?_⟩
    obtain ⟨_, hm⟩ := hk
    cases hq2 : q.2 with
    | none => exact Or.inl rfl
    | some rs =>
      cases rs with
      | nil => exact Or.inr (Or.inl rfl)
      | cons y ys =>
        rw [hq2] at hm
        simp only at hm
        obtain ⟨re, hre, hM⟩ := List.any_eq_true.mp hm
        exact Or.inr (Or.inr ⟨y :: ys, rfl, re, hre, hM⟩)

/-- What `entryPermits` says, spelled out: the attribute is in the item's list and the item applies
    to the requester (always / its category / all categories of the tuple); an ONLY_REQUIRED item
    permits only attributes the requester requires. -/
theorem C10_entry_permits_iff (S : StrOps α) (ecs req : List α) (e : CatEntry α) (a : α) :
    entryPermits S ecs req e a = true ↔
      a ∈ e.attrs.map S.lower ∧
      (e.key = .always ∨
        ((∃ k, e.key = .single k ∧ k ∈ ecs) ∨ (∃ ks, e.key = .all ks ∧ ∀ k ∈ ks, k ∈ ecs)) ∧
          (e.onlyRequired = true → a ∈ req)) := by
  unfold entryPermits
  cases hk : e.key with
  | always => simp
  | single k =>
    cases ho : e.onlyRequired <;> simp
  | all ks =>
    cases ho : e.onlyRequired <;> simp

/-- Entity categories: when the applicable section configures them (and a metadata store is
    present), every released attribute — the empty name aside — is permitted by a `RELEASE` item
    that applies to the requester and that no later NO_AGGREGATION item overrides. -/
theorem C10_permitted_categories (c : Ctx α ρ) (identity : Ava α) (required optional : List (ReqAttr α))
    (r : Ava α) (h : policyFilter c identity required optional = .ok r)
    (entries : List (CatEntry α)) (hc : catsInEffect c = some entries) (a : α) (x : Val α) (hax : (a, x) ∈ r) :
    c.S.lower a = c.S.empty ∨
    ∃ pre e post, entries = pre ++ e :: post ∧
      entryPermits c.S c.spCats (reqNames c.S c.acs required) e (c.S.lower a) = true ∧
      ∀ e' ∈ post, entryResets c.S c.spCats (reqNames c.S c.acs required) e' = false := by
  obtain ⟨_, _, _, _, hb⟩ := (policyFilter_sound h).1 (a, x) hax
  rw [hc] at hb
  simp only at hb
  rcases hb with hb | hb
  · exact Or.inl hb
  · exact Or.inr (allowedBy_sound hb)

/-- Requested attributes: when entity categories are not in effect and the requester declares
    required/optional attributes, every released attribute is designated by one of them and every
    released value is among the values that entry lists (when it lists any). -/
theorem C10_permitted_request (c : Ctx α ρ) (identity : Ava α) (required optional : List (ReqAttr α))
    (r : Ava α) (h : policyFilter c identity required optional = .ok r)
    (hc : catsInEffect c = none) (hreq : required ≠ [] ∨ optional ≠ []) (a : α) (x : Val α) (hax : (a, x) ∈ r) :
    (∃ q ∈ required ++ optional, reqMatches c.S c.acs q a = true) ∧
    ∀ v ∈ x.values, ∃ q ∈ required ++ optional, reqMatches c.S c.acs q a = true ∧ (q.values = [] ∨ v ∈ q.values) := by
  obtain ⟨_, _, _, _, hb⟩ := (policyFilter_sound h).1 (a, x) hax
  rw [hc] at hb
  simp only at hb
  have hnot : (required.isEmpty && optional.isEmpty) = false := by
    rcases hreq with h1 | h1
    · cases required with
      | nil => exact absurd rfl h1
      | cons _ _ => rfl
    · cases optional with
      | nil => exact absurd rfl h1
      | cons _ _ => simp
  rw [hnot] at hb
  simp only [Bool.false_eq_true, false_or] at hb
  unfold requestOk at hb
  simp only [Bool.and_eq_true, List.all_eq_true, List.any_eq_true, Bool.or_eq_true, decide_eq_true_eq] at hb
  refine ⟨hb.1, ?_⟩
  intro v hv
  obtain ⟨q, hq, hm, hvals⟩ := hb.2 v hv
  refine ⟨q, hq, hm, ?_⟩
  rcases hvals with hvals | hvals
  · exact Or.inl (List.isEmpty_iff.mp hvals)
  · exact Or.inr hvals

/-! ### a required attribute that cannot be supplied -/

/-- What `unavailable` says, spelled out: every attribute of the user that the required entry
    designates lacks all the values the entry lists (and it lists some) — in particular when no
    attribute of the user is designated at all. -/
theorem C10_unavailable_iff (S : StrOps α) (acs : List (Conv α)) (identity : Ava α) (q : ReqAttr α) :
    unavailable S acs identity q = true ↔
      ∀ a x, (a, x) ∈ identity → reqMatches S acs q a = true → q.values ≠ [] ∧ ∀ v ∈ q.values, v ∉ x.values := by
  unfold unavailable
  simp only [List.all_eq_true, Bool.or_eq_true, Bool.not_eq_true', Bool.and_eq_true, decide_eq_false_iff_not]
  constructor
  · intro h a x hax hm
    rcases h (a, x) hax with h | h
    · simp only at h; rw [hm] at h; cases h
    · exact ⟨fun e => by rw [e] at h; simp at h, h.2⟩
  · intro h p hp
    cases hm : reqMatches S acs q p.1 with
    | false => exact Or.inl rfl
    | true =>
      obtain ⟨h1, h2⟩ := h p.1 p.2 hp hm
      refine Or.inr ⟨?_, h2⟩
      cases hv : q.values with
      | nil => exact absurd hv h1
      | cons _ _ => rfl

/-- When the required/optional filter is the one in effect and failing on missing attributes is
    in effect (`fail_on_missing_requested`, default true), a required attribute that cannot be
    supplied makes `Policy.filter` fail: no release. -/
theorem C10_missing_required (c : Ctx α ρ) (identity : Ava α) (required optional : List (ReqAttr α))
    (hc : catsInEffect c = none) (hfail : failOnOf (specSection c) = true)
    (q : ReqAttr α) (hq : q ∈ required) (hu : unavailable c.S c.acs identity q = true) :
    ∃ e, policyFilter c identity required optional = .error e := by
  cases hres : policyFilter c identity required optional with
  | error e => exact ⟨e, rfl⟩
  | ok r =>
    have hmf := (policyFilter_sound hres).2
    unfold mustFail at hmf
    rw [hc, hfail] at hmf
    have hne : required.isEmpty = false := by
      cases required with
      | nil => cases hq
      | cons _ _ => rfl
    have hany : required.any (unavailable c.S c.acs identity) = true := List.any_eq_true.mpr ⟨q, hq, hu⟩
    simp [hne, hany] at hmf

/-! ### the model meets the specification the driver evaluates -/

theorem C10_model_meets_spec (c : Ctx α ρ) (identity : Ava α) (required optional : List (ReqAttr α)) :
    specFilter c identity required optional (policyFilter c identity required optional) = true := by
  unfold specFilter
  cases hres : policyFilter c identity required optional with
  | error e => rfl
  | ok r =>
    obtain ⟨hall, hmf⟩ := policyFilter_sound hres
    simp only [Bool.and_eq_true, List.all_eq_true, Bool.not_eq_true']
    refine ⟨?_, hmf⟩
    intro p hp
    obtain ⟨q, hq, hsub, hro, hb⟩ := hall p hp
    unfold entryOk
    simp only [Bool.and_eq_true]
    refine ⟨⟨heldDominates_of_sub hq hsub, hro⟩, ?_⟩
    cases hc : catsInEffect c with
    | none =>
      rw [hc] at hb
      simp only at hb ⊢
      simpa using hb
    | some entries =>
      rw [hc] at hb
      simp only at hb ⊢
      simpa using hb

/-- The effective required list of `Policy.restrict`: what the metadata requires plus the
    subject-id requirement entries, nothing else. -/
theorem C10_subject_id_required (required subj : List (ReqAttr α)) (q : ReqAttr α) :
    q ∈ addSubjectReqs required subj ↔ q ∈ required ∨ q ∈ subj := by
  unfold addSubjectReqs
  induction subj generalizing required with
  | nil => simp
  | cons s ss ih =>
    simp only [List.foldl_cons]
    rw [ih]
    by_cases hs : s ∈ required
    · simp only [hs, if_true, List.mem_cons]
      constructor
      · rintro (h | h)
        · exact Or.inl h
        · exact Or.inr (Or.inr h)
      · rintro (h | h | h)
        · exact Or.inl h
        · exact Or.inl (h ▸ hs)
        · exact Or.inr h
    · simp only [hs, if_false, List.mem_append, List.mem_cons, List.not_mem_nil, or_false]
      constructor
      · rintro ((h | h) | h)
        · exact Or.inl h
        · exact Or.inr (Or.inl h)
        · exact Or.inr (Or.inr h)
      · rintro (h | h | h)
        · exact Or.inl (Or.inl h)
        · exact Or.inl (Or.inr h)
        · exact Or.inr h

theorem C10_restrict_meets_spec (c : Ctx α ρ) (identity : Ava α) (required optional subj : List (ReqAttr α)) :
    specRestrict c identity required optional subj (policyRestrict c identity required optional subj) = true :=
  C10_model_meets_spec c identity (addSubjectReqs required subj) optional

/-- `Assertion.apply_policy`: what the assertion dictionary holds afterwards (and what goes into
    the attribute statement) meets the specification as well. -/
theorem C10_apply_policy_meets_spec (c : Ctx α ρ) (identity : Ava α) (required optional subj : List (ReqAttr α))
    (r : Ava α) (h : policyRestrict c identity required optional subj = .ok r) :
    specRestrict c identity required optional subj (.ok (selfAfter identity r)) = true := by
  have hspec := C10_restrict_meets_spec c identity required optional subj
  rw [h] at hspec
  unfold specRestrict specFilter at hspec ⊢
  simp only [Bool.and_eq_true, List.all_eq_true] at hspec ⊢
  refine ⟨?_, hspec.2⟩
  intro p hp
  apply hspec.1
  unfold selfAfter at hp
  obtain ⟨p0, _, hf⟩ := List.mem_filterMap.mp hp
  cases hg : dget r p0.1 with
  | none => rw [hg] at hf; cases hf
  | some v =>
    rw [hg] at hf
    simp only [Option.map_some, Option.some.injEq] at hf
    rw [← hf]
    exact dget_mem hg

/-- `Server.setup_assertion` honouring `best_effort = False`: an error response instead of an
    assertion when the policy raises `MissingValue`; otherwise the filtered identity. -/
theorem C10_setup_assertion_meets_spec (c : Ctx α ρ) (identity : Ava α) (required optional subj : List (ReqAttr α)) :
    specResponse c identity required optional subj (setupAssertion c identity required optional subj false) = true := by
  unfold setupAssertion
  cases hres : policyRestrict c identity required optional subj with
  | ok r => exact C10_apply_policy_meets_spec c identity required optional subj r hres
  | error e => cases e <;> rfl

/-- `Server.create_attribute_response`: `MissingValue` propagates, nothing unfiltered is released. -/
theorem C10_attribute_response_meets_spec (c : Ctx α ρ) (identity : Ava α) (required optional subj : List (ReqAttr α)) :
    specResponse c identity required optional subj (attributeRelease c identity required optional subj) = true := by
  unfold attributeRelease
  split
  · rfl
  · cases hres : policyRestrict c identity required optional subj with
    | ok r => exact C10_apply_policy_meets_spec c identity required optional subj r hres
    | error e => rfl

/-! ### `Server.create_authn_response` (known finding C10/missing-required-releases-unfiltered) -/

/-- FULL statement: whatever `create_authn_response` puts into the Response meets the specification. -/
def C10_response_full : Prop :=
  ∀ (α : Type) [DecidableEq α] (ρ : Type) (c : Ctx α ρ) (identity : Ava α)
    (required optional subj : List (ReqAttr α)) (bestEffort : Bool),
    specResponse c identity required optional subj (authnRelease c identity required optional subj bestEffort) = true

/-- The statement holds whenever the policy does not raise `MissingValue`. -/
theorem C10_response_partial (c : Ctx α ρ) (identity : Ava α) (required optional subj : List (ReqAttr α))
    (bestEffort : Bool) (hside : restrictMissing c identity required optional subj = false) :
    specResponse c identity required optional subj (authnRelease c identity required optional subj bestEffort) = true := by
  unfold authnRelease setupAssertion
  unfold restrictMissing at hside
  cases hres : policyRestrict c identity required optional subj with
  | ok r => exact C10_apply_policy_meets_spec c identity required optional subj r hres
  | error e =>
    cases e with
    | missing => rw [hres] at hside; cases hside
    | crash => rfl

private def natOps : StrOps Nat := { lower := id, truthy := fun n => n != 0, empty := 0 }

private def natCtx (secs : Sections Nat Nat) : Ctx Nat Nat :=
  { S := natOps, M := fun r v => r == v, acs := [], secs := secs, dflt := 1, sp := 2, ra := none,
    hasMds := true, spCats := [] }

/-- Witness: no policy section (so failing on missing attributes is in effect by default), the
    requester requires attribute 30 which the user does not hold; the user holds attributes 10 and
    20: the Response carries both, unfiltered. -/
theorem C10_response_counterexample : ¬ C10_response_full := by
  intro h
  have := h Nat Nat (natCtx []) [(10, .list [100]), (20, .scalar 200)] [{ name := 30 }] [] [] false
  revert this
  decide

/-! ### regenerated entity-category tables (Gen/EntityCategories.lean) -/

/-- "http://www.geant.net/uri/dataprotection-code-of-conduct/v1" as a `Nat` code. -/
def cocoV1 : Nat := 0x01687474703a2f2f7777772e6765616e742e6e65742f7572692f6461746170726f74656374696f6e2d636f64652d6f662d636f6e647563742f7631
/-- "https://refeds.org/category/code-of-conduct/v2" as a `Nat` code. -/
def cocoV2 : Nat := 0x0168747470733a2f2f7265666564732e6f72672f63617465676f72792f636f64652d6f662d636f6e647563742f7632
/-- "eduPersonTargetedID" as a `Nat` code. -/
def eptid : Nat := 0x01656475506572736f6e54617267657465644944

/-- Every bundled `RELEASE` item keyed by a Code-of-Conduct category is ONLY_REQUIRED (releases
    only attributes the requester requires). -/
theorem C10_tables_coco_only_required :
    Gen.EntityCategories.codes.all (fun m => m.2.all (fun e =>
      !(e.1 != 0 && (e.2.1.contains cocoV1 || e.2.1.contains cocoV2)) || e.2.2.2.1)) = true := by
  decide +kernel

/-- What the bundled modules release to every requester (key `""`) is at most eduPersonTargetedID. -/
theorem C10_tables_unconditional_minimal :
    Gen.EntityCategories.codes.all (fun m => m.2.all (fun e =>
      !(e.1 == 0) || e.2.2.1.all (fun a => a == eptid))) = true := by
  decide +kernel

/-- The pinned clause: when every governing item is a fixed point of `pinEntry` (what
    `C10_tables_pinned` establishes for the bundled tables), the model's release meets `pinnedOk`. -/
theorem C10_pinned (coco keep : α → Bool) (c : Ctx α ρ) (identity : Ava α) (required optional : List (ReqAttr α))
    (hT : ∀ entries, catsInEffect c = some entries → ∀ e ∈ entries, pinEntry coco keep e = e) :
    pinnedOk coco keep c required (policyFilter c identity required optional) = true := by
  unfold pinnedOk
  cases hres : policyFilter c identity required optional with
  | error e => rfl
  | ok r =>
    cases hc : catsInEffect c with
    | none => rfl
    | some entries =>
      simp only
      have hmap : entries.map (pinEntry coco keep) = entries := by
        calc entries.map (pinEntry coco keep) = entries.map id := List.map_congr_left (hT entries hc)
          _ = entries := List.map_id _
      rw [hmap]
      apply List.all_eq_true.mpr
      intro p hp
      obtain ⟨_, _, _, _, hb⟩ := (policyFilter_sound hres).1 p hp
      rw [hc] at hb
      simp only at hb
      simpa using hb

/-- The regenerated tables as `CatEntry Nat`. -/
def bundledEntries : List (CatEntry Nat) :=
  Gen.EntityCategories.codes.flatMap (fun m => m.2.map (fun e =>
    { key := (match e.1 with | 0 => CatKey.always | 1 => .single (e.2.1.headD 0) | _ => .all e.2.1),
      attrs := e.2.2.1, onlyRequired := e.2.2.2.1, noAggregation := e.2.2.2.2 }))

/-- Every bundled `RELEASE` item is a fixed point of `pinEntry`: Code-of-Conduct items are
    ONLY_REQUIRED and the always-released items list nothing but eduPersonTargetedID. -/
theorem C10_tables_pinned :
    bundledEntries.all (fun e =>
      pinEntry (fun k => k == cocoV1 || k == cocoV2) (fun a => a == eptid) e == e) = true := by
  decide +kernel

/-! ### non-vacuity: concrete instances -/

/-- `Except` has no `DecidableEq` in core; a local one for the examples below. -/
private instance exceptDecEq : DecidableEq (Except Err (Ava Nat)) := fun a b =>
  match a, b with
  | .ok x, .ok y => if h : x = y then isTrue (h ▸ rfl) else isFalse (fun e => h (by cases e; rfl))
  | .error x, .error y => if h : x = y then isTrue (h ▸ rfl) else isFalse (fun e => h (by cases e; rfl))
  | .ok _, .error _ => isFalse (fun e => by cases e)
  | .error _, .ok _ => isFalse (fun e => by cases e)

private def uid : ReqAttr Nat := { name := 10 }
private def mailWith (vs : List Nat) : ReqAttr Nat := { name := 20, values := vs }

-- the required/optional filter releases exactly what is asked for, each value once
example : policyFilter (natCtx []) [(10, .list [100, 100]), (20, .list [200, 201]), (30, .scalar 300)]
    [uid] [mailWith [201, 201, 999]] = .ok [(10, .list [100, 100]), (20, .list [201])] := by decide
-- a `str` value is one value: a listed value that merely resembles it is not released
example : policyFilter (natCtx []) [(20, .scalar 200)] [] [mailWith [2]] = .ok [(20, .list [])] := by decide
-- the same attribute requested twice: values are added once
example : policyFilter (natCtx []) [(20, .list [200, 201])] [mailWith [200]] [mailWith [200, 201]]
    = .ok [(20, .list [200, 201])] := by decide
-- a required attribute the user does not hold, failing on missing in effect: no release
example : policyFilter (natCtx []) [(10, .list [100])] [{ name := 30 }] [] = .error .missing := by decide
-- ... switched off by the requester's own section: released without it
example : policyFilter (natCtx [(2, some { failOnMissing := some false })]) [(10, .list [100])] [{ name := 30 }] [uid]
    = .ok [(10, .list [100])] := by decide
-- precedence: the requester's section (attribute 10 only) wins over the default section (attribute 20 only)
example : policyFilter (natCtx [(1, some { attrRestr := some [(20, none)] }), (2, some { attrRestr := some [(10, none)] })])
    [(10, .list [100]), (20, .list [200])] [] [] = .ok [(10, .list [100])] := by decide
-- value restrictions: only matching values, attribute dropped when nothing matches
example : policyFilter (natCtx [(1, some { attrRestr := some [(10, some [100, 101]), (20, some [7])] })])
    [(10, .list [100, 102, 100]), (20, .list [200])] [] [] = .ok [(10, .list [100])] := by decide
-- entity categories: an ONLY_REQUIRED item releases only what the requester requires (name via FriendlyName)
example : policyFilter
    { natCtx [(1, some { entCats := [[{ key := .always, attrs := [5] },
                                       { key := .single 77, attrs := [10, 20], onlyRequired := true }]] })] with
      spCats := [77] }
    [(5, .list [50]), (10, .list [100]), (20, .list [200])] [{ name := 999, friendlyName := some 10 }] []
    = .ok [(5, .list [50]), (10, .list [100])] := by decide
-- the unchanged `_authn_response` releases the unfiltered identity when the policy raises MissingValue
example : authnRelease (natCtx []) [(10, .list [100])] [{ name := 30 }] [] [] false
    = .assertion [(10, .list [100])] := by decide
example : restrictMissing (natCtx []) [(10, .list [100])] [uid] [] [] = false := by decide
example : unavailable natOps [] [(10, .list [100])] { name := 30 } = true := by decide
example : catsInEffect (natCtx []) = none := by decide
-- hypotheses of the category theorems are satisfiable: a governing item list, a fixed point of `pinEntry`, and one that is not
private def catCtx : Ctx Nat Nat :=
  { natCtx [(1, some { entCats := [[{ key := .single 77, attrs := [10], onlyRequired := true }]] })] with spCats := [77] }
example : catsInEffect catCtx = some [{ key := .single 77, attrs := [10], onlyRequired := true }] := by decide
example : pinEntry (fun k => k == 77) (fun a => a == 5) { key := .single 77, attrs := [10], onlyRequired := true }
    = { key := .single 77, attrs := [10], onlyRequired := true } := by decide
example : pinEntry (fun k => k == 77) (fun a => a == 5) { key := .single 77, attrs := [10] }
    ≠ { key := .single 77, attrs := [10] } := by decide
-- precedence through the registration authority (entity 3) and through the default section (entity 1)
example : ({ natCtx [(1, some { failOnMissing := some true }), (3, some { failOnMissing := some false })] with
             ra := some 3 } : Ctx Nat Nat).section.map (·.failOnMissing) = some (some false) := by decide
example : (natCtx [(1, some { failOnMissing := some false }), (3, some { failOnMissing := some true })]).section.map
    (·.failOnMissing) = some (some false) := by decide
-- `Policy.restrict` adds the subject-id requirement entries that metadata does not list already
example : addSubjectReqs [uid] [uid, mailWith []] = [uid, mailWith []] := by decide
-- `apply_policy` leaves the released entries in the assertion dictionary, in the identity's order
example : selfAfter [(10, .list [100]), (20, .list [200]), (30, .scalar 300)] [(30, .scalar 300), (10, .list [100])]
    = [(10, .list [100]), (30, .scalar 300)] := by decide
-- `setup_assertion` honouring best_effort = False, and `create_attribute_response`: an error, no assertion
example : setupAssertion (natCtx []) [(10, .list [100])] [{ name := 30 }] [] [] false = .errorResponse := by decide
example : attributeRelease (natCtx []) [(10, .list [100])] [{ name := 30 }] [] [] = .raised .missing := by decide

end C10
