import PysamlModel.Model.Sp
import PysamlModel.Spec.Sp
namespace C06
end C06
