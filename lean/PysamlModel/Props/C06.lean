/-
  C06 — Responses are accepted only as successful answers to outstanding requests.
-/
import PysamlModel.Proofs.Sp
import PysamlModel.Proofs.SpFactory
import PysamlModel.Props.C04
import PysamlModel.Gen.StatusCodes

namespace C06
open Sp

theorem scanSc_false {irp : Option String} :
    ∀ {confs : List SubjConf}, scanSc irp confs = false →
      ∀ sc ∈ confs, ∀ d, sc.data = some d → d.irt = irp
  | [], _ => by intro sc hsc; cases hsc
  | sc0 :: rest, h => by
    intro sc hsc d hd
    unfold scanSc at h
    rcases List.mem_cons.mp hsc with rfl | hmem
    · rw [hd] at h
      simp only at h
      split at h
      · cases h
      next hne => simpa using hne
    · split at h
      · exact scanSc_false h sc hmem d hd
      · split at h
        · cases h
        · exact scanSc_false h sc hmem d hd

theorem scanAssertions_false {irp : Option String} :
    ∀ {as : List Assertion}, scanAssertions irp as = false → (∀ a ∈ as, a.subject.isSome = true) →
      ∀ a ∈ as, ∀ s, a.subject = some s → scanSc irp s.confs = false
  | [], _, _ => by intro a ha; cases ha
  | a0 :: rest, h, hall => by
    intro a ha s hs
    unfold scanAssertions at h
    have h0 := hall a0 (List.mem_cons_self ..)
    cases hs0 : a0.subject with
    | none => simp [hs0] at h0
    | some s0 =>
      rw [hs0] at h
      simp only at h
      split at h
      · cases h
      next hsc =>
        rcases List.mem_cons.mp ha with rfl | hmem
        · rw [hs0] at hs; cases hs; simpa using hsc
        · exact scanAssertions_false h (fun b hb => hall b (List.mem_cons_of_mem _ hb)) a hmem s hs

/-- Correlation, from one successful `loads()` and one successful `verify()` started from the `came_from` that
    `loads()` found (shared by both entry points): over a browser binding and unless unsolicited responses are
    allowed, the Response's InResponseTo is outstanding, the `came_from` in the final state is the one stored
    under it, and every subject confirmation of every visible assertion carries the same InResponseTo. -/
theorem correlated_of_loads_verify {cfg : Cfg} {env : Env} {req rs : Bool} {r : Response} {cf0 : Option String}
    {p : Parsed} (hl : loads cfg env req r = .ok cf0)
    (hv : verify cfg env rs { cameFrom := cf0 } r = .ok (some p))
    (hasync : env.asynchop = true) (huns : cfg.allowUnsolicited = false) :
    ∃ i cf, r.inResponseTo = some i ∧ env.outstanding.lookup i = some cf ∧ p.st.cameFrom = some cf ∧
      ∀ a ∈ visible r, ∀ s, a.subject = some s → ∀ sc ∈ s.confs, ∀ d, sc.data = some d → d.irt = some i := by
  obtain ⟨_, _, hcorr⟩ := loads_ok_inv hl
  rcases hcorr hasync with ⟨c, hc, hcf, hscan⟩ | ⟨_, hu, _⟩
  · -- InResponseTo is outstanding
    cases hi : r.inResponseTo with
    | none => simp [hi] at hc
    | some i =>
      rw [hi] at hc
      simp only [Option.bind_some] at hc
      subst hcf
      obtain ⟨_, hpa⟩ := verify_some_inv hv
      obtain ⟨⟨st1, h1, h2⟩, _, hscan2, _, _, _⟩ := parseAssertion_inv hpa
      have hcf1 : st1.cameFrom = some c := checkAll_cameFrom (cf := c) rfl h1
      have hcf2 : p.st.cameFrom = some c := checkAll_cameFrom hcf1 h2
      refine ⟨i, c, rfl, hc, hcf2, ?_⟩
      -- every visible assertion has a subject (it passed get_subject)
      have hacc := C04.verify_visible_accepted hv
      have hsubj : ∀ a ∈ visible r, a.subject.isSome = true := by
        intro a ha
        obtain ⟨v, s, s', hs⟩ := hacc a ha
        obtain ⟨_, _, _, _, _, e3, _⟩ := checkAssertion_inv hs
        obtain ⟨sb, hsb, _⟩ := getSubject_facts e3
        simp [hsb]
      have hscan2' : scanAssertions r.inResponseTo (decOf r) = false := by
        rw [hi] at hscan2
        simp only [hasync, Option.bind_some, hc, Option.isSome_some, Bool.and_self, Bool.true_and] at hscan2
        rw [hi]; exact hscan2
      intro a ha s hs sc hsc d hd
      unfold visible at ha hsubj
      rw [← hi]
      rcases List.mem_append.mp ha with hdec | hpl
      · have := scanAssertions_false hscan2' (fun b hb => hsubj b (List.mem_append_left _ hb)) a hdec s hs
        exact scanSc_false this sc hsc d hd
      · have := scanAssertions_false hscan (fun b hb => hsubj b (List.mem_append_right _ hb)) a hpl s hs
        exact scanSc_false this sc hsc d hd
  · rw [huns] at hu; cases hu

/-- Correlation: over a browser binding and unless unsolicited responses are allowed, identity is
    produced only when the Response's InResponseTo is outstanding, the request context handed back
    is the one stored under it, and every subject confirmation (of plain and of decrypted
    assertions) carries the same InResponseTo — for outstanding sets of any size. -/
theorem C06_correlated {cfg : Cfg} {env : Env} {r : Response} {o : Reported}
    (h : process cfg env r = .identity o) (hasync : env.asynchop = true) (huns : cfg.allowUnsolicited = false) :
    ∃ i cf, r.inResponseTo = some i ∧ env.outstanding.lookup i = some cf ∧ o.cameFrom = some cf ∧
      ∀ a ∈ visible r, ∀ s, a.subject = some s → ∀ sc ∈ s.confs, ∀ d, sc.data = some d → d.irt = some i := by
  obtain ⟨_, cf0, respSigned, rs, p, _, hp1, _, hv, _, _, _, a0, rest, s0, srest, _, _, ho⟩ := process_identity_inv h
  obtain ⟨req, hl, _, _⟩ := pass1_ok_inv hp1
  obtain ⟨i, cf, hi, hlk, hcf, hall⟩ := correlated_of_loads_verify hl hv hasync huns
  exact ⟨i, cf, hi, hlk, by rw [ho]; exact hcf, hall⟩

/-- Correlation for the factory entry point (`authn_response(...)` + `loads()` + `verify()`): its single `loads()`
    performs the same InResponseTo lookup and comparison, so the conclusion is the one of `C06_correlated`, under the
    same hypotheses. -/
theorem C06_correlated_factory {cfg : Cfg} {env : Env} {r : Response} {o : Reported}
    (h : processFactory cfg env r = .identity o) (hasync : env.asynchop = true) (huns : cfg.allowUnsolicited = false) :
    ∃ i cf, r.inResponseTo = some i ∧ env.outstanding.lookup i = some cf ∧ o.cameFrom = some cf ∧
      ∀ a ∈ visible r, ∀ s, a.subject = some s → ∀ sc ∈ s.confs, ∀ d, sc.data = some d → d.irt = some i := by
  obtain ⟨cf0, p, hl, hv, _, _, _, _, _, _, ho⟩ := processFactory_identity_inv h
  obtain ⟨i, cf, hi, hlk, hcf, hall⟩ := correlated_of_loads_verify hl hv hasync huns
  exact ⟨i, cf, hi, hlk, by rw [ho]; exact hcf, hall⟩

/-- Status, version and shape, from one successful `verify()` whose list of used assertions is not empty
    (shared by both entry points). -/
theorem shapeOk_of_verify {cfg : Cfg} {env : Env} {rs : Bool} {st : St} {r : Response} {p : Parsed}
    {a0 : Assertion} {rest : List Assertion}
    (hv : verify cfg env rs st r = .ok (some p)) (hused : p.used = a0 :: rest) : shapeOk r = true := by
  obtain ⟨henv, hpa⟩ := verify_some_inv hv
  obtain ⟨hver, _, _, hstat⟩ := verifyEnvelope_true_inv henv
  obtain ⟨_, _, _, hu, _, _⟩ := parseAssertion_inv hpa
  unfold shapeOk
  simp only [Bool.and_eq_true, hstat, hver, beq_self_eq_true, true_and]
  refine ⟨?_, ?_⟩
  · unfold visible; rw [← hu, hused]; rfl
  · apply List.all_eq_true.mpr
    intro a ha
    obtain ⟨v, s, s', hs⟩ := C04.verify_visible_accepted hv a ha
    obtain ⟨hA, _, _, _, _, e3, _⟩ := checkAssertion_inv hs
    obtain ⟨sb, hsb, _⟩ := getSubject_facts e3
    obtain ⟨s1, hs1, _⟩ := hA.authn
    simp [hs1, hsb]

/-- Status, version and shape: identity ⇒ top-level status Success, version 2.0, at least one
    visible assertion, each with exactly one AuthnStatement and a Subject. -/
theorem C06_shape {cfg : Cfg} {env : Env} {r : Response} {o : Reported}
    (h : process cfg env r = .identity o) : shapeOk r = true := by
  obtain ⟨_, cf, _, rs, p, _, _, _, hv, _, _, _, a0, rest, s0, srest, hused, _, _⟩ := process_identity_inv h
  exact shapeOk_of_verify hv hused

/-- Status, version and shape for the factory entry point. -/
theorem C06_shape_factory {cfg : Cfg} {env : Env} {r : Response} {o : Reported}
    (h : processFactory cfg env r = .identity o) : shapeOk r = true := by
  obtain ⟨cf, p, _, hv, a0, rest, _, _, hused, _, _⟩ := processFactory_identity_inv h
  exact shapeOk_of_verify hv hused

/-- Correlation for the third entry point, `response_factory(...)` + `verify()` (after fix f342ca56 its second load
    is `AuthnResponse.loads`): over a browser binding, unless unsolicited Responses are allowed, identity ⇒ the
    Response's InResponseTo is an outstanding request, every confirmation InResponseTo of every visible assertion
    equals it, and the reported `came_from` is the one stored under it. -/
theorem C06_correlated_respfactory {cfg : Cfg} {env : Env} {r : Response} {o : Reported}
    (h : processRespFactory cfg env r = .identity o) (hasync : env.asynchop = true) (huns : cfg.allowUnsolicited = false) :
    ∃ i cf, r.inResponseTo = some i ∧ env.outstanding.lookup i = some cf ∧ o.cameFrom = some cf ∧
      ∀ a ∈ visible r, ∀ s, a.subject = some s → ∀ sc ∈ s.confs, ∀ d, sc.data = some d → d.irt = some i :=
  C06_correlated_factory (processRespFactory_identity h).2 hasync huns

/-- Status, version and shape for `response_factory(...)` + `verify()`. -/
theorem C06_shape_respfactory {cfg : Cfg} {env : Env} {r : Response} {o : Reported}
    (h : processRespFactory cfg env r = .identity o) : shapeOk r = true :=
  C06_shape_factory (processRespFactory_identity h).2

/-- The decidable specification the driver evaluates holds of the model of this entry point. -/
theorem C06_model_meets_spec_respfactory (cfg : Cfg) (env : Env) (r : Response) :
    specC06 cfg env r (processRespFactory cfg env r) = true := by
  unfold specC06
  cases hres : processRespFactory cfg env r with
  | noIdentity => rfl
  | rejected e => rfl
  | identity o =>
    simp only [Bool.and_eq_true]
    refine ⟨C06_shape_respfactory hres, ?_⟩
    unfold correlated
    cases hasync : env.asynchop with
    | false => simp
    | true =>
      cases huns : cfg.allowUnsolicited with
      | true => simp
      | false =>
        obtain ⟨i, cf, hi, hlk, hcf, hall⟩ := C06_correlated_respfactory hres hasync huns
        simp only [Bool.not_true, Bool.false_or, hi, Option.bind_some, hlk, hcf, beq_self_eq_true, Bool.true_and]
        apply List.all_eq_true.mpr
        intro a ha
        simp only [Bool.or_eq_true]
        right
        unfold scIrtsEqual
        cases hs : a.subject with
        | none => rfl
        | some s =>
          simp only
          apply List.all_eq_true.mpr
          intro sc hsc
          cases hd : sc.data with
          | none => rfl
          | some d => simp [hall a ha s hs sc hsc d hd, hi]

theorem C06_status {cfg : Cfg} {env : Env} {r : Response} {o : Reported}
    (h : process cfg env r = .identity o) : r.statusTop = "urn:oasis:names:tc:SAML:2.0:status:Success" := by
  have := C06_shape h
  unfold shapeOk at this
  simp only [Bool.and_eq_true, beq_iff_eq] at this
  exact this.1.1.1

theorem C06_version {cfg : Cfg} {env : Env} {r : Response} {o : Reported}
    (h : process cfg env r = .identity o) : r.version = "2.0" := by
  have := C06_shape h
  unfold shapeOk at this
  simp only [Bool.and_eq_true, beq_iff_eq] at this
  exact this.1.1.2

/-- The model's outcome always satisfies the decidable specification. -/
theorem C06_model_meets_spec (cfg : Cfg) (env : Env) (r : Response) :
    specC06 cfg env r (process cfg env r) = true := by
  unfold specC06
  cases hres : process cfg env r with
  | noIdentity => rfl
  | rejected e => rfl
  | identity o =>
    simp only [Bool.and_eq_true]
    refine ⟨C06_shape hres, ?_⟩
    unfold correlated
    cases ha : env.asynchop with
    | false => simp
    | true =>
      cases hu : cfg.allowUnsolicited with
      | true => simp
      | false =>
        obtain ⟨i, cf, hi, hlk, hcf, hall⟩ := C06_correlated hres ha hu
        simp only [Bool.not_true, Bool.false_or, hi, Option.bind_some, hlk, hcf, beq_self_eq_true, Bool.true_and]
        apply List.all_eq_true.mpr
        intro a haa
        simp only [Bool.not_true, Bool.and_false, Bool.false_or]
        unfold scIrtsEqual
        cases hs : a.subject with
        | none => rfl
        | some s =>
          simp only
          apply List.all_eq_true.mpr
          intro sc hsc
          cases hd : sc.data with
          | none => rfl
          | some d =>
            simp only [hi]
            have := hall a haa s hs sc hsc d hd
            simp [this]

/-! ### the regenerated status-code table -/

open Gen.StatusCodes in
/-- CamelCase of a constant name: `STATUS_AUTHN_FAILED` ↦ `StatusAuthnFailed` (on ASCII codes). -/
def camel : List Nat → Bool → List Nat
  | [], _ => []
  | c :: rest, up =>
    if c = 95 then camel rest true                      -- '_'
    else (if up then c else (if 65 ≤ c ∧ c ≤ 90 then c + 32 else c)) :: camel rest false

def isTopOnly (name : List Nat) : Bool :=
  name == [83,84,65,84,85,83,95,83,85,67,67,69,83,83]            -- "STATUS_SUCCESS"
  || name == [83,84,65,84,85,83,95,82,69,81,85,69,83,84,69,82]   -- "STATUS_REQUESTER"

/-- Every `samlp.STATUS_*` constant other than Success/Requester has a table entry for its URI. -/
theorem C06_table_complete :
    Gen.StatusCodes.constantCodes.all (fun c => isTopOnly c.1 ||
      Gen.StatusCodes.tableCodes.any (fun row => row.1 == c.1 && row.2.1 == c.2)) = true := by decide

/-- Each entry's exception class is the one named after the constant, and derives from StatusError. -/
theorem C06_table_names :
    Gen.StatusCodes.tableCodes.all (fun row => row.2.2.1 == camel row.1 true && row.2.2.2) = true := by decide

/-- No URI occurs twice (the table is a function). -/
theorem C06_table_functional :
    Gen.StatusCodes.tableCodes.all (fun row =>
      (Gen.StatusCodes.tableCodes.filter (fun row' => row'.2.1 == row.2.1)).length == 1) = true := by decide

/-- The property speaks of 21 defined second-level codes. -/
theorem C06_table_size : Gen.StatusCodes.tableCodes.length = 21 ∧ Gen.StatusCodes.table.length = 21 := by decide

/-- The `String` table used by the driver and the code table used by the lemmas are the same data. -/
theorem C06_table_views_agree :
    Gen.StatusCodes.table.map (fun row => (row.1.toList.map Char.toNat, row.2.1.toList.map Char.toNat,
        row.2.2.1.toList.map Char.toNat, row.2.2.2)) = Gen.StatusCodes.tableCodes := by decide

/-! ### the subject's identifier (`get_subject`): NameID, else the EncryptedID decrypted with the provider's own keys

A subject that is identified only by an `<EncryptedID>` the provider cannot open is as good as no subject: no
identity.  When it can be opened, the identifier reported is the NameID inside it. -/

/-- Identity ⇒ every visible assertion whose subject is identified by an EncryptedID had it opened. -/
theorem C06_encrypted_id_opened {cfg : Cfg} {env : Env} {r : Response} {o : Reported}
    (h : process cfg env r = .identity o ∨ processFactory cfg env r = .identity o ∨ processRespFactory cfg env r = .identity o) :
    ∀ a ∈ visible r, ∀ s, a.subject = some s → s.idSealed = true → s.idOpens = true := by
  have hacc : ∃ rs, ∀ a ∈ visible r, ∃ v s s', checkAssertion cfg env rs v s a = .ok s' := by
    rcases h with h | h | h
    · exact C04.visible_accepted h
    · exact C04.visible_accepted_factory h
    · exact C04.visible_accepted_respfactory h
  obtain ⟨rs, hacc⟩ := hacc
  intro a ha s hs hsealed
  obtain ⟨v, st, st', hchk⟩ := hacc a ha
  obtain ⟨_, st1, st2, _, _, e3, _⟩ := checkAssertion_inv hchk
  obtain ⟨s', hs', hid⟩ := getSubject_id e3
  rw [hs] at hs'; cases hs'
  cases hd : s.idOpens with
  | true => rfl
  | false =>
    have herr : subjectId s = .error .idUndecryptable := by simp [subjectId, hsealed, hd]
    rcases hid with ⟨h1, _⟩ | ⟨n, h1, _⟩ <;> rw [herr] at h1 <;> cases h1

/-- The identifier reported for a single-assertion Response is the one `subjectId` reads: the NameID, else the content of
    the (opened) EncryptedID, else none. -/
theorem C06_reported_identifier {cfg : Cfg} {env : Env} {r : Response} {o : Reported} {a : Assertion}
    (h : process cfg env r = .identity o) (hone : visible r = [a]) :
    ∃ s, a.subject = some s ∧ subjectId s = .ok o.nameId ∧ o.nameId = s.nameId := by
  obtain ⟨_, cf, _, rs, p, _, _, _, hv, _, _, _, a0, rest, s0, srest, hused, hauthn, ho⟩ := process_identity_inv h
  obtain ⟨_, hp⟩ := verify_some_inv hv
  obtain ⟨⟨st1, h1, h2⟩, _, _, hu, _, _⟩ := parseAssertion_inv hp
  have hvis : decOf r ++ plainOf r = [a] := hone
  have hfinal : ∃ v st0, st0.nameId = none ∧ checkAssertion cfg env rs v st0 a = .ok p.st := by
    rcases List.append_eq_cons_iff.mp hvis with ⟨hd, hp'⟩ | ⟨as, hd, hp'⟩
    · rw [hd] at h2; rw [hp'] at h1
      unfold checkAll at h2; cases h2
      unfold checkAll at h1
      split at h1
      · cases h1
      next st' hchk =>
        unfold checkAll at h1; cases h1
        exact ⟨false, _, rfl, hchk⟩
    · have has : as = [] ∧ plainOf r = [] := List.append_eq_nil_iff.mp hp'.symm
      rw [hd, has.1] at h2; rw [has.2] at h1
      unfold checkAll at h1; cases h1
      unfold checkAll at h2
      split at h2
      · cases h2
      next st' hchk =>
        unfold checkAll at h2; cases h2
        exact ⟨true, _, rfl, hchk⟩
  obtain ⟨v, st0, hz, hchk⟩ := hfinal
  obtain ⟨_, sa, sb, e1, e2, e3, _⟩ := checkAssertion_inv hchk
  obtain ⟨_, _, _, _, _, hn1, _⟩ := authnStatementOk_inv e1
  obtain ⟨_, _, _, _, hn2⟩ := conditionOk_facts e2
  obtain ⟨s, hs, hid⟩ := getSubject_id e3
  have key : subjectId s = .ok o.nameId := by
    rw [ho]
    simp only
    rcases hid with ⟨h1', h2'⟩ | ⟨n, h1', h2'⟩
    · rw [h2', hn2, hn1]; simpa [hz] using h1'
    · rw [h2']; exact h1'
  refine ⟨s, hs, key, ?_⟩
  unfold subjectId at key
  split at key
  · cases key
  · exact (Except.ok.inj key).symm

/-! Non-vacuity -/
private def okAssertion : Assertion :=
  { conditions := some { nooa := some 200, audiences := [["me"]] },
    authn := [{ sessionIndex := some "s" }],
    subject := some { nameId := some "n", confs := [{ method := .bearer, data := some { nooa := some 200, recipient := some "u", irt := some "r1" } }] } }
private def okResp : Response :=
  { sig := .valid, issueInstant := 100, destination := some "u", inResponseTo := some "r1", assertions := [okAssertion] }
private def okCfg : Cfg := { entityId := "me", returnAddrs := ["u"] }
private def okEnv : Env := { now := 100, outstanding := [("r0", "/w"), ("r1", "/x")] }

example : (process okCfg okEnv okResp).isIdentity = true := by decide
example : process okCfg okEnv { okResp with inResponseTo := some "r9" } = .rejected .unsolicited := by decide
example : process okCfg okEnv { okResp with inResponseTo := some "r0" } = .rejected .unsolicited := by decide
private def failedResp : Response :=
  { okResp with statusTop := "urn:oasis:names:tc:SAML:2.0:status:Responder", statusSecond := some "urn:oasis:names:tc:SAML:2.0:status:AuthnFailed" }
example : process okCfg okEnv failedResp = .rejected (.status (some "urn:oasis:names:tc:SAML:2.0:status:AuthnFailed")) := by decide
private def encOtherIrt : Assertion :=
  { okAssertion with encrypted := true, subject := some { nameId := some "n", confs := [{ method := .bearer, data := some { nooa := some 200, recipient := some "u", irt := some "r0" } }] } }
example : process okCfg okEnv { okResp with assertions := [encOtherIrt] } = .rejected .unsolicited := by decide

/-! Non-vacuity for the factory entry point: the same Response is accepted with the stored request context, and the
    same four defects are refused there. -/
example : processFactory okCfg okEnv okResp = .identity
  { nameId := some "n", issuer := "", cameFrom := some "/x", notOnOrAfter := 200, sessionIndex := some "s", cached := false } := by decide
example : processFactory okCfg okEnv { okResp with inResponseTo := some "r9" } = .rejected .unsolicited := by decide
example : processFactory okCfg okEnv { okResp with inResponseTo := some "r0" } = .rejected .unsolicited := by decide
example : processFactory okCfg okEnv failedResp = .rejected (.status (some "urn:oasis:names:tc:SAML:2.0:status:AuthnFailed")) := by decide
example : processFactory okCfg okEnv { okResp with assertions := [encOtherIrt] } = .rejected .unsolicited := by decide
example : processFactory okCfg okEnv { okResp with version := "1.1" } = .rejected .versionLow := by decide

/-! Non-vacuity for the EncryptedID: opened → its content is reported (all three entry points); not opened → refused. -/
private def encIdAssertion (opened : Bool) : Assertion :=
  { okAssertion with subject := some { nameId := some "secret", idSealed := true, idOpens := opened, confs := [{ method := .bearer, data := some { nooa := some 200, recipient := some "u", irt := some "r1" } }] } }
example : process okCfg okEnv { okResp with assertions := [encIdAssertion true] } = .identity
  { nameId := some "secret", issuer := "", cameFrom := some "/x", notOnOrAfter := 200, sessionIndex := some "s", cached := true } := by decide
example : process okCfg okEnv { okResp with assertions := [encIdAssertion false] } = .rejected .idUndecryptable := by decide
example : processFactory okCfg okEnv { okResp with assertions := [encIdAssertion false] } = .rejected .idUndecryptable := by decide
example : (processRespFactory okCfg okEnv { okResp with assertions := [{ encIdAssertion true with encrypted := true }] }).isIdentity = true := by decide
example : processRespFactory okCfg okEnv { okResp with assertions := [{ encIdAssertion false with encrypted := true }] } = .rejected .idUndecryptable := by decide

/-! Non-vacuity for `response_factory(...)` + `verify()`: the correlated Response is accepted with the stored request
    context; the three uncorrelated shapes the entry point accepted before fix f342ca56 (Response InResponseTo unknown /
    another outstanding request's / absent, while the bearer confirmation names an outstanding request) are refused;
    with unsolicited Responses allowed they pass (the hypothesis `allowUnsolicited = false` is needed). -/
example : processRespFactory okCfg okEnv okResp = .identity
  { nameId := some "n", issuer := "", cameFrom := some "/x", notOnOrAfter := 200, sessionIndex := some "s", cached := false } := by decide
example : processRespFactory okCfg okEnv { okResp with inResponseTo := some "r9" } = .rejected .unsolicited := by decide
example : processRespFactory okCfg okEnv { okResp with inResponseTo := some "r0" } = .rejected .unsolicited := by decide
example : processRespFactory okCfg okEnv { okResp with inResponseTo := none } = .rejected .unsolicited := by decide
example : (processRespFactory { okCfg with allowUnsolicited := true } okEnv { okResp with inResponseTo := some "r9" }).isIdentity = true := by decide
example : processRespFactory okCfg okEnv { okResp with sig := .corrupted } = .rejected .sigBadResponse := by decide

end C06
