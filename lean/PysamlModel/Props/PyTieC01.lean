import PysamlModel.Model.MiniPy
import PysamlModel.Model.Sp
import PysamlModel.Model.PyEnc
import PysamlModel.Gen.PyFuns
import PysamlModel.Proofs.MiniPy

/-!
# C01: the signature gate of `Sp.loads` IS `SecurityContext.correctly_signed_response` (refinement over the regenerated MiniPy term)
-/

namespace PyTie
open MiniPy Gen.PyFuns

theorem loads_sigGate (cfg : Sp.Cfg) (env : Sp.Env) (req : Bool) (r : Sp.Response) :
    (∀ e, sigGate r.sig req = some e → Sp.loads cfg env req r = .error e) := by
  intro e h
  unfold sigGate at h
  unfold Sp.loads
  by_cases h1 : (r.sig.present && r.sig != .valid) = true
  · simp only [h1, if_true] at h ⊢
    cases h; rfl
  · simp only [h1, Bool.false_eq_true, if_false] at h ⊢
    by_cases h2 : (!r.sig.present && req) = true
    · simp only [h2, if_true] at h ⊢
      cases h; rfl
    · simp [h2] at h

/-- **`SecurityContext.correctly_signed_response` refines the signature gate of `Sp.loads`**: for every signature
    state of the Response (absent, valid, corrupted, made with an untrusted key), every value of
    `require_response_signature` and of the unused `must`, the CURRENT text of the method raises `SignatureError`
    exactly when the model's gate refuses, and otherwise returns the parsed Response.  (`_check_signature` — which
    key, which element — is C02/C03; here it is the parameter "verifies or raises".) -/
theorem correctly_signed_response_refines (s : Sp.Sig) (req must : Bool) :
    run Sp.pyStrip (csrExt s.present (s == .valid)) SecurityContext_correctly_signed_response
      [.obj [], .str "<xml>", .bool must, .none, .bool false, .bool req, .obj []] =
      (match sigGate s req with
       | some _ => .raised "SignatureError"
       | none => .value (respV s.present)) := by
  cases s <;> cases req <;> cases must <;> rfl


end PyTie
