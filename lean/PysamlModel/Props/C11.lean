/-
  C11 — The metadata store answers exactly what authentic, current metadata says.
  Property theorems (namespace `C11`, names `C11_…`) and their non-vacuity examples; auxiliary
  lemmas they need are in `Proofs/C11.lean` or stated right before their use.

  All statements quantify over arbitrary documents (any number of entities, roles, endpoints,
  keys, …), arbitrary stores (any number and mix of sources), arbitrary clocks and — section E —
  arbitrary histories of load / reload / lookup steps with arbitrary source and MDQ-server answers.

  `Policy.code` is the pinned code, `Policy.ideal` the reference the specification is built on
  (see `Model/MdStore.lean`, `Spec/C11.lean`); they differ in one switch (F9, `unsignedPasses`).  Theorems
  stated for an arbitrary `pol`, or about functions that take no policy (`prepEnt`, `parseDoc`, all
  lookups on a descriptor, `keysOf`/`itemsOf`/`withDescOf`), hold of the code as it is.
-/
import PysamlModel.Proofs.C11

namespace C11
open MdStore
variable {α : Type} [DecidableEq α]


/-! ## A. What is read off one served descriptor -/

theorem mem_rolesOf {e : Ent α} {k : Kind} {r : Role α} : r ∈ rolesOf e k ↔ r ∈ e.roles ∧ r.kind = k := by
  simp [rolesOf]

/-- Endpoints, sound and complete: with a binding given, `service` returns exactly the endpoints that
    a descriptor of the requested kind publishes for the requested service and binding. -/
theorem C11_endpoints_exact (e : Ent α) (k : Kind) (svc : α) (eps : List (Endpoint α))
    (h : roleEndpoints e k svc = some eps) (b : α) (ep : Endpoint α) :
    ep ∈ selectBinding eps (some b) ↔
      (∃ r ∈ e.roles, r.kind = k ∧ ep ∈ r.endpoints) ∧ ep.svc = svc ∧ ep.binding = b := by
  unfold roleEndpoints at h
  simp only at h
  split at h
  · cases h
  · cases h
    simp only [selectBinding, List.mem_filter, List.mem_flatMap, mem_rolesOf, decide_eq_true_eq]
    constructor
    · rintro ⟨⟨r, ⟨hr, hk⟩, hep, hs⟩, hb⟩; exact ⟨⟨r, hr, hk, hep⟩, hs, hb⟩
    · rintro ⟨⟨r, hr, hk, hep⟩, hs, hb⟩; exact ⟨⟨r, ⟨hr, hk⟩, hep, hs⟩, hb⟩

/-- Without a binding every endpoint of the service is returned (grouped by binding), nothing else. -/
theorem C11_endpoints_any_binding (eps : List (Endpoint α)) (ep : Endpoint α) :
    ep ∈ selectBinding eps none ↔ ep ∈ eps := by
  simp only [selectBinding, List.mem_flatMap, List.mem_filter, decide_eq_true_eq, List.mem_eraseDups, List.mem_map]
  constructor
  · rintro ⟨_, _, h, _⟩; exact h
  · intro h; exact ⟨ep.binding, ⟨ep, h, rfl⟩, h, rfl⟩

theorem mem_extractCerts {use c : α} {rs : List (Role α)} :
    c ∈ extractCerts use rs ↔ ∃ r ∈ rs, ∃ kd ∈ r.keys, kd.cert = c ∧ kd.nocert = false ∧ (kd.use = none ∨ kd.use = some use) := by
  simp only [extractCerts, List.mem_flatMap, List.mem_map, List.mem_filter, Bool.or_eq_true, decide_eq_true_eq,
    Bool.and_eq_true, Bool.not_eq_true']
  constructor
  · rintro ⟨r, hr, kd, ⟨hkd, hu⟩, hc⟩; exact ⟨r, hr, kd, hkd, hc, hu⟩
  · rintro ⟨r, hr, kd, hkd, hc, hu⟩; exact ⟨r, hr, kd, ⟨hkd, hu⟩, hc⟩

/-- Certificates by declared use: exactly the certificates of the key descriptors of the requested
    descriptor kind whose `use` is the requested one or absent; a key descriptor without a usable
    certificate (none, empty, blank) contributes nothing. -/
theorem C11_certs_exact (e : Ent α) (k : Kind) (use : α) (l : List α) (h : certsOf e (some k) use = some l) (c : α) :
    c ∈ l ↔ ∃ r ∈ e.roles, r.kind = k ∧ ∃ kd ∈ r.keys, kd.cert = c ∧ kd.nocert = false ∧ (kd.use = none ∨ kd.use = some use) := by
  unfold certsOf at h
  simp only at h
  split at h
  · cases h
  · cases h
    rw [mem_extractCerts]
    constructor
    · rintro ⟨r, hr, rest⟩; exact ⟨r, (mem_rolesOf.mp hr).1, (mem_rolesOf.mp hr).2, rest⟩
    · rintro ⟨r, hr, hk, rest⟩; exact ⟨r, mem_rolesOf.mpr ⟨hr, hk⟩, rest⟩

/-- `certs(…, "any", use)`: the same over every role descriptor (the affiliation descriptor is not consulted). -/
theorem C11_certs_any_exact (e : Ent α) (use : α) (c : α) :
    ∃ l, certsOf e none use = some l ∧
      (c ∈ l ↔ ∃ r ∈ e.roles, r.kind ≠ .affiliation ∧ ∃ kd ∈ r.keys, kd.cert = c ∧ kd.nocert = false ∧ (kd.use = none ∨ kd.use = some use)) := by
  refine ⟨_, rfl, ?_⟩
  simp only [List.mem_flatMap, mem_extractCerts, mem_rolesOf]
  constructor
  · rintro ⟨k, hk, r, ⟨hr, hrk⟩, rest⟩
    refine ⟨r, hr, ?_, rest⟩
    intro ha; rw [hrk] at ha; subst ha
    simp [Kind.certOrder] at hk
  · rintro ⟨r, hr, hna, rest⟩
    refine ⟨r.kind, ?_, r, ⟨hr, rfl⟩, rest⟩
    cases hk : r.kind <;> simp_all [Kind.certOrder]

/-- Requested attributes: an attribute is reported (as required, resp. optional) exactly when an
    SPSSODescriptor of the entity requests it in the consuming service asked for, with
    `isRequired="true"` resp. anything else. -/
theorem C11_attribute_requirement_exact (t : α) (e : Ent α) (index : Option α) (n : α) :
    (n ∈ (attrReqOf t e index).1 ↔
      ∃ r ∈ e.roles, r.kind = .spsso ∧ ∃ ra ∈ r.reqAttrs, ra.name = n ∧ (index = none ∨ index = some ra.acs) ∧ ra.required = some t) ∧
    (n ∈ (attrReqOf t e index).2 ↔
      ∃ r ∈ e.roles, r.kind = .spsso ∧ ∃ ra ∈ r.reqAttrs, ra.name = n ∧ (index = none ∨ index = some ra.acs) ∧ ra.required ≠ some t) := by
  simp only [attrReqOf, List.mem_map, List.mem_filter, List.mem_flatMap, mem_rolesOf, Bool.or_eq_true,
    decide_eq_true_eq, Bool.not_eq_true', decide_eq_false_iff_not]
  constructor
  · constructor
    · rintro ⟨ra, ⟨⟨⟨r, ⟨hr, hk⟩, hra⟩, hi⟩, hq⟩, hn⟩; exact ⟨r, hr, hk, ra, hra, hn, hi, hq⟩
    · rintro ⟨r, hr, hk, ra, hra, hn, hi, hq⟩; exact ⟨ra, ⟨⟨⟨r, ⟨hr, hk⟩, hra⟩, hi⟩, hq⟩, hn⟩
  · constructor
    · rintro ⟨ra, ⟨⟨⟨r, ⟨hr, hk⟩, hra⟩, hi⟩, hq⟩, hn⟩; exact ⟨r, hr, hk, ra, hra, hn, hi, hq⟩
    · rintro ⟨r, hr, hk, ra, hra, hn, hi, hq⟩; exact ⟨ra, ⟨⟨⟨r, ⟨hr, hk⟩, hra⟩, hi⟩, hq⟩, hn⟩

/-- Entity categories: exactly the values of the entity attributes named `ENTITY_CATEGORY`. -/
theorem C11_categories_exact (ec : α) (e : Ent α) (v : α) :
    v ∈ catsOf ec e ↔ ∃ a ∈ e.attrs, a.1 = ec ∧ v ∈ a.2 := by
  simp only [catsOf, List.mem_flatMap, List.mem_filter, decide_eq_true_eq]
  constructor
  · rintro ⟨a, ⟨ha, hn⟩, hv⟩; exact ⟨a, ha, hn, hv⟩
  · rintro ⟨a, ha, hn, hv⟩; exact ⟨a, ⟨ha, hn⟩, hv⟩

/-- Registration details: those of the first `RegistrationInfo` of the entity, if there is one. -/
theorem C11_registration_exact (e : Ent α) (r : Reg α) :
    e.regs.head? = some r ↔ ∃ rest, e.regs = r :: rest := by
  cases e.regs <;> simp


/-! ## B. One document, one source -/

/-- Roles that do not support SAML 2.0 are not served: the served descriptor is the document's
    entity with exactly its SAML 2.0 role descriptors (and the affiliation descriptor), everything
    else unchanged.  (Full strength since fix 096626db; the input on which the code used to serve a
    SAML-1.1-only descriptor beside a SAML 2.0 sibling is kept in corpus/C11.) -/
theorem C11_non_saml2_roles_not_served (p2 : α) (e e' : Ent α) (h : prepEnt p2 e = some e') :
    e'.id = e.id ∧ e'.tag = e.tag ∧ e'.attrs = e.attrs ∧ e'.regs = e.regs ∧
      (∀ r, r ∈ e'.roles ↔ r ∈ e.roles ∧ saml2 p2 r = true) ∧ e'.roles ≠ [] := by
  obtain ⟨rfl, hne⟩ := prepEnt_some h
  refine ⟨rfl, rfl, rfl, rfl, ?_, hne⟩
  intro r
  simp only [List.mem_filter]

/-- An entity none of whose descriptors supports SAML 2.0 is not served at all. -/
theorem C11_non_saml2_entity_not_served (p2 : α) (e : Ent α) (h : ∀ r ∈ e.roles, saml2 p2 r = false) :
    prepEnt p2 e = none := by
  unfold prepEnt
  have : e.roles.filter (saml2 p2) = [] := by
    apply List.filter_eq_nil_iff.mpr
    intro r hr
    rw [h r hr]; simp
  simp [this]

/-- The filters of `parse` / `do_entity_descriptor`, exactly: after reading a document into an
    empty source, the descriptor served for an entityID is the FIRST entity of the document with
    that entityID that is not past its validUntil (validity checking on) and keeps a descriptor —
    expired entities, entities without SAML 2.0 support and repeated entityIDs are not served, and
    everything else is; the descriptor served is `prepEnt` of that entity, i.e. (by
    `C11_non_saml2_roles_not_served`) the entity with exactly its SAML 2.0 role descriptors.
    Holds at full strength of the code as it is (after fix 096626db), for every document. -/
theorem C11_filters (chk : Bool) (now : Int) (p2 : α) (d : Doc α) (m : EntMap α)
    (h : parseDoc chk now p2 [] d = .ok m) (id : α) (e' : Ent α) :
    (id, e') ∈ m ↔
      ∃ e, (docEntities d).find? (fun e => decide (e.id = id) && eligible chk now p2 e) = some e ∧
        prepEnt p2 e = some e' := by
  have hn : (m.map (·.1)).Nodup := parseDoc_nodup h (by simp)
  rw [mem_iff_lookup_of_nodup hn, lookup_parseDoc h]
  have : lookup ([] : EntMap α) id = none := rfl
  rw [this, Option.none_or]
  simp [Option.bind_eq_some_iff]

/-- … in particular nothing past its validUntil is served while validity checking is on, -/
theorem C11_expired_not_served (now : Int) (p2 : α) (d : Doc α) (m : EntMap α)
    (h : parseDoc true now p2 [] d = .ok m) (id : α) (e' : Ent α) (hm : (id, e') ∈ m) :
    ∃ e ∈ d.entities, e.id = id ∧ prepEnt p2 e = some e' ∧ ∀ t, e.validUntil = some t → now ≤ t := by
  obtain ⟨e, hf, hp⟩ := (C11_filters true now p2 d m h id e').mp hm
  have hmem := List.mem_of_find?_eq_some hf
  have hprop := List.find?_some hf
  simp only [eligible, Bool.true_and, Bool.and_eq_true, decide_eq_true_eq, Bool.not_eq_true'] at hprop
  refine ⟨e, ?_, hprop.1, hp, ?_⟩
  · unfold docEntities at hmem
    split at hmem
    · exact hmem
    · exact List.mem_of_mem_take hmem
  · intro t ht
    have := hprop.2.1
    simp only [expired, ht, decide_eq_false_iff_not] at this
    omega

/-- … a repeated entityID is served once, -/
theorem C11_repeated_id_served_once (chk : Bool) (now : Int) (p2 : α) (d : Doc α) (m : EntMap α)
    (h : parseDoc chk now p2 [] d = .ok m) : (m.map (·.1)).Nodup :=
  parseDoc_nodup h (by simp)

/-- … and every entity that is current and supports SAML 2.0 has its entityID served (completeness). -/
theorem C11_complete_document (chk : Bool) (now : Int) (p2 : α) (d : Doc α) (m : EntMap α)
    (h : parseDoc chk now p2 [] d = .ok m) (e : Ent α) (he : e ∈ docEntities d)
    (hel : eligible chk now p2 e = true) : has m e.id = true := by
  rw [has_eq_isSome, lookup_parseDoc h]
  have : lookup ([] : EntMap α) e.id = none := rfl
  rw [this, Option.none_or]
  cases hf : (docEntities d).find? (fun x => decide (x.id = e.id) && eligible chk now p2 x) with
  | none =>
    have := List.find?_eq_none.mp hf e he
    simp [hel] at this
  | some x =>
    have hprop := List.find?_some hf
    simp only [eligible, Bool.and_eq_true] at hprop
    cases hp : prepEnt p2 x with
    | none => rw [hp] at hprop; simp at hprop
    | some y => simp [hp]

/-- An EntitiesDescriptor past its own validUntil is refused as a whole. -/
theorem C11_too_old_document_refused (now : Int) (p2 : α) (m : EntMap α) (d : Doc α)
    (hg : d.group = true) (t : Int) (ht : d.validUntil = some t) (hlt : t < now) :
    parseDoc true now p2 m d = .error .tooOld := by
  unfold parseDoc
  simp [hg, expired, ht, hlt]

/-- What a successful load of a (non-MDQ) source means (`parseSrc` = `parseDoc` for a source without
    a filter, `parseDocF` with the filter otherwise: `C11_filter_*` below). -/
theorem C11_load_exact (pol : Policy) (p2 : α) (now : Int) (sp : SrcSpec α) (s : Source α)
    (h : loadSource pol p2 now sp = .ok s) (hk : sp.kind ≠ .mdq) :
    ∃ d, sp.fetch = .doc d ∧ parseSrc sp now p2 d = .ok s.entities ∧
      checkSig pol sp.kind (effCert sp.kind sp.cert) d.sig = true ∧
      s.key = sp.key ∧ s.kind = sp.kind ∧ s.cert = sp.cert := by
  unfold loadSource at h
  cases hkind : sp.kind <;> rw [hkind] at h <;> simp only at h
  case loader => cases h
  case mdq => exact absurd hkind hk
  all_goals
    cases hf : sp.fetch with
    | unavailable => rw [hf] at h; cases h
    | malformed => rw [hf] at h; cases h
    | doc d =>
      rw [hf] at h
      simp only at h
      cases hp : parseSrc sp now p2 d with
      | error _ => rw [hp] at h; cases h
      | ok m =>
        rw [hp] at h
        simp only at h
        split at h
        · next hc => cases h; exact ⟨d, rfl, hp, hc, rfl, rfl, rfl⟩
        · cases h

/-- Authenticity at load time (reference policy): a source configured with a verification
    certificate is loaded only from a document whose signature verifies. -/
theorem C11_authentic_load (p2 : α) (now : Int) (sp : SrcSpec α) (s : Source α)
    (h : loadSource Policy.ideal p2 now sp = .ok s) (hk : sp.kind ≠ .mdq) (hc : effCert sp.kind sp.cert = true) :
    ∃ d, sp.fetch = .doc d ∧ d.sig = .valid := by
  obtain ⟨d, hf, _, hs, _⟩ := C11_load_exact Policy.ideal p2 now sp s h hk
  refine ⟨d, hf, ?_⟩
  rw [hc] at hs
  unfold checkSig at hs
  cases hsig : d.sig <;> simp_all [Policy.ideal]

/-- A document whose signature does not verify is refused whatever the policy switch (tampered,
    wrong key), also by the pinned code. -/
theorem C11_bad_signature_refused (pol : Policy) (p2 : α) (now : Int) (sp : SrcSpec α) (d : Doc α)
    (hf : sp.fetch = .doc d) (hc : effCert sp.kind sp.cert = true) (hs : d.sig = .tampered ∨ d.sig = .wrongKey)
    (hk : sp.kind ≠ .mdq) : ∃ e, loadSource pol p2 now sp = .error e := by
  cases h : loadSource pol p2 now sp with
  | error e => exact ⟨e, rfl⟩
  | ok s =>
    obtain ⟨d', hf', _, hsig, _⟩ := C11_load_exact pol p2 now sp s h hk
    rw [hf] at hf'; cases hf'
    rw [hc] at hsig
    unfold checkSig at hsig
    rcases hs with hs | hs <;> simp [hs] at hsig


/-! ## B2. A source that was given the store's `filter` (`MetadataStore(filter=…)`)

The statements about `parseDocF` hold for EVERY function `g` from descriptors to optional descriptors
(whatever the callable does); `applyFilt` is the family the correspondence run instantiates. -/

/-- Soundness with a filter: every entry a source serves after reading a document is the filter's
    ANSWER on an entity of that document with that entityID (restricted to its SAML 2.0 descriptors),
    current when validity checking is on.  In particular nothing the filter refuses is served, and what
    it rewrites is served as rewritten, never in the original form. -/
theorem C11_filter_sound (g : Ent α → Option (Ent α)) (chk : Bool) (now : Int) (p2 : α) (d : Doc α) (m : EntMap α)
    (h : parseDocF g chk now p2 [] d = .ok m) (id : α) (e' : Ent α) (hm : (id, e') ∈ m) :
    ∃ e ∈ d.entities, e.id = id ∧ (∃ d0, prepEnt p2 e = some d0 ∧ g d0 = some e') ∧
      (chk = true → expired now e.validUntil = false) := by
  rcases mem_parseDocF h hm with h0 | ⟨e, he, hid, hs, hexp⟩
  · cases h0
  · refine ⟨e, he, hid.symm, ?_, hexp⟩
    unfold servedF at hs
    cases hp : prepEnt p2 e with
    | none => rw [hp] at hs; cases hs
    | some d0 => rw [hp] at hs; exact ⟨d0, rfl, hs⟩

/-- What the filter drops is not served: if the filter refuses every occurrence of an entityID in the
    document, the source does not list that entityID (neither `keys()` nor any lookup finds it). -/
theorem C11_filter_dropped_not_served (g : Ent α → Option (Ent α)) (chk : Bool) (now : Int) (p2 : α) (d : Doc α)
    (m : EntMap α) (h : parseDocF g chk now p2 [] d = .ok m) (id : α)
    (hdrop : ∀ e ∈ d.entities, e.id = id → ∀ d0, prepEnt p2 e = some d0 → g d0 = none) :
    has m id = false ∧ lookup m id = none := by
  have hh : has m id = false := by
    cases hc : has m id with
    | false => rfl
    | true =>
      rw [has_eq_isSome] at hc
      cases hl : lookup m id with
      | none => rw [hl] at hc; cases hc
      | some e' =>
        obtain ⟨e, he, hid, ⟨d0, hp, hg⟩, _⟩ := C11_filter_sound g chk now p2 d m h id e' (lookup_mem hl)
        rw [hdrop e he hid d0 hp] at hg; cases hg
  exact ⟨hh, lookup_none_of_not_has hh⟩

/-- Completeness with a filter: an entity the document contains that is current, supports SAML 2.0
    and is kept by the filter has its entityID served — a refused EARLIER occurrence of the same
    entityID does not stand in its way (the code sets `flag = 0` before anything is stored). -/
theorem C11_filter_complete (g : Ent α → Option (Ent α)) (chk : Bool) (now : Int) (p2 : α) (d : Doc α) (m : EntMap α)
    (h : parseDocF g chk now p2 [] d = .ok m) (e : Ent α) (he : e ∈ docEntities d)
    (hel : eligibleF g chk now p2 e = true) : has m e.id = true := by
  rw [has_parseDocF h]
  simp only [Bool.or_eq_true, List.any_eq_true]
  right
  exact ⟨e, he, by simp [hel]⟩

/-- … and conversely an entityID is listed only if some such entity is in the document. -/
theorem C11_filter_listed_iff (g : Ent α → Option (Ent α)) (chk : Bool) (now : Int) (p2 : α) (d : Doc α) (m : EntMap α)
    (h : parseDocF g chk now p2 [] d = .ok m) (id : α) :
    has m id = true ↔ ∃ e ∈ docEntities d, e.id = id ∧ eligibleF g chk now p2 e = true := by
  rw [has_parseDocF h]
  have : has ([] : EntMap α) id = false := rfl
  simp [this]

/-- With a filter, too, an entityID is served at most once per source. -/
theorem C11_filter_served_once (g : Ent α → Option (Ent α)) (chk : Bool) (now : Int) (p2 : α) (d : Doc α) (m : EntMap α)
    (h : parseDocF g chk now p2 [] d = .ok m) : (m.map (·.1)).Nodup :=
  parseDocF_nodup h (by simp)

/-- A filter that keeps every descriptor unchanged is no filter: all theorems of section B apply. -/
theorem C11_filter_identity (chk : Bool) (now : Int) (p2 : α) (m : EntMap α) (d : Doc α) :
    parseDocF some chk now p2 m d = parseDoc chk now p2 m d :=
  parseDocF_some chk now p2 m d

/-- The filters of the correspondence run, exactly: an entity is kept iff its entityID is not refused
    and it carries the demanded entity-attribute value (if one is demanded); what is kept is the
    entity minus the descriptors of the stripped kinds, everything else unchanged. -/
theorem C11_filter_family_exact (f : Filt α) (e e' : Ent α) :
    applyFilt f e = some e' ↔
      e.id ∉ f.drop ∧ (∀ nv, f.need = some nv → ∃ a ∈ e.attrs, a.1 = nv.1 ∧ nv.2 ∈ a.2) ∧
      e' = { e with roles := e.roles.filter (fun r => !f.strip.contains r.kind) } := by
  constructor
  · intro h
    unfold applyFilt at h
    split at h
    · cases h
    · next hd =>
      have hd' : e.id ∉ f.drop := fun hm => hd (List.contains_iff_mem.mpr hm)
      split at h
      · next hn =>
        cases h
        exact ⟨hd', (fun nv h0 => by rw [hn] at h0; cases h0), rfl⟩
      · next nv hn =>
        split at h
        · next ha =>
          cases h
          refine ⟨hd', ?_, rfl⟩
          intro nv' hnv'
          rw [hn] at hnv'
          cases hnv'
          simp only [List.any_eq_true, Bool.and_eq_true, decide_eq_true_eq, List.contains_iff_mem] at ha
          exact ha
        · cases h
  · rintro ⟨h1, h2, h3⟩
    unfold applyFilt
    have hc : f.drop.contains e.id = false := by
      cases hcc : f.drop.contains e.id with
      | false => rfl
      | true => exact absurd (List.contains_iff_mem.mp hcc) h1
    simp only [hc, Bool.false_eq_true, ↓reduceIte]
    cases hn : f.need with
    | none => simp only [h3]; rfl
    | some nv =>
      obtain ⟨a, ham, h3', h4⟩ := h2 nv hn
      have ha : (e.attrs.any (fun a => decide (a.1 = nv.1) && a.2.contains nv.2)) = true := by
        simp only [List.any_eq_true, Bool.and_eq_true, decide_eq_true_eq, List.contains_iff_mem]
        exact ⟨a, ham, h3', h4⟩
      simp only [ha, ↓reduceIte, h3]; rfl

/-- At the level of a loaded source, any policy (hence true of the code): every entry of a (non-MDQ)
    source that was constructed with filter `f` is `f`'s answer on an entity of the document read,
    restricted to its SAML 2.0 descriptors; an entityID `f` refuses is not listed. -/
theorem C11_filtered_load_exact (pol : Policy) (p2 : α) (now : Int) (sp : SrcSpec α) (s : Source α) (f : Filt α)
    (h : loadSource pol p2 now sp = .ok s) (hk : sp.kind ≠ .mdq) (hf : sp.filt = some f) :
    ∃ d, sp.fetch = .doc d ∧
      (∀ id e', (id, e') ∈ s.entities →
        ∃ e ∈ d.entities, e.id = id ∧ (∃ d0, prepEnt p2 e = some d0 ∧ applyFilt f d0 = some e') ∧
          (sp.chk = true → expired now e.validUntil = false)) ∧
      (∀ id ∈ f.drop, has s.entities id = false) := by
  obtain ⟨d, hfd, hp, _⟩ := C11_load_exact pol p2 now sp s h hk
  have hp' : parseDocF (applyFilt f) sp.chk now p2 [] d = .ok s.entities := by
    unfold parseSrc at hp; rw [hf] at hp; exact hp
  refine ⟨d, hfd, fun id e' hm => C11_filter_sound _ _ _ _ _ _ hp' id e' hm, ?_⟩
  intro id hid
  refine (C11_filter_dropped_not_served _ _ _ _ _ _ hp' id ?_).1
  intro e he heid d0 hd0
  have : d0.id = e.id := by rw [(prepEnt_some hd0).1]
  unfold applyFilt
  simp [this, heid, hid]


/-! ## C. Several sources: the first configured one wins -/

/-- `store[eid]`, any mix of sources (MDQ included): the answer is the answer of the first source, in
    configuration order, whose own lookup does not end in KeyError; KeyError only if all do. -/
theorem C11_first_wins_get (env : Env α) (eid : α) (st : Store α) :
    ((getItem env eid st).1 = .keyErr ∧ ∀ s ∈ st, (srcGet env s eid).1 = .keyErr) ∨
    (∃ pre s post, st = pre ++ s :: post ∧ (∀ p ∈ pre, (srcGet env p eid).1 = .keyErr) ∧
      (srcGet env s eid).1 = (getItem env eid st).1 ∧ (getItem env eid st).1 ≠ .keyErr) := by
  induction st with
  | nil => left; exact ⟨rfl, by simp⟩
  | cons s rest ih =>
    unfold getItem
    cases hs : srcGet env s eid with
    | mk r s' =>
      cases r with
      | keyErr =>
        simp only
        rcases ih with ⟨h1, h2⟩ | ⟨pre, x, post, hst, hpre, hx, hne⟩
        · left
          refine ⟨h1, ?_⟩
          intro y hy
          rcases List.mem_cons.mp hy with rfl | hy
          · rw [hs]
          · exact h2 y hy
        · right
          refine ⟨s :: pre, x, post, by rw [hst]; rfl, ?_, hx, hne⟩
          intro p hp
          rcases List.mem_cons.mp hp with rfl | hp
          · rw [hs]
          · exact hpre p hp
      | ok e => right; exact ⟨[], s, rest, rfl, by simp, by rw [hs], by simp⟩
      | raised => right; exact ⟨[], s, rest, rfl, by simp, by rw [hs], by simp⟩

/-- Sources without MDQ: `store[eid]` is the entry of the first source that lists the entity,
    and the store is not changed by the lookup. -/
theorem C11_first_wins_plain (env : Env α) (eid : α) (st : Store α) (hp : ∀ s ∈ st, s.kind ≠ .mdq) :
    getItem env eid st =
      (match st.findSome? (fun s => lookup s.entities eid) with | some e => .ok e | none => .keyErr, st) := by
  induction st with
  | nil => rfl
  | cons s rest ih =>
    have hk : s.kind ≠ .mdq := hp s (List.mem_cons_self ..)
    have ih' := ih (fun x hx => hp x (List.mem_cons_of_mem _ hx))
    unfold getItem
    simp only [srcGet, hk, ↓reduceIte, List.findSome?_cons]
    cases hl : lookup s.entities eid with
    | some e => rfl
    | none => simp only [ih']

/-- what one (non-MDQ) source answers to `service(eid, kind, svc, binding)`; `none` = nothing -/
def srcAnswer (s : Source α) (eid : α) (k : Kind) (svc : α) (b : Option α) : Option (List (Endpoint α)) :=
  match lookup s.entities eid with
  | none => none
  | some e =>
    match roleEndpoints e k svc with
    | none => none
    | some eps => if (selectBinding eps b).isEmpty then none else some (selectBinding eps b)

/-- `service(…)` over sources without MDQ: the first source that has a non-empty answer gives the
    answer (a source that knows the entity but has nothing for this binding is passed over). -/
theorem C11_first_wins_service (env : Env α) (eid : α) (k : Kind) (svc : α) (b : Option α) (st : Store α)
    (known : Bool) (hp : ∀ s ∈ st, s.kind ≠ .mdq) :
    (∀ l, (serviceLoop env eid k svc b st known).1 = .eps l ↔ st.findSome? (fun s => srcAnswer s eid k svc b) = some l) ∧
    (serviceLoop env eid k svc b st known).1 ≠ .raised ∧ (serviceLoop env eid k svc b st known).2 = st := by
  induction st generalizing known with
  | nil => unfold serviceLoop; cases known <;> simp
  | cons s rest ih =>
    have hk : s.kind ≠ .mdq := hp s (List.mem_cons_self ..)
    have ih' := fun kn => ih kn (fun x hx => hp x (List.mem_cons_of_mem _ hx))
    unfold serviceLoop
    simp only [srcGet, hk, ↓reduceIte, List.findSome?_cons, srcAnswer]
    cases hl : lookup s.entities eid with
    | none =>
      simp only
      obtain ⟨h1, h2, h3⟩ := ih' known
      exact ⟨h1, h2, by rw [h3]⟩
    | some e =>
      simp only
      cases hr : roleEndpoints e k svc with
      | none =>
        simp only
        obtain ⟨h1, h2, h3⟩ := ih' known
        exact ⟨h1, h2, by rw [h3]⟩
      | some eps =>
        simp only
        by_cases hemp : (selectBinding eps b).isEmpty = true
        · simp only [hemp, ↓reduceIte]
          obtain ⟨h1, h2, h3⟩ := ih' true
          exact ⟨h1, h2, by rw [h3]⟩
        · simp only [hemp, Bool.false_eq_true, ↓reduceIte]
          refine ⟨?_, by simp, by simp⟩
          intro l
          simp [eq_comm]

theorem lookup_firstWins (acc l : EntMap α) (id : α) :
    lookup (firstWins acc l) id = (lookup acc id).or (lookup l id) := by
  induction l generalizing acc with
  | nil => simp [firstWins, lookup]
  | cons p rest ih =>
    unfold firstWins
    rw [ih]
    by_cases hh : has acc p.1 = true
    · simp only [hh, ↓reduceIte]
      rw [has_eq_isSome] at hh
      by_cases hid : p.1 = id
      · subst hid
        cases hl : lookup acc p.1 with
        | none => rw [hl] at hh; cases hh
        | some x => simp
      · have : lookup (p :: rest) id = lookup rest id := by
          unfold lookup; simp [List.find?_cons, hid]
        rw [this]
    · simp only [hh, Bool.false_eq_true, ↓reduceIte]
      have hp : lookup (p :: rest) id = (lookup [p] id).or (lookup rest id) := by
        have := lookup_append [p] rest id
        simpa using this
      rw [lookup_append, hp]
      cases lookup acc id <;> simp

theorem lookup_flatMap (st : Store α) (f : Source α → EntMap α) (id : α) :
    lookup (st.flatMap f) id = st.findSome? (fun s => lookup (f s) id) := by
  induction st with
  | nil => rfl
  | cons s rest ih =>
    rw [List.flatMap_cons, lookup_append, ih, List.findSome?_cons]
    cases lookup (f s) id <;> simp

/-- `items()`: each entityID once, with the descriptor of the first source that lists it. -/
theorem C11_first_wins_items (st : Store α) (eid : α) :
    lookup (itemsOf st) eid = st.findSome? (fun s => lookup s.entities eid) := by
  unfold itemsOf
  rw [lookup_firstWins, lookup_flatMap]
  simp [lookup]

/-- `with_descriptor(kind)`: each entityID once, from the first source that lists it with such a descriptor. -/
theorem C11_first_wins_with_descriptor (st : Store α) (k : Kind) (eid : α) :
    lookup (withDescOf st k) eid =
      st.findSome? (fun s => lookup (s.entities.filter (fun p => !(rolesOf p.2 k).isEmpty)) eid) := by
  unfold withDescOf
  rw [lookup_firstWins, lookup_flatMap]
  simp [lookup]

/-- `keys()`: exactly the entityIDs some source lists. -/
theorem C11_keys_exact (st : Store α) (id : α) : id ∈ keysOf st ↔ ∃ s ∈ st, has s.entities id = true := by
  simp only [keysOf, List.mem_flatMap, has_iff_mem_keys]


/-! ## D. Failures -/

theorem impFrom_nil (pol : Policy) (p2 : α) (now : Int) (st : Store α) : impFrom pol p2 now st [] = (st, true) := rfl

theorem impFrom_cons (pol : Policy) (p2 : α) (now : Int) (st : Store α) (sp : SrcSpec α) (rest : List (SrcSpec α)) :
    impFrom pol p2 now st (sp :: rest) =
      match loadSource pol p2 now sp with
      | .error _ => (st, false)
      | .ok s => impFrom pol p2 now (setSrc st s) rest := rfl

theorem run_cons (pol : Policy) (c : Consts α) (st : Store α) (s : Step α) (rest : List (Step α)) :
    run pol c st (s :: rest) =
      ((step pol c st s).1 :: (run pol c (step pol c st s).2 rest).1, (run pol c (step pol c st s).2 rest).2) := rfl

theorem impFrom_append (pol : Policy) (p2 : α) (now : Int) (st : Store α) (a b : List (SrcSpec α)) :
    impFrom pol p2 now st (a ++ b) =
      if (impFrom pol p2 now st a).2 = true then impFrom pol p2 now (impFrom pol p2 now st a).1 b
      else ((impFrom pol p2 now st a).1, false) := by
  induction a generalizing st with
  | nil => simp [impFrom_nil]
  | cons sp rest ih =>
    cases h : loadSource pol p2 now sp with
    | error _ => simp [impFrom_cons, h]
    | ok s => simp only [List.cons_append, impFrom_cons, h]; exact ih _

/-- `imp` succeeds exactly when every source of the specification loads. -/
theorem impFrom_ok_iff (pol : Policy) (p2 : α) (now : Int) (st : Store α) (specs : List (SrcSpec α)) :
    (impFrom pol p2 now st specs).2 = true ↔ ∀ sp ∈ specs, ∃ s, loadSource pol p2 now sp = .ok s := by
  induction specs generalizing st with
  | nil => simp [impFrom_nil]
  | cons sp rest ih =>
    rw [impFrom_cons]
    cases h : loadSource pol p2 now sp with
    | error e =>
      simp only [Bool.false_eq_true, List.mem_cons, forall_eq_or_imp, false_iff, not_and]
      intro ⟨s, hs⟩; rw [h] at hs; cases hs
    | ok s =>
      simp only [ih, List.mem_cons, forall_eq_or_imp]
      constructor
      · intro h2; exact ⟨⟨s, h⟩, h2⟩
      · intro h2; exact h2.2

/-- A failed `load`/`imp` at the k-th source, for every k: the store is exactly what loading the
    k−1 sources before it made of it — the failing source and everything after it add nothing,
    and what was served before stays. -/
theorem C11_failed_load_noop (pol : Policy) (p2 : α) (now : Int) (st : Store α)
    (pre post : List (SrcSpec α)) (sp : SrcSpec α) (e : LoadErr)
    (hpre : ∀ x ∈ pre, ∃ s, loadSource pol p2 now x = .ok s) (hsp : loadSource pol p2 now sp = .error e) :
    impFrom pol p2 now st (pre ++ sp :: post) = ((impFrom pol p2 now st pre).1, false) := by
  rw [impFrom_append]
  have h1 : (impFrom pol p2 now st pre).2 = true := (impFrom_ok_iff pol p2 now st pre).mpr hpre
  simp only [h1, ↓reduceIte]
  rw [impFrom_cons, hsp]

/-- A failed `reload` — whichever source fails, for whichever reason — leaves the store exactly as
    it was: every lookup answers as before. -/
theorem C11_failed_reload_noop (pol : Policy) (p2 : α) (now : Int) (st : Store α) (specs : List (SrcSpec α))
    (sp : SrcSpec α) (hmem : sp ∈ specs) (e : LoadErr) (hsp : loadSource pol p2 now sp = .error e) :
    reload pol p2 now st specs = (st, false) := by
  unfold reload
  have : (impFrom pol p2 now [] specs).2 = false := by
    cases h : (impFrom pol p2 now [] specs).2 with
    | false => rfl
    | true =>
      obtain ⟨s, hs⟩ := (impFrom_ok_iff pol p2 now [] specs).mp h sp hmem
      rw [hsp] at hs; cases hs
  cases hi : impFrom pol p2 now [] specs with
  | mk st' ok => rw [hi] at this; simp only at this; subst this; rfl

/-- … and, read at the level of a history step: the observations of any continuation are those of
    the history without the failed reload. -/
theorem C11_failed_reload_noop_history (pol : Policy) (c : Consts α) (st : Store α) (now : Int)
    (mdq : List (MdqResp α)) (specs : List (SrcSpec α)) (sp : SrcSpec α) (hmem : sp ∈ specs) (e : LoadErr)
    (hsp : loadSource pol c.p2 now sp = .error e) (rest : List (Step α)) :
    run pol c st ({ now := now, mdq := mdq, op := .reload specs } :: rest) =
      (.done false :: (run pol c st rest).1, (run pol c st rest).2) := by
  rw [run_cons]
  have : step pol c st { now := now, mdq := mdq, op := .reload specs } = (.done false, st) := by
    simp only [step, C11_failed_reload_noop pol c.p2 now st specs sp hmem e hsp]
  rw [this]

/-! ### MDQ -/

/-- the lookup goes to the MDQ server: nothing cached, or the cached entry is past its freshness -/
def refetches (now : Int) (s : Source α) (eid : α) : Prop :=
  has s.entities eid = false ∨ (has s.entities eid = true ∧ ∃ t, getKV s.expiry eid = some t ∧ t < now)

/-- the MDQ answer is about the entity asked for -/
def onTopic (resp : Fetch α) (eid : α) : Prop :=
  ∀ d, resp = .doc d → ∀ e ∈ docEntities d, e.id = eid

/-- a fetch that does not produce the entity leaves every lookup on the source's entries as it was
    (any policy without the pre-85b6178b `storeFirst` behaviour: the reference AND the code) -/
theorem mdxFetch_fail_props (pol : Policy) (hsf : pol.storeFirst = false) (p2 : α) (now : Int) (resp : Fetch α)
    (s0 : Source α) (eid : α) (h0 : has s0.entities eid = false) (hot : onTopic resp eid) :
    (∀ e, (mdxFetch pol p2 now resp s0 eid).1 ≠ .ok e) →
      ∀ id, lookup (mdxFetch pol p2 now resp s0 eid).2.entities id = lookup s0.entities id := by
  unfold mdxFetch
  cases resp with
  | unavailable => simp
  | malformed => simp
  | doc d =>
    simp only
    cases hp : parseDoc s0.chk now p2 s0.entities d with
    | error _ => simp
    | ok m =>
      simp only
      have hlm := lookup_parseDoc hp
      by_cases hc : checkSig pol .mdq s0.cert d.sig = true
      · simp only [hc, ↓reduceIte]
        have hl0 : lookup s0.entities eid = none := lookup_none_of_not_has h0
        cases hl : lookup m eid with
        | some e => intro hfail; exact absurd rfl (hfail e)
        | none =>
          intro _ id
          simp only
          rw [hlm]
          by_cases hid : id = eid
          · subst hid; rw [← hlm, hl, hl0]
          · have : (docEntities d).find? (fun e => decide (e.id = id) && eligible s0.chk now p2 e) = none := by
              apply List.find?_eq_none.mpr
              intro e he
              have := hot d rfl e he
              simp [this, Ne.symm hid]
            rw [this]; simp
      · simp only [hc, Bool.false_eq_true, ↓reduceIte, hsf]
        simp

/-- A failed refresh of an expired entry (and equally a failed first fetch) serves nothing for that
    entity: whatever the reason — HTTP error, malformed answer, signature that does not verify,
    entity expired or without SAML 2.0 support — the entity is not listed by the source afterwards
    (`__getitem__` has popped the stale entry, `parse_and_check_signature` restores the entity set it
    found on entry).  Holds for every policy with `storeFirst = false`: the reference and, since fix
    85b6178b, the code as it is (`C11_failed_refresh_serves_nothing_code`). -/
theorem C11_failed_refresh_serves_nothing (pol : Policy) (hsf : pol.storeFirst = false) (p2 : α) (now : Int)
    (resp : Fetch α) (s : Source α) (eid : α) (hre : refetches now s eid) (hot : onTopic resp eid)
    (hfail : ∀ e, (mdxGet pol p2 now resp s eid).1 ≠ .ok e) :
    has (mdxGet pol p2 now resp s eid).2.entities eid = false := by
  unfold mdxGet at hfail ⊢
  rcases hre with h0 | ⟨h1, t, ht, hlt⟩
  · simp only [h0, Bool.not_false, ↓reduceIte] at hfail ⊢
    have := mdxFetch_fail_props pol hsf p2 now resp s eid h0 hot hfail eid
    rw [has_eq_isSome, this, ← has_eq_isSome, h0]
  · have hnle : ¬ now ≤ t := by omega
    simp only [h1, Bool.not_true, Bool.false_eq_true, ↓reduceIte, ht, hnle] at hfail ⊢
    have he : has ({ s with entities := erase s.entities eid } : Source α).entities eid = false := by
      simp [has_erase]
    have := mdxFetch_fail_props pol hsf p2 now resp _ eid he hot hfail eid
    rw [has_eq_isSome, this, ← has_eq_isSome, he]

/-- … in particular of the model of the code as it is (full strength since fix 85b6178b; the input on
    which the unverified entity used to stay listed is `hF11` below and corpus/C11). -/
theorem C11_failed_refresh_serves_nothing_code (p2 : α) (now : Int) (resp : Fetch α) (s : Source α) (eid : α)
    (hre : refetches now s eid) (hot : onTopic resp eid)
    (hfail : ∀ e, (mdxGet Policy.code p2 now resp s eid).1 ≠ .ok e) :
    has (mdxGet Policy.code p2 now resp s eid).2.entities eid = false :=
  C11_failed_refresh_serves_nothing Policy.code rfl p2 now resp s eid hre hot hfail

/-- A failure never adds anything (MDQ; reference and code, as above): after a lookup that did not
    produce the entity, the source lists nothing it did not list before. -/
theorem C11_failure_adds_nothing (pol : Policy) (hsf : pol.storeFirst = false) (p2 : α) (now : Int)
    (resp : Fetch α) (s : Source α) (eid : α)
    (hot : onTopic resp eid) (hfail : ∀ e, (mdxGet pol p2 now resp s eid).1 ≠ .ok e) (id : α)
    (h : has (mdxGet pol p2 now resp s eid).2.entities id = true) : has s.entities id = true := by
  unfold mdxGet at hfail h
  by_cases h0 : has s.entities eid = true
  · simp only [h0, Bool.not_true, Bool.false_eq_true, ↓reduceIte] at hfail h
    cases hk : getKV s.expiry eid with
    | none => rw [hk] at h; exact h
    | some t =>
      rw [hk] at hfail h
      simp only at hfail h
      by_cases hle : now ≤ t
      · simp only [hle, ↓reduceIte] at h; exact h
      · simp only [hle, ↓reduceIte] at hfail h
        have he : has ({ s with entities := erase s.entities eid } : Source α).entities eid = false := by
          simp [has_erase]
        have := mdxFetch_fail_props pol hsf p2 now resp _ eid he hot hfail id
        rw [has_eq_isSome, this, ← has_eq_isSome] at h
        simp only [has_erase, Bool.and_eq_true] at h
        exact h.1
  · simp only [Bool.not_eq_true] at h0
    simp only [h0, Bool.not_false, ↓reduceIte] at hfail h
    have := mdxFetch_fail_props pol hsf p2 now resp s eid h0 hot hfail id
    rw [has_eq_isSome, this, ← has_eq_isSome] at h
    exact h

/-- Authenticity and currency of what an MDQ source serves (reference policy): an entity is served
    from the cache while fresh, or from an answer that — if the source has a certificate — carries a
    signature that verifies, and in which the entity is current and supports SAML 2.0. -/
theorem C11_authentic_mdq (p2 : α) (now : Int) (resp : Fetch α) (s : Source α) (eid : α) (e : Ent α)
    (h : (mdxGet Policy.ideal p2 now resp s eid).1 = .ok e) :
    (lookup s.entities eid = some e ∧ ∃ t, getKV s.expiry eid = some t ∧ now ≤ t) ∨
    (refetches now s eid ∧ ∃ d, resp = .doc d ∧ (s.cert = true → d.sig = .valid) ∧
      ∃ e0 ∈ docEntities d, e0.id = eid ∧ eligible s.chk now p2 e0 = true ∧
        prepEnt p2 e0 = some e) := by
  have key : ∀ s0 : Source α, has s0.entities eid = false → s0.cert = s.cert → s0.chk = s.chk →
      (mdxFetch Policy.ideal p2 now resp s0 eid).1 = .ok e →
      ∃ d, resp = .doc d ∧ (s.cert = true → d.sig = .valid) ∧
        ∃ e0 ∈ docEntities d, e0.id = eid ∧ eligible s.chk now p2 e0 = true ∧
          prepEnt p2 e0 = some e := by
    intro s0 h0 hcert hchk hf
    -- the on-topic hypothesis is not needed for the positive direction: use the lookup characterisation
    unfold mdxFetch at hf
    cases resp with
    | unavailable => simp at hf
    | malformed => simp at hf
    | doc d =>
      simp only at hf
      cases hp : parseDoc s0.chk now p2 s0.entities d with
      | error _ => rw [hp] at hf; simp at hf
      | ok m =>
        rw [hp] at hf
        simp only at hf
        have hlm := lookup_parseDoc hp eid
        by_cases hc : checkSig Policy.ideal .mdq s0.cert d.sig = true
        · simp only [hc, ↓reduceIte] at hf
          cases hl : lookup m eid with
          | none => rw [hl] at hf; simp at hf
          | some e1 =>
            rw [hl] at hf
            simp only [Res.ok.injEq] at hf
            subst hf
            rw [lookup_none_of_not_has h0, Option.none_or, hl] at hlm
            have hlm' := hlm.symm
            simp only [Option.bind_eq_some_iff] at hlm'
            obtain ⟨e0, hfind, hprep⟩ := hlm'
            have hmem := List.mem_of_find?_eq_some hfind
            have hprop := List.find?_some hfind
            simp only [Bool.and_eq_true, decide_eq_true_eq] at hprop
            refine ⟨d, rfl, ?_, e0, hmem, hprop.1, by rw [← hchk]; exact hprop.2, hprep⟩
            intro hct
            rw [← hcert] at hct
            unfold checkSig at hc
            cases hsig : d.sig <;> simp_all [Policy.ideal]
        · have hsf : Policy.ideal.storeFirst = false := rfl
          simp only [hc, Bool.false_eq_true, ↓reduceIte, hsf] at hf
          simp at hf
  unfold mdxGet at h
  by_cases h0 : has s.entities eid = true
  · simp only [h0, Bool.not_true, Bool.false_eq_true, ↓reduceIte] at h
    cases hk : getKV s.expiry eid with
    | none => rw [hk] at h; simp at h
    | some t =>
      rw [hk] at h
      simp only at h
      by_cases hle : now ≤ t
      · simp only [hle, ↓reduceIte] at h
        left
        cases hl : lookup s.entities eid with
        | none => rw [hl] at h; simp at h
        | some e1 => rw [hl] at h; simp only [Res.ok.injEq] at h; subst h; exact ⟨rfl, t, rfl, hle⟩
      · simp only [hle, ↓reduceIte] at h
        right
        refine ⟨Or.inr ⟨h0, t, hk, by omega⟩, ?_⟩
        exact key { s with entities := erase s.entities eid } (by simp [has_erase]) rfl rfl h
  · simp only [Bool.not_eq_true] at h0
    simp only [h0, Bool.not_false, ↓reduceIte] at h
    right
    exact ⟨Or.inl h0, key s h0 rfl rfl h⟩


/-! ## E. Soundness over whole histories -/

def specsOf : Op α → List (SrcSpec α)
  | .imp l => l
  | .reload l => l
  | .q _ => []

def fetchDoc (f : Fetch α) : Option (Doc α) :=
  match f with
  | .doc d => some d
  | _ => none

/-- the documents the sources / MDQ servers hand out during one step -/
def docsOfStep (s : Step α) : List (Doc α) :=
  (specsOf s.op).filterMap (fun sp => fetchDoc sp.fetch) ++ s.mdq.filterMap (fun r => fetchDoc r.fetch)

/-- The entry `id ↦ e'` of source `src` is what authentic, current metadata says: some step of the
    history handed out a document that (if the source has a certificate) carries a signature that
    verifies, and that contains an entity with this entityID, not past its validUntil at that moment
    (validity checking on), whose SAML 2.0 descriptors are exactly `e'` — or, for a source loaded in
    that step with the store's `filter`, `e'` is what the filter made of them. -/
def Justified (p2 : α) (h : List (Step α)) (src : Source α) (id : α) (e' : Ent α) : Prop :=
  ∃ s ∈ h, ∃ d ∈ docsOfStep s, (effCert src.kind src.cert = true → d.sig = .valid) ∧
    ∃ e ∈ d.entities, e.id = id ∧
      (prepEnt p2 e = some e' ∨ ∃ sp ∈ specsOf s.op, ∃ f, sp.filt = some f ∧ servedF (applyFilt f) p2 e = some e') ∧
      (src.chk = true → expired s.now e.validUntil = false)

def SrcOk (p2 : α) (h : List (Step α)) (src : Source α) : Prop :=
  ∀ p ∈ src.entities, Justified p2 h src p.1 p.2

theorem Justified.mono {p2 : α} {h h' : List (Step α)} {src : Source α} {id : α} {e' : Ent α}
    (hsub : ∀ s ∈ h, s ∈ h') (hj : Justified p2 h src id e') : Justified p2 h' src id e' := by
  obtain ⟨s, hs, rest⟩ := hj
  exact ⟨s, hsub s hs, rest⟩

theorem mem_doEntity {chk : Bool} {now : Int} {p2 : α} {m : EntMap α} {e : Ent α} {p : α × Ent α}
    (h : p ∈ doEntity chk now p2 m e) :
    p ∈ m ∨ (p.1 = e.id ∧ prepEnt p2 e = some p.2 ∧ (chk = true → expired now e.validUntil = false)) := by
  unfold doEntity at h
  split at h
  · left; exact h
  · next hx =>
    split at h
    · left; exact h
    · split at h
      · left; exact h
      · next d hd =>
        rcases List.mem_append.mp h with h | h
        · left; exact h
        · right
          simp only [List.mem_singleton] at h
          subst h
          refine ⟨rfl, hd, ?_⟩
          intro hchk
          simp only [hchk, Bool.true_and, Bool.not_eq_true] at hx
          exact hx

theorem mem_foldl_doEntity {chk : Bool} {now : Int} {p2 : α} (es : List (Ent α)) (m : EntMap α)
    {p : α × Ent α} (h : p ∈ es.foldl (doEntity chk now p2) m) :
    p ∈ m ∨ ∃ e ∈ es, p.1 = e.id ∧ prepEnt p2 e = some p.2 ∧ (chk = true → expired now e.validUntil = false) := by
  induction es generalizing m with
  | nil => left; exact h
  | cons e rest ih =>
    rcases ih _ h with h1 | ⟨x, hx, rest'⟩
    · rcases mem_doEntity h1 with h2 | h2
      · left; exact h2
      · right; exact ⟨e, List.mem_cons_self .., h2⟩
    · right; exact ⟨x, List.mem_cons_of_mem _ hx, rest'⟩

theorem mem_parseDoc {chk : Bool} {now : Int} {p2 : α} {m m' : EntMap α} {d : Doc α}
    (h : parseDoc chk now p2 m d = .ok m') {p : α × Ent α} (hp : p ∈ m') :
    p ∈ m ∨ ∃ e ∈ d.entities, p.1 = e.id ∧ prepEnt p2 e = some p.2 ∧ (chk = true → expired now e.validUntil = false) := by
  unfold parseDoc at h
  split at h
  · split at h
    · cases h
    · cases h; exact mem_foldl_doEntity _ _ hp
  · split at h
    · next e rest he =>
      cases h
      rcases mem_doEntity hp with h1 | h1
      · left; exact h1
      · right; exact ⟨e, by rw [he]; exact List.mem_cons_self .., h1⟩
    · cases h; left; exact hp

theorem checkSig_ideal_valid {k : SrcKind} {cert : Bool} {s : Sig} (h : checkSig Policy.ideal k cert s = true)
    (hc : cert = true) : s = .valid := by
  unfold checkSig at h
  cases s <;> simp_all [Policy.ideal]

/-- what a freshly loaded source holds is justified by the step that loaded it -/
theorem loadSource_ok {p2 : α} {s : Step α} {sp : SrcSpec α} (hsp : sp ∈ specsOf s.op) {src : Source α}
    (h : loadSource Policy.ideal p2 s.now sp = .ok src) : SrcOk p2 [s] src := by
  unfold loadSource at h
  simp only at h
  have main : ∀ d, sp.fetch = .doc d → ∀ m, parseSrc sp s.now p2 d = .ok m →
      checkSig Policy.ideal sp.kind (effCert sp.kind sp.cert) d.sig = true →
      SrcOk p2 [s] { key := sp.key, kind := sp.kind, cert := sp.cert, chk := sp.chk, fresh := sp.fresh, entities := m, expiry := [] } := by
    intro d hf m hp hc p hpm
    rw [parseSrc_eq] at hp
    rcases mem_parseDocF hp hpm with h0 | ⟨e, he, hid, hprep, hexp⟩
    · cases h0
    · have hvia : prepEnt p2 e = some p.2 ∨
          ∃ sp' ∈ specsOf s.op, ∃ f, sp'.filt = some f ∧ servedF (applyFilt f) p2 e = some p.2 := by
        unfold specFilt at hprep
        cases hfl : sp.filt with
        | none => rw [hfl] at hprep; left; rw [← servedF_some]; exact hprep
        | some f => rw [hfl] at hprep; right; exact ⟨sp, hsp, f, hfl, hprep⟩
      refine ⟨s, List.mem_singleton.mpr rfl, d, ?_, fun hcert => checkSig_ideal_valid hc hcert, e, he, hid.symm, hvia, hexp⟩
      unfold docsOfStep
      apply List.mem_append_left
      exact List.mem_filterMap.mpr ⟨sp, hsp, by rw [hf]; rfl⟩
  cases hk : sp.kind <;> rw [hk] at h main <;> simp only at h
  case loader => cases h
  case mdq => cases h; intro p hp; cases hp
  all_goals
    cases hf : sp.fetch with
    | unavailable => rw [hf] at h; cases h
    | malformed => rw [hf] at h; cases h
    | doc d =>
      rw [hf] at h
      simp only at h
      cases hp : parseSrc sp s.now p2 d with
      | error _ => rw [hp] at h; cases h
      | ok m =>
        rw [hp] at h
        simp only at h
        split at h
        · next hc => cases h; exact main d hf m hp hc
        · cases h

theorem mem_setSrc {st : Store α} {s x : Source α} (h : x ∈ setSrc st s) : x ∈ st ∨ x = s := by
  unfold setSrc at h
  split at h
  · simp only [List.mem_map] at h
    obtain ⟨y, hy, hxy⟩ := h
    split at hxy
    · right; exact hxy.symm
    · left; rw [← hxy]; exact hy
  · rcases List.mem_append.mp h with h | h
    · left; exact h
    · right; simpa using h

theorem impFrom_inv (P : Source α → Prop) (p2 : α) (now : Int) (specs : List (SrcSpec α)) (st : Store α)
    (hst : ∀ x ∈ st, P x) (hnew : ∀ sp ∈ specs, ∀ s, loadSource Policy.ideal p2 now sp = .ok s → P s) :
    ∀ x ∈ (impFrom Policy.ideal p2 now st specs).1, P x := by
  induction specs generalizing st with
  | nil => exact hst
  | cons sp rest ih =>
    unfold impFrom
    cases hl : loadSource Policy.ideal p2 now sp with
    | error _ => exact hst
    | ok s =>
      simp only
      apply ih
      · intro x hx
        rcases mem_setSrc hx with h | h
        · exact hst x h
        · subst h; exact hnew sp (List.mem_cons_self ..) _ hl
      · intro sp' hsp' s' hs'
        exact hnew sp' (List.mem_cons_of_mem _ hsp') s' hs'

/-- an MDQ lookup keeps the source's configuration, and what it lists afterwards was listed before
    or comes from the answer, accepted under the source's certificate -/
theorem mdxGet_entities {p2 : α} {now : Int} {resp : Fetch α} {s : Source α} {eid : α} :
    let s' := (mdxGet Policy.ideal p2 now resp s eid).2
    s'.kind = s.kind ∧ s'.cert = s.cert ∧ s'.chk = s.chk ∧ s'.key = s.key ∧
    ∀ p ∈ s'.entities, p ∈ s.entities ∨
      ∃ d, resp = .doc d ∧ (s.cert = true → d.sig = .valid) ∧
        ∃ e ∈ d.entities, p.1 = e.id ∧ prepEnt p2 e = some p.2 ∧ (s.chk = true → expired now e.validUntil = false) := by
  have key : ∀ s0 : Source α, s0.kind = s.kind → s0.cert = s.cert → s0.chk = s.chk → s0.key = s.key →
      (∀ p ∈ s0.entities, p ∈ s.entities) →
      let s' := (mdxFetch Policy.ideal p2 now resp s0 eid).2
      s'.kind = s.kind ∧ s'.cert = s.cert ∧ s'.chk = s.chk ∧ s'.key = s.key ∧
      ∀ p ∈ s'.entities, p ∈ s.entities ∨
        ∃ d, resp = .doc d ∧ (s.cert = true → d.sig = .valid) ∧
          ∃ e ∈ d.entities, p.1 = e.id ∧ prepEnt p2 e = some p.2 ∧ (s.chk = true → expired now e.validUntil = false) := by
    intro s0 hk hc hchk hkey hsub
    unfold mdxFetch
    cases resp with
    | unavailable => exact ⟨hk, hc, hchk, hkey, fun p hp => Or.inl (hsub p hp)⟩
    | malformed => exact ⟨hk, hc, hchk, hkey, fun p hp => Or.inl (hsub p hp)⟩
    | doc d =>
      simp only
      cases hp : parseDoc s0.chk now p2 s0.entities d with
      | error _ => exact ⟨hk, hc, hchk, hkey, fun p hp => Or.inl (hsub p hp)⟩
      | ok m =>
        simp only
        by_cases hcs : checkSig Policy.ideal .mdq s0.cert d.sig = true
        · simp only [hcs, ↓reduceIte]
          have hents : ∀ p ∈ m, p ∈ s.entities ∨
              ∃ d', Fetch.doc d = .doc d' ∧ (s.cert = true → d'.sig = .valid) ∧
                ∃ e ∈ d'.entities, p.1 = e.id ∧ prepEnt p2 e = some p.2 ∧ (s.chk = true → expired now e.validUntil = false) := by
            intro p hpm
            rcases mem_parseDoc hp hpm with h0 | ⟨e, he, hid, hprep, hexp⟩
            · left; exact hsub p h0
            · right
              refine ⟨d, rfl, ?_, e, he, hid, hprep, by rw [← hchk]; exact hexp⟩
              intro hcert; rw [← hc] at hcert; exact checkSig_ideal_valid hcs hcert
          cases lookup m eid <;> exact ⟨hk, hc, hchk, hkey, hents⟩
        · have hsf : Policy.ideal.storeFirst = false := rfl
          simp only [hcs, Bool.false_eq_true, ↓reduceIte, hsf]
          exact ⟨hk, hc, hchk, hkey, fun p hp => Or.inl (hsub p hp)⟩
  unfold mdxGet
  split
  · exact key s rfl rfl rfl rfl (fun p hp => hp)
  · split
    · exact ⟨rfl, rfl, rfl, rfl, fun p hp => Or.inl hp⟩
    · split
      · exact ⟨rfl, rfl, rfl, rfl, fun p hp => Or.inl hp⟩
      · exact key { s with entities := erase s.entities eid } rfl rfl rfl rfl (fun p hp => (mem_erase.mp hp).1)

theorem srcGet_ok {c : Consts α} {h : List (Step α)} {s : Step α} (hs : s ∈ h) {src : Source α}
    (hok : SrcOk c.p2 h src) (eid : α) : SrcOk c.p2 h (srcGet (s.env Policy.ideal c) src eid).2 := by
  unfold srcGet
  split
  · next hk =>
    obtain ⟨h1, h2, h3, _, h5⟩ := @mdxGet_entities α _ c.p2 s.now (mdqFn s.mdq src.key eid) src eid
    simp only [Step.env]
    intro p hp
    rcases h5 p hp with h0 | ⟨d, hd, hsig, e, he, hid, hprep, hexp⟩
    · obtain ⟨s0, hs0, d0, hd0, hsig0, rest⟩ := hok p h0
      exact ⟨s0, hs0, d0, hd0, by rw [h1, h2]; exact hsig0, by rw [h3]; exact rest⟩
    · refine ⟨s, hs, d, ?_, ?_, e, he, hid.symm, Or.inl hprep, by rw [h3]; exact hexp⟩
      · unfold docsOfStep
        apply List.mem_append_right
        rcases mdqFn_mem s.mdq src.key eid with hun | ⟨r, hr, _, _, hf⟩
        · rw [hun] at hd; cases hd
        · exact List.mem_filterMap.mpr ⟨r, hr, by rw [← hf, hd]; rfl⟩
      · rw [h1, h2]
        intro hcert
        apply hsig
        simpa [effCert, hk] using hcert
  · exact hok

theorem getItem_sources (env : Env α) (eid : α) (st : Store α) :
    ∀ x ∈ (getItem env eid st).2, ∃ y ∈ st, x = y ∨ x = (srcGet env y eid).2 := by
  induction st with
  | nil => intro x hx; cases hx
  | cons s rest ih =>
    unfold getItem
    intro x hx
    cases hs : srcGet env s eid with
    | mk r s' =>
      rw [hs] at hx
      have hhead : s' = (srcGet env s eid).2 := by rw [hs]
      cases r with
      | keyErr =>
        simp only at hx
        rcases List.mem_cons.mp hx with h | h
        · exact ⟨s, List.mem_cons_self .., Or.inr (h.trans hhead)⟩
        · obtain ⟨y, hy, hxy⟩ := ih x h
          exact ⟨y, List.mem_cons_of_mem _ hy, hxy⟩
      | ok e =>
        simp only at hx
        rcases List.mem_cons.mp hx with h | h
        · exact ⟨s, List.mem_cons_self .., Or.inr (h.trans hhead)⟩
        · exact ⟨x, List.mem_cons_of_mem _ h, Or.inl rfl⟩
      | raised =>
        simp only at hx
        rcases List.mem_cons.mp hx with h | h
        · exact ⟨s, List.mem_cons_self .., Or.inr (h.trans hhead)⟩
        · exact ⟨x, List.mem_cons_of_mem _ h, Or.inl rfl⟩


theorem serviceLoop_sources (env : Env α) (eid : α) (k : Kind) (svc : α) (b : Option α) (st : Store α) (known : Bool) :
    ∀ x ∈ (serviceLoop env eid k svc b st known).2, ∃ y ∈ st, x = y ∨ x = (srcGet env y eid).2 := by
  induction st generalizing known with
  | nil => intro x hx; unfold serviceLoop at hx; cases hx
  | cons s rest ih =>
    intro x hx
    unfold serviceLoop at hx
    have tail : ∀ kn, x ∈ (serviceLoop env eid k svc b rest kn).2 → ∃ y ∈ s :: rest, x = y ∨ x = (srcGet env y eid).2 := by
      intro kn h
      obtain ⟨y, hy, hxy⟩ := ih kn x h
      exact ⟨y, List.mem_cons_of_mem _ hy, hxy⟩
    have head : x = (srcGet env s eid).2 → ∃ y ∈ s :: rest, x = y ∨ x = (srcGet env y eid).2 :=
      fun h => ⟨s, List.mem_cons_self .., Or.inr h⟩
    have old : x ∈ rest → ∃ y ∈ s :: rest, x = y ∨ x = (srcGet env y eid).2 :=
      fun h => ⟨x, List.mem_cons_of_mem _ h, Or.inl rfl⟩
    cases hs : srcGet env s eid with
    | mk r s' =>
      rw [hs] at hx
      have hhead : s' = (srcGet env s eid).2 := by rw [hs]
      cases r with
      | raised =>
        simp only at hx
        rcases List.mem_cons.mp hx with h | h
        · exact head (h.trans hhead)
        · exact old h
      | keyErr =>
        simp only at hx
        rcases List.mem_cons.mp hx with h | h
        · exact head (h.trans hhead)
        · exact tail _ h
      | ok e =>
        simp only at hx
        split at hx
        · rcases List.mem_cons.mp hx with h | h
          · exact head (h.trans hhead)
          · exact tail _ h
        · split at hx
          · rcases List.mem_cons.mp hx with h | h
            · exact head (h.trans hhead)
            · exact tail _ h
          · rcases List.mem_cons.mp hx with h | h
            · exact head (h.trans hhead)
            · exact old h

theorem attrReqLoop_sources (env : Env α) (eid : α) (st : Store α) :
    ∀ x ∈ (attrReqLoop env eid st).2, ∃ y ∈ st, x = y ∨ x = (srcGet env y eid).2 := by
  induction st with
  | nil => intro x hx; cases hx
  | cons s rest ih =>
    intro x hx
    unfold attrReqLoop at hx
    split at hx
    · simp only at hx
      rcases List.mem_cons.mp hx with h | h
      · exact ⟨s, List.mem_cons_self .., Or.inr h⟩
      · exact ⟨x, List.mem_cons_of_mem _ h, Or.inl rfl⟩
    · simp only at hx
      rcases List.mem_cons.mp hx with h | h
      · exact ⟨s, List.mem_cons_self .., Or.inl h⟩
      · obtain ⟨y, hy, hxy⟩ := ih x h
        exact ⟨y, List.mem_cons_of_mem _ hy, hxy⟩

theorem query_snd (env : Env α) (st : Store α) (q : Query α) :
    (query env st q).2 =
      match q with
      | .get eid => (getItem env eid st).2
      | .service eid k svc b => (serviceLoop env eid k svc b st false).2
      | .certs eid _ _ => (getItem env eid st).2
      | .attrReq eid _ => (attrReqLoop env eid st).2
      | .cats eid => (getItem env eid st).2
      | .reg eid => (getItem env eid st).2
      | .keys => st
      | .items => st
      | .withDesc _ => st := by
  cases q with
  | get eid => simp only [query]; cases h : getItem env eid st with | mk r st' => cases r <;> rfl
  | service eid k svc b =>
    simp only [query]; cases h : serviceLoop env eid k svc b st false with | mk r st' => cases r <;> rfl
  | certs eid k use => simp only [query]; cases h : getItem env eid st with | mk r st' => cases r <;> rfl
  | attrReq eid index =>
    simp only [query]
    cases h : attrReqLoop env eid st with
    | mk r st' =>
      cases r with
      | none => rfl
      | some r => cases r <;> rfl
  | cats eid => simp only [query]; cases h : getItem env eid st with | mk r st' => cases r <;> rfl
  | reg eid => simp only [query]; cases h : getItem env eid st with | mk r st' => cases r <;> rfl
  | keys => rfl
  | items => rfl
  | withDesc k => rfl

theorem query_sources (env : Env α) (st : Store α) (q : Query α) :
    ∀ x ∈ (query env st q).2, ∃ y ∈ st, x = y ∨ ∃ eid, x = (srcGet env y eid).2 := by
  intro x hx
  rw [query_snd] at hx
  have lift : ∀ eid, (∃ y ∈ st, x = y ∨ x = (srcGet env y eid).2) → ∃ y ∈ st, x = y ∨ ∃ eid, x = (srcGet env y eid).2 := by
    rintro eid ⟨y, hy, h | h⟩
    · exact ⟨y, hy, Or.inl h⟩
    · exact ⟨y, hy, Or.inr ⟨eid, h⟩⟩
  cases q with
  | get eid => exact lift eid (getItem_sources env eid st x hx)
  | service eid k svc b => exact lift eid (serviceLoop_sources env eid k svc b st false x hx)
  | certs eid k use => exact lift eid (getItem_sources env eid st x hx)
  | attrReq eid index => exact lift eid (attrReqLoop_sources env eid st x hx)
  | cats eid => exact lift eid (getItem_sources env eid st x hx)
  | reg eid => exact lift eid (getItem_sources env eid st x hx)
  | keys => exact ⟨x, hx, Or.inl rfl⟩
  | items => exact ⟨x, hx, Or.inl rfl⟩
  | withDesc k => exact ⟨x, hx, Or.inl rfl⟩

theorem SrcOk.mono {p2 : α} {h h' : List (Step α)} {src : Source α} (hsub : ∀ s ∈ h, s ∈ h')
    (hok : SrcOk p2 h src) : SrcOk p2 h' src :=
  fun p hp => (hok p hp).mono hsub

theorem step_ok (c : Consts α) (h : List (Step α)) (s : Step α) (st : Store α) (hst : ∀ x ∈ st, SrcOk c.p2 h x) :
    ∀ x ∈ (step Policy.ideal c st s).2, SrcOk c.p2 (h ++ [s]) x := by
  have hsub : ∀ t ∈ h, t ∈ h ++ [s] := fun t ht => List.mem_append_left _ ht
  have hst' : ∀ x ∈ st, SrcOk c.p2 (h ++ [s]) x := fun x hx => (hst x hx).mono hsub
  have hnew : ∀ sp ∈ specsOf s.op, ∀ src, loadSource Policy.ideal c.p2 s.now sp = .ok src → SrcOk c.p2 (h ++ [s]) src :=
    fun sp hsp src hl => (loadSource_ok hsp hl).mono (fun t ht => List.mem_append_right _ ht)
  unfold step
  cases hop : s.op with
  | imp specs =>
    simp only
    rw [hop] at hnew
    exact impFrom_inv _ c.p2 s.now specs st hst' hnew
  | reload specs =>
    simp only
    rw [hop] at hnew
    unfold reload
    cases hi : impFrom Policy.ideal c.p2 s.now [] specs with
    | mk st' ok =>
      have := impFrom_inv (SrcOk c.p2 (h ++ [s])) c.p2 s.now specs [] (by simp) hnew
      rw [hi] at this
      cases ok
      · exact hst'
      · exact this
  | q qu =>
    simp only
    intro x hx
    obtain ⟨y, hy, hxy | ⟨eid, hxy⟩⟩ := query_sources _ st qu x hx
    · rw [hxy]; exact hst' y hy
    · rw [hxy]; exact srcGet_ok (List.mem_append_right _ (List.mem_singleton.mpr rfl)) (hst' y hy) eid

theorem run_ok (c : Consts α) (h0 h : List (Step α)) (st : Store α) (hst : ∀ x ∈ st, SrcOk c.p2 h0 x) :
    ∀ x ∈ (run Policy.ideal c st h).2, SrcOk c.p2 (h0 ++ h) x := by
  induction h generalizing h0 st with
  | nil => simpa [run] using hst
  | cons s rest ih =>
    rw [run_cons]
    simp only
    have := ih (h0 ++ [s]) _ (step_ok c h0 s st hst)
    simpa using this

/-- **Soundness over every history** (reference policy).  After ANY sequence of load / reload /
    lookup steps, with ANY answers of the sources and MDQ servers, every entry that any source of the
    store holds — hence everything any lookup can return, see `C11_get_from_store` — is what
    authentic, current metadata says: it stems from a document handed out during the history,
    signed verifiably if the source has a certificate, in which the entity was not past its
    validUntil when read, restricted to its SAML 2.0 descriptors. -/
theorem C11_served_is_justified (c : Consts α) (h : List (Step α)) :
    ∀ src ∈ (run Policy.ideal c [] h).2, ∀ p ∈ src.entities, Justified c.p2 h src p.1 p.2 := by
  intro src hsrc p hp
  exact run_ok c [] h [] (by simp) src hsrc p hp

theorem mdxFetch_ok_mem {pol : Policy} {p2 : α} {now : Int} {resp : Fetch α} {s : Source α} {eid : α} {e : Ent α}
    (h : (mdxFetch pol p2 now resp s eid).1 = .ok e) : (eid, e) ∈ (mdxFetch pol p2 now resp s eid).2.entities := by
  unfold mdxFetch at h ⊢
  cases resp with
  | unavailable => simp at h
  | malformed => simp at h
  | doc d =>
    simp only at h ⊢
    cases hp : parseDoc s.chk now p2 s.entities d with
    | error _ => rw [hp] at h; simp at h
    | ok m =>
      rw [hp] at h
      simp only at h ⊢
      split at h
      · next hc =>
        simp only [hc, ↓reduceIte]
        cases hl : lookup m eid with
        | none => rw [hl] at h; simp at h
        | some e1 =>
          rw [hl] at h
          simp only [Res.ok.injEq] at h
          subst h
          exact lookup_mem hl
      · simp at h

theorem srcGet_ok_mem {env : Env α} {s : Source α} {eid : α} {e : Ent α}
    (h : (srcGet env s eid).1 = .ok e) : (eid, e) ∈ (srcGet env s eid).2.entities := by
  unfold srcGet at h ⊢
  split
  · next hk =>
    simp only [hk, ↓reduceIte] at h
    unfold mdxGet at h ⊢
    split
    · next h0 => simp only [h0, ↓reduceIte] at h; exact mdxFetch_ok_mem h
    · next h0 =>
      simp only [h0, Bool.false_eq_true, ↓reduceIte] at h
      split
      · next hkv => rw [hkv] at h; simp at h
      · next t hkv =>
        rw [hkv] at h
        simp only at h
        split
        · next hle =>
          simp only [hle, ↓reduceIte] at h
          cases hl : lookup s.entities eid with
          | none => rw [hl] at h; simp at h
          | some e1 => rw [hl] at h; simp only [Res.ok.injEq] at h; subst h; exact lookup_mem hl
        · next hle => simp only [hle, ↓reduceIte] at h; exact mdxFetch_ok_mem h
  · next hk =>
    simp only [hk, ↓reduceIte] at h
    cases hl : lookup s.entities eid with
    | none => rw [hl] at h; simp at h
    | some e1 => rw [hl] at h; simp only [Res.ok.injEq] at h; subst h; exact lookup_mem hl

/-- Whatever `store[eid]` returns is an entry of a source of the store after the lookup (any policy). -/
theorem C11_get_from_store (env : Env α) (eid : α) (st : Store α) (e : Ent α)
    (h : (getItem env eid st).1 = .ok e) : ∃ src ∈ (getItem env eid st).2, (eid, e) ∈ src.entities := by
  induction st with
  | nil => simp [getItem] at h
  | cons s rest ih =>
    unfold getItem at h ⊢
    cases hs : srcGet env s eid with
    | mk r s' =>
      rw [hs] at h
      have hmem : ∀ e', r = .ok e' → (eid, e') ∈ s'.entities := by
        intro e' hr
        have := @srcGet_ok_mem α _ env s eid e' (by rw [hs]; exact hr)
        rw [hs] at this; exact this
      cases r with
      | keyErr =>
        simp only at h ⊢
        obtain ⟨src, hsrc, hm⟩ := ih h
        exact ⟨src, List.mem_cons_of_mem _ hsrc, hm⟩
      | ok e1 =>
        simp only [Res.ok.injEq] at h ⊢
        subst h
        exact ⟨s', List.mem_cons_self .., hmem _ rfl⟩
      | raised => simp at h


/-! ## F. The pinned code against the specification -/

/-- The reference machine is accepted by the checker built on it (sanity of `ansOk`). -/
theorem C11_reference_meets_spec (c : Consts α) (h : List (Step α)) :
    specRun c h (run Policy.ideal c [] h).1 = true :=
  allOk_refl _

/-- FULL statement: on every history the observations of the model of the pinned code are
    acceptable to the specification.  FALSE of the pinned code: F9, see the counter-example below. -/
def C11_model_meets_spec_full : Prop :=
  ∀ (c : Consts Nat) (h : List (Step Nat)), specRun c h (run Policy.code c [] h).1 = true

/-- The model of the pinned code meets the specification on every history that satisfies the
    explicit, decidable side condition `cleanRun`: no unsigned document for a source with a
    certificate, at load time or as an MDQ answer (F9).  On such histories code and reference make the same observations and reach the same store. -/
theorem C11_model_meets_spec_partial (c : Consts α) (h : List (Step α)) (hc : cleanRun c [] h = true) :
    run Policy.code c [] h = run Policy.ideal c [] h ∧ specRun c h (run Policy.code c [] h).1 = true := by
  have := run_code_eq_ideal c h [] hc
  exact ⟨this, by rw [this]; exact C11_reference_meets_spec c h⟩

/-! concrete witnesses (strings are numbers here) -/
def cN : Consts Nat := { p2 := 2, ecName := 3, trueStr := 4 }
def roleN (k : Kind) (protos : List Nat) (loc : Nat) : Role Nat :=
  { kind := k, protocols := protos, endpoints := [{ svc := 10, binding := 20, location := loc }],
    keys := [{ use := none, cert := 30 }], reqAttrs := [] }
def entN (id tag : Nat) (roles : List (Role Nat)) : Ent Nat :=
  { id := id, tag := tag, validUntil := none, roles := roles, attrs := [(3, [40])], regs := [] }
def docN (sig : Sig) (e : Ent Nat) : Doc Nat := { group := false, validUntil := none, sig := sig, entities := [e] }
def qStep (now : Int) (mdq : List (MdqResp Nat)) (q : Query Nat) : Step Nat := { now := now, mdq := mdq, op := .q q }
def specN (k : SrcKind) (cert : Bool) (f : Fetch Nat) : SrcSpec Nat :=
  { key := 1, kind := k, cert := cert, chk := true, fresh := 600, fetch := f }
def impStep (sp : SrcSpec Nat) : Step Nat := { now := 0, mdq := [], op := .imp [sp] }
def idpN : Ent Nat := entN 7 1 [roleN .idpsso [2] 50]

/-- F9: a remote source with a certificate is handed an unsigned document. -/
def hF9 : List (Step Nat) := [impStep (specN .remote true (.doc (docN .unsigned idpN))), qStep 0 [] (.get 7)]

/-- regression (F11, fixed by 85b6178b): an MDQ source with a certificate gets an answer signed with the
    wrong key; before the fix `keys()` listed the entity afterwards -/
def badN : List (MdqResp Nat) := [{ src := 1, eid := 7, fetch := .doc (docN .wrongKey idpN) }]
def hF11 : List (Step Nat) := [impStep (specN .mdq true .unavailable), qStep 0 badN (.get 7), qStep 0 badN .keys]

/-- regression (F18, fixed by 096626db): a SAML-1.1-only IDPSSODescriptor beside a SAML 2.0 one -/
def mixedN : Ent Nat := entN 7 1 [roleN .idpsso [2] 50, roleN .idpsso [9] 51]
def hF18 : List (Step Nat) :=
  [impStep (specN .inline false (.doc (docN .unsigned mixedN))), qStep 0 [] (.service 7 .idpsso 10 (some 20))]

/-- F9 — certificate configured, unsigned document: the code loads and serves it. -/
theorem C11_model_meets_spec_counterexample : ¬ C11_model_meets_spec_full := by
  intro h
  have := h cN hF9
  revert this
  decide

/-! ### the departure at the place where it arises -/

/-- F9, FULL: a source with a certificate is loaded only from a document whose signature verifies. -/
def C11_authentic_load_code_full : Prop :=
  ∀ (p2 : Nat) (now : Int) (sp : SrcSpec Nat) (s : Source Nat),
    loadSource Policy.code p2 now sp = .ok s → sp.kind ≠ .mdq → effCert sp.kind sp.cert = true →
    ∃ d, sp.fetch = .doc d ∧ d.sig = .valid

/-- F9, PARTIAL: true of the code for every document that carries a signature. -/
theorem C11_authentic_load_code_partial (p2 : α) (now : Int) (sp : SrcSpec α) (s : Source α)
    (h : loadSource Policy.code p2 now sp = .ok s) (hk : sp.kind ≠ .mdq) (hc : effCert sp.kind sp.cert = true)
    (hsigned : ∀ d, sp.fetch = .doc d → d.sig ≠ .unsigned) :
    ∃ d, sp.fetch = .doc d ∧ d.sig = .valid := by
  obtain ⟨d, hf, _, hs, _⟩ := C11_load_exact Policy.code p2 now sp s h hk
  refine ⟨d, hf, ?_⟩
  rw [hc] at hs
  have := hsigned d hf
  unfold checkSig at hs
  cases hsig : d.sig <;> simp_all

theorem C11_authentic_load_code_counterexample : ¬ C11_authentic_load_code_full := by
  intro h
  have := h 2 0 (specN .remote true (.doc (docN .unsigned idpN)))
    { key := 1, kind := .remote, cert := true, chk := true, fresh := 600, entities := [(7, idpN)], expiry := [] }
    rfl (by decide) (by decide)
  obtain ⟨d, hf, hs⟩ := this
  simp only [specN, Fetch.doc.injEq] at hf
  subst hf
  exact absurd hs (by decide)

def mdqSrcN : Source Nat := { key := 1, kind := .mdq, cert := true, chk := true, fresh := 600, entities := [], expiry := [] }

/-- Soundness over every clean history, for the model of the pinned code. -/
theorem C11_served_is_justified_code_partial (c : Consts α) (h : List (Step α)) (hc : cleanRun c [] h = true) :
    ∀ src ∈ (run Policy.code c [] h).2, ∀ p ∈ src.entities, Justified c.p2 h src p.1 p.2 := by
  rw [run_code_eq_ideal c h [] hc]
  exact C11_served_is_justified c h


/-! ## G. Non-vacuity: concrete instances meeting the hypotheses of the theorems above -/

-- A: lookups on one descriptor
example : roleEndpoints idpN .idpsso 10 = some [{ svc := 10, binding := 20, location := 50 }] := by decide
example : selectBinding [({ svc := 10, binding := 20, location := 50 } : Endpoint Nat), { svc := 10, binding := 21, location := 51 }] (some 21)
    = [{ svc := 10, binding := 21, location := 51 }] := by decide
example : certsOf idpN (some .idpsso) 99 = some [30] := by decide
example : certsOf idpN (some .spsso) 99 = none := by decide
-- a key descriptor without a usable certificate contributes nothing
example : certsOf (entN 7 1 [{ (roleN .idpsso [2] 50) with keys := [{ use := none, cert := 31, nocert := true }, { use := some 99, cert := 32 }] }])
    (some .idpsso) 99 = some [32] := by decide
example : catsOf 3 idpN = [40] := by decide
def spRoleN : Role Nat :=
  { kind := .spsso, protocols := [2], endpoints := [], keys := [],
    reqAttrs := [{ acs := 0, name := 60, required := some 4 }, { acs := 1, name := 61, required := none }] }
example : attrReqOf 4 (entN 7 1 [spRoleN]) none = ([60], [61]) ∧ attrReqOf 4 (entN 7 1 [spRoleN]) (some 1) = ([], [61]) := by decide

-- B: the filters of one document: expired, SAML-1.1-only, first occurrence, repeated occurrence
def expiredN : Ent Nat := { idpN with tag := 90, validUntil := some 5 }
def oldProtoN : Ent Nat := entN 8 91 [roleN .idpsso [9] 52]
def repeatN : Ent Nat := entN 7 92 [roleN .spsso [2] 53]
def groupN : Doc Nat := { group := true, validUntil := some 100, sig := .valid, entities := [expiredN, oldProtoN, idpN, repeatN] }
example : ∃ m, parseDoc true 10 2 [] groupN = .ok m ∧ m = [(7, idpN)] := ⟨_, rfl, by decide⟩
example : eligible true 10 2 idpN = true ∧ eligible true 10 2 expiredN = false ∧
    eligible true 10 2 oldProtoN = false := by decide
example : prepEnt 2 mixedN = some (entN 7 1 [roleN .idpsso [2] 50]) := by decide
example : (run Policy.code cN [] hF18).1 = [.done true, .eps [{ svc := 10, binding := 20, location := 50 }]] := by decide
example : ∃ e, parseDoc true 101 2 ([] : EntMap Nat) groupN = .error e := ⟨_, rfl⟩
example : ∃ s, loadSource Policy.ideal 2 0 (specN .remote true (.doc (docN .valid idpN))) = .ok s := ⟨_, rfl⟩
example : ∃ e, loadSource Policy.ideal 2 0 (specN .remote true (.doc (docN .unsigned idpN))) = .error e := ⟨_, rfl⟩
example : ∃ e, loadSource Policy.code 2 0 (specN .remote true (.doc (docN .tampered idpN))) = .error e := ⟨_, rfl⟩

-- C: two sources listing the same entityID; the first knows the entity but has nothing for binding 21
def src1N : Source Nat := { key := 1, kind := .file, cert := false, chk := true, fresh := 0, entities := [(7, idpN)], expiry := [] }
def role21N : Role Nat := { (roleN .idpsso [2] 54) with endpoints := [{ svc := 10, binding := 21, location := 54 }] }
def src2N : Source Nat :=
  { key := 2, kind := .inline, cert := false, chk := true, fresh := 0, entities := [(7, entN 7 93 [role21N])], expiry := [] }
def envN : Env Nat := { pol := Policy.ideal, c := cN, now := 0, mdq := fun _ _ => .unavailable }
example : (getItem envN 7 [src1N, src2N]).1 = .ok idpN := by decide
example : (serviceLoop envN 7 .idpsso 10 (some 21) [src1N, src2N] false).1 = .eps [{ svc := 10, binding := 21, location := 54 }] := by decide
example : (serviceLoop envN 7 .idpsso 10 (some 22) [src1N, src2N] false).1 = .unsupported := by decide
example : tagsOf (itemsOf [src1N, src2N]) = [(7, 1)] ∧ keysOf [src1N, src2N] = [7, 7] := by decide

-- D: the second of three sources fails; a reload with a failing source; MDQ refresh
def goodSpec (k : Nat) : SrcSpec Nat := { (specN .inline false (.doc (docN .unsigned idpN))) with key := k }
def badSpec : SrcSpec Nat := { (specN .file false .unavailable) with key := 5 }
example : (impFrom Policy.code 2 0 ([] : Store Nat) [goodSpec 1, badSpec, goodSpec 3]).2 = false ∧
    ((impFrom Policy.code 2 0 ([] : Store Nat) [goodSpec 1, badSpec, goodSpec 3]).1.map (·.key)) = [1] := by decide
example : reload Policy.code 2 0 [src1N] [goodSpec 1, badSpec] = ([src1N], false) := by decide
def staleN : Source Nat := { mdqSrcN with entities := [(7, idpN)], expiry := [(7, 100)] }
example : refetches 101 staleN 7 := Or.inr ⟨by decide, 100, by decide, by decide⟩
example : (mdxGet Policy.ideal 2 101 .unavailable staleN 7).1 = .keyErr ∧
    has (mdxGet Policy.ideal 2 101 .unavailable staleN 7).2.entities 7 = false := by decide
example : (mdxGet Policy.ideal 2 101 (.doc (docN .wrongKey idpN)) staleN 7).1 = .raised ∧
    has (mdxGet Policy.ideal 2 101 (.doc (docN .wrongKey idpN)) staleN 7).2.entities 7 = false := by decide
-- the code as it is: a refresh answered with a bad signature raises and the stale entry is gone (not back)
example : (mdxGet Policy.code 2 101 (.doc (docN .wrongKey repeatN)) staleN 7).1 = .raised ∧
    (mdxGet Policy.code 2 101 (.doc (docN .wrongKey repeatN)) staleN 7).2.entities = [] := by decide
example : (mdxGet Policy.ideal 2 100 .unavailable staleN 7).1 = .ok idpN := by decide
example : (mdxGet Policy.ideal 2 101 (.doc (docN .valid repeatN)) staleN 7).1 = .ok repeatN := by decide

-- E/F: a clean history with a verified remote source, an MDQ source, a failing reload and lookups
def okN : List (MdqResp Nat) := [{ src := 9, eid := 8, fetch := .doc (docN .valid (entN 8 94 [roleN .spsso [2] 55])) }]
def mdq9N : SrcSpec Nat := { (specN .mdq true .unavailable) with key := 9 }
def imp2N : Step Nat := { now := 0, mdq := [], op := .imp [specN .remote true (.doc (docN .valid idpN)), mdq9N] }
def reloadBadN : Step Nat := { now := 5, mdq := okN, op := .reload [badSpec] }
def hGood : List (Step Nat) :=
  [imp2N, qStep 0 okN (.get 7), qStep 0 okN (.get 8), qStep 0 okN .keys, reloadBadN, qStep 700 [] (.get 8), qStep 700 [] .items]
example : cleanRun cN [] hGood = true := by decide
example : (run Policy.code cN [] hGood).1 =
    [.done true, .ent 1 [0, 1, 0, 0, 0, 0], .ent 94 [1, 0, 0, 0, 0, 0], .strs [7, 8], .done false, .missing, .ents [(7, 1)]] := by decide
example : cleanRun cN [] hF9 = false ∧ cleanRun cN [] hF11 = true ∧ cleanRun cN [] hF18 = true := by decide
-- the former F11 witness: the code now leaves nothing behind; the pre-85b6178b behaviour did
example : (run Policy.code cN [] hF11).1 = [.done true, .raised, .strs []] := by decide
example : (run ⟨true, true⟩ cN [] hF11).1 = [.done true, .raised, .strs [7]] := by decide
example : has (mdxGet Policy.code 2 0 (.doc (docN .wrongKey idpN)) mdqSrcN 7).2.entities 7 = false ∧
    has (mdxGet ⟨true, true⟩ 2 0 (.doc (docN .wrongKey idpN)) mdqSrcN 7).2.entities 7 = true := by decide

-- B2: a filter that refuses entityID 8, demands category 40 and strips SPSSODescriptors
def filtN : Filt Nat := { drop := [8], need := some (3, 40), strip := [.spsso] }
def keptN : Ent Nat := entN 9 95 [roleN .idpsso [2] 56, roleN .spsso [2] 57]
def refusedN : Ent Nat := entN 8 96 [roleN .idpsso [2] 58]
def noCatN : Ent Nat := { (entN 9 97 [roleN .idpsso [2] 59]) with attrs := [] }
def groupFN : Doc Nat := { group := true, validUntil := none, sig := .unsigned, entities := [refusedN, noCatN, keptN] }
example : applyFilt filtN keptN = some (entN 9 95 [roleN .idpsso [2] 56]) ∧ applyFilt filtN refusedN = none ∧
    applyFilt filtN noCatN = none := by decide
-- the refused first occurrence of entityID 9 does not stand in the way of the later one that is kept
example : ∃ m, parseDocF (applyFilt filtN) true 10 2 [] groupFN = .ok m ∧ m = [(9, entN 9 95 [roleN .idpsso [2] 56])] := ⟨_, rfl, by decide⟩
example : ∃ m, parseDoc true 10 2 [] groupFN = .ok m ∧ m = [(8, refusedN), (9, noCatN)] := ⟨_, rfl, by decide⟩
example : eligibleF (applyFilt filtN) true 10 2 keptN = true ∧ eligibleF (applyFilt filtN) true 10 2 refusedN = false := by decide
def filtSpecN : SrcSpec Nat := { (specN .file false (.doc groupFN)) with filt := some filtN }
example : ∃ s, loadSource Policy.code 2 10 filtSpecN = .ok s ∧ s.entities.map (·.1) = [9] := ⟨_, rfl, by decide⟩
example : (run Policy.code cN [] [{ now := 10, mdq := [], op := .imp [filtSpecN] }, qStep 10 [] (.get 8), qStep 10 [] .keys,
    qStep 10 [] (.withDesc .spsso)]).1 = [.done true, .missing, .strs [9], .ents []] := by decide

end C11
