/-
  C01 — The SP yields identity only from responses signed as its policy requires.
  The statements are about the full `Sp.process` (every message content, clock, audience list …);
  the 8 x 4 x 4 x 2 x 3 table of the quantifier is the case split inside the proofs.
-/
import PysamlModel.Proofs.Sp
import PysamlModel.Props.C04
import PysamlModel.Gen.SpDefaults

namespace C01
open Sp

/-- the assertions `_assertion` looked at in the forced pass were all signed -/
theorem forced_all_valid {cfg : Cfg} {env : Env} {st : St} {r : Response} {p : Parsed}
    (hv : verify cfg env true st r = .ok (some p)) : ∀ a ∈ visible r, a.sig = .valid := by
  obtain ⟨_, hpa⟩ := verify_some_inv hv
  obtain ⟨⟨st1, h1, h2⟩, hsig, _⟩ := parseAssertion_inv hpa
  intro a ha
  unfold visible at ha
  rcases List.mem_append.mp ha with hd | hpl
  · obtain ⟨s, s', hs⟩ := checkAll_inv h2 a hd
    obtain ⟨hA, _⟩ := checkAssertion_inv hs
    have hp := hA.sigReq rfl
    have := List.any_eq_false.mp hsig a hd
    cases hval : decide (a.sig = .valid) with
    | true => exact of_decide_eq_true hval
    | false =>
      have hne : a.sig ≠ .valid := of_decide_eq_false hval
      simp [hp, hne] at this
  · obtain ⟨s, s', hs⟩ := checkAll_inv h1 a hpl
    obtain ⟨hA, _⟩ := checkAssertion_inv hs
    exact hA.sigGood (hA.sigReq rfl) rfl

/-- whatever pass produced the result, every visible signature that is present verifies -/
theorem visible_sigs_ok {cfg : Cfg} {env : Env} {rs : Bool} {st : St} {r : Response} {p : Parsed}
    (hv : verify cfg env rs st r = .ok (some p)) : ∀ a ∈ visible r, sigOk a.sig = true := by
  obtain ⟨_, hpa⟩ := verify_some_inv hv
  obtain ⟨⟨st1, h1, h2⟩, hsig, _⟩ := parseAssertion_inv hpa
  intro a ha
  unfold visible at ha
  unfold sigOk
  rcases List.mem_append.mp ha with hd | hpl
  · have := List.any_eq_false.mp hsig a hd
    cases hs : a.sig <;> simp [hs, Sig.present] at this ⊢
  · obtain ⟨s, s', hs⟩ := checkAll_inv h1 a hpl
    obtain ⟨hA, _⟩ := checkAssertion_inv hs
    cases hp : a.sig.present with
    | false => cases hs' : a.sig <;> simp_all [Sig.present]
    | true => have := hA.sigGood hp rfl; simp [this]

/-- C01, soundness: identity is produced only if every signature present on the Response or on a
    visible assertion verifies and the Response / assertions carry the signatures the three options
    demand — for every configuration, clock and message. -/
theorem C01_sound {cfg : Cfg} {env : Env} {r : Response} {o : Reported}
    (h : process cfg env r = .identity o) :
    sigPolicyOk cfg.wantResp cfg.wantAssert cfg.wantEither r = true := by
  obtain ⟨_, cf, respSigned, rs, p, assertSigned, hp1, _, hv, has, hrs, heither, _⟩ := process_identity_inv h
  obtain ⟨req, hl, hreq1, hreq2⟩ := pass1_ok_inv hp1
  obtain ⟨hrgood, hrreq, _⟩ := loads_ok_inv hl
  have hvis := visible_sigs_ok hv
  unfold sigPolicyOk
  simp only [Bool.and_eq_true, Bool.or_eq_true, Bool.not_eq_true']
  -- Response signature
  have hrsig : sigOk r.sig = true := by
    unfold sigOk
    cases hp : r.sig.present with
    | false => cases hs : r.sig <;> simp_all [Sig.present]
    | true => have := hrgood hp; simp [this]
  have hresp_valid : req = true → r.sig = .valid := fun hq => hrgood (hrreq hq)
  refine ⟨⟨⟨⟨hrsig, List.all_eq_true.mpr hvis⟩, ?_⟩, ?_⟩, ?_⟩
  · cases hw : cfg.wantResp with
    | false => exact Or.inl rfl
    | true => exact Or.inr (by simp [hresp_valid (hreq2 hw)])
  · cases hw : cfg.wantAssert with
    | false => exact Or.inl rfl
    | true =>
      right
      have hrs' : rs = true := by
        cases hr : rs with
        | true => rfl
        | false => have := hrs hr; rw [hw] at this; cases this
      subst hrs'
      apply List.all_eq_true.mpr
      intro a ha
      simp [forced_all_valid hv a ha]
  · cases hw : cfg.wantEither with
    | false => exact Or.inl (Or.inl rfl)
    | true =>
      rw [hw] at heither
      simp only [Bool.true_and, Bool.and_eq_false_iff, Bool.not_eq_false'] at heither
      rcases heither with h1 | h1
      · exact Or.inl (Or.inr (by simp [hresp_valid (hreq1 h1)]))
      · right
        have hrs' := has h1
        subst hrs'
        apply List.all_eq_true.mpr
        intro a ha
        simp [forced_all_valid hv a ha]

/-- The option defaults in the CURRENT source (regenerated table) are the ones the property names:
    want_response_signed = True, the other two False, unsolicited responses not allowed. -/
theorem C01_defaults :
    Gen.SpDefaults.wantResponseSigned = true ∧ Gen.SpDefaults.wantAssertionsSigned = false ∧
    Gen.SpDefaults.wantAssertionsOrResponseSigned = false ∧ Gen.SpDefaults.allowUnsolicited = false := by decide

/-- The soundness half of the decidable specification holds of the model for a configuration whose
    options were resolved with the property's defaults. -/
theorem C01_model_meets_spec_sound (o : SigOpts) (cfg : Cfg) (env : Env) (r : Response)
    (hcfg : (cfg.wantResp, cfg.wantAssert, cfg.wantEither) = o.resolve true false false) :
    specC01Sound o r (process cfg env r) = true := by
  unfold specC01Sound
  rw [← hcfg]
  simp only
  cases hres : process cfg env r with
  | noIdentity => simp [Outcome.isIdentity]
  | rejected e => simp [Outcome.isIdentity]
  | identity rep => simp [Outcome.isIdentity, C01_sound hres]

/-- Completeness half, FULL statement (not proved at this revision; decided on the complete table
    by the correspondence run, see DESIGN.md): a Response that satisfies the options and is otherwise
    valid — its fully signed copy is accepted — is accepted, plain or encrypted. -/
def C01_complete_full : Prop :=
  ∀ (cfg : Cfg) (env : Env) (r : Response),
    (process cfg env (allSigned r)).isIdentity = true →
    sigPolicyOk cfg.wantResp cfg.wantAssert cfg.wantEither r = true →
    (process cfg env r).isIdentity = true

/-! Non-vacuity: the table's interesting cells on a concrete message. -/
private def okAssertion (s : Sig) (enc : Bool) : Assertion :=
  { sig := s, encrypted := enc,
    conditions := some { nooa := some 200, audiences := [["me"]] },
    authn := [{ sessionIndex := some "s" }],
    subject := some { nameId := some "n", confs := [{ method := .bearer, data := some { nooa := some 200, recipient := some "u", irt := some "r1" } }] } }
private def resp (rs as : Sig) (enc : Bool) : Response :=
  { sig := rs, issueInstant := 100, destination := some "u", inResponseTo := some "r1", assertions := [okAssertion as enc] }
private def cfgOf (wr wa we : Bool) : Cfg := { wantResp := wr, wantAssert := wa, wantEither := we, entityId := "me", returnAddrs := ["u"] }
private def env0 : Env := { now := 100, outstanding := [("r1", "/x")] }

example : (process (cfgOf true false false) env0 (resp .valid .absent false)).isIdentity = true := by decide
example : process (cfgOf true false false) env0 (resp .absent .valid false) = .rejected .sigMissingResponse := by decide
example : (process (cfgOf false false true) env0 (resp .absent .valid true)).isIdentity = true := by decide
example : process (cfgOf false false true) env0 (resp .absent .absent false) = .rejected .eitherUnsigned := by decide
example : process (cfgOf false true false) env0 (resp .valid .absent false) = .rejected .sigMissingAssertion := by decide
example : process (cfgOf false false false) env0 (resp .absent .corrupted true) = .rejected .sigBadAssertion := by decide
example : process (cfgOf false false false) env0 (resp .untrusted .absent false) = .rejected .sigBadResponse := by decide
example : (process (cfgOf false false false) env0 (resp .absent .absent false)).isIdentity = true := by decide

end C01
