import PysamlModel.Model.Sp
import PysamlModel.Spec.Sp
namespace C01
end C01
