/-
  C01 — The SP yields identity only from responses signed as its policy requires.
  The statements are about the full `Sp.process` (every message content, clock, audience list …);
  the 8 x 4 x 4 x 2 x 3 table of the quantifier is the case split inside the proofs.
-/
import PysamlModel.Proofs.Sp
import PysamlModel.Proofs.SpFactory
import PysamlModel.Proofs.SpComplete
import PysamlModel.Props.C04
import PysamlModel.Gen.SpDefaults

namespace C01
open Sp

/-- the assertions `_assertion` looked at in the forced pass were all signed -/
theorem forced_all_valid {cfg : Cfg} {env : Env} {st : St} {r : Response} {p : Parsed}
    (hv : verify cfg env true st r = .ok (some p)) : ∀ a ∈ visible r, a.sig = .valid := by
  obtain ⟨_, hpa⟩ := verify_some_inv hv
  obtain ⟨⟨st1, h1, h2⟩, hsig, _⟩ := parseAssertion_inv hpa
  intro a ha
  unfold visible at ha
  rcases List.mem_append.mp ha with hd | hpl
  · obtain ⟨s, s', hs⟩ := checkAll_inv h2 a hd
    obtain ⟨hA, _⟩ := checkAssertion_inv hs
    have hp := hA.sigReq rfl
    have := List.any_eq_false.mp hsig a hd
    cases hval : decide (a.sig = .valid) with
    | true => exact of_decide_eq_true hval
    | false =>
      have hne : a.sig ≠ .valid := of_decide_eq_false hval
      simp [hp, hne] at this
  · obtain ⟨s, s', hs⟩ := checkAll_inv h1 a hpl
    obtain ⟨hA, _⟩ := checkAssertion_inv hs
    exact hA.sigGood (hA.sigReq rfl) rfl

/-- whatever pass produced the result, every visible signature that is present verifies -/
theorem visible_sigs_ok {cfg : Cfg} {env : Env} {rs : Bool} {st : St} {r : Response} {p : Parsed}
    (hv : verify cfg env rs st r = .ok (some p)) : ∀ a ∈ visible r, sigOk a.sig = true := by
  obtain ⟨_, hpa⟩ := verify_some_inv hv
  obtain ⟨⟨st1, h1, h2⟩, hsig, _⟩ := parseAssertion_inv hpa
  intro a ha
  unfold visible at ha
  unfold sigOk
  rcases List.mem_append.mp ha with hd | hpl
  · have := List.any_eq_false.mp hsig a hd
    cases hs : a.sig <;> simp [hs, Sig.present] at this ⊢
  · obtain ⟨s, s', hs⟩ := checkAll_inv h1 a hpl
    obtain ⟨hA, _⟩ := checkAssertion_inv hs
    cases hp : a.sig.present with
    | false => cases hs' : a.sig <;> simp_all [Sig.present]
    | true => have := hA.sigGood hp rfl; simp [this]

/-- The signature policy established by one successful `loads()` (Response signature required iff `req`) and
    one successful `verify()` (`require_signature = rs`): every signature present verifies, and whatever of the
    three demands is covered by `req` / `rs` is met.  Both entry points are corollaries. -/
theorem sigPolicyOk_of_loads_verify {cfg : Cfg} {env : Env} {req rs : Bool} {st : St} {r : Response}
    {cf : Option String} {p : Parsed} {wr wa we : Bool}
    (hl : loads cfg env req r = .ok cf) (hv : verify cfg env rs st r = .ok (some p))
    (hwr : wr = true → req = true) (hwa : wa = true → rs = true)
    (hwe : we = true → req = true ∨ rs = true) :
    sigPolicyOk wr wa we r = true := by
  obtain ⟨hrgood, hrreq, _⟩ := loads_ok_inv hl
  have hvis := visible_sigs_ok hv
  unfold sigPolicyOk
  simp only [Bool.and_eq_true, Bool.or_eq_true, Bool.not_eq_true']
  -- Response signature
  have hrsig : sigOk r.sig = true := by
    unfold sigOk
    cases hp : r.sig.present with
    | false => cases hs : r.sig <;> simp_all [Sig.present]
    | true => have := hrgood hp; simp [this]
  have hresp_valid : req = true → r.sig = .valid := fun hq => hrgood (hrreq hq)
  have hall_valid : rs = true → (visible r).all (fun a => a.sig == .valid) = true := by
    intro hrs'
    subst hrs'
    apply List.all_eq_true.mpr
    intro a ha
    simp [forced_all_valid hv a ha]
  refine ⟨⟨⟨⟨hrsig, List.all_eq_true.mpr hvis⟩, ?_⟩, ?_⟩, ?_⟩
  · cases hw : wr with
    | false => exact Or.inl rfl
    | true => exact Or.inr (by simp [hresp_valid (hwr hw)])
  · cases hw : wa with
    | false => exact Or.inl rfl
    | true => exact Or.inr (hall_valid (hwa hw))
  · cases hw : we with
    | false => exact Or.inl (Or.inl rfl)
    | true =>
      rcases hwe hw with h1 | h1
      · exact Or.inl (Or.inr (by simp [hresp_valid h1]))
      · exact Or.inr (hall_valid h1)

/-- C01, soundness: identity is produced only if every signature present on the Response or on a
    visible assertion verifies and the Response / assertions carry the signatures the three options
    demand — for every configuration, clock and message. -/
theorem C01_sound {cfg : Cfg} {env : Env} {r : Response} {o : Reported}
    (h : process cfg env r = .identity o) :
    sigPolicyOk cfg.wantResp cfg.wantAssert cfg.wantEither r = true := by
  obtain ⟨_, cf, respSigned, rs, p, assertSigned, hp1, _, hv, has, hrs, heither, _⟩ := process_identity_inv h
  obtain ⟨req, hl, hreq1, hreq2⟩ := pass1_ok_inv hp1
  refine sigPolicyOk_of_loads_verify hl hv hreq2 ?_ ?_
  · intro hw
    cases hr : rs with
    | true => rfl
    | false => have := hrs hr; rw [hw] at this; cases this
  · intro hw
    rw [hw] at heither
    simp only [Bool.true_and, Bool.and_eq_false_iff, Bool.not_eq_false'] at heither
    exact heither.elim (fun h1 => Or.inl (hreq1 h1)) (fun h1 => Or.inr (has h1))

/-- C01 for the factory entry point (`saml2.response.authn_response(...)` + `loads()` + `verify()`): the factory
    has no parameter for `want_response_signed` and `want_assertions_or_response_signed` (they keep the constructor
    default, false), so the policy it enforces is the one with those two options off: every signature present on
    the Response or on a visible assertion verifies, and with `want_assertions_signed` every visible assertion is
    signed. -/
theorem C01_sound_factory {cfg : Cfg} {env : Env} {r : Response} {o : Reported}
    (h : processFactory cfg env r = .identity o) :
    sigPolicyOk false cfg.wantAssert false r = true := by
  obtain ⟨cf, p, hl, hv, _⟩ := processFactory_identity_inv h
  exact sigPolicyOk_of_loads_verify hl hv (fun hf => by cases hf) id (fun hf => by cases hf)

/-- C01 for the third entry point (`response_factory(...)` + `verify()`): both loads verify the Response signature when
    present; the policy enforced is the factory's. -/
theorem C01_sound_respfactory {cfg : Cfg} {env : Env} {r : Response} {o : Reported}
    (h : processRespFactory cfg env r = .identity o) :
    sigPolicyOk false cfg.wantAssert false r = true :=
  C01_sound_factory (processRespFactory_identity h).2

/-- The option defaults in the CURRENT source (regenerated table) are the ones the property names:
    want_response_signed = True, the other two False, unsolicited responses not allowed. -/
theorem C01_defaults :
    Gen.SpDefaults.wantResponseSigned = true ∧ Gen.SpDefaults.wantAssertionsSigned = false ∧
    Gen.SpDefaults.wantAssertionsOrResponseSigned = false ∧ Gen.SpDefaults.allowUnsolicited = false := by decide

/-- The soundness half of the decidable specification holds of the model for a configuration whose
    options were resolved with the property's defaults. -/
theorem C01_model_meets_spec_sound (o : SigOpts) (cfg : Cfg) (env : Env) (r : Response)
    (hcfg : (cfg.wantResp, cfg.wantAssert, cfg.wantEither) = o.resolve true false false) :
    specC01Sound o r (process cfg env r) = true := by
  unfold specC01Sound
  rw [← hcfg]
  simp only
  cases hres : process cfg env r with
  | noIdentity => simp [Outcome.isIdentity]
  | rejected e => simp [Outcome.isIdentity]
  | identity rep => simp [Outcome.isIdentity, C01_sound hres]

/-- C01, completeness: a Response that satisfies the options and is otherwise valid — its fully
    signed copy is accepted — is accepted, whether its assertion is sent in clear or encrypted; for
    every configuration, clock and message content. -/
theorem C01_complete (cfg : Cfg) (env : Env) (r : Response)
    (hvalid : (process cfg env (allSigned r)).isIdentity = true)
    (hpol : sigPolicyOk cfg.wantResp cfg.wantAssert cfg.wantEither r = true) :
    (process cfg env r).isIdentity = true := by
  -- the fully signed copy
  cases hres : process cfg env (allSigned r) with
  | noIdentity => rw [hres] at hvalid; cases hvalid
  | rejected e => rw [hres] at hvalid; cases hvalid
  | identity o' =>
    obtain ⟨hb, cf, rS', rs', p', aS', hp1, _, hv', _, _, _, a', rest', s, srest, hused', hauthn', _⟩ :=
      process_identity_inv hres
    -- the policy
    unfold sigPolicyOk at hpol
    simp only [Bool.and_eq_true, Bool.or_eq_true, Bool.not_eq_true'] at hpol
    obtain ⟨⟨⟨⟨hrsig, hvis⟩, hwr⟩, hwa⟩, hwe⟩ := hpol
    have hvis' : ∀ a ∈ visible r, sigOk a.sig = true := List.all_eq_true.mp hvis
    have hwr' : cfg.wantResp = true → r.sig = .valid := by
      intro h; rcases hwr with h1 | h1
      · rw [h] at h1; cases h1
      · simpa using h1
    have hp1r := pass1_complete hp1 hrsig hwr'
    -- verify on the copy
    obtain ⟨henv', hpa'⟩ := verify_some_inv hv'
    have henv : verifyEnvelope cfg env r = .ok true := by rw [← verifyEnvelope_allSigned]; exact henv'
    obtain ⟨hlax, hforcedOk, hforcedMiss⟩ := parseAssertion_complete hpa' hvis'
    let p : Parsed := { st := p'.st, used := decOf r ++ plainOf r, encLeft := p'.encLeft }
    -- the used list has the same shape
    obtain ⟨_, _, _, hu', _, _⟩ := parseAssertion_inv hpa'
    rw [decOf_allSigned, plainOf_allSigned, ← List.map_append] at hu'
    rw [hu'] at hused'
    have hshape : ∃ a rest, decOf r ++ plainOf r = a :: rest ∧ a.authn = s :: srest := by
      cases hl : decOf r ++ plainOf r with
      | nil => rw [hl] at hused'; cases hused'
      | cons a rest =>
        rw [hl] at hused'
        simp only [List.map_cons, List.cons.injEq] at hused'
        refine ⟨a, rest, rfl, ?_⟩
        have : (setValid a).authn = a.authn := rfl
        rw [← this, hused'.1]; exact hauthn'
    obtain ⟨a, rest, hl, hauthn⟩ := hshape
    -- pass 2 on the original
    have hpass2 : ∃ aS, pass2 cfg env { cameFrom := cf } r = .ok (some p, aS) ∧
        (aS = false → ∃ b ∈ visible r, b.sig ≠ .valid) := by
      by_cases hall : ∀ b ∈ visible r, b.sig = .valid
      · refine ⟨true, ?_, fun h => by cases h⟩
        unfold pass2 verify
        rw [henv, hforcedOk hall]
      · have hex : ∃ b ∈ visible r, b.sig ≠ .valid := by
          apply Classical.byContradiction
          intro hne
          apply hall
          intro b hb
          apply Classical.byContradiction
          intro hbv
          exact hne ⟨b, hb, hbv⟩
        refine ⟨false, ?_, fun _ => hex⟩
        have hwa' : cfg.wantAssert = false := by
          rcases hwa with h1 | h1
          · exact h1
          · exact absurd (fun b hb => by simpa using List.all_eq_true.mp h1 b hb) hall
        unfold pass2
        have hv1 : verify cfg env true { cameFrom := cf } r = .error .sigMissingAssertion := by
          unfold verify; rw [henv, hforcedMiss hex]
        have hv2 : verify cfg env false { cameFrom := cf } r = .ok (some p) := by
          unfold verify; rw [henv, hlax]
        rw [hv1]
        simp only [Err.isSignatureError, if_true, hwa', Bool.false_eq_true, if_false, hv2]
    obtain ⟨aS, hp2, haS⟩ := hpass2
    -- put it together
    unfold process
    simp only [hb, Bool.not_true, Bool.false_eq_true, if_false, hp1r, hp2]
    have heither : (cfg.wantEither && !decide (r.sig = .valid) && !aS) = false := by
      cases hwe' : cfg.wantEither with
      | false => simp
      | true =>
        rcases hwe with (h1 | h1) | h1
        · rw [hwe'] at h1; cases h1
        · have : r.sig = .valid := by simpa using h1
          simp [this]
        · cases haSv : aS with
          | true => simp
          | false =>
            obtain ⟨b, hb', hbv⟩ := haS haSv
            have := List.all_eq_true.mp h1 b hb'
            exact absurd (by simpa using this) hbv
    rw [heither]
    simp only [Bool.false_eq_true, if_false]
    show (match p.used with
      | [] => Outcome.noIdentity
      | a :: _ => _).isIdentity = true
    have hpu : p.used = a :: rest := hl
    rw [hpu]
    simp only [hauthn, Outcome.isIdentity]

/-- Both halves of the decidable specification hold of the model for a configuration whose options
    were resolved with the property's defaults. -/
theorem C01_model_meets_spec_complete (o : SigOpts) (cfg : Cfg) (env : Env) (r : Response)
    (hcfg : (cfg.wantResp, cfg.wantAssert, cfg.wantEither) = o.resolve true false false) :
    specC01Complete o cfg env r (process cfg env r) = true := by
  unfold specC01Complete
  rw [← hcfg]
  simp only
  cases hv : (process cfg env (allSigned r)).isIdentity with
  | false => simp
  | true =>
    cases hp : sigPolicyOk cfg.wantResp cfg.wantAssert cfg.wantEither r with
    | false => simp
    | true => simp [C01_complete cfg env r hv hp]

/-! Non-vacuity: the table's interesting cells on a concrete message. -/
private def okAssertion (s : Sig) (enc : Bool) : Assertion :=
  { sig := s, encrypted := enc,
    conditions := some { nooa := some 200, audiences := [["me"]] },
    authn := [{ sessionIndex := some "s" }],
    subject := some { nameId := some "n", confs := [{ method := .bearer, data := some { nooa := some 200, recipient := some "u", irt := some "r1" } }] } }
private def resp (rs as : Sig) (enc : Bool) : Response :=
  { sig := rs, issueInstant := 100, destination := some "u", inResponseTo := some "r1", assertions := [okAssertion as enc] }
private def cfgOf (wr wa we : Bool) : Cfg := { wantResp := wr, wantAssert := wa, wantEither := we, entityId := "me", returnAddrs := ["u"] }
private def env0 : Env := { now := 100, outstanding := [("r1", "/x")] }

example : (process (cfgOf true false false) env0 (resp .valid .absent false)).isIdentity = true := by decide
example : process (cfgOf true false false) env0 (resp .absent .valid false) = .rejected .sigMissingResponse := by decide
example : (process (cfgOf false false true) env0 (resp .absent .valid true)).isIdentity = true := by decide
example : process (cfgOf false false true) env0 (resp .absent .absent false) = .rejected .eitherUnsigned := by decide
example : process (cfgOf false true false) env0 (resp .valid .absent false) = .rejected .sigMissingAssertion := by decide
example : process (cfgOf false false false) env0 (resp .absent .corrupted true) = .rejected .sigBadAssertion := by decide
example : process (cfgOf false false false) env0 (resp .untrusted .absent false) = .rejected .sigBadResponse := by decide
example : (process (cfgOf false false false) env0 (resp .absent .absent false)).isIdentity = true := by decide

/-! The factory entry point on the same messages.  It accepts (non-vacuity of `C01_sound_factory`); it cannot be
    told to demand a Response signature or "either", so `sigPolicyOk` with the CONFIGURED `want_response_signed` /
    `want_assertions_or_response_signed` does not hold of what it accepts (the two counterexamples: that is why
    `C01_sound_factory` states the policy with those two options off); `want_assertions_signed` and every signature
    that is present are enforced as in `process`. -/
example : (processFactory (cfgOf true false false) env0 (resp .valid .absent false)).isIdentity = true := by decide
example : (processFactory (cfgOf true false false) env0 (resp .absent .valid false)).isIdentity = true ∧
    sigPolicyOk true false false (resp .absent .valid false) = false := by decide
example : (processFactory (cfgOf false false true) env0 (resp .absent .absent false)).isIdentity = true ∧
    sigPolicyOk false false true (resp .absent .absent false) = false := by decide
example : processFactory (cfgOf false true false) env0 (resp .valid .absent false) = .rejected .sigMissingAssertion := by decide
example : (processFactory (cfgOf false true false) env0 (resp .absent .valid true)).isIdentity = true := by decide
example : processFactory (cfgOf false false false) env0 (resp .absent .corrupted true) = .rejected .sigBadAssertion := by decide
example : processFactory (cfgOf false false false) env0 (resp .untrusted .absent false) = .rejected .sigBadResponse := by decide

end C01
