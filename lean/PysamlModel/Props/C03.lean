/-
  C03 — Only keys that trusted metadata binds to the claimed issuer validate a signature.
  Property theorems only (plus non-vacuity examples).  All statements quantify over arbitrary
  metadata (`Metadata ι κ` is any lookup function: any number of entities, role descriptors, key
  descriptors, certificates), arbitrary issuers, signing keys and embedded `KeyInfo`s.
  `checkSignature true …` is the code as it is: xmlsec1 is run with
  `--enabled-key-data raw-x509-cert` (`restricted = true`).
-/
import PysamlModel.Model.Keys
import PysamlModel.Spec.C03
import PysamlModel.Gen.KeysDefaults
import PysamlModel.Proofs.C03

namespace C03
open Keys

variable {ι κ : Type} [DecidableEq κ]

/-! ### facts about the regenerated constants (re-checked against the current source on every run) -/

/-- A configuration that does not mention `only_use_keys_in_metadata` gets `True`. -/
theorem C03_default_only_md : Gen.KeysDefaults.onlyMdDefault = true := by decide

/-- `MetaData.certs(_, "any", _)` looks at every role descriptor kind of the model. -/
theorem C03_role_order_complete : ∀ k : RoleKind, k ∈ Gen.KeysDefaults.roleOrder := by
  intro k; cases k <;> decide

/-! ### the property -/

/-- An accepted signature was made with a key the metadata binds to the claimed issuer for signing,
    or the option is off, the metadata binds no key at all to that issuer and the key is that of a
    certificate embedded in the message.  Both values of the option, every metadata shape, every
    assignment of certificate kinds (RSA / other key type / malformed). -/
theorem C03_key_origin (kindOf : κ → CertKind) (order : List RoleKind) (hord : ∀ k : RoleKind, k ∈ order)
    (onlyMd : Bool) (md : Metadata ι κ) (m : Msg ι κ)
    (h : (checkSignature true kindOf order onlyMd md m).verdict = .accepted) :
    KeyOrigin onlyMd md m := by
  obtain ⟨c, hc, hv⟩ := checkSignature_accepted h
  have hs := (verifies_restricted hv).1
  rcases selectCerts_cases order onlyMd md m with ⟨cs, hmc, hsel⟩ | ⟨hf, hempty, hsel⟩ | ⟨_, hsel⟩
  · rw [hsel] at hc
    exact Or.inl ⟨c, hs, mdCerts_sound hmc hc⟩
  · rw [hsel] at hc
    exact Or.inr ⟨hf, boundKeys_nil_of_lookup_empty hord hempty, c, hs, hc⟩
  · rw [hsel] at hc; cases hc

/-- With `only_use_keys_in_metadata` on (the default), an accepted signature was made with a key
    the metadata binds to the claimed issuer for signing — for any role order. -/
theorem C03_metadata_only_key_origin (kindOf : κ → CertKind) (order : List RoleKind) (md : Metadata ι κ)
    (m : Msg ι κ) (h : (checkSignature true kindOf order true md m).verdict = .accepted) :
    ∃ k, m.signer = some k ∧ k ∈ boundKeys md m.issuer ∧ kindOf k = .rsa := by
  obtain ⟨c, hc, hv⟩ := checkSignature_accepted h
  obtain ⟨hs, hk⟩ := verifies_restricted hv
  rcases selectCerts_cases order true md m with ⟨cs, hmc, hsel⟩ | ⟨hf, _⟩ | ⟨_, hsel⟩
  · rw [hsel] at hc
    exact ⟨c, hs, mdCerts_sound hmc hc, hk⟩
  · cases hf
  · rw [hsel] at hc; cases hc

/-- A key the metadata does not bind to the claimed issuer never suffices (encryption-only key,
    another member's key, the receiver's own key, an attacker's key), whatever the message embeds. -/
theorem C03_unbound_key_rejected (kindOf : κ → CertKind) (order : List RoleKind) (md : Metadata ι κ)
    (m : Msg ι κ) (hun : ∀ k, m.signer = some k → k ∉ boundKeys md m.issuer) :
    (checkSignature true kindOf order true md m).verdict ≠ .accepted := by
  intro h
  obtain ⟨k, hk, hb, _⟩ := C03_metadata_only_key_origin kindOf order md m h
  exact hun k hk hb

omit [DecidableEq κ] in
/-- A key the issuer's entity publishes only under `use="encryption"` is not bound. -/
theorem C03_encryption_only_key_not_bound (md : Metadata ι κ) (i : ι) (k : κ)
    (henc : ∀ ent, md i = some ent → ∀ r ∈ ent.roles, ∀ kd ∈ r.keys, some k ∈ kd.x509 →
      kd.use = some .encryption) :
    k ∉ boundKeys md (some i) := by
  intro hb
  obtain ⟨ent, hmd, r, hr, kd, hkd, happ, hkl⟩ := mem_boundKeys.mp hb
  have hx : some k ∈ kd.x509 := by
    unfold kdCerts at hkl
    obtain ⟨a, ha, hak⟩ := List.mem_filterMap.mp hkl
    simp only [id] at hak
    rw [← hak]; exact ha
  exact (applicable_signing_iff kd).mp happ (henc ent hmd r hr kd hkd hx)

/-- An issuer without metadata (or a message without issuer) is refused for lack of a key,
    whoever signed and whatever is embedded — also under the unrestricted xmlsec1 semantics. -/
theorem C03_unknown_issuer_rejected (restricted : Bool) (kindOf : κ → CertKind) (order : List RoleKind)
    (md : Metadata ι κ) (m : Msg ι κ) (hunk : ∀ i, m.issuer = some i → md i = none) :
    (checkSignature restricted kindOf order true md m).verdict = .missingKey := by
  have hmc : mdCerts order md m.issuer .signing = none := by
    unfold mdCerts
    cases hi : m.issuer with
    | none => rfl
    | some i => simp only [hunk i hi]
  simp [checkSignature, selectCerts, hmc]

/-- With the default policy the embedded `KeyInfo` plays no role at all. -/
theorem C03_embedded_key_ignored (kindOf : κ → CertKind) (order : List RoleKind) (md : Metadata ι κ)
    (m : Msg ι κ) (ki : KeyInfo κ) :
    checkSignature true kindOf order true md { m with keyInfo := ki } = checkSignature true kindOf order true md m := by
  have hsel : selectCerts order true md { m with keyInfo := ki } = selectCerts order true md m := by
    simp [selectCerts]
  unfold checkSignature
  simp only [hsel]
  rw [tryCerts_congr (m := { m with keyInfo := ki }) (m' := m) rfl]

/-- Option off: an embedded certificate validates nothing as soon as the metadata binds any
    signing key to the claimed issuer (the fallback is for key-less issuers only). -/
theorem C03_no_fallback_when_bound (kindOf : κ → CertKind) (order : List RoleKind)
    (hord : ∀ k : RoleKind, k ∈ order) (md : Metadata ι κ) (m : Msg ι κ) (hne : boundKeys md m.issuer ≠ [])
    (hun : ∀ k, m.signer = some k → k ∉ boundKeys md m.issuer) :
    (checkSignature true kindOf order false md m).verdict ≠ .accepted := by
  intro h
  rcases C03_key_origin kindOf order hord false md m h with ⟨k, hk, hb⟩ | ⟨_, hnil, _⟩
  · exact hun k hk hb
  · exact hne hnil

/-- A certificate with another kind of public key, or bytes that are no certificate, validate
    nothing — in particular they do not make the verifier use some other key instead. -/
theorem C03_non_rsa_certificate_validates_nothing (kindOf : κ → CertKind) (c : κ) (m : Msg ι κ)
    (hk : kindOf c ≠ .rsa) : verifies true kindOf c m = false := by
  cases hv : verifies true kindOf c m with
  | false => rfl
  | true => exact absurd (verifies_restricted hv).2 hk

/-! ### the issuer is the one the signed item names itself -/

/-- `_check_signature(item, issuer=arg)`: when the item names an issuer, the caller's argument plays
    no role (an advice assertion inside another issuer's assertion is checked under ITS issuer). -/
theorem C03_item_issuer_wins (restricted : Bool) (kindOf : κ → CertKind) (order : List RoleKind) (onlyMd : Bool)
    (md : Metadata ι κ) (arg : Option ι) (m : Msg ι κ) (i : ι) (hi : m.issuer = some i) :
    checkSignatureArg restricted kindOf order onlyMd md arg m = checkSignature restricted kindOf order onlyMd md m := by
  unfold checkSignatureArg
  rw [effIssuer_of_some hi, ← hi]

/-- Key origin with an `issuer=` argument: the keys are those bound to the item's own issuer, and
    only for an item that names none, to the argument. -/
theorem C03_key_origin_with_argument (kindOf : κ → CertKind) (order : List RoleKind)
    (hord : ∀ k : RoleKind, k ∈ order) (onlyMd : Bool) (md : Metadata ι κ) (arg : Option ι) (m : Msg ι κ)
    (h : (checkSignatureArg true kindOf order onlyMd md arg m).verdict = .accepted) :
    KeyOrigin onlyMd md (attributed arg m) :=
  C03_key_origin kindOf order hord onlyMd md _ h

/-! ### why `--enabled-key-data raw-x509-cert` is part of the obligation -/

private def mdEx : Metadata Nat Nat := fun i =>
  if i = 1 then some ⟨[⟨.idpsso, [⟨some .signing, [some 10]⟩, ⟨some .signing, [some 11]⟩,
                                   ⟨some .encryption, [some 12]⟩]⟩]⟩
  else if i = 2 then some ⟨[⟨.idpsso, [⟨some .signing, [some 20]⟩]⟩]⟩
  else if i = 4 then some ⟨[⟨.spsso, [⟨some .signing, [some 40]⟩, ⟨none, [some 41]⟩, ⟨some .signing, [some 42]⟩]⟩]⟩
  else none

/-- all certificates RSA, except: 40 carries an EC key, 41 is malformed -/
private def kEx : Nat → CertKind := fun c => if c = 40 then .other else if c = 41 then .malformed else .rsa
private def allRsa : Nat → CertKind := fun _ => .rsa

/-- The metadata-only statement for an xmlsec1 run WITHOUT the key-data restriction. -/
def C03_key_origin_unrestricted : Prop :=
  ∀ (ι κ : Type) [DecidableEq κ] (kindOf : κ → CertKind) (order : List RoleKind) (md : Metadata ι κ) (m : Msg ι κ),
    (checkSignature false kindOf order true md m).verdict = .accepted →
      ∃ k, m.signer = some k ∧ k ∈ boundKeys md m.issuer

/-- Without the restriction the statement is false (an embedded key is preferred by xmlsec1):
    key 99 signs, embeds certificate 99, claims issuer 1. -/
theorem C03_flag_needed : ¬ C03_key_origin_unrestricted := by
  intro h
  obtain ⟨k, hk, hb⟩ := h Nat Nat allRsa Gen.KeysDefaults.roleOrder mdEx ⟨some 1, some 99, ⟨[99], none⟩⟩ (by decide)
  simp only [Option.some.injEq] at hk
  subst hk
  revert hb
  decide

/-! ### what is handed to the verifier -/

/-- Every certificate given to xmlsec1 is bound to the issuer by metadata, or the option is off,
    the metadata lookup gave nothing and it is a certificate embedded in the message. -/
theorem C03_handed_certs_origin (restricted : Bool) (kindOf : κ → CertKind) (order : List RoleKind)
    (onlyMd : Bool) (md : Metadata ι κ) (m : Msg ι κ) (c : κ)
    (h : c ∈ (checkSignature restricted kindOf order onlyMd md m).handed) :
    c ∈ boundKeys md m.issuer ∨
    (onlyMd = false ∧ c ∈ m.keyInfo.certs ∧
      (mdCerts order md m.issuer .signing = none ∨ mdCerts order md m.issuer .signing = some [])) := by
  have hc := checkSignature_handed_subset h
  rcases selectCerts_cases order onlyMd md m with ⟨cs, hmc, hsel⟩ | ⟨hf, hempty, hsel⟩ | ⟨_, hsel⟩
  · rw [hsel] at hc; exact Or.inl (mdCerts_sound hmc hc)
  · rw [hsel] at hc; exact Or.inr ⟨hf, hc, hempty⟩
  · rw [hsel] at hc; cases hc

/-! ### detached signatures (HTTP-Redirect) -/

/-- The Redirect path never uses anything but RSA certificates from metadata, whatever the option
    says and whatever the receiver's own key is; an unknown issuer (failing lookup) and a raising
    verification are refused. -/
theorem C03_redirect_key_origin (kindOf : κ → CertKind) (own : κ) (order : List RoleKind) (md : Metadata ι κ)
    (issuer : Option ι) (signer : Option κ)
    (h : (redirectCheck kindOf own order md issuer signer).verdict = .accepted) :
    ∃ k, signer = some k ∧ k ∈ boundKeys md issuer ∧ kindOf k = .rsa := by
  obtain ⟨cs, hmc, c, hc, hs, hk⟩ := redirectCheck_accepted h
  exact ⟨c, hs, mdCerts_sound hmc hc, hk⟩

/-- A detached signature counts only with both parameters present and an implemented `SigAlg`:
    with `SigAlg`/`Signature` missing, or a `SigAlg` the library does not implement (where no key
    verifies anything), the request is refused whatever the `Signature` value. -/
theorem C03_redirect_parameters (kindOf : κ → CertKind) (own : κ) (order : List RoleKind) (md : Metadata ι κ)
    (issuer : Option ι) (signer : Option κ) (p : DetParams)
    (h : (redirectCheckP kindOf own order md issuer signer p).verdict = .accepted) :
    p = .ok ∧ ∃ k, signer = some k ∧ k ∈ boundKeys md issuer ∧ kindOf k = .rsa := by
  obtain ⟨hp, hr⟩ := redirectCheckP_accepted h
  exact ⟨hp, C03_redirect_key_origin kindOf own order md issuer signer hr⟩

/-- The verifier's own-key default (`key or self.key` in `RSASigner.verify`) is never reached from
    the Redirect check: its result does not depend on the receiver's own key. -/
theorem C03_redirect_own_key_irrelevant (kindOf : κ → CertKind) (own own' : κ) (order : List RoleKind)
    (md : Metadata ι κ) (issuer : Option ι) (signer : Option κ) :
    redirectCheck kindOf own order md issuer signer = redirectCheck kindOf own' order md issuer signer := by
  unfold redirectCheck
  cases mdCerts order md issuer .signing with
  | none => rfl
  | some cs => simp only [tryRedirect_own_irrelevant kindOf own own' signer cs]

/-! ### `want_authn_requests_only_with_valid_cert` and the forms configuration values are written in -/

/-- With the option off, `_check_signature(only_valid_cert=False)` is the function of the theorems above. -/
theorem C03_only_valid_cert_off (restricted : Bool) (kindOf : κ → CertKind) (order : List RoleKind)
    (onlyMd : Bool) (md : Metadata ι κ) (m : Msg ι κ) :
    checkSignatureOvc restricted kindOf order onlyMd false md m = checkSignature restricted kindOf order onlyMd md m :=
  checkSignatureOvc_false restricted kindOf order onlyMd md m

/-- The statement the option's documented meaning ("ignore the signature and verify the
    certificate", certificate validation not configured) does NOT satisfy. -/
def C03_key_origin_only_valid_cert : Prop :=
  ∀ (ι κ : Type) [DecidableEq κ] (kindOf : κ → CertKind) (order : List RoleKind) (md : Metadata ι κ) (m : Msg ι κ),
    (checkSignatureOvc true kindOf order true true md m).verdict = .accepted →
      ∃ k, m.signer = some k ∧ k ∈ boundKeys md m.issuer

/-- With `want_authn_requests_only_with_valid_cert` on, a request claiming issuer 1 and signed with
    the attacker's key 99 (or with a value no key verifies) is accepted: the mode is outside the
    property, which is why the specification demands nothing there. -/
theorem C03_only_valid_cert_ignores_signature : ¬ C03_key_origin_only_valid_cert := by
  intro h
  obtain ⟨k, hk, hb⟩ := h Nat Nat allRsa Gen.KeysDefaults.roleOrder mdEx ⟨some 1, some 99, ⟨[], none⟩⟩ (by decide)
  simp only [Option.some.injEq] at hk
  subst hk
  revert hb
  decide

/-- Even in that mode an issuer without metadata certificate is refused (metadata-only policy). -/
theorem C03_only_valid_cert_unknown_issuer_rejected (restricted : Bool) (kindOf : κ → CertKind)
    (order : List RoleKind) (ovc : Bool) (md : Metadata ι κ) (m : Msg ι κ)
    (hunk : ∀ i, m.issuer = some i → md i = none) :
    (checkSignatureOvc restricted kindOf order true ovc md m).verdict = .missingKey := by
  have hmc : mdCerts order md m.issuer .signing = none := by
    unfold mdCerts
    cases hi : m.issuer with
    | none => rfl
    | some i => simp only [hunk i hi]
  simp [checkSignatureOvc, selectCerts, hmc]

/-- Per-service options (`want_authn_requests_only_with_valid_cert`, `want_authn_requests_signed`,
    `want_response_signed`, …): for every written form — bool, int, the texts "true"/"false"/"" and
    any other text — `load_special` + truthiness give the value the writer means. -/
theorem C03_service_option_forms (f : CfgForm) : meaning normService f = normService f :=
  meaning_normService f

/-- `only_use_keys_in_metadata` is not normalised (the text "false" is truthy), but the code never
    reads a value meant as "on" — or an absent one — as "off". -/
theorem C03_only_md_forms_never_weaker (f : CfgForm) (h : policy f = true) :
    normCommon Gen.KeysDefaults.onlyMdDefault f = true :=
  policy_le_normCommon f _ C03_default_only_md h

/-! ### all message kinds; the link to the decidable specification -/

/-- Acceptance of a message of any single-item kind (enveloped; detached with or without an
    additional enveloped signature) implies `KeyOrigin` — with `only_valid_cert` off and, for a
    detached signature without an enveloped one, signed requests required. -/
theorem C03_accept_key_origin (kindOf : κ → CertKind) (own : κ) (order : List RoleKind)
    (hord : ∀ k : RoleKind, k ∈ order) (onlyMd must : Bool) (md : Metadata ι κ) (env : Option Bool) (p : DetParams)
    (m : Msg ι κ) (hreq : ∀ e, env = some e → must = true ∨ e = true)
    (h : (accept true kindOf own order onlyMd false must md
      (match env with | none => Kind.enveloped | some e => Kind.detached e p) m).accepted = true) :
    KeyOrigin onlyMd md m := by
  cases env with
  | none =>
    simp only [accept, decide_eq_true_eq, checkSignatureOvc_false] at h
    exact C03_key_origin kindOf order hord onlyMd md m h
  | some e =>
    rcases hreq e rfl with hm | he
    · have hm' : (must || false) = true := by simp [hm]
      obtain ⟨k, hk, hb, _⟩ := C03_redirect_key_origin kindOf own order md m.issuer m.signer
        (redirectCheckP_accepted (accept_detached_accepted hm' h)).2
      exact Or.inl ⟨k, hk, hb⟩
    · subst he
      have hx := accept_detached_env_accepted h
      rw [checkSignatureOvc_false] at hx
      exact C03_key_origin kindOf order hord onlyMd md m hx

/-- A nested item — a signed assertion (plain or encrypted) inside a signed Response, an encrypted
    assertion next to a plain one, an (encrypted) advice assertion inside an assertion — is accepted
    only if BOTH items satisfy `KeyOrigin`, each under the issuer it names itself. -/
theorem C03_nested_key_origin (kindOf : κ → CertKind) (own : κ) (order : List RoleKind)
    (hord : ∀ k : RoleKind, k ∈ order) (onlyMd ovc must : Bool) (md : Metadata ι κ) (first : Msg ι κ)
    (withArg : Bool) (m : Msg ι κ)
    (h : (accept true kindOf own order onlyMd ovc must md (.after first withArg) m).accepted = true) :
    KeyOrigin onlyMd md first ∧
    KeyOrigin onlyMd md (attributed (if withArg then first.issuer else none) m) := by
  obtain ⟨h1, h2⟩ := accept_after_accepted h
  exact ⟨C03_key_origin kindOf order hord onlyMd md first h1,
    C03_key_origin_with_argument kindOf order hord onlyMd md _ m h2⟩

/-- The model's answer meets the specification the driver evaluates on the implementation's
    answer: for the regenerated role order and default, every written form of the three options
    (the model takes the values as the code normalises them, the specification as they are meant),
    every metadata, certificate-kind assignment, own key, kind and message. -/
theorem C03_model_meets_spec (kindOf : κ → CertKind) (own : κ) (cfg ovcF mustF : CfgForm) (md : Metadata ι κ)
    (kind : Kind ι κ) (m : Msg ι κ) :
    specKind cfg ovcF mustF md kind m
      (accept true kindOf own Gen.KeysDefaults.roleOrder (normCommon Gen.KeysDefaults.onlyMdDefault cfg)
        (normService ovcF) (normService mustF) md kind m).accepted = true := by
  have hpol : ∀ x : Msg ι κ, KeyOrigin (normCommon Gen.KeysDefaults.onlyMdDefault cfg) md x →
      KeyOrigin (policy cfg) md x := by
    intro x hx
    cases hp : policy cfg with
    | true => rw [C03_only_md_forms_never_weaker cfg hp] at hx; exact hx
    | false =>
      cases hn : normCommon Gen.KeysDefaults.onlyMdDefault cfg with
      | true => rw [hn] at hx; exact KeyOrigin_mono hx false
      | false => rw [hn] at hx; exact hx
  cases hacc : (accept true kindOf own Gen.KeysDefaults.roleOrder (normCommon Gen.KeysDefaults.onlyMdDefault cfg)
      (normService ovcF) (normService mustF) md kind m).accepted with
  | false => cases kind <;> simp [specKind, specAccept]
  | true =>
    cases kind with
    | after first withArg =>
      obtain ⟨h1, h2⟩ := C03_nested_key_origin kindOf own _ C03_role_order_complete _ _ _ md first withArg m hacc
      simp only [specKind, Bool.not_true, Bool.false_or, Bool.and_eq_true]
      rw [keyOriginB_iff, keyOriginB_iff]
      exact ⟨hpol _ h1, hpol _ h2⟩
    | enveloped =>
      simp only [specKind, specAccept, Bool.not_true, Bool.false_or, meaning_normService, Bool.or_eq_true]
      cases hov : normService ovcF with
      | true => exact Or.inl rfl
      | false =>
        right
        rw [keyOriginB_iff]
        rw [hov] at hacc
        exact hpol _ (C03_accept_key_origin kindOf own _ C03_role_order_complete _ _ md none .ok m
          (by intro e he; cases he) hacc)
    | detached e p =>
      simp only [specKind, specAccept, Bool.not_true, Bool.false_or, meaning_normService, Bool.or_eq_true,
        Bool.and_eq_true, Bool.not_eq_true']
      cases hov : normService ovcF with
      | true => exact Or.inl (Or.inl rfl)
      | false =>
        cases hmu : normService mustF with
        | false =>
          cases e with
          | false => exact Or.inl (Or.inr ⟨rfl, rfl⟩)
          | true =>
            right
            simp only [Bool.false_eq_true, false_and, if_false]
            rw [keyOriginB_iff]
            rw [hov, hmu] at hacc
            exact hpol _ (C03_accept_key_origin kindOf own _ C03_role_order_complete _ _ md (some true) p m
              (by intro e he; cases he; exact Or.inr rfl) hacc)
        | true =>
          right
          rw [hov, hmu] at hacc
          have hp : p = .ok := (redirectCheckP_accepted
            (accept_detached_accepted (by simp) hacc)).1
          subst hp
          simp only [bne_self_eq_false, Bool.false_eq_true, and_false, if_false]
          rw [keyOriginB_iff]
          exact hpol _ (C03_accept_key_origin kindOf own _ C03_role_order_complete _ _ md (some e) .ok m
            (by intro e' _; exact Or.inl rfl) hacc)

/-! ### completeness (the "only if" is not vacuous: bound keys do validate) -/

/-- A signature made with a key bound to the issuer by an RSA certificate is accepted (complete role
    order), whatever the option and the embedded `KeyInfo`. -/
theorem C03_bound_key_accepted (kindOf : κ → CertKind) (order : List RoleKind) (hord : ∀ k : RoleKind, k ∈ order)
    (onlyMd : Bool) (md : Metadata ι κ) (m : Msg ι κ) (k : κ) (hrsa : kindOf k = .rsa)
    (hs : m.signer = some k) (hb : k ∈ boundKeys md m.issuer) :
    (checkSignature true kindOf order onlyMd md m).verdict = .accepted := by
  obtain ⟨cs, hmc, hk⟩ := mdCerts_complete hord hb
  have hne : cs.isEmpty = false := by
    cases cs with
    | nil => cases hk
    | cons _ _ => rfl
  have hsel : selectCerts order onlyMd md m = cs := by
    simp [selectCerts, hmc, hne]
  have hv : (tryCerts true kindOf m cs).1 = true :=
    tryCerts_of_mem hk (verifies_restricted_rsa hrsa hs)
  simp [checkSignature, hsel, hne, hv]

/-! ### Non-vacuity: concrete instances (entity 1 publishes 10, 11 for signing and 12 for
    encryption; entity 2 publishes 20; entity 4 publishes 40 (EC key), 41 (malformed), 42 (RSA);
    key 99 is the attacker's, 50 the receiver's own). -/

private def ord := Gen.KeysDefaults.roleOrder

/-- entity 1 publishes signing certificate 10 and signing key descriptors without certificate
    (the input class of the repaired defect `C03/keyless-keydescriptor-fallback`) -/
private def mdKeyless : Metadata Nat Nat := fun i =>
  if i = 1 then some ⟨[⟨.idpsso, [⟨some .signing, []⟩, ⟨some .signing, [none]⟩, ⟨some .signing, [some 10]⟩]⟩]⟩ else none

-- accepted: first key, rotated second key
example : (checkSignature true kEx ord true mdEx ⟨some 1, some 10, ⟨[], none⟩⟩).verdict = .accepted := by decide
example : (checkSignature true kEx ord true mdEx ⟨some 1, some 11, ⟨[99], some 99⟩⟩).verdict = .accepted := by decide
example : (checkSignature true kEx ord true mdEx ⟨some 1, some 11, ⟨[], none⟩⟩).handed = [10, 11] := by decide
-- refused under the default policy: encryption-only key, other member's key, own key, attacker key
-- (with its certificate / bare RSAKeyValue / the victim's certificate embedded), unknown issuer
example : (checkSignature true kEx ord true mdEx ⟨some 1, some 12, ⟨[12], none⟩⟩).verdict = .badSignature := by decide
example : (checkSignature true kEx ord true mdEx ⟨some 1, some 20, ⟨[], none⟩⟩).verdict = .badSignature := by decide
example : (checkSignature true kEx ord true mdEx ⟨some 1, some 50, ⟨[], none⟩⟩).verdict = .badSignature := by decide
example : (checkSignature true kEx ord true mdEx ⟨some 1, some 99, ⟨[99], none⟩⟩).verdict = .badSignature := by decide
example : (checkSignature true kEx ord true mdEx ⟨some 1, some 99, ⟨[], some 99⟩⟩).verdict = .badSignature := by decide
example : (checkSignature true kEx ord true mdEx ⟨some 1, some 99, ⟨[10], none⟩⟩).verdict = .badSignature := by decide
example : (checkSignature true kEx ord true mdEx ⟨some 3, some 99, ⟨[99], none⟩⟩).verdict = .missingKey := by decide
-- option off: fallback only for an issuer without keys, and only to an embedded certificate
example : (checkSignature true kEx ord false mdEx ⟨some 3, some 99, ⟨[99], none⟩⟩).verdict = .accepted := by decide
example : (checkSignature true kEx ord false mdEx ⟨some 3, some 99, ⟨[], some 99⟩⟩).verdict = .missingKey := by decide
example : (checkSignature true kEx ord false mdEx ⟨some 1, some 99, ⟨[99], none⟩⟩).verdict = .badSignature := by decide
-- a key descriptor without certificate does not make the issuer look key-less (fix 57adca09)
example : (checkSignature true kEx ord false mdKeyless ⟨some 1, some 99, ⟨[99], none⟩⟩).verdict = .badSignature := by decide
example : (checkSignature true kEx ord true mdKeyless ⟨some 1, some 10, ⟨[], none⟩⟩).verdict = .accepted := by decide
example : boundKeys mdKeyless (some 1) = [10] := by decide
-- certificate kinds: EC and malformed certificates are tried and validate nothing, the RSA one after them does
example : (checkSignature true kEx ord true mdEx ⟨some 4, some 42, ⟨[], none⟩⟩).handed = [40, 41, 42] := by decide
example : (checkSignature true kEx ord true mdEx ⟨some 4, some 50, ⟨[], none⟩⟩).verdict = .badSignature := by decide
-- Redirect: bound key accepted, unknown issuer refused even with the option off; the receiver's own key
-- (50) validates nothing for an issuer with an EC certificate; a malformed certificate ends the check
example : (redirectCheck kEx 50 ord mdEx (some 2) (some 20)).verdict = .accepted := by decide
example : (redirectCheck kEx 50 ord mdEx (some 3) (some 99)).verdict = .lookupFailed := by decide
example : (redirectCheck kEx 50 ord mdEx (some 4) (some 50)).verdict = .verifyRaised := by decide
example : (redirectCheck kEx 50 ord mdEx (some 4) (some 42)).handed = [40, 41] := by decide
example : (accept true kEx 50 ord false false true mdEx (.detached true .ok) ⟨some 3, some 99, ⟨[99], none⟩⟩).accepted = false := by decide
example : (accept true kEx 50 ord true false true mdEx (.detached true .ok) ⟨some 1, some 11, ⟨[11], none⟩⟩).accepted = true := by decide
-- nested: advice assertion naming issuer 1 inside member 2's assertion: member 2's key (20) does not
-- validate it although 2 is the `issuer=` argument; issuer 1's key does
example : (accept true kEx 50 ord true false true mdEx (.after ⟨some 2, some 20, ⟨[], none⟩⟩ true) ⟨some 1, some 20, ⟨[], none⟩⟩).accepted = false := by decide
example : (accept true kEx 50 ord true false true mdEx (.after ⟨some 2, some 20, ⟨[], none⟩⟩ true) ⟨some 1, some 11, ⟨[], none⟩⟩).accepted = true := by decide
example : (accept true kEx 50 ord true false true mdEx (.after ⟨some 2, some 20, ⟨[], none⟩⟩ true) ⟨some 2, some 20, ⟨[], none⟩⟩).accepted = true := by decide

-- only_valid_cert on: any signature is let through for an issuer with a metadata certificate; off: refused;
-- signed requests not required: a detached signature is not looked at
example : (accept true kEx 50 ord true true true mdEx .enveloped ⟨some 1, some 99, ⟨[], none⟩⟩).accepted = true := by decide
example : (accept true kEx 50 ord true false true mdEx .enveloped ⟨some 1, some 99, ⟨[], none⟩⟩).accepted = false := by decide
example : (accept true kEx 50 ord true true true mdEx (.detached false .ok) ⟨some 1, some 99, ⟨[], none⟩⟩).accepted = false := by decide
example : (accept true kEx 50 ord true false false mdEx (.detached false .ok) ⟨some 1, some 99, ⟨[], none⟩⟩).accepted = true := by decide
example : normService .textFalse = false ∧ normService .textTrue = true ∧ normCommon true .textFalse = true := by decide

-- detached parameters: unimplemented SigAlg or a missing parameter: refused even for the issuer's own key
example : (accept true kEx 50 ord true false true mdEx (.detached false .unimplemented) ⟨some 1, some 10, ⟨[], none⟩⟩).accepted = false := by decide
example : (redirectCheckP kEx 50 ord mdEx (some 4) (some 42) .unimplemented).handed = [40, 41, 42] := by decide
example : (accept true kEx 50 ord true false true mdEx (.detached false .missing) ⟨some 1, some 10, ⟨[], none⟩⟩).accepted = false := by decide
example : (accept true kEx 50 ord true false true mdEx (.detached false .ok) ⟨some 1, some 10, ⟨[], none⟩⟩).accepted = true := by decide

end C03
