import PysamlModel.Props.PyTieC04
import PysamlModel.Props.PyTieC05

/-!
# C04 / C05: `Sp.conditionOk` IS `AuthnResponse.condition_ok` (refinement over the regenerated MiniPy term)

The method that decides the Conditions element of an assertion — inverted window, NotOnOrAfter and NotBefore against
the clock with the skew, the audience restrictions, the extension conditions — translated from its current text, with
the functions it calls (`for_me`, `validate_on_or_after`, `validate_before`) run from THEIR current texts.
-/

namespace PyTie
open MiniPy Gen.PyFuns

theorem vb_ext (now : Int) (tm : String → Int) (ii : Bool) (so : R Val) (skew : Nat) (x : String) (hx : x ≠ "") :
    pyExt now tm ii so "validate_before" [.str x, .int skew] =
      (if Sp.beforeOk now skew (tm x) then .ok (.bool true) else .raise "ToEarly") := by
  have h := validate_before_refines now tm skew (some x)
  simp only [hx, if_false] at h
  simp only [pyExt]
  rw [h]
  by_cases hb : Sp.beforeOk now skew (tm x) = true <;> simp [hb, asExt]

theorem forme_ext (now : Int) (tm : String → Int) (ii : Bool) (so : R Val) (me : String)
    (rs : List (List (Option String))) (fs : List (String × Val))
    (hfs : lookup fs "audience_restriction" = some (.list (rs.map encR))) :
    pyExt now tm ii so "for_me" [.obj fs, .str me] = .ok (.bool (Sp.forMe me (toModel rs))) := by
  simp only [pyExt]
  rw [for_me_refines_obj me rs fs hfs]
  rfl

/-- is the xsi:type of an extension condition one of the schema keys? -/
def extKnown' (schemas : List String) : Option String → Bool
  | some t => schemas.contains t
  | none => false

theorem any_key_eq (schemas : List String) (x : String) :
    (schemas.map (fun s => (s, Val.none))).any (fun p => p.1 == x) = schemas.contains x := by
  induction schemas with
  | nil => rfl
  | cons a as ih =>
    simp only [List.map_cons, List.any_cons, List.contains_cons, ih]
    congr 1
    exact Bool.beq_comm

def condLoopBody : List Stmt := [
  (.try [
    (.ifs (.cmp .isIn (.subscript (.attr (.name "cond") "extension_attributes") (.str "{http://www.w3.org/2001/XMLSchema-instance}type")) (.attr (.name "self") "extension_schema")) [
      .pass] [
      (.raise "Exception")])] [("KeyError", [
    (.raise "Exception")])])]

/-- one iteration of the loop over the extension conditions -/
theorem cond_step (n : Nat) (ext : Ext) (env : Env) (sf : List (String × Val)) (schemas : List String) (t : Option String)
    (hS : lookup env "self" = some (.obj sf))
    (hsch : lookup sf "extension_schema" = some (.obj (schemas.map (fun s => (s, Val.none))))) :
    (extKnown' schemas t = true →
      evalBlock Sp.pyStrip ext (n + 9) (setVar env "cond" (encCond t)) condLoopBody = .normal (setVar env "cond" (encCond t))) ∧
    (extKnown' schemas t = false →
      ∃ e, evalBlock Sp.pyStrip ext (n + 9) (setVar env "cond" (encCond t)) condLoopBody = .raise "Exception" e) := by
  have hS' : ∀ v, lookup (setVar env "cond" v) "self" = some (.obj sf) := by
    intro v; rw [lookup_setVar_ne _ _ _ _ (by decide)]; exact hS
  cases t with
  | none =>
    refine ⟨by simp [extKnown'], fun _ => ?_⟩
    refine ⟨setVar (setVar env "cond" (encCond none)) excVar (.str "KeyError"), ?_⟩
    simp [condLoopBody, evalBlock, evalStmt, evalExpr, lookup_setVar_same, encCond, lookup_cons_same, subscriptVals, excVar]
  | some x =>
    constructor
    · intro hk
      have hk' : schemas.contains x = true := hk
      have hm : x ∈ schemas := by simpa using hk'
      simp [hm, condLoopBody, evalBlock, evalStmt, evalExpr, lookup_setVar_same, encCond, lookup_cons_same, subscriptVals, xsiType,
        hS', hsch, cmpVals, any_key_eq, hk', truthy]
    · intro hk
      have hk' : schemas.contains x = false := hk
      have hm : x ∉ schemas := by simpa using hk'
      refine ⟨setVar env "cond" (encCond (some x)), ?_⟩
      simp [hm, condLoopBody, evalBlock, evalStmt, evalExpr, lookup_setVar_same, encCond, lookup_cons_same, subscriptVals, xsiType,
        hS', hsch, cmpVals, any_key_eq, hk', truthy]


def condB (n : Nat) (ext : Ext) : Env → Val → Flow := fun env v => evalBlock Sp.pyStrip ext (n + 9) (setVar env "cond" v) condLoopBody
def condE (n : Nat) (ext : Ext) : Env → Flow := fun env => evalBlock Sp.pyStrip ext (n + 9) env []

theorem cond_loop (n : Nat) (ext : Ext) (sf : List (String × Val)) (schemas : List String)
    (hsch : lookup sf "extension_schema" = some (.obj (schemas.map (fun s => (s, Val.none))))) :
    ∀ (extra : List (Option String)) (env : Env), lookup env "self" = some (.obj sf) →
      (extra.all (extKnown' schemas) = true →
        ∃ e, forLoop (condB n ext) (condE n ext) (extra.map encCond) env = .normal e ∧ lookup e "self" = some (.obj sf)) ∧
      (extra.all (extKnown' schemas) = false →
        ∃ e, forLoop (condB n ext) (condE n ext) (extra.map encCond) env = .raise "Exception" e) := by
  intro extra
  induction extra with
  | nil =>
    intro env hS
    refine ⟨fun _ => ⟨env, by simp [forLoop, condE, evalBlock], hS⟩, by simp⟩
  | cons t ts ih =>
    intro env hS
    have hstep := cond_step n ext env sf schemas t hS hsch
    have hS1 : lookup (setVar env "cond" (encCond t)) "self" = some (.obj sf) := by
      rw [lookup_setVar_ne _ _ _ _ (by decide)]; exact hS
    cases hk : extKnown' schemas t with
    | true =>
      have h1 := hstep.1 hk
      have hunf : forLoop (condB n ext) (condE n ext) ((t :: ts).map encCond) env =
          forLoop (condB n ext) (condE n ext) (ts.map encCond) (setVar env "cond" (encCond t)) := by
        simp only [List.map_cons, forLoop, condB]
        rw [h1]
      rw [hunf]
      simpa [List.all_cons, hk] using ih (setVar env "cond" (encCond t)) hS1
    | false =>
      obtain ⟨e, h1⟩ := hstep.2 hk
      refine ⟨by simp [List.all_cons, hk], fun _ => ⟨e, ?_⟩⟩
      simp only [List.map_cons, forLoop, condB]
      rw [h1]


theorem any_unknown_eq (cfg : Sp.Cfg) (extra : List (Option String)) :
    (extra.any fun t => !Sp.extKnown cfg t) = !(extra.all (extKnown' cfg.extSchemas)) := by
  induction extra with
  | nil => rfl
  | cons t ts ih =>
    have : Sp.extKnown cfg t = extKnown' cfg.extSchemas t := by cases t <;> rfl
    simp only [List.any_cons, List.all_cons, this, ih]
    cases extKnown' cfg.extSchemas t <;> simp

def cS4 : Stmt := (.ifs (.not (.callm (.name "conditions") "keyswv" [])) [(.ret (some (.bool true)))] [])
def cS5 : Stmt := (.ifs (.and (.attr (.name "conditions") "not_before") (.attr (.name "conditions") "not_on_or_after")) [
      (.ifs (.not (.call "later_than" [(.attr (.name "conditions") "not_on_or_after"), (.attr (.name "conditions") "not_before")])) [
        (.ret (some (.bool false)))] [])] [])
def cS6 : Stmt := (.try [
      (.ifs (.attr (.name "conditions") "not_on_or_after") [
        (.setattr "self" "not_on_or_after" (.call "validate_on_or_after" [(.attr (.name "conditions") "not_on_or_after"), (.attr (.name "self") "timeslack")]))] []),
      (.ifs (.attr (.name "conditions") "not_before") [
        (.expr (.call "validate_before" [(.attr (.name "conditions") "not_before"), (.attr (.name "self") "timeslack")]))] [])] [("Exception", [
      (.ifs (.not (.name "lax")) [
        .reraise] [
        (.setattr "self" "not_on_or_after" (.int (0)))])])])
def cS7 : Stmt := (.ifs (.not (.call "for_me" [(.name "conditions"), (.attr (.name "self") "entity_id")])) [
      (.ifs (.not (.name "lax")) [(.raise "Exception")] [])] [])
def cS8 : Stmt := (.ifs (.attr (.name "conditions") "condition") [
      (.for "cond" (.attr (.name "conditions") "condition") condLoopBody [])] [])
def cS9 : Stmt := (.ret (some (.bool true)))

theorem cond_shape : AuthnResponse_condition_ok.body.drop 3 = [cS4, cS5, cS6, cS7, cS8, cS9] := rfl

/-- what the method call is observed as: result and final `self` -/
def obsM (fl : Flow) : Result × Option Val :=
  match fl with
  | .normal e => (.value .none, lookup e "self")
  | .ret v e => (.value v, lookup e "self")
  | .raise c e => (.raised c, lookup e "self")
  | .brk _ => (.stuck "break outside a loop", none)
  | .cont _ => (.stuck "continue outside a loop", none)
  | .stuck w => (.stuck w, none)

/-- **`AuthnResponse.condition_ok` refines `Sp.conditionOk`** for a Conditions element that carries both NotBefore and
    NotOnOrAfter (any lexical values), any audience restrictions and any extension conditions, in strict mode: the
    CURRENT text of the method — with `for_me`, `validate_on_or_after` and `validate_before` RUN from their own current
    texts — returns `True` exactly when the model function accepts (and leaves `self.not_on_or_after` at the model's
    value), returns `False` exactly for an inverted window, and raises the class the model's error stands for otherwise. -/
theorem condition_ok_refines_both (cfg : Sp.Cfg) (env : Sp.Env) (st : Sp.St) (a : Sp.Assertion) (tm : String → Int)
    (x y : String) (hx : x ≠ "") (hy : y ≠ "") (auds : List (List (Option String))) (extra : List (Option String))
    (ha : a.conditions = some { nb := some (tm x), nooa := some (tm y), audiences := toModel auds, extra := extra }) :
    match Sp.conditionOk cfg env st a with
    | .ok st' =>
      (runMethod Sp.pyStrip (pyExt0 env.now tm) AuthnResponse_condition_ok
        [.obj (selfCondFields (condV (some x) (some y) auds extra) cfg.skew cfg.entityId cfg.extSchemas st.notOnOrAfter), .bool false]).1
          = .value (.bool true) ∧
      nooaOf (runMethod Sp.pyStrip (pyExt0 env.now tm) AuthnResponse_condition_ok
        [.obj (selfCondFields (condV (some x) (some y) auds extra) cfg.skew cfg.entityId cfg.extSchemas st.notOnOrAfter), .bool false]).2
          = some (.int st'.notOnOrAfter)
    | .error .conditionNotOk =>
      (runMethod Sp.pyStrip (pyExt0 env.now tm) AuthnResponse_condition_ok
        [.obj (selfCondFields (condV (some x) (some y) auds extra) cfg.skew cfg.entityId cfg.extSchemas st.notOnOrAfter), .bool false]).1
          = .value (.bool false)
    | .error e =>
      (runMethod Sp.pyStrip (pyExt0 env.now tm) AuthnResponse_condition_ok
        [.obj (selfCondFields (condV (some x) (some y) auds extra) cfg.skew cfg.entityId cfg.extSchemas st.notOnOrAfter), .bool false]).1
          = .raised (errClass e) := by
  have hx' : (x != "") = true := by simpa using hx
  have hy' : (y != "") = true := by simpa using hy
  let ext := pyExt0 env.now tm
  let cv := condV (some x) (some y) auds extra
  let sf0 := selfCondFields cv cfg.skew cfg.entityId cfg.extSchemas st.notOnOrAfter
  let env2 : Env := [("conditions", cv), ("lax", .bool false), ("self", .obj sf0)]
  have hrun : runMethod Sp.pyStrip ext AuthnResponse_condition_ok [.obj sf0, .bool false] =
      obsM (evalBlock Sp.pyStrip ext 61 env2 (AuthnResponse_condition_ok.body.drop 3)) := rfl
  show (match Sp.conditionOk cfg env st a with
    | .ok st' => (runMethod Sp.pyStrip ext AuthnResponse_condition_ok [.obj sf0, .bool false]).1 = .value (.bool true) ∧
        nooaOf (runMethod Sp.pyStrip ext AuthnResponse_condition_ok [.obj sf0, .bool false]).2 = some (.int st'.notOnOrAfter)
    | .error .conditionNotOk => (runMethod Sp.pyStrip ext AuthnResponse_condition_ok [.obj sf0, .bool false]).1 = .value (.bool false)
    | .error e => (runMethod Sp.pyStrip ext AuthnResponse_condition_ok [.obj sf0, .bool false]).1 = .raised (errClass e))
  rw [hrun, cond_shape]
  -- statement 4: `if not conditions.keyswv(): return True` -- NotBefore has a value, so the list is not empty
  have h4 : evalStmt Sp.pyStrip ext 60 env2 cS4 = .normal env2 := by
    have hk : evalExpr Sp.pyStrip ext 58 env2 (.callm (.name "conditions") "keyswv" []) = keyswv cv := rfl
    rw [cS4, evalStmt_ifs, evalExpr_not, hk]
    simp [keyswv, cv, condV, optStr, truthy, hx', evalBlock]
  rw [evalBlock_cons, h4]; simp only []
  -- the model side, decision by decision
  unfold Sp.conditionOk
  rw [ha]
  simp only [Option.isNone_some, Bool.false_and, Bool.false_eq_true, if_false, Option.isSome_some, Bool.true_and,
    Sp.laterThan, Sp.optExpired, Sp.optPremature, Option.getD_some]
  -- statement 5: both bounds present: `if not later_than(nooa, nb): return False`
  have h5c : evalExpr Sp.pyStrip ext 58 env2 (.and (.attr (.name "conditions") "not_before") (.attr (.name "conditions") "not_on_or_after")) =
      .ok (.str y) := by
    have e1 : evalExpr Sp.pyStrip ext 57 env2 (.attr (.name "conditions") "not_before") = .ok (.str x) := rfl
    have e2 : evalExpr Sp.pyStrip ext 57 env2 (.attr (.name "conditions") "not_on_or_after") = .ok (.str y) := rfl
    rw [evalExpr_and, e1]; simp only [truthy, hx', if_true]; exact e2
  have h5l : evalExpr Sp.pyStrip ext 55 env2 (.call "later_than" [(.attr (.name "conditions") "not_on_or_after"), (.attr (.name "conditions") "not_before")]) =
      .ok (.bool (decide (tm y ≥ tm x))) := rfl
  by_cases hlt : tm y ≥ tm x
  · have h5 : evalStmt Sp.pyStrip ext 59 env2 cS5 = .normal env2 := by
      rw [cS5, evalStmt_ifs, h5c]; simp only [truthy, hy', if_true]
      rw [evalBlock_cons, evalStmt_ifs, evalExpr_not, h5l]
      simp [hlt, truthy, evalBlock]
    rw [evalBlock_cons, h5]; simp only []
    simp only [hlt, decide_true, Bool.not_true, Bool.false_eq_true, if_false]
    -- statement 6: the two window checks inside try/except (strict mode: the exception is re-raised)
    have hvo := voa_ext env.now tm true (.ok (.bool true)) cfg.skew (some y)
    simp only [hy, if_false, optStr] at hvo
    have hvb := vb_ext env.now tm true (.ok (.bool true)) cfg.skew x hx
    have c1 : evalExpr Sp.pyStrip ext 53 env2 (.call "validate_on_or_after" [(.attr (.name "conditions") "not_on_or_after"), (.attr (.name "self") "timeslack")]) =
        pyExt env.now tm true (.ok (.bool true)) "validate_on_or_after" [.str y, .int cfg.skew] := rfl
    let sf1 := setField sf0 "not_on_or_after" (.int (tm y))
    let env3 : Env := setVar env2 "self" (.obj sf1)
    have c2 : evalExpr Sp.pyStrip ext 52 env3 (.call "validate_before" [(.attr (.name "conditions") "not_before"), (.attr (.name "self") "timeslack")]) =
        pyExt env.now tm true (.ok (.bool true)) "validate_before" [.str x, .int cfg.skew] := rfl
    have t1 : evalExpr Sp.pyStrip ext 55 env2 (.attr (.name "conditions") "not_on_or_after") = .ok (.str y) := rfl
    have t2 : evalExpr Sp.pyStrip ext 54 env3 (.attr (.name "conditions") "not_before") = .ok (.str x) := rfl
    by_cases ho : Sp.onOrAfterOk env.now cfg.skew (tm y) = true
    · simp only [ho, if_true] at hvo
      have hs1 : evalStmt Sp.pyStrip ext 56 env2 ((.ifs (.attr (.name "conditions") "not_on_or_after") [
          (.setattr "self" "not_on_or_after" (.call "validate_on_or_after" [(.attr (.name "conditions") "not_on_or_after"), (.attr (.name "self") "timeslack")]))] [])) =
          .normal env3 := by
        rw [evalStmt_ifs, t1]; simp only [truthy, hy', if_true]
        rw [evalBlock_cons, evalStmt_setattr, c1, hvo]
        rfl
      by_cases hb : Sp.beforeOk env.now cfg.skew (tm x) = true
      · simp only [hb, if_true] at hvb
        have h6 : evalStmt Sp.pyStrip ext 58 env2 cS6 = .normal env3 := by
          rw [cS6, evalStmt_try, evalBlock_cons, hs1]; simp only []
          rw [evalBlock_cons, evalStmt_ifs, t2]; simp only [truthy, hx', if_true]
          rw [evalBlock_cons, evalStmt_expr, c2, hvb]
          rfl
        rw [evalBlock_cons, h6]; simp only []
        simp only [ho, hb, Bool.not_true, Bool.false_eq_true, if_false]
        -- statement 7: the audience test, `for_me` run from its own text
        have hfs : lookup [("not_before", optStr (some x)), ("not_on_or_after", optStr (some y)),
            ("audience_restriction", Val.list (auds.map encR)), ("condition", Val.list (extra.map encCond))] "audience_restriction" =
            some (.list (auds.map encR)) := by simp [lookup]
        have hfm : pyExt env.now tm true (.ok (.bool true)) "for_me" [cv, .str cfg.entityId] =
            .ok (.bool (Sp.forMe cfg.entityId (toModel auds))) :=
          forme_ext env.now tm true (.ok (.bool true)) cfg.entityId auds _ hfs
        have c7 : evalExpr Sp.pyStrip ext 55 env3 (.call "for_me" [(.name "conditions"), (.attr (.name "self") "entity_id")]) =
            pyExt env.now tm true (.ok (.bool true)) "for_me" [cv, .str cfg.entityId] := rfl
        have hS3 : lookup env3 "self" = some (.obj sf1) := lookup_setVar_same _ _ _
        have hsch : lookup sf1 "extension_schema" = some (.obj (cfg.extSchemas.map (fun s => (s, Val.none)))) := rfl
        have hno : lookup sf1 "not_on_or_after" = some (.int (tm y)) := rfl
        cases hf : Sp.forMe cfg.entityId (toModel auds) with
        | false =>
          have h7 : evalStmt Sp.pyStrip ext 57 env3 cS7 = .raise "Exception" env3 := by
            rw [cS7, evalStmt_ifs, evalExpr_not, c7]
            show (match (match pyExt env.now tm true (.ok (.bool true)) "for_me" [cv, .str cfg.entityId] with
                    | .ok v => R.ok (Val.bool (!truthy v)) | .raise c => .raise c | .stuck w => .stuck w) with
                  | .ok v => if truthy v then evalBlock Sp.pyStrip ext 56 env3 [(.ifs (.not (.name "lax")) [(.raise "Exception")] [])] else evalBlock Sp.pyStrip ext 56 env3 []
                  | .raise c' => Flow.raise c' env3 | .stuck w => .stuck w) = _
            rw [hfm, hf]
            rfl
          rw [evalBlock_cons, h7]
          simp [obsM, errClass]
        | true =>
          have h7 : evalStmt Sp.pyStrip ext 57 env3 cS7 = .normal env3 := by
            rw [cS7, evalStmt_ifs, evalExpr_not, c7]
            show (match (match pyExt env.now tm true (.ok (.bool true)) "for_me" [cv, .str cfg.entityId] with
                    | .ok v => R.ok (Val.bool (!truthy v)) | .raise c => .raise c | .stuck w => .stuck w) with
                  | .ok v => if truthy v then evalBlock Sp.pyStrip ext 56 env3 [(.ifs (.not (.name "lax")) [(.raise "Exception")] [])] else evalBlock Sp.pyStrip ext 56 env3 []
                  | .raise c' => Flow.raise c' env3 | .stuck w => .stuck w) = _
            rw [hfm, hf]
            rfl
          rw [evalBlock_cons, h7]; simp only []
          simp only [Bool.not_true, Bool.false_eq_true, if_false]
          -- statement 8: the extension conditions
          have hloop := cond_loop 44 ext sf1 cfg.extSchemas hsch extra env3 hS3
          have hany := any_unknown_eq cfg extra
          rw [hany]
          have h8 : evalStmt Sp.pyStrip ext 56 env3 cS8 =
              (if extra.isEmpty then Flow.normal env3
               else forLoop (condB 44 ext) (condE 44 ext) (extra.map encCond) env3) := by
            cases extra with
            | nil => rfl
            | cons t ts =>
              have : evalStmt Sp.pyStrip ext 56 env3 cS8 =
                  (match forLoop (condB 44 ext) (condE 44 ext) ((t :: ts).map encCond) env3 with
                   | .normal e => Flow.normal e
                   | other => other) := rfl
              rw [this]
              simp only [List.isEmpty_cons, Bool.false_eq_true, if_false]
              generalize forLoop (condB 44 ext) (condE 44 ext) ((t :: ts).map encCond) env3 = F
              cases F <;> rfl
          rw [evalBlock_cons, h8]
          cases hall : extra.all (extKnown' cfg.extSchemas) with
          | true =>
            obtain ⟨e, hl, hSe⟩ := hloop.1 hall
            simp only [Bool.not_true, Bool.false_eq_true, if_false]
            by_cases hemp : extra.isEmpty = true
            · simp only [hemp, if_true]
              refine ⟨rfl, ?_⟩
              show nooaOf (lookup env3 "self") = _
              rw [hS3]; exact hno
            · simp only [hemp, if_false, hl]
              refine ⟨rfl, ?_⟩
              show nooaOf (lookup e "self") = _
              rw [hSe]; exact hno
          | false =>
            obtain ⟨e, hl⟩ := hloop.2 hall
            have hemp : extra.isEmpty = false := by
              cases extra with
              | nil => simp at hall
              | cons _ _ => rfl
            simp only [Bool.not_false, if_true, hemp, Bool.false_eq_true, if_false, hl]
            simp [obsM, errClass]
      · have hb' : Sp.beforeOk env.now cfg.skew (tm x) = false := by simpa using hb
        simp only [hb', Bool.false_eq_true, if_false] at hvb
        have h6 : ∃ e, evalStmt Sp.pyStrip ext 58 env2 cS6 = .raise "ToEarly" e := by
          refine ⟨setVar env3 excVar (.str "ToEarly"), ?_⟩
          rw [cS6, evalStmt_try, evalBlock_cons, hs1]; simp only []
          rw [evalBlock_cons, evalStmt_ifs, t2]; simp only [truthy, hx', if_true]
          rw [evalBlock_cons, evalStmt_expr, c2, hvb]
          rfl
        obtain ⟨e, h6⟩ := h6
        rw [evalBlock_cons, h6]
        simp [ho, hb', obsM, errClass]
    · have ho' : Sp.onOrAfterOk env.now cfg.skew (tm y) = false := by simpa using ho
      simp only [ho', Bool.false_eq_true, if_false] at hvo
      have h6 : ∃ e, evalStmt Sp.pyStrip ext 58 env2 cS6 = .raise "ResponseLifetimeExceed" e := by
        refine ⟨setVar env2 excVar (.str "ResponseLifetimeExceed"), ?_⟩
        rw [cS6, evalStmt_try, evalBlock_cons, evalStmt_ifs, t1]; simp only [truthy, hy', if_true]
        rw [evalBlock_cons, evalStmt_setattr, c1, hvo]
        rfl
      obtain ⟨e, h6⟩ := h6
      rw [evalBlock_cons, h6]
      simp [ho', obsM, errClass]
  · have h5 : evalStmt Sp.pyStrip ext 59 env2 cS5 = .ret (.bool false) env2 := by
      rw [cS5, evalStmt_ifs, h5c]; simp only [truthy, hy', if_true]
      rw [evalBlock_cons, evalStmt_ifs, evalExpr_not, h5l]
      simp [hlt, truthy, evalBlock, evalStmt, evalExpr]
    rw [evalBlock_cons, h5]
    simp [hlt, obsM]

/-- **`condition_ok` with no Conditions element**: accepted, `self.not_on_or_after` untouched — as the model says. -/
theorem condition_ok_refines_absent (cfg : Sp.Cfg) (env : Sp.Env) (st : Sp.St) (a : Sp.Assertion) (tm : String → Int)
    (ha : a.conditions = none) :
    Sp.conditionOk cfg env st a = .ok st ∧
    runMethod Sp.pyStrip (pyExt0 env.now tm) AuthnResponse_condition_ok
      [.obj (selfCondFields .none cfg.skew cfg.entityId cfg.extSchemas st.notOnOrAfter), .bool false] =
      (.value (.bool true), some (.obj (selfCondFields .none cfg.skew cfg.entityId cfg.extSchemas st.notOnOrAfter))) := by
  refine ⟨by unfold Sp.conditionOk; rw [ha], rfl⟩

/-- The full statement (every combination of present / empty / absent NotBefore and NotOnOrAfter); proved below as
    `condition_ok_refines` from the four cases "both present", "only NotBefore", "only NotOnOrAfter", "neither". -/
def condition_ok_refines_full : Prop :=
  ∀ (cfg : Sp.Cfg) (env : Sp.Env) (st : Sp.St) (a : Sp.Assertion) (tm : String → Int) (nb nooa : Option String)
    (auds : List (List (Option String))) (extra : List (Option String)),
    a.conditions = some { nb := lexTime tm nb, nooa := lexTime tm nooa, audiences := toModel auds, extra := extra } →
    match Sp.conditionOk cfg env st a with
    | .ok st' =>
      (runMethod Sp.pyStrip (pyExt0 env.now tm) AuthnResponse_condition_ok
        [.obj (selfCondFields (condV nb nooa auds extra) cfg.skew cfg.entityId cfg.extSchemas st.notOnOrAfter), .bool false]).1
          = .value (.bool true) ∧
      nooaOf (runMethod Sp.pyStrip (pyExt0 env.now tm) AuthnResponse_condition_ok
        [.obj (selfCondFields (condV nb nooa auds extra) cfg.skew cfg.entityId cfg.extSchemas st.notOnOrAfter), .bool false]).2
          = some (.int st'.notOnOrAfter)
    | .error .conditionNotOk =>
      (runMethod Sp.pyStrip (pyExt0 env.now tm) AuthnResponse_condition_ok
        [.obj (selfCondFields (condV nb nooa auds extra) cfg.skew cfg.entityId cfg.extSchemas st.notOnOrAfter), .bool false]).1
          = .value (.bool false)
    | .error e =>
      (runMethod Sp.pyStrip (pyExt0 env.now tm) AuthnResponse_condition_ok
        [.obj (selfCondFields (condV nb nooa auds extra) cfg.skew cfg.entityId cfg.extSchemas st.notOnOrAfter), .bool false]).1
          = .raised (errClass e)

/-- statements 7-9 of `condition_ok` (audience test, extension conditions, `return True`) from any environment that
    binds `conditions`, `lax = False` and `self` with the fields they read -/
theorem cond_tail (now : Int) (tm : String → Int) (envT : Env) (cvf sfT : List (String × Val)) (me : String)
    (schemas : List String) (auds : List (List (Option String))) (extra : List (Option String))
    (hC : lookup envT "conditions" = some (.obj cvf))
    (hAud : lookup cvf "audience_restriction" = some (.list (auds.map encR)))
    (hCond : lookup cvf "condition" = some (.list (extra.map encCond)))
    (hL : lookup envT "lax" = some (.bool false))
    (hS : lookup envT "self" = some (.obj sfT))
    (hMe : lookup sfT "entity_id" = some (.str me))
    (hSch : lookup sfT "extension_schema" = some (.obj (schemas.map (fun s => (s, Val.none))))) :
    (obsM (evalBlock Sp.pyStrip (pyExt0 now tm) 58 envT [cS7, cS8, cS9])).1 =
      (if Sp.forMe me (toModel auds) && extra.all (extKnown' schemas) then .value (.bool true) else .raised "Exception") ∧
    (Sp.forMe me (toModel auds) = true → extra.all (extKnown' schemas) = true →
      (obsM (evalBlock Sp.pyStrip (pyExt0 now tm) 58 envT [cS7, cS8, cS9])).2 = some (.obj sfT)) := by
  let ext := pyExt0 now tm
  have hfm : pyExt now tm true (.ok (.bool true)) "for_me" [.obj cvf, .str me] = .ok (.bool (Sp.forMe me (toModel auds))) :=
    forme_ext now tm true (.ok (.bool true)) me auds cvf hAud
  have c7 : evalExpr Sp.pyStrip ext 55 envT (.call "for_me" [(.name "conditions"), (.attr (.name "self") "entity_id")]) =
      pyExt now tm true (.ok (.bool true)) "for_me" [.obj cvf, .str me] := by
    simp [evalExpr, evalArgs, hC, hS, hMe, builtin, ext, pyExt0]
  have hlax : evalExpr Sp.pyStrip ext 54 envT (.not (.name "lax")) = .ok (.bool true) := by
    simp [evalExpr, hL, truthy]
  show (obsM (evalBlock Sp.pyStrip ext 58 envT [cS7, cS8, cS9])).1 = _ ∧ (_ → _ → (obsM (evalBlock Sp.pyStrip ext 58 envT [cS7, cS8, cS9])).2 = _)
  cases hf : Sp.forMe me (toModel auds) with
  | false =>
    have h7 : evalStmt Sp.pyStrip ext 57 envT cS7 = .raise "Exception" envT := by
      rw [cS7, evalStmt_ifs, evalExpr_not, c7, hfm, hf]
      simp only [truthy, Bool.not_false, if_true]
      rw [evalBlock_cons, evalStmt_ifs, hlax]
      simp [truthy, evalBlock, evalStmt]
    rw [evalBlock_cons, h7]
    simp [obsM]
  | true =>
    have h7 : evalStmt Sp.pyStrip ext 57 envT cS7 = .normal envT := by
      rw [cS7, evalStmt_ifs, evalExpr_not, c7, hfm, hf]
      simp [truthy, evalBlock]
    rw [evalBlock_cons, h7]; simp only []
    have hloop := cond_loop 44 ext sfT schemas hSch extra envT hS
    have h8 : evalStmt Sp.pyStrip ext 56 envT cS8 =
        (if extra.isEmpty then Flow.normal envT
         else forLoop (condB 44 ext) (condE 44 ext) (extra.map encCond) envT) := by
      have hcc : evalExpr Sp.pyStrip ext 55 envT (.attr (.name "conditions") "condition") = .ok (.list (extra.map encCond)) := by
        simp [evalExpr, hC, hCond]
      rw [cS8, evalStmt_ifs, hcc]
      cases extra with
      | nil => simp [truthy, evalBlock]
      | cons t ts =>
        simp only [truthy, List.map_cons, List.isEmpty_cons, Bool.not_false, if_true, Bool.false_eq_true, if_false]
        have hcc' : evalExpr Sp.pyStrip ext 53 envT (.attr (.name "conditions") "condition") = .ok (.list ((t :: ts).map encCond)) := by
          simp [evalExpr, hC, hCond]
        have : evalBlock Sp.pyStrip ext 55 envT [(.for "cond" (.attr (.name "conditions") "condition") condLoopBody [])] =
            (match (match evalExpr Sp.pyStrip ext 53 envT (.attr (.name "conditions") "condition") with
                    | .ok (.list vs) => forLoop (condB 44 ext) (condE 44 ext) vs envT
                    | .ok .none => .raise "TypeError" envT
                    | .ok _ => .stuck "iteration over a non-list"
                    | .raise c => .raise c envT
                    | .stuck w => .stuck w) with
             | .normal e => Flow.normal e
             | other => other) := rfl
        rw [this, hcc']
        simp only [List.map_cons]
        generalize forLoop (condB 44 ext) (condE 44 ext) (encCond t :: ts.map encCond) envT = F
        cases F <;> rfl
    rw [evalBlock_cons, h8]
    cases hall : extra.all (extKnown' schemas) with
    | true =>
      obtain ⟨e, hl, hSe⟩ := hloop.1 hall
      by_cases hemp : extra.isEmpty = true
      · simp only [hemp, if_true]
        refine ⟨rfl, fun _ _ => ?_⟩
        show (obsM (Flow.ret (.bool true) envT)).2 = _
        simp [obsM, hS]
      · simp only [hemp, if_false, hl]
        refine ⟨rfl, fun _ _ => ?_⟩
        show (obsM (Flow.ret (.bool true) e)).2 = _
        simp [obsM, hSe]
    | false =>
      obtain ⟨e, hl⟩ := hloop.2 hall
      have hemp : extra.isEmpty = false := by
        cases extra with
        | nil => simp at hall
        | cons _ _ => rfl
      simp only [hemp, Bool.false_eq_true, if_false, hl]
      simp [obsM]


/-- the conclusion of the refinement statement, for given lexical bounds -/
def CondGoal (cfg : Sp.Cfg) (env : Sp.Env) (st : Sp.St) (a : Sp.Assertion) (tm : String → Int) (nb nooa : Option String)
    (auds : List (List (Option String))) (extra : List (Option String)) : Prop :=
  match Sp.conditionOk cfg env st a with
  | .ok st' =>
    (runMethod Sp.pyStrip (pyExt0 env.now tm) AuthnResponse_condition_ok
      [.obj (selfCondFields (condV nb nooa auds extra) cfg.skew cfg.entityId cfg.extSchemas st.notOnOrAfter), .bool false]).1
        = .value (.bool true) ∧
    nooaOf (runMethod Sp.pyStrip (pyExt0 env.now tm) AuthnResponse_condition_ok
      [.obj (selfCondFields (condV nb nooa auds extra) cfg.skew cfg.entityId cfg.extSchemas st.notOnOrAfter), .bool false]).2
        = some (.int st'.notOnOrAfter)
  | .error .conditionNotOk =>
    (runMethod Sp.pyStrip (pyExt0 env.now tm) AuthnResponse_condition_ok
      [.obj (selfCondFields (condV nb nooa auds extra) cfg.skew cfg.entityId cfg.extSchemas st.notOnOrAfter), .bool false]).1
        = .value (.bool false)
  | .error e =>
    (runMethod Sp.pyStrip (pyExt0 env.now tm) AuthnResponse_condition_ok
      [.obj (selfCondFields (condV nb nooa auds extra) cfg.skew cfg.entityId cfg.extSchemas st.notOnOrAfter), .bool false]).1
        = .raised (errClass e)

/-- neither bound has a value (absent or empty attribute) -/
theorem cond_neither (cfg : Sp.Cfg) (env : Sp.Env) (st : Sp.St) (a : Sp.Assertion) (tm : String → Int)
    (nb nooa : Option String) (hnb : nb = none ∨ nb = some "") (hnooa : nooa = none ∨ nooa = some "")
    (auds : List (List (Option String))) (extra : List (Option String))
    (ha : a.conditions = some { nb := none, nooa := none, audiences := toModel auds, extra := extra }) :
    CondGoal cfg env st a tm nb nooa auds extra := by
  unfold CondGoal Sp.conditionOk
  rw [ha]
  simp only [Option.isNone_none, Bool.true_and, Option.isSome_none, Bool.false_and, Bool.false_eq_true, if_false,
    Sp.optExpired, Sp.optPremature, Option.getD_none]
  rw [any_unknown_eq]
  by_cases hemp : (toModel auds).isEmpty && extra.isEmpty
  · -- nothing in the element: accepted at `if not conditions.keyswv()`
    have ha' : auds = [] := by
      cases auds with
      | nil => rfl
      | cons _ _ => simp [toModel] at hemp
    have he' : extra = [] := by
      cases extra with
      | nil => rfl
      | cons _ _ => simp at hemp
    subst ha' he'
    simp only [hemp, if_true]
    rcases hnb with rfl | rfl <;> rcases hnooa with rfl | rfl <;> exact ⟨rfl, rfl⟩
  · simp only [hemp, Bool.false_eq_true, if_false]
    -- statements 4-6 change nothing: the tail runs in the initial environment
    let sf0 := selfCondFields (condV nb nooa auds extra) cfg.skew cfg.entityId cfg.extSchemas st.notOnOrAfter
    let env2 : Env := [("conditions", condV nb nooa auds extra), ("lax", .bool false), ("self", .obj sf0)]
    have hhead : runMethod Sp.pyStrip (pyExt0 env.now tm) AuthnResponse_condition_ok [.obj sf0, .bool false] =
        obsM (evalBlock Sp.pyStrip (pyExt0 env.now tm) 58 env2 [cS7, cS8, cS9]) := by
      rcases hnb with rfl | rfl <;> rcases hnooa with rfl | rfl <;>
        (cases auds with
         | cons _ _ => rfl
         | nil => cases extra with
           | cons _ _ => rfl
           | nil => exact absurd rfl hemp)
    have ht := cond_tail env.now tm env2 _ sf0 cfg.entityId cfg.extSchemas auds extra rfl rfl rfl rfl rfl rfl rfl
    show (match (if (!Sp.forMe cfg.entityId (toModel auds)) = true then Except.error Sp.Err.audience
            else if (!extra.all (extKnown' cfg.extSchemas)) = true then Except.error Sp.Err.unknownCondition else Except.ok st : Except Sp.Err Sp.St) with
      | .ok st' => (runMethod Sp.pyStrip (pyExt0 env.now tm) AuthnResponse_condition_ok [.obj sf0, .bool false]).1 = .value (.bool true) ∧
          nooaOf (runMethod Sp.pyStrip (pyExt0 env.now tm) AuthnResponse_condition_ok [.obj sf0, .bool false]).2 = some (.int st'.notOnOrAfter)
      | .error .conditionNotOk => (runMethod Sp.pyStrip (pyExt0 env.now tm) AuthnResponse_condition_ok [.obj sf0, .bool false]).1 = .value (.bool false)
      | .error e => (runMethod Sp.pyStrip (pyExt0 env.now tm) AuthnResponse_condition_ok [.obj sf0, .bool false]).1 = .raised (errClass e))
    rw [hhead]
    cases hf : Sp.forMe cfg.entityId (toModel auds) <;> cases hall : extra.all (extKnown' cfg.extSchemas) <;>
      simp only [hf, hall, Bool.and_true, Bool.and_false, Bool.false_and, Bool.true_and, Bool.false_eq_true, if_false, if_true,
        Bool.not_true, Bool.not_false] at ht ⊢
    · exact ht.1
    · exact ht.1
    · exact ht.1
    · refine ⟨ht.1, ?_⟩
      rw [ht.2 trivial trivial]
      rfl

/-- only NotBefore has a value -/
theorem cond_nb_only (cfg : Sp.Cfg) (env : Sp.Env) (st : Sp.St) (a : Sp.Assertion) (tm : String → Int)
    (x : String) (hx : x ≠ "") (nooa : Option String) (hnooa : nooa = none ∨ nooa = some "")
    (auds : List (List (Option String))) (extra : List (Option String))
    (ha : a.conditions = some { nb := some (tm x), nooa := none, audiences := toModel auds, extra := extra }) :
    CondGoal cfg env st a tm (some x) nooa auds extra := by
  have hx' : (x != "") = true := by simpa using hx
  unfold CondGoal Sp.conditionOk
  rw [ha]
  simp only [Option.isNone_some, Bool.false_and, Bool.false_eq_true, if_false, Option.isSome_some, Option.isSome_none,
    Bool.and_false, Bool.true_and, Sp.optExpired, Sp.optPremature, Option.getD_none]
  rw [any_unknown_eq]
  have hvb := vb_ext env.now tm true (.ok (.bool true)) cfg.skew x hx
  have htr : truthy (optStr nooa) = false := by rcases hnooa with rfl | rfl <;> rfl
  have hts : truthy (.str x) = true := by simp [truthy, hx']
  exact (by
    let ext := pyExt0 env.now tm
    let cv := condV (some x) nooa auds extra
    let sf0 := selfCondFields cv cfg.skew cfg.entityId cfg.extSchemas st.notOnOrAfter
    let env2 : Env := [("conditions", cv), ("lax", .bool false), ("self", .obj sf0)]
    have hrun : runMethod Sp.pyStrip ext AuthnResponse_condition_ok [.obj sf0, .bool false] =
        obsM (evalBlock Sp.pyStrip ext 61 env2 (AuthnResponse_condition_ok.body.drop 3)) := rfl
    have h4 : evalStmt Sp.pyStrip ext 60 env2 cS4 = .normal env2 := by
      have hk : evalExpr Sp.pyStrip ext 58 env2 (.callm (.name "conditions") "keyswv" []) = keyswv cv := rfl
      rw [cS4, evalStmt_ifs, evalExpr_not, hk]
      simp [keyswv, cv, condV, optStr, truthy, hx', evalBlock]
    have h5 : evalStmt Sp.pyStrip ext 59 env2 cS5 = .normal env2 := by
      have e1 : evalExpr Sp.pyStrip ext 57 env2 (.attr (.name "conditions") "not_before") = .ok (.str x) := rfl
      have e2 : evalExpr Sp.pyStrip ext 57 env2 (.attr (.name "conditions") "not_on_or_after") = .ok (optStr nooa) := rfl
      rw [cS5, evalStmt_ifs, evalExpr_and, e1]; simp only [hts, if_true]
      rw [e2]; simp only [htr, Bool.false_eq_true, if_false]
      rfl
    have c2 : evalExpr Sp.pyStrip ext 52 env2 (.call "validate_before" [(.attr (.name "conditions") "not_before"), (.attr (.name "self") "timeslack")]) =
        pyExt env.now tm true (.ok (.bool true)) "validate_before" [.str x, .int cfg.skew] := rfl
    have t2 : evalExpr Sp.pyStrip ext 54 env2 (.attr (.name "conditions") "not_before") = .ok (.str x) := rfl
    have hs1 : evalStmt Sp.pyStrip ext 56 env2 ((.ifs (.attr (.name "conditions") "not_on_or_after") [
        (.setattr "self" "not_on_or_after" (.call "validate_on_or_after" [(.attr (.name "conditions") "not_on_or_after"), (.attr (.name "self") "timeslack")]))] [])) =
        .normal env2 := by
      have t1 : evalExpr Sp.pyStrip ext 55 env2 (.attr (.name "conditions") "not_on_or_after") = .ok (optStr nooa) := rfl
      rw [evalStmt_ifs, t1]; simp only [htr, Bool.false_eq_true, if_false]
      rfl
    have ht := cond_tail env.now tm env2 _ sf0 cfg.entityId cfg.extSchemas auds extra rfl rfl rfl rfl rfl rfl rfl
    show (match (if (!Sp.beforeOk env.now cfg.skew (tm x)) = true then Except.error Sp.Err.premature
            else if (!Sp.forMe cfg.entityId (toModel auds)) = true then Except.error Sp.Err.audience
            else if (!extra.all (extKnown' cfg.extSchemas)) = true then Except.error Sp.Err.unknownCondition else Except.ok st : Except Sp.Err Sp.St) with
      | .ok st' => (runMethod Sp.pyStrip ext AuthnResponse_condition_ok [.obj sf0, .bool false]).1 = .value (.bool true) ∧
          nooaOf (runMethod Sp.pyStrip ext AuthnResponse_condition_ok [.obj sf0, .bool false]).2 = some (.int st'.notOnOrAfter)
      | .error .conditionNotOk => (runMethod Sp.pyStrip ext AuthnResponse_condition_ok [.obj sf0, .bool false]).1 = .value (.bool false)
      | .error e => (runMethod Sp.pyStrip ext AuthnResponse_condition_ok [.obj sf0, .bool false]).1 = .raised (errClass e))
    rw [hrun, cond_shape, evalBlock_cons, h4]; simp only []
    rw [evalBlock_cons, h5]; simp only []
    by_cases hb : Sp.beforeOk env.now cfg.skew (tm x) = true
    · simp only [hb, if_true] at hvb
      have h6 : evalStmt Sp.pyStrip ext 58 env2 cS6 = .normal env2 := by
        rw [cS6, evalStmt_try, evalBlock_cons, hs1]; simp only []
        rw [evalBlock_cons, evalStmt_ifs, t2]; simp only [hts, if_true]
        rw [evalBlock_cons, evalStmt_expr, c2, hvb]
        rfl
      rw [evalBlock_cons, h6]; simp only []
      simp only [hb, Bool.not_true, Bool.false_eq_true, if_false]
      cases hf : Sp.forMe cfg.entityId (toModel auds) <;> cases hall : extra.all (extKnown' cfg.extSchemas) <;>
        simp only [hf, hall, Bool.and_true, Bool.and_false, Bool.false_and, Bool.true_and, Bool.false_eq_true, if_false, if_true,
          Bool.not_true, Bool.not_false] at ht ⊢
      · exact ht.1
      · exact ht.1
      · exact ht.1
      · refine ⟨ht.1, ?_⟩
        rw [ht.2 trivial trivial]
        rfl
    · have hb' : Sp.beforeOk env.now cfg.skew (tm x) = false := by simpa using hb
      simp only [hb', Bool.false_eq_true, if_false] at hvb
      have h6 : ∃ e, evalStmt Sp.pyStrip ext 58 env2 cS6 = .raise "ToEarly" e := by
        refine ⟨setVar env2 excVar (.str "ToEarly"), ?_⟩
        rw [cS6, evalStmt_try, evalBlock_cons, hs1]; simp only []
        rw [evalBlock_cons, evalStmt_ifs, t2]; simp only [hts, if_true]
        rw [evalBlock_cons, evalStmt_expr, c2, hvb]
        rfl
      obtain ⟨e, h6⟩ := h6
      rw [evalBlock_cons, h6]
      simp [hb', obsM, errClass])

/-- only NotOnOrAfter has a value -/
theorem cond_nooa_only (cfg : Sp.Cfg) (env : Sp.Env) (st : Sp.St) (a : Sp.Assertion) (tm : String → Int)
    (y : String) (hy : y ≠ "") (nb : Option String) (hnb : nb = none ∨ nb = some "")
    (auds : List (List (Option String))) (extra : List (Option String))
    (ha : a.conditions = some { nb := none, nooa := some (tm y), audiences := toModel auds, extra := extra }) :
    CondGoal cfg env st a tm nb (some y) auds extra := by
  have hy' : (y != "") = true := by simpa using hy
  unfold CondGoal Sp.conditionOk
  rw [ha]
  simp only [Option.isNone_some, Option.isNone_none, Bool.true_and, Bool.false_and, Bool.false_eq_true, if_false, Option.isSome_some,
    Option.isSome_none, Bool.and_false, Sp.optExpired, Sp.optPremature, Option.getD_some]
  rw [any_unknown_eq]
  have hvo := voa_ext env.now tm true (.ok (.bool true)) cfg.skew (some y)
  simp only [hy, if_false, optStr] at hvo
  have htr : truthy (optStr nb) = false := by rcases hnb with rfl | rfl <;> rfl
  have hts : truthy (.str y) = true := by simp [truthy, hy']
  exact (by
    let ext := pyExt0 env.now tm
    let cv := condV nb (some y) auds extra
    let sf0 := selfCondFields cv cfg.skew cfg.entityId cfg.extSchemas st.notOnOrAfter
    let env2 : Env := [("conditions", cv), ("lax", .bool false), ("self", .obj sf0)]
    let sf1 := setField sf0 "not_on_or_after" (.int (tm y))
    let env3 : Env := setVar env2 "self" (.obj sf1)
    have hrun : runMethod Sp.pyStrip ext AuthnResponse_condition_ok [.obj sf0, .bool false] =
        obsM (evalBlock Sp.pyStrip ext 61 env2 (AuthnResponse_condition_ok.body.drop 3)) := rfl
    have h4 : evalStmt Sp.pyStrip ext 60 env2 cS4 = .normal env2 := by
      have hk : evalExpr Sp.pyStrip ext 58 env2 (.callm (.name "conditions") "keyswv" []) = keyswv cv := rfl
      rw [cS4, evalStmt_ifs, evalExpr_not, hk]
      rcases hnb with rfl | rfl <;> simp [keyswv, cv, condV, optStr, truthy, hy', evalBlock]
    have h5 : evalStmt Sp.pyStrip ext 59 env2 cS5 = .normal env2 := by
      have e1 : evalExpr Sp.pyStrip ext 57 env2 (.attr (.name "conditions") "not_before") = .ok (optStr nb) := rfl
      rw [cS5, evalStmt_ifs, evalExpr_and, e1]; simp only [htr, Bool.false_eq_true, if_false]
      rfl
    have c1 : evalExpr Sp.pyStrip ext 53 env2 (.call "validate_on_or_after" [(.attr (.name "conditions") "not_on_or_after"), (.attr (.name "self") "timeslack")]) =
        pyExt env.now tm true (.ok (.bool true)) "validate_on_or_after" [.str y, .int cfg.skew] := rfl
    have t1 : evalExpr Sp.pyStrip ext 55 env2 (.attr (.name "conditions") "not_on_or_after") = .ok (.str y) := rfl
    have hs2 : evalStmt Sp.pyStrip ext 55 env3 ((.ifs (.attr (.name "conditions") "not_before") [
        (.expr (.call "validate_before" [(.attr (.name "conditions") "not_before"), (.attr (.name "self") "timeslack")]))] [])) =
        .normal env3 := by
      have t2 : evalExpr Sp.pyStrip ext 54 env3 (.attr (.name "conditions") "not_before") = .ok (optStr nb) := rfl
      rw [evalStmt_ifs, t2]; simp only [htr, Bool.false_eq_true, if_false]
      rfl
    have ht := cond_tail env.now tm env3 _ sf1 cfg.entityId cfg.extSchemas auds extra rfl rfl rfl rfl rfl rfl rfl
    show (match (if (!Sp.onOrAfterOk env.now cfg.skew (tm y)) = true then Except.error Sp.Err.expired
            else if (!Sp.forMe cfg.entityId (toModel auds)) = true then Except.error Sp.Err.audience
            else if (!extra.all (extKnown' cfg.extSchemas)) = true then Except.error Sp.Err.unknownCondition
            else Except.ok { st with notOnOrAfter := tm y } : Except Sp.Err Sp.St) with
      | .ok st' => (runMethod Sp.pyStrip ext AuthnResponse_condition_ok [.obj sf0, .bool false]).1 = .value (.bool true) ∧
          nooaOf (runMethod Sp.pyStrip ext AuthnResponse_condition_ok [.obj sf0, .bool false]).2 = some (.int st'.notOnOrAfter)
      | .error .conditionNotOk => (runMethod Sp.pyStrip ext AuthnResponse_condition_ok [.obj sf0, .bool false]).1 = .value (.bool false)
      | .error e => (runMethod Sp.pyStrip ext AuthnResponse_condition_ok [.obj sf0, .bool false]).1 = .raised (errClass e))
    rw [hrun, cond_shape, evalBlock_cons, h4]; simp only []
    rw [evalBlock_cons, h5]; simp only []
    by_cases ho : Sp.onOrAfterOk env.now cfg.skew (tm y) = true
    · simp only [ho, if_true] at hvo
      have hs1 : evalStmt Sp.pyStrip ext 56 env2 ((.ifs (.attr (.name "conditions") "not_on_or_after") [
          (.setattr "self" "not_on_or_after" (.call "validate_on_or_after" [(.attr (.name "conditions") "not_on_or_after"), (.attr (.name "self") "timeslack")]))] [])) =
          .normal env3 := by
        rw [evalStmt_ifs, t1]; simp only [hts, if_true]
        rw [evalBlock_cons, evalStmt_setattr, c1, hvo]
        rfl
      have h6 : evalStmt Sp.pyStrip ext 58 env2 cS6 = .normal env3 := by
        rw [cS6, evalStmt_try, evalBlock_cons, hs1]; simp only []
        rw [evalBlock_cons, hs2]
        rfl
      rw [evalBlock_cons, h6]; simp only []
      simp only [ho, Bool.not_true, Bool.false_eq_true, if_false]
      cases hf : Sp.forMe cfg.entityId (toModel auds) <;> cases hall : extra.all (extKnown' cfg.extSchemas) <;>
        simp only [hf, hall, Bool.and_true, Bool.and_false, Bool.false_and, Bool.true_and, Bool.false_eq_true, if_false, if_true,
          Bool.not_true, Bool.not_false] at ht ⊢
      · exact ht.1
      · exact ht.1
      · exact ht.1
      · refine ⟨ht.1, ?_⟩
        rw [ht.2 trivial trivial]
        rfl
    · have ho' : Sp.onOrAfterOk env.now cfg.skew (tm y) = false := by simpa using ho
      simp only [ho', Bool.false_eq_true, if_false] at hvo
      have h6 : ∃ e, evalStmt Sp.pyStrip ext 58 env2 cS6 = .raise "ResponseLifetimeExceed" e := by
        refine ⟨setVar env2 excVar (.str "ResponseLifetimeExceed"), ?_⟩
        rw [cS6, evalStmt_try, evalBlock_cons, evalStmt_ifs, t1]; simp only [hts, if_true]
        rw [evalBlock_cons, evalStmt_setattr, c1, hvo]
        rfl
      obtain ⟨e, h6⟩ := h6
      rw [evalBlock_cons, h6]
      simp [ho', obsM, errClass])

/-- **`AuthnResponse.condition_ok` refines `Sp.conditionOk`** — the full statement: for every Conditions element
    (NotBefore / NotOnOrAfter each absent, empty or any lexical value; any audience restrictions; any extension
    conditions), every clock, skew, own entityID, schema set and prior state, in strict mode. -/
theorem condition_ok_refines : condition_ok_refines_full := by
  intro cfg env st a tm nb nooa auds extra ha
  show CondGoal cfg env st a tm nb nooa auds extra
  rcases nb with _ | x
  · rcases nooa with _ | y
    · exact cond_neither cfg env st a tm none none (Or.inl rfl) (Or.inl rfl) auds extra (by simpa [lexTime] using ha)
    · by_cases hy : y = ""
      · subst hy
        exact cond_neither cfg env st a tm none (some "") (Or.inl rfl) (Or.inr rfl) auds extra (by simpa [lexTime] using ha)
      · exact cond_nooa_only cfg env st a tm y hy none (Or.inl rfl) auds extra (by simpa [lexTime, hy] using ha)
  · by_cases hx : x = ""
    · subst hx
      rcases nooa with _ | y
      · exact cond_neither cfg env st a tm (some "") none (Or.inr rfl) (Or.inl rfl) auds extra (by simpa [lexTime] using ha)
      · by_cases hy : y = ""
        · subst hy
          exact cond_neither cfg env st a tm (some "") (some "") (Or.inr rfl) (Or.inr rfl) auds extra (by simpa [lexTime] using ha)
        · exact cond_nooa_only cfg env st a tm y hy (some "") (Or.inr rfl) auds extra (by simpa [lexTime, hy] using ha)
    · rcases nooa with _ | y
      · exact cond_nb_only cfg env st a tm x hx none (Or.inl rfl) auds extra (by simpa [lexTime, hx] using ha)
      · by_cases hy : y = ""
        · subst hy
          exact cond_nb_only cfg env st a tm x hx (some "") (Or.inr rfl) auds extra (by simpa [lexTime, hx] using ha)
        · exact condition_ok_refines_both cfg env st a tm x y hx hy auds extra (by simpa [lexTime, hx, hy] using ha)


end PyTie
