/-
  C18 — Name identifiers are stable, pairwise and reversible.
  Property theorems only (plus non-vacuity examples).  Statements about histories quantify over
  ALL operation sequences (any length, any users / requesters / qualifiers / candidate-id streams),
  `InScope` being the property's own quantifier (users known, user names disjoint from issued and
  presented identifier values); statements about the encoding quantify over all five-field
  identifiers and all byte strings.
-/
import PysamlModel.Model.Ident
import PysamlModel.Spec.C18
import PysamlModel.Proofs.C18Codec
import PysamlModel.Proofs.C18Eptid
import PysamlModel.Proofs.C18Hist

namespace C18
open Ident

/-! ## The text encoding used as a storage key -/

/-- lossless: decoding the code gives the identifier back (empty ≡ absent), for any bytes
    including `,` `=` `%` and space -/
theorem C18_decode_code (n : NameId) : decode (code n) = .ok n.norm := decode_code n

/-- collision-free: two identifiers have the same code only if they are the same (empty ≡ absent) -/
theorem C18_code_injective (a b : NameId) : code a = code b ↔ a.norm = b.norm := code_eq_iff a b

/-- the code never contains the separator the store joins a user's codes with -/
theorem C18_code_separator_free (n : NameId) : (32 : UInt8) ∉ code n := code_noSpace n

theorem C18_codec_meets_spec (a b : NameId) :
    specCodec a b (code a) (code b) (decode (code a)).toOption (decode (code b)).toOption = true := by
  unfold specCodec
  rw [decode_code, decode_code]
  by_cases h : a.norm = b.norm
  · have : code a = code b := (code_eq_iff a b).mpr h
    simp [Except.toOption, h, this, code_noSpace b]
  · have : code a ≠ code b := fun e => h ((code_eq_iff a b).mp e)
    simp [Except.toOption, h, this, code_noSpace a, code_noSpace b]

/-! ## Histories -/

/-- Every store reached by an in-scope history is well formed: forward and reverse entries agree,
    no value is held twice, at most one persistent identifier per (user, requester, qualifier). -/
theorem C18_reachable_wellformed {K : Consts} (hK : ConstsOk K) (cfg : Cfg) (users : List Str) (ops : List Op)
    (hs : InScope K cfg users {} ops) : Inv K users (endState K cfg {} ops).db :=
  inv_endState hK (inv_empty K users) hs

/-- The model's trace of ANY history meets the per-step specification the driver evaluates on the
    implementation's observed trace (`specTrace` stops judging at the first out-of-scope operation). -/
theorem C18_model_meets_spec {K : Consts} (hK : ConstsOk K) (cfg : Cfg) (users : List Str) (watch : List NameId)
    (ops : List Op) : specTrace K cfg users watch {} (trace K cfg {} ops) = true :=
  specTrace_model hK cfg users watch {} (inv_empty K users) ops

private theorem specStep_parts {K : Consts} {users : List Str} {watch : List NameId} {P Q : State} {op : Op} {res : Res}
    (h : specStep K users watch P op res Q = true) :
    revOk users Q.db = true ∧ distinctOk users Q.db = true ∧ uniqueRegOk K users Q.db = true ∧
      frameOk users P.db Q.db op res = true ∧ resOk K users P.db Q.db op res = true ∧ sdbOk watch P Q op res = true := by
  unfold specStep at h
  simp only [Bool.and_eq_true] at h
  obtain ⟨⟨⟨⟨⟨h1, h2⟩, h3⟩, h4⟩, h5⟩, h6⟩ := h
  exact ⟨h1, h2, h3, h4, h5, h6⟩

private theorem answered_owned {Q : DB} {u : Option Str} {n : NameId} (h : answered Q u n = true) :
    ownedBy Q n.text u = true := by
  unfold answered at h
  simp only [Bool.and_eq_true] at h
  exact h.1

/-- what an in-scope `persistent_nameid` call answers: the identifier registered afterwards, owned by `u` -/
private theorem persistent_answer {K : Consts} (hK : ConstsOk K) {cfg : Cfg} {users : List Str} {P : State}
    (inv : Inv K users P.db) {u : Str} {spq nq : Option Str} {cands : List Str}
    (hop : opOk users cfg (.persistent u spq nq cands) = true) (hst : stOk K cfg P.db (.persistent u spq nq cands) = true)
    {a : NameId} (ha : (step K cfg P (.persistent u spq nq cands)).1 = .nid a) :
    ∃ t a1, a.text = some t ∧ regIn K (held (step K cfg P (.persistent u spq nq cands)).2.db u) spq nq = some a1 ∧
      a1.text = some t ∧ (step K cfg P (.persistent u spq nq cands)).2.db.get t = some u := by
  obtain ⟨hspec, _⟩ := step_spec hK [] inv _ hop hst
  rw [ha] at hspec
  obtain ⟨_, _, _, _, hres, _⟩ := specStep_parts hspec
  simp only [resOk, Bool.and_eq_true, beq_iff_eq] at hres
  obtain ⟨⟨⟨⟨hown0, _⟩, hreg⟩, _⟩, _⟩ := hres
  have hown := answered_owned hown0
  cases hat : a.text with
  | none => simp [ownedBy, hat] at hown
  | some t =>
    rw [hat] at hreg hown
    unfold regText regTextIn at hreg
    cases hr : regIn K (held (step K cfg P (.persistent u spq nq cands)).2.db u) spq nq with
    | none => simp [hr] at hreg
    | some a1 =>
      rw [hr] at hreg
      refine ⟨t, a1, rfl, rfl, by simpa using hreg, ?_⟩
      simpa [ownedBy] using hown

/-- **Stable.**  Over any in-scope history, from any reachable (well-formed) store: if
    `persistent_nameid(u, requester, qualifier)` answered `a`, then after ANY further operations that do
    not remove that identifier, asking again (same user; requester and qualifier equal up to
    empty ≡ absent) answers the same value. -/
theorem C18_persistent_stable {K : Consts} (hK : ConstsOk K) {cfg : Cfg} {users : List Str} {P : State}
    (inv : Inv K users P.db) (u : Str) (spq nq spq' nq' : Option Str) (c1 c2 : List Str) (mid : List Op)
    (hq1 : normF spq' = normF spq) (hq2 : normF nq' = normF nq)
    (hs : InScope K cfg users P (.persistent u spq nq c1 :: (mid ++ [.persistent u spq' nq' c2])))
    (a : NameId) (t : Str) (ha : (step K cfg P (.persistent u spq nq c1)).1 = .nid a) (hat : a.text = some t)
    (hno : ∀ op ∈ mid, ¬ removes t op) :
    ∃ b, (step K cfg (endState K cfg P (.persistent u spq nq c1 :: mid)) (.persistent u spq' nq' c2)).1 = .nid b ∧
      b.text = some t := by
  obtain ⟨hop1, hst1, hrest⟩ := hs
  obtain ⟨hmid, hlast⟩ := inScope_append.mp hrest
  obtain ⟨hop2, hst2, _⟩ := hlast
  have hu : u ∈ users := by simp only [opOk, Bool.and_eq_true] at hop1; exact mem_users hop1.1
  obtain ⟨t', a1, h1, hreg1, h2, _⟩ := persistent_answer hK inv hop1 hst1 ha
  rw [hat] at h1; cases h1
  have inv1 := (step_spec hK [] inv _ hop1 hst1).2
  obtain ⟨a2, hreg2, hat2⟩ := reg_kept_run hK hu mid inv1 hmid hreg1 h2 hno
  have invS := inv_endState hK inv1 hmid
  -- the last call finds the registered identifier
  show ∃ b, (step K cfg (endState K cfg (step K cfg P (.persistent u spq nq c1)).2 mid) (.persistent u spq' nq' c2)).1 = .nid b ∧
      b.text = some t
  generalize endState K cfg (step K cfg P (.persistent u spq nq c1)).2 mid = S at hreg2 invS hst2 ⊢
  refine ⟨a2, ?_, hat2⟩
  have : persistentNameid K cfg S.db u spq' nq' c2 = .ok (a2, S.db) := by
    unfold persistentNameid
    rw [matchLocalId_inv invS hu, regIn_congr K _ hq1 hq2, hreg2]
  simp only [step, this, liftNid]

/-- **Pairwise.**  Over any in-scope history: a persistent identifier answered for (u, requester) and,
    after any further operations that do not remove it, one answered for another user or another
    requester, have different values. -/
theorem C18_pairwise_distinct {K : Consts} (hK : ConstsOk K) {cfg : Cfg} {users : List Str} {P : State}
    (inv : Inv K users P.db) (u u' : Str) (spq nq spq' nq' : Option Str) (c1 c2 : List Str) (mid : List Op)
    (hdiff : u ≠ u' ∨ normF spq ≠ normF spq')
    (hs : InScope K cfg users P (.persistent u spq nq c1 :: (mid ++ [.persistent u' spq' nq' c2])))
    (a b : NameId) (t : Str) (ha : (step K cfg P (.persistent u spq nq c1)).1 = .nid a) (hat : a.text = some t)
    (hno : ∀ op ∈ mid, ¬ removes t op)
    (hb : (step K cfg (endState K cfg P (.persistent u spq nq c1 :: mid)) (.persistent u' spq' nq' c2)).1 = .nid b) :
    b.text ≠ some t := by
  obtain ⟨hop1, hst1, hrest⟩ := hs
  obtain ⟨hmid, hlast⟩ := inScope_append.mp hrest
  obtain ⟨hop2, hst2, _⟩ := hlast
  have hu : u ∈ users := by simp only [opOk, Bool.and_eq_true] at hop1; exact mem_users hop1.1
  have hu' : u' ∈ users := by simp only [opOk, Bool.and_eq_true] at hop2; exact mem_users hop2.1
  obtain ⟨t', a1, h1, hreg1, h2, _⟩ := persistent_answer hK inv hop1 hst1 ha
  rw [hat] at h1; cases h1
  have inv1 := (step_spec hK [] inv _ hop1 hst1).2
  have invS := inv_endState hK inv1 hmid
  have hS : endState K cfg P (.persistent u spq nq c1 :: mid) =
      endState K cfg (step K cfg P (.persistent u spq nq c1)).2 mid := rfl
  have hb' : (step K cfg (endState K cfg (step K cfg P (.persistent u spq nq c1)).2 mid) (.persistent u' spq' nq' c2)).1 = .nid b := hb
  -- after the second call `a` is still registered, and `b` is registered too
  obtain ⟨tb, b1, hbt, hregb, hb1t, _⟩ := persistent_answer hK invS hop2 hst2 hb'
  have invE := (step_spec hK [] invS _ hop2 hst2).2
  have hmid' : InScope K cfg users (step K cfg P (.persistent u spq nq c1)).2 (mid ++ [.persistent u' spq' nq' c2]) := hrest
  obtain ⟨a3, hreg3, hat3⟩ := reg_kept_run hK hu (mid ++ [.persistent u' spq' nq' c2]) inv1 hmid' hreg1 h2
    (by
      intro op hop
      rcases List.mem_append.mp hop with h | h
      · exact hno op h
      · simp at h; subst h; simp [removes])
  rw [endState_append] at hreg3
  simp only [endState] at hreg3
  -- both are held in the final store; equal values would make them one identifier of one user
  intro hbt'
  rw [hbt] at hbt'; cases hbt'
  obtain ⟨ha3m, _, ha3q⟩ := regIn_mem hreg3
  obtain ⟨hb1m, _, hb1q⟩ := regIn_mem hregb
  obtain ⟨ta, e1, _, o1⟩ := invE.owner u hu a3 ha3m
  obtain ⟨tb', e2, _, o2⟩ := invE.owner u' hu' b1 hb1m
  rw [hat3] at e1; cases e1
  rw [hb1t] at e2; cases e2
  rw [o1] at o2; cases o2
  have : a3 = b1 := invE.text_inj hu ha3m hb1m (by rw [hat3, hb1t])
  subst this
  rcases hdiff with h | h
  · exact h rfl
  · unfold sameQual at ha3q hb1q
    simp only [Bool.and_eq_true, beq_iff_eq] at ha3q hb1q
    exact h (by rw [← ha3q.1, hb1q.1])

/-- **Reversible.**  In every reachable store an identifier registered for `u` maps back to `u`, and to
    nobody else: no other user holds an identifier with that value. -/
theorem C18_reversible {K : Consts} (hK : ConstsOk K) (cfg : Cfg) (users : List Str) (ops : List Op)
    (hs : InScope K cfg users {} ops) (u : Str) (hu : u ∈ users) (m : NameId)
    (hm : m ∈ held (endState K cfg {} ops).db u) :
    findLocalId (endState K cfg {} ops).db m = some u ∧
      ∀ u' ∈ users, ∀ m' ∈ held (endState K cfg {} ops).db u', m'.text = m.text → u' = u := by
  have inv := C18_reachable_wellformed hK cfg users ops hs
  obtain ⟨t, h1, _, h3⟩ := inv.owner u hu m hm
  refine ⟨by simp [findLocalId, h1, h3], ?_⟩
  intro u' hu' m' hm' e
  obtain ⟨t', h1', _, h3'⟩ := inv.owner u' hu' m' hm'
  rw [e, h1] at h1'; cases h1'
  rw [h3] at h3'; cases h3'; rfl

/-- … and the answer of every issuing call maps back to the user it was issued for, at once. -/
theorem C18_issued_maps_back {K : Consts} (hK : ConstsOk K) {cfg : Cfg} {users : List Str} {P : State}
    (inv : Inv K users P.db) (u : Str) (spq nq : Option Str) (cands : List Str)
    (hop : opOk users cfg (.persistent u spq nq cands) = true) (hst : stOk K cfg P.db (.persistent u spq nq cands) = true)
    (a : NameId) (ha : (step K cfg P (.persistent u spq nq cands)).1 = .nid a) :
    findLocalId (step K cfg P (.persistent u spq nq cands)).2.db a = some u := by
  obtain ⟨t, _, hat, _, _, hget⟩ := persistent_answer hK inv hop hst ha
  simp [findLocalId, hat, hget]

/-- **Transient identifiers are fresh.**  An in-scope `transient_nameid` call, in any reachable store,
    answers a value that was not a key of the store and that nobody held, and registers it for `u`. -/
theorem C18_transient_fresh {K : Consts} (hK : ConstsOk K) {cfg : Cfg} {users : List Str} {P : State}
    (inv : Inv K users P.db) (u : Str) (spq nq : Option Str) (cands : List Str)
    (hop : opOk users cfg (.transient u spq nq cands) = true) (hst : stOk K cfg P.db (.transient u spq nq cands) = true)
    (a : NameId) (ha : (step K cfg P (.transient u spq nq cands)).1 = .nid a) :
    ∃ t, a.text = some t ∧ P.db.get t = none ∧ (∀ u' ∈ users, ∀ m ∈ held P.db u', m.text ≠ some t) ∧
      (step K cfg P (.transient u spq nq cands)).2.db.get t = some u := by
  obtain ⟨hspec, _⟩ := step_spec hK [] inv _ hop hst
  rw [ha] at hspec
  obtain ⟨_, _, _, _, hres, _⟩ := specStep_parts hspec
  simp only [resOk, Bool.and_eq_true] at hres
  obtain ⟨⟨⟨hown0, _⟩, _⟩, hfresh⟩ := hres
  have hown := answered_owned hown0
  cases hat : a.text with
  | none => simp [hat] at hfresh
  | some t =>
    rw [hat] at hown hfresh
    simp only [isFresh, Bool.and_eq_true, Bool.not_eq_true'] at hfresh
    refine ⟨t, rfl, ?_, ?_, by simpa [ownedBy] using hown⟩
    · rw [DB.has_eq] at hfresh
      cases hg : P.db.get t with
      | none => rfl
      | some _ => simp [hg] at hfresh
    · intro u' hu' m hm e
      have : t ∈ heldTexts users P.db := by
        unfold heldTexts
        exact List.mem_flatMap.mpr ⟨u', hu', List.mem_filterMap.mpr ⟨m, hm, e⟩⟩
      rw [List.contains_iff_mem.mpr this] at hfresh
      exact absurd hfresh.2 (by simp)

/-- **Changes and terminations affect only that identifier.**  An in-scope ManageNameID request
    (NewID, Terminate, …) or removal concerning the identifier with value `t`, in any reachable store:
    every user's other identifiers are exactly what they were (same identifiers, same order), and
    every registered persistent identifier keeps its value — for ManageNameID including the
    managed one. -/
theorem C18_manage_local {K : Consts} (hK : ConstsOk K) {cfg : Cfg} {users : List Str} {P : State}
    (inv : Inv K users P.db) (op : Op) (n : NameId) (t : Str)
    (hkind : (∃ m, op = .manage n m) ∨ op = .removeRemote n) (ht : n.text = some t)
    (hop : opOk users cfg op = true) :
    (∀ u ∈ users, (held (step K cfg P op).2.db u).filter (fun m => m.text != some t) =
        (held P.db u).filter (fun m => m.text != some t)) ∧
    (∀ u ∈ users, ∀ spq nq a t', regIn K (held P.db u) spq nq = some a → a.text = some t' →
        ((∃ m, op = .manage n m) ∨ t' ≠ t) →
        ∃ a', regIn K (held (step K cfg P op).2.db u) spq nq = some a' ∧ a'.text = some t') := by
  have hst : stOk K cfg P.db op = true := by
    rcases hkind with ⟨m, rfl⟩ | rfl <;> simp [stOk, effFmt]
  refine ⟨?_, ?_⟩
  · intro u hu
    obtain ⟨hspec, _⟩ := step_spec hK [] inv op hop hst
    obtain ⟨_, _, _, hframe, _, _⟩ := specStep_parts hspec
    unfold frameOk at hframe
    simp only [List.all_eq_true, beq_iff_eq] at hframe
    have hf := hframe u hu
    -- either the step touched `t`, or it touched nothing and the lists are equal
    have htouch : touched op (step K cfg P op).1 = some t ∨
        held (step K cfg P op).2.db u = held P.db u := by
      rcases hkind with ⟨m, rfl⟩ | rfl
      · cases hres : manageRequest P.db n m with
        | error e => right; simp [step, hres, liftNid]
        | ok r => left; simp [step, hres, liftNid, touched, ht]
      · cases hres : removeRemote P.db n with
        | error e => right; simp [step, hres]
        | ok r => left; simp [step, hres, touched, ht]
    rcases htouch with h | h
    · rw [h] at hf
      have : (fun m : NameId => m.text != some t) = untouched (some t) := by
        funext m; rfl
      rw [this]; exact hf
    · rw [h]
  · intro u hu spq nq a t' hreg hat hcase
    refine reg_kept hK inv op hop hst hu hreg hat ?_
    rcases hkind with ⟨m, rfl⟩ | rfl
    · simp [removes]
    · rcases hcase with ⟨m, hm⟩ | hne
      · cases hm
      · simp only [removes, ht, Option.some.injEq]
        exact fun e => hne e.symm

/-! ## Consequences of the specification itself (these apply to the IMPLEMENTATION's observed stores) -/

/-- a store passing clause (A) has no value held by two users -/
theorem C18_spec_no_shared_value (users : List Str) (db : DB) (h : revOk users db = true)
    (u u' : Str) (hu : u ∈ users) (hu' : u' ∈ users) (m m' : NameId) (hm : m ∈ held db u) (hm' : m' ∈ held db u')
    (e : m.text = m'.text) : u = u' := by
  unfold revOk at h
  simp only [List.all_eq_true] at h
  have h1 := h u hu m hm
  have h2 := h u' hu' m' hm'
  rw [e] at h1
  cases ht : m'.text with
  | none => simp [ownedBy, ht] at h2
  | some t =>
    simp only [ownedBy, ht, Option.isSome_some, Bool.true_and, beq_iff_eq] at h1 h2
    rw [h1] at h2; cases h2; rfl

/-- a step passing clauses (D) and (E) keeps every registered persistent identifier other than the
    touched one what it was -/
theorem C18_spec_frame_keeps_reg (K : Consts) (users : List Str) (P Q : DB) (op : Op) (res : Res)
    (hf : frameOk users P Q op res = true) (hu : uniqueRegOk K users Q = true)
    (u : Str) (huu : u ∈ users) (spq nq : Option Str) (a : NameId)
    (hreg : regIn K (held P u) spq nq = some a) (hne : a.text ≠ touched op res ∨ touched op res = none) :
    ∃ a', regIn K (held Q u) spq nq = some a' ∧ (a' = a ∨ a'.text = touched op res) := by
  unfold frameOk at hf
  unfold uniqueRegOk at hu
  simp only [List.all_eq_true, beq_iff_eq, decide_eq_true_eq] at hf hu
  have hfu := hf u huu
  obtain ⟨haP, haf, haq⟩ := regIn_mem hreg
  have hunt : untouched (touched op res) a = true := by
    rcases hne with h | h
    · simp only [untouched, Bool.not_eq_true', Bool.and_eq_false_iff, beq_eq_false_iff_ne, ne_eq]
      exact Or.inr h
    · simp [untouched, h]
  have haQ : a ∈ held Q u := by
    have : a ∈ (held P u).filter (untouched (touched op res)) := List.mem_filter.mpr ⟨haP, hunt⟩
    rw [← hfu] at this
    exact (List.mem_filter.mp this).1
  have hisreg : isReg K spq nq a = true := by simp [isReg, haf, haq]
  cases hr : regIn K (held Q u) spq nq with
  | none =>
    unfold regIn at hr
    exact absurd hisreg (by simpa using List.find?_eq_none.mp hr a haQ)
  | some b =>
    refine ⟨b, rfl, ?_⟩
    obtain ⟨hbQ, hbf, hbq⟩ := regIn_mem hr
    by_cases hab : b = a
    · exact Or.inl hab
    · exfalso
      refine pairwise_symm_mem (R := fun a b => ¬ (a.fmt = some K.persistent ∧ isReg K a.spq a.nq b = true))
        ?_ (hu u huu) hbQ haQ hab ⟨hbf, ?_⟩
      · intro x y hxy hyx
        exact hxy (clash_symm (K := K) hyx)
      · unfold isReg sameQual at hisreg ⊢
        unfold sameQual at hbq
        simp only [Bool.and_eq_true, beq_iff_eq] at hisreg hbq ⊢
        exact ⟨hisreg.1, by rw [hisreg.2.1, hbq.1], by rw [hisreg.2.2, hbq.2]⟩

/-! ## Targeted ids -/

/-- **Deterministic.**  Over any history of `Eptid.get` calls on one instance, equal (requester, user)
    arguments get equal values — whatever the hash. -/
theorem C18_eptid_deterministic (hash : Str → Str) (secret idp : Str) (calls : List (Str × Str)) (i j : Nat)
    (hi : i < calls.length) (hj : j < calls.length) (h : calls[i]? = calls[j]?) :
    (eptidRun hash secret idp [] calls).1[i]? = (eptidRun hash secret idp [] calls).1[j]? :=
  eptidRun_deterministic hash secret idp calls i j hi hj h

/-- **The value function is injective.**  `Eptid.make` gives distinct targeted ids to distinct
    (requester, user) pairs, for an injective digest whose output has no `!`. -/
theorem C18_eptid_injective (hash : Str → Str) (h : HashOk hash) (secret idp sp sp' u u' : Str)
    (e : eptidMake hash secret idp sp [u] = eptidMake hash secret idp sp' [u']) : sp = sp' ∧ u = u' :=
  eptidMake_injective hash h secret idp sp sp' u u' e

/-- Full statement for `Eptid.get`: over any history, equal pairs ⇔ equal values. -/
def C18_eptid_get_full : Prop :=
  ∀ (hash : Str → Str), HashOk hash → ∀ (secret idp : Str) (calls : List (Str × Str)),
    specEptid calls (eptidRun hash secret idp [] calls).1 = true

/-- It holds for every history in which no two different (requester, user) pairs produce the same
    joined cache key `sp + "__" + user`. -/
theorem C18_eptid_get_partial (hash : Str → Str) (h : HashOk hash) (secret idp : Str) (calls : List (Str × Str))
    (hc : NoKeyCollision calls) : specEptid calls (eptidRun hash secret idp [] calls).1 = true := by
  rw [eptidRun_eq_make hash secret idp calls hc]
  unfold specEptid
  simp only [List.length_map, beq_self_eq_true, Bool.true_and, List.all_eq_true, List.mem_range, beq_iff_eq,
    List.getElem?_map]
  intro i _ j _
  cases hi : calls[i]? with
  | none => cases hj : calls[j]? <;> simp
  | some a =>
    cases hj : calls[j]? with
    | none => simp
    | some b =>
      simp only [Option.map_some]
      by_cases hab : a = b
      · subst hab; simp
      · have : eptidMake hash secret idp a.1 [a.2] ≠ eptidMake hash secret idp b.1 [b.2] := by
          intro e
          obtain ⟨h1, h2⟩ := eptidMake_injective hash h secret idp _ _ _ _ e
          exact hab (Prod.ext h1 h2)
        have h1 : (some a == some b) = false := by simpa using hab
        have h2 : (some (eptidMake hash secret idp a.1 [a.2]) == some (eptidMake hash secret idp b.1 [b.2])) = false := by simpa using this
        rw [h1, h2]

/-- … and is false in general (F15): `("a__b","c")` and `("a","b__c")` share the cache entry. -/
theorem C18_eptid_get_counterexample : ¬ C18_eptid_get_full := by
  intro h
  have := h quote hashOk_quote [] [105] [([97, 95, 95, 98], [99]), ([97], [98, 95, 95, 99])]
  revert this
  decide

/-! ## Non-vacuity: concrete instances meeting the hypotheses -/

private def K0 : Consts := { persistent := [112], transient := [116], email := [101] }
private def cfg0 : Cfg := { domain := [100], nameQualifier := [] }
private def users0 : List Str := [[117], [118]]     -- "u", "v"
private def hist0 : List Op :=
  [.persistent [117] (some [115]) none [[49]],                        -- u @ requester "s": new id "1"
   .getNameid [117] [101] (some [115]) none [[50]],                   -- an e-mail format id for the same requester
   .manage { spq := some [115], fmt := some [112], text := some [49] } (.newId (some [120])),
   .transient [118] (some [115]) none [[49], [51]],                   -- candidate "1" is taken: the loop draws "3"
   .persistent [117] (some [115]) (some []) [[52]]]                   -- asks again (qualifier "" ≡ absent)

example : ConstsOk K0 := ⟨by decide, by decide⟩
example : InScope K0 cfg0 users0 {} hist0 := by
  simp only [InScope, hist0]
  decide
example : ((trace K0 cfg0 {} hist0).map (fun x => x.2.1)) =
    [.nid { spq := some [115], nq := none, fmt := some [112], text := some [49] },
     .nid { spq := some [115], nq := none, fmt := some [101], text := some [50, 64, 100] },
     .nid { spq := some [115], fmt := some [112], spid := some [120], text := some [49] },
     .nid { spq := some [115], nq := none, fmt := some [116], text := some [51] },
     .nid { spq := some [115], fmt := some [112], spid := some [120], text := some [49] }] := by decide
example : (removeRemote (endState K0 cfg0 {} hist0).db { spq := some [115], fmt := some [116], text := some [51] }).toOption.isSome =
    true := by decide
example : code { nq := some [], spq := some [97, 32, 44, 61, 37], text := some [120] } =
    [49, 61, 97, 37, 50, 48, 37, 50, 67, 37, 51, 68, 37, 50, 53, 44, 52, 61, 120] := by decide
example : code { text := some [120, 44, 49, 61, 121] } ≠ code { text := some [120], spq := some [121] } := by decide
example : HashOk quote := hashOk_quote
example : NoKeyCollision [([97], [99]), ([98], [99]), ([97], [99])] := by
  intro a ha b hb
  simp only [List.mem_cons, List.mem_nil_iff, or_false] at ha hb
  rcases ha with rfl | rfl | rfl <;> rcases hb with rfl | rfl | rfl <;> decide
example : ¬ NoKeyCollision [([97, 95, 95, 98], [99]), ([97], [98, 95, 95, 99])] := by
  intro h
  have := h _ (List.mem_cons_self ..) _ (List.mem_cons_of_mem _ (List.mem_cons_self ..)) (by decide)
  revert this
  decide

end C18
