/-
  C13 — Everything the library emits is valid against the official SAML schemas.

  The claim is PARTIAL by design (DESIGN.md section 6, C13): the option logic of the `create_*`
  builders is not modelled.  What is proved, for all inputs:

  * the validator core: the derivative matcher used for XSD content models decides membership in
    the declarative regular language (`C13_derivative_correct`, `C13_content_iff`,
    `C13_complexPre_content`), accepted documents have pairwise different `xs:ID`s
    (`C13_valid_ids_unique`), and the lexical check of `xs:boolean` is exactly the four literals
    (`C13_boolean_lexical` — "True" is not among them);
  * the order part of validity for the serialiser model (`C13_order_partial`): an element class
    whose regenerated table row is `orderCompat` with the regenerated XSD content model serialises
    EVERY instance within the class's own cardinalities (any number of items in unbounded members)
    to a child sequence the content model accepts; `C13_order_table` checks `orderCompat` — and
    that the row really is tied to the content model the validator uses — for all rows of the
    regenerated class table that are claimed (`decide +kernel` on the two regenerated tables);
    `C13_order_table_valid` combines the two.

  The property at full strength (`C13_full`) quantifies over the builders themselves; it is
  decided by the correspondence run on the documents actually produced (the driver evaluates
  `specDoc`, i.e. the same `Validate.valid`, on every output).  The unchanged code does not satisfy
  it: `C13_counterexample_dup_id` / `C13_counterexample_action_namespace` refute it on two of the
  document shapes the implementation emits (known findings; all seven are replayed from
  `corpus/C13/findings.json`), with `…_accepted` twins showing that the repaired documents pass.
-/
import PysamlModel.Model.Validate
import PysamlModel.Model.ClassOrder
import PysamlModel.Spec.C13
import PysamlModel.Proofs.C13Regex
import PysamlModel.Proofs.C13Order
import PysamlModel.Gen.Schema
import PysamlModel.Gen.ClassRows

namespace C13
open Validate

/-- The matcher implements regular-language membership, for every expression, every symbol
    interpretation and every word. -/
theorem C13_derivative_correct {σ α : Type} (sat : σ → α → Bool) (r : Re σ) (w : List α) :
    Re.matches sat r w = true ↔ Re.Lang sat r w :=
  Re.matches_iff r w

/-- The content-model check of the validator is membership of the child-name sequence in the
    language of the type's content model. -/
theorem C13_content_iff (re : Re Sym) (kids : List XNode) :
    contentOk re kids = true ↔ Re.Lang Sym.sat re (kids.map XNode.name) :=
  Re.matches_iff re _

/-- Whenever the validator goes on to the children of a complex-typed element, their names form a
    word of the content model (and character data is blank unless the type is mixed). -/
theorem C13_complexPre_content (S : Schema) (T : TypeDef) (attrs : List (QN × List Char)) (text : List Char)
    (kids : List XNode) (ids : Ids) (re : Re Sym)
    (h : complexPre S T false attrs text kids = .ok (ids, some re)) :
    ∃ mixed, T.content = .elems mixed re ∧ Re.Lang Sym.sat re (kids.map XNode.name) ∧
      (mixed = false → text.all Lex.isWs = true) ∧ requiredOk T attrs = true := by
  unfold complexPre at h
  simp only [bind, Except.bind, pure, Except.pure] at h
  split at h
  · cases h
  next ids1 _ =>
    split at h
    · cases h
    next hreq =>
      simp only [Bool.false_eq_true, if_false] at h
      split at h
      · split at h
        · cases h
        · split at h <;> cases h
      · split at h
        · cases h
        · split at h <;> cases h
      next mixed re' hcont =>
        split at h
        · cases h
        next htext =>
          split at h
          · cases h
          next hc =>
            cases h
            refine ⟨mixed, hcont, ?_, ?_, ?_⟩
            · exact (C13_content_iff re kids).mp (by simpa using hc)
            · intro hm
              subst hm
              simpa using htext
            · simpa using hreq

/-- An accepted document has pairwise different `xs:ID` values and a declared root. -/
theorem C13_valid_ids_unique (S : Schema) (n : XNode) (h : valid S n = true) :
    ∃ d ids, S.global? n.name = some d ∧ vElem S d n = .ok ids ∧ nodup ids = true := by
  unfold valid validate at h
  split at h
  next hv =>
    split at hv
    · cases hv
    next d hd =>
      simp only [bind, Except.bind] at hv
      split at hv
      · cases hv
      next ids hids =>
        by_cases hn : nodup ids = true
        · exact ⟨d, ids, hd, hids, hn⟩
        · simp [hn, throw, throwThe, MonadExceptOf.throw] at hv
  · cases h

/-- `xs:boolean` is exactly the four XSD literals. -/
theorem C13_boolean_lexical (s : List Char) :
    Lex.booleanOk s = true ↔ s = ['t', 'r', 'u', 'e'] ∨ s = ['f', 'a', 'l', 's', 'e'] ∨ s = ['1'] ∨ s = ['0'] := by
  unfold Lex.booleanOk
  have e1 : "true".toList = ['t', 'r', 'u', 'e'] := by decide
  have e2 : "false".toList = ['f', 'a', 'l', 's', 'e'] := by decide
  have e3 : "1".toList = ['1'] := by decide
  have e4 : "0".toList = ['0'] := by decide
  rw [e1, e2, e3, e4]
  simp only [Bool.or_eq_true, beq_iff_eq, or_assoc]

/-- **Order part of validity for the serialiser model** (`tagsOf` mirrors
    `SamlBase._add_members_to_element_tree`): if a class row is `orderCompat` with a content model,
    every instance that respects the class's own cardinalities — whatever the number of items in its
    unbounded members — serialises to a child sequence the content model accepts, i.e. the
    specification `specOrder` (the `contentOk` test of the validator) holds of the model's output. -/
theorem C13_order_partial (ps : List Particle) (ms : List Member) (counts : List Nat)
    (hc : orderCompat ps ms = true) (hi : instOk ms counts = true) :
    specOrder ps (tagsOf ms counts) = true :=
  (Re.matches_iff _ _).mpr (order_lang ps ms counts hc hi)

/-- Every claimed row of the regenerated class table is `orderCompat` with the content model of
    its element in the regenerated schema, and `ps` IS that content model (`particlesOf`). -/
theorem C13_order_table :
    Gen.ClassRows.rows.all (fun r => particlesOf Gen.Schema.schema r.elem r.ps && orderCompat r.ps r.members) = true := by
  decide +kernel

/-- For every claimed element class of saml / samlp / md / xmldsig / xmlenc and every instance
    within the class's cardinalities, the serialised child sequence passes the content-model check
    of the type the validator assigns to that element. -/
theorem C13_order_table_valid (r : ClassRow) (hr : r ∈ Gen.ClassRows.rows) (counts : List Nat)
    (hi : instOk r.members counts = true) :
    particlesOf Gen.Schema.schema r.elem r.ps = true ∧ specOrder r.ps (tagsOf r.members counts) = true := by
  have h := List.all_eq_true.mp C13_order_table r hr
  simp only [Bool.and_eq_true] at h
  exact ⟨h.1, C13_order_partial r.ps r.members counts h.2 hi⟩

/-! ## Extension elements (`exts` loops of the metadata builders, `samlp:Extensions` of the requests) -/

/-- **Order part of validity with extension elements** (`tagsOfExt`: members first, extension elements
    last): if the members of a class follow the content model up to its final unbounded particle
    (`extCompat`), the instance respects the class's cardinalities, and every extension element is
    admitted by that final particle, as many as it asks for (`extsOk`), the serialised child sequence
    is accepted by the content model — any number of extension elements of any names. -/
theorem C13_order_ext_partial (ps : List Particle) (ms : List Member) (counts : List Nat) (exts : List QN)
    (hc : extCompat ps ms = true) (hi : instOk ms counts = true) (he : extsOk ps exts = true) :
    specOrder ps (tagsOfExt ms counts exts) = true :=
  (Re.matches_iff _ _).mpr (order_ext_lang ps ms counts exts hc hi he)

/-- A container of extension elements (`md:Extensions`, `samlp:Extensions`) with at least one
    element, all of them from a namespace other than the container's: valid content, whatever the
    elements are and however many. -/
theorem C13_ext_container_valid (r : ClassRow) (h : isExtContainer r = true) (exts : List QN)
    (he : extsOk r.ps exts = true) : specOrder r.ps (tagsOfExt r.members [] exts) = true := by
  unfold isExtContainer at h
  simp only [Bool.and_eq_true, List.isEmpty_iff] at h
  obtain ⟨hm, hp⟩ := h
  split at hp
  next t pc n hps =>
    apply C13_order_ext_partial _ _ _ _ _ _ he
    · rw [hps, hm]; rfl
    · rw [hm]; rfl
  · cases hp

/-- … and with NO element in it the container is never valid content: a builder that creates the
    container before it knows whether anything goes into it emits an invalid document. -/
theorem C13_ext_container_empty_invalid (r : ClassRow) (h : isExtContainer r = true) :
    specOrder r.ps (tagsOfExt r.members [] []) = false := by
  unfold isExtContainer at h
  simp only [Bool.and_eq_true, List.isEmpty_iff] at h
  obtain ⟨hm, hp⟩ := h
  split at hp
  next t pc n hps =>
    rw [hps, hm]
    simp [specOrder, contentRe, Particle.re, Re.rep, Re.pow, Re.altL, Re.seqL, Re.matches, Re.nullable, tagsOfExt, tagsOf]
  · cases hp

/-- The regenerated tables have such containers (both `Extensions` classes), and for each of them
    the row's particle list IS the content model the validator uses for that element. -/
theorem C13_ext_table :
    ((Gen.ClassRows.rows ++ Gen.ClassRows.excluded).filter isExtContainer).all
      (fun r => particlesOf Gen.Schema.schema r.elem r.ps) = true ∧
    2 ≤ ((Gen.ClassRows.rows ++ Gen.ClassRows.excluded).filter isExtContainer).length := by
  decide +kernel


/-- The property at full strength, for an emitter (the builders; NOT modelled): every emitted
    document is valid.  Not proved; decided per produced document by the correspondence run. -/
def C13_full (S : Schema) {Input : Type} (emit : Input → XNode) : Prop :=
  ∀ i, valid S (emit i) = true

/-! ## The unchanged code does not satisfy `C13_full`

Concrete documents of the shapes the implementation was observed to emit (the inputs are replayed
against the real code from `corpus/C13/findings.json`): they are refuted by the validator, and the
same documents with the one defect repaired are accepted — so the refutation is due to that defect. -/

open Gen.Schema in
private def assertionEx (id : String) : XNode :=
  .mk WK.Assertion [(WK.aVersion, "2.0".toList), (WK.aID, id.toList), (WK.aIssueInstant, "2026-09-21T14:13:20Z".toList)] []
    [.mk WK.Issuer [] "https://idp.example/idp".toList []]

open Gen.Schema in
/-- `Server.create_authn_query_response` with two stored statements: both assertions carry the ID
    produced by ONE call of `message_args()`. -/
def dupIdResponse (id1 id2 : String) : XNode :=
  .mk WK.Response [(WK.aID, "r1".toList), (WK.aVersion, "2.0".toList), (WK.aIssueInstant, "2026-09-21T14:13:20Z".toList)] []
    [.mk WK.Status [] [] [.mk WK.StatusCode [(WK.aValue, "urn:oasis:names:tc:SAML:2.0:status:Success".toList)] [] []],
     assertionEx id1, assertionEx id2]

open Gen.Schema in
/-- `Base.create_authz_decision_query_using_assertion`: `saml.Action(text=a)` has no `Namespace`. -/
def authzQuery (actionAttrs : List (QN × List Char)) : XNode :=
  .mk WK.AuthzDecisionQuery [(WK.aID, "q1".toList), (WK.aVersion, "2.0".toList), (WK.aIssueInstant, "2026-09-21T14:13:20Z".toList),
      (WK.aResource, "urn:r".toList)] []
    [.mk WK.Subject [] [] [.mk WK.NameID [] "subject-1".toList []],
     .mk WK.Action actionAttrs "read".toList []]

theorem C13_dup_id_rejected : verdict Gen.Schema.schema (dupIdResponse "a1" "a1") = some .dupId := by decide +kernel
theorem C13_distinct_id_accepted : valid Gen.Schema.schema (dupIdResponse "a1" "a2") = true := by decide +kernel
theorem C13_action_without_namespace_rejected :
    verdict Gen.Schema.schema (authzQuery []) = some .missingAttr := by decide +kernel
theorem C13_action_with_namespace_accepted :
    valid Gen.Schema.schema (authzQuery [(Gen.Schema.WK.aNamespace, "urn:oasis:names:tc:SAML:1.0:action:rwedc".toList)]) = true := by
  decide +kernel

/-- `C13_full` fails for any emitter that produces the observed document (the implementation does,
    see the corpus replay): known findings, not repaired here. -/
theorem C13_counterexample_dup_id : ¬ C13_full Gen.Schema.schema (fun (_ : Unit) => dupIdResponse "a1" "a1") := by
  intro h
  have h1 := h ()
  have h2 := C13_dup_id_rejected
  unfold valid at h1
  unfold verdict at h2
  split at h1
  · simp_all
  · cases h1

theorem C13_counterexample_action_namespace : ¬ C13_full Gen.Schema.schema (fun (_ : Unit) => authzQuery []) := by
  intro h
  have h1 := h ()
  have h2 := C13_action_without_namespace_rejected
  unfold valid at h1
  unfold verdict at h2
  split at h1
  · simp_all
  · cases h1

/-! ## Non-vacuity -/

private def satN (s : Nat) (x : Nat) : Bool := s == x
-- (a b? c*) accepts "a c c", rejects "a b b"
example : Re.matches satN (Re.seqL [Re.sym 1, Re.rep (Re.sym 2) 0 (some 1), Re.rep (Re.sym 3) 0 none]) [1, 3, 3] = true := by decide
example : Re.matches satN (Re.seqL [Re.sym 1, Re.rep (Re.sym 2) 0 (some 1), Re.rep (Re.sym 3) 0 none]) [1, 2, 2] = false := by decide
example : Re.Lang satN (Re.seq (Re.sym 1) (Re.star (Re.sym 3))) [1, 3] :=
  Re.Lang.seq (Re.Lang.sym rfl) (by simpa using Re.Lang.starCons (Re.Lang.sym (s := 3) (x := 3) rfl) Re.Lang.starNil)

-- a row in XSD order is compatible, a swapped row is not; hypotheses of C13_order_partial are satisfiable
private def psEx : List Particle := [.leaf [.el 7 0] 1 (some 1), .leaf [.el 8 1] 0 (some 1), .leaf [.el 9 2, .el 10 3] 0 none]
private def msEx : List Member := [⟨⟨5, 7⟩, 1, some 1⟩, ⟨⟨5, 8⟩, 0, some 1⟩, ⟨⟨5, 9⟩, 0, none⟩, ⟨⟨5, 10⟩, 0, none⟩]
example : orderCompat psEx msEx = true := by decide
example : instOk msEx [1, 0, 3, 2] = true := by decide
example : specOrder psEx (tagsOf msEx [1, 0, 3, 2]) = true := by decide
example : orderCompat psEx [⟨⟨5, 8⟩, 0, some 1⟩, ⟨⟨5, 7⟩, 1, some 1⟩] = false := by decide
example : specOrder psEx (tagsOf [⟨⟨5, 8⟩, 0, some 1⟩, ⟨⟨5, 7⟩, 1, some 1⟩] [1, 1]) = false := by decide
example : Gen.ClassRows.rows.length > 40 := by decide
example : Lex.booleanOk ['T', 'r', 'u', 'e'] = false := by decide
-- the model of saml2.validate.valid_domain_name (tied to the code by the `lex` stream): labels, optional port
example : Lex.domainNameOk "host.example.org:8080".toList = true := by decide
example : Lex.domainNameOk "localhost".toList = true := by decide
example : Lex.domainNameOk "-example.org".toList = false := by decide
example : Lex.domainNameOk "example..org".toList = false := by decide
example : Lex.domainNameOk "example.org:123456".toList = false := by decide


-- extension elements: a row with one member and a final wildcard; two foreign elements pass, an element of the target
-- namespace (13) or without namespace does not satisfy `extsOk`; the empty container is rejected
private def psExt : List Particle := [.leaf [.el 7 0] 0 (some 1), .leaf [.any (.other 13) .lax] 0 none]
private def msExt : List Member := [⟨⟨13, 7⟩, 0, some 1⟩]
example : extCompat psExt msExt = true := by decide
example : extsOk psExt [⟨1, 0⟩, ⟨5, 3⟩] = true := by decide
example : specOrder psExt (tagsOfExt msExt [1] [⟨1, 0⟩, ⟨5, 3⟩]) = true := by decide
example : extsOk psExt [⟨13, 9⟩] = false := by decide
example : extsOk psExt [⟨0, 0⟩] = false := by decide
example : specOrder psExt (tagsOfExt msExt [1] [⟨13, 9⟩]) = false := by decide
private def rowExt : ClassRow := { label := "x.Extensions", elem := 1, ps := [.leaf [.any (.other 13) .lax] 1 none], members := [] }
example : isExtContainer rowExt = true := by decide
example : specOrder rowExt.ps (tagsOfExt rowExt.members [] [⟨1, 0⟩]) = true := by decide
example : specOrder rowExt.ps (tagsOfExt rowExt.members [] []) = false := by decide

-- validator branches the regenerated schema set cannot reach (it has no abstract element declaration, no fixed
-- attribute value, and no dangling index): exercised on a three-declaration schema
private def S0 : Schema :=
  { types := #[{ attrs := [{ name := 3, required := false, ty := .prim .string, fixed := some ['v'] }], anyAttr := none, content := .empty }],
    elems := #[{ name := 1, ty := .anyType, abstract := true }, { name := 2, ty := .complex 0 }, { name := 4, ty := .complex 7 }],
    globals := [(1, 0), (2, 1), (4, 2)], gattrs := [], typeNames := [], xsiNs := 9, xsiType := 8, xsiNil := 7 }
example : verdict S0 (.mk ⟨5, 1⟩ [] [] []) = some .abstractElem := by decide
example : verdict S0 (.mk ⟨5, 2⟩ [(⟨0, 3⟩, ['w'])] [] []) = some .fixedMismatch := by decide
example : verdict S0 (.mk ⟨5, 2⟩ [(⟨0, 3⟩, ['v'])] [] []) = none := by decide
example : verdict S0 (.mk ⟨5, 4⟩ [] [] []) = some .badSchemaRef := by decide
example : verdict S0 (.mk ⟨5, 6⟩ [] [] []) = some .unknownRoot := by decide

end C13
