import PysamlModel.Model.Validate
import PysamlModel.Model.ClassOrder
import PysamlModel.Spec.C13
import PysamlModel.Gen.Schema
import PysamlModel.Gen.ClassRows

namespace C13
open Validate

theorem C13_placeholder : True := trivial

end C13
