/-
  C15 — Redirect-binding signatures bind message, relay state and algorithm.
  Property theorems only (plus non-vacuity examples).

  Every statement quantifies over ALL byte strings (parameter values, relay states, algorithm
  URIs, signature texts), all received parameter dictionaries, all keys, all certificate lists,
  every encoder/decoder satisfying `CodecLaws` (injective URL-encoder whose output contains
  neither `&` nor `=`; base64 decode inverts encode) and every table set satisfying `TablesOk`;
  the tables of the current source satisfy it (`C15_tables_ok`, regenerated on every run).
  Signatures are ideal (`Sig.verify`): see Model/RedirectSig.lean.
-/
import PysamlModel.Proofs.C15

namespace C15
open RedirectSig

variable {κ : Type} [DecidableEq κ]

/-! ## Tables of the current source (regenerated on every run) -/

/-- The tables read from the source are exactly the expected ones: the three copies of the
    allow-list, `SIGNER_ALGS`, and the four order tables (signer's and verifier's). -/
theorem C15_tables_regenerated : genTables = stdTables ∧ genAllowedDef = stdAllowed := by
  decide +kernel

/-- `SIGNER_ALGS` keys = allowed list (in all three modules that hold a copy). -/
theorem C15_tables_signer_keys_eq_allowed :
    genTables.signers.map (·.1) = genTables.allowedPack ∧
    genTables.allowedEntity = genTables.allowedPack ∧ genAllowedDef = genTables.allowedPack := by
  decide +kernel

/-- Each allowed algorithm is mapped to the digest its URI announces. -/
theorem C15_tables_digests_match :
    genTables.signers =
      [(uriRsaSha1, dSha1), (uriRsaSha224, dSha224), (uriRsaSha256, dSha256), (uriRsaSha384, dSha384),
       (uriRsaSha512, dSha512)] := by
  decide +kernel

/-- Signer and verifier use the same order tables, covering message, RelayState and SigAlg. -/
theorem C15_tables_orders :
    genTables.reqOrderS = [kSAMLRequest, kRelayState, kSigAlg] ∧
    genTables.respOrderS = [kSAMLResponse, kRelayState, kSigAlg] ∧
    genTables.reqOrderV = genTables.reqOrderS ∧ genTables.respOrderV = genTables.respOrderS := by
  decide +kernel

theorem C15_std_tables_ok : TablesOk stdTables where
  reqS := rfl
  respS := rfl
  reqV := rfl
  respV := rfl
  supported := by decide +kernel

/-- The regenerated tables meet the hypothesis of the theorems below. -/
theorem C15_tables_ok : TablesOk genTables := by
  rw [C15_tables_regenerated.1]; exact C15_std_tables_ok

/-! ## The encoder laws are satisfiable: the executable `quotePlus` of the driver meets them -/

theorem C15_quotePlus_laws {σ : Type} (b64e : σ → Str) (b64d : Str → Option σ)
    (h : ∀ s, b64d (b64e s) = some s) : CodecLaws ⟨quotePlus, b64e, b64d⟩ where
  enc_inj := quotePlus_inj
  enc_no_amp := fun a => (quotePlus_no a).1
  enc_no_eq := fun a => (quotePlus_no a).2
  b64_roundtrip := h

/-! ## The signed octet string -/

/-- The octet string determines the direction (SAMLRequest/SAMLResponse), the message value,
    the RelayState (including whether there is one) and the SigAlg. -/
theorem C15_signed_string_injective {σ : Type} {C : Codec σ} (hC : CodecLaws C)
    {typ v alg typ' v' alg' : Str} {rs rs' : Option Str}
    (h : canonOctets C.enc typ v rs alg = canonOctets C.enc typ' v' rs' alg') :
    typ = typ' ∧ v = v' ∧ rs = rs' ∧ alg = alg' :=
  canonOctets_inj hC h

omit [DecidableEq κ] in
/-- What the signer signs is the canonical string of its inputs, with the digest the table gives
    for the algorithm, under its own key. -/
theorem C15_octets_canonical {T : Tables} (hT : TablesOk T) (C : Codec (Sig κ)) (key : κ) {typ : Str}
    (htyp : typ = kSAMLRequest ∨ typ = kSAMLResponse) (v rs : Str) {alg : Str} (ha : alg ∈ T.allowedPack) :
    ∃ params sg, redirectMessage T C key typ v rs true (some alg) = .ok params (some sg) ∧
      sg.octets = canonOctets C.enc typ v (rsOpt rs) alg ∧
      sg.sig = .signed key sg.digest sg.octets ∧ Dict.get T.signers alg = some sg.digest := by
  obtain ⟨dig, hd, h⟩ := redirectMessage_signed hT C key htyp v rs ha
  exact ⟨_, _, h, rfl, rfl, hd⟩

/-! ## A signed URL verifies -/

/-- For every message value, relay state, allowed algorithm, direction and key: signing
    succeeds and the emitted parameters verify under the signer's certificate (also when the
    key is handed over as `sigkey`, and under the signer's own backend with no key given). -/
theorem C15_verifies {T : Tables} (hT : TablesOk T) {C : Codec (Sig κ)} (hC : CodecLaws C) (key : κ)
    (own : Option κ) {typ : Str} (htyp : typ = kSAMLRequest ∨ typ = kSAMLResponse) (v rs : Str) {alg : Str}
    (ha : alg ∈ T.allowedPack) (sigkey : Option (VKey κ)) :
    ∃ params sg, redirectMessage T C key typ v rs true (some alg) = .ok params (some sg) ∧
      verifyRedirect T C own params (some (.holds (.rsa (pub key)))) sigkey = .verified ∧
      verifyRedirect T C own params none (some (.rsa (pub key))) = .verified ∧
      verifyRedirect T C (some key) params none none = .verified := by
  obtain ⟨dig, hd, h⟩ := redirectMessage_signed hT C key htyp v rs ha
  refine ⟨_, _, h, ?_, ?_, ?_⟩ <;>
  · rw [verifyRedirect_eq_NF hT]
    refine (verifyNF_verified_iff _ _ _ _).mpr
      ⟨alg, dig, typ, v, _, key, emitted_get_sigalg htyp .., hd, emitted_view htyp .., emitted_get_signature htyp ..,
        rfl, ?_⟩
    rw [hC.b64_roundtrip, emitted_get_relay htyp]

/-- The same through `Entity.apply_binding` with its defaults (`sign=None` ⇒ configuration,
    `sigalg` empty/None ⇒ configured algorithm). -/
theorem C15_apply_binding_verifies {T : Tables} (hT : TablesOk T) {C : Codec (Sig κ)} (hC : CodecLaws C)
    (key : κ) (own : Option κ) (cfgAlg : Str) (shouldSign response : Bool) (v rs : Str) (sign : Option Bool)
    (sigalg : Option Str) (hsign : sign.getD shouldSign = true)
    (haE : effAlg cfgAlg sigalg ∈ T.allowedEntity) (haP : effAlg cfgAlg sigalg ∈ T.allowedPack) :
    ∃ params sg, applyBinding T C key cfgAlg shouldSign response v rs sign sigalg = .ok params (some sg) ∧
      verifyRedirect T C own params (some (.holds (.rsa (pub key)))) none = .verified := by
  have htyp : (if response then kSAMLResponse else kSAMLRequest) = kSAMLRequest ∨
      (if response then kSAMLResponse else kSAMLRequest) = kSAMLResponse := by
    cases response <;> simp
  obtain ⟨params, sg, h1, h2, _, _⟩ := C15_verifies hT hC key own htyp v rs haP none
  refine ⟨params, sg, ?_, h2⟩
  unfold applyBinding
  rw [if_neg (fun h => h haE), hsign]
  exact h1

/-- With the tables of the current source, for the five RSA-SHA* algorithms. -/
theorem C15_verifies_current {C : Codec (Sig κ)} (hC : CodecLaws C) (key : κ) (own : Option κ) {typ : Str}
    (htyp : typ = kSAMLRequest ∨ typ = kSAMLResponse) (v rs : Str) {alg : Str}
    (ha : alg ∈ [uriRsaSha1, uriRsaSha224, uriRsaSha256, uriRsaSha384, uriRsaSha512]) :
    ∃ params sg, redirectMessage genTables C key typ v rs true (some alg) = .ok params (some sg) ∧
      verifyRedirect genTables C own params (some (.holds (.rsa (pub key)))) none = .verified := by
  have ha' : alg ∈ genTables.allowedPack := by rw [C15_tables_regenerated.1]; exact ha
  obtain ⟨p, sg, h1, h2, _, _⟩ := C15_verifies C15_tables_ok hC key own htyp v rs ha' none
  exact ⟨p, sg, h1, h2⟩

omit [DecidableEq κ] in
/-- The second refusal of the signer ("Could not init signer") cannot happen when every allowed
    algorithm has a signer: the model branch `noSigner` is dead for the current tables. -/
theorem C15_no_signer_unreachable {T : Tables} (hT : TablesOk T) (C : Codec (Sig κ)) (key : κ)
    (typ v rs : Str) (sign : Bool) (sigalg : Option Str) :
    redirectMessage T C key typ v rs sign sigalg ≠ .refused .noSigner := by
  unfold redirectMessage
  split
  · simp
  · cases sign with
    | false => simp
    | true =>
      cases sigalg with
      | none => simp
      | some a =>
        by_cases ha : a ∈ T.allowedPack
        · obtain ⟨hne, hsome⟩ := hT.supported a ha
          obtain ⟨dig, hdig⟩ := Option.isSome_iff_exists.mp hsome
          simp only [Bool.not_true, Bool.false_eq_true, if_false, ha, not_true_eq_false, hne, ne_eq,
            not_false_eq_true, if_true, hdig]
          split <;> simp
        · simp [ha]

/-! ## Verification binds message, relay state, algorithm, signature and key -/

/-- If a received dictionary verifies and its Signature parameter denotes `k`'s signature
    (digest `d`) over the octet string of `(typ, v, rs, alg)`, then verification ran under `k`'s RSA
    public key (the certificate's, or `sigkey`, or — with neither given — the verifier's own),
    and the dictionary carries exactly that direction and value, that RelayState (or none), that
    SigAlg, and `d` is the digest of that SigAlg. -/
theorem C15_binds {T : Tables} (hT : TablesOk T) {C : Codec (Sig κ)} (hC : CodecLaws C) (own : Option κ)
    (msg : Dict) (cert : Option (Cert κ)) (sigkey : Option (VKey κ)) (k : κ) (d typ v alg : Str)
    (rs : Option Str) (sigText : Str)
    (hsig : msg.get kSignature = some sigText)
    (hdec : C.b64d sigText = some (.signed k d (canonOctets C.enc typ v rs alg)))
    (hver : verifyRedirect T C own msg cert sigkey = .verified) :
    effKey own cert sigkey = .under (some (pub k)) ∧ view msg = some (typ, v) ∧ msg.get kRelayState = rs ∧
      msg.get kSigAlg = some alg ∧ Dict.get T.signers alg = some d := by
  rw [verifyRedirect_eq_NF hT] at hver
  obtain ⟨alg', dig', typ', v', st', k', h1, h2, h3, h4, h5, h6⟩ :=
    (verifyNF_verified_iff _ _ _ _).mp hver
  rw [hsig] at h4
  cases h4
  rw [hdec] at h6
  simp only [Option.some.injEq, Sig.signed.injEq] at h6
  obtain ⟨hk, hd, hm⟩ := h6
  obtain ⟨ht, hv, hr, ha⟩ := canonOctets_inj hC hm
  subst hk hd ht hv ha
  exact ⟨h5, h3, hr.symm, h1, h2⟩

/-- Any change fails: take the parameters of a signed URL; a received dictionary that re-uses
    its signature octets but differs in the message parameter (value or direction), in the
    RelayState (changed, dropped or added), in the SigAlg, or is checked under another key, does
    not verify. -/
theorem C15_any_change_fails {T : Tables} (hT : TablesOk T) {C : Codec (Sig κ)} (hC : CodecLaws C)
    (key : κ) (own : Option κ) {typ : Str} (htyp : typ = kSAMLRequest ∨ typ = kSAMLResponse) (v rs : Str)
    {alg : Str} (ha : alg ∈ T.allowedPack) (params : Dict) (sg : Signed κ)
    (hs : redirectMessage T C key typ v rs true (some alg) = .ok params (some sg))
    (msg' : Dict) (cert : Option (Cert κ)) (sigkey : Option (VKey κ))
    (hreuse : (msg'.get kSignature).bind C.b64d = some sg.sig)
    (hchg : view msg' ≠ some (typ, v) ∨ msg'.get kRelayState ≠ rsOpt rs ∨ msg'.get kSigAlg ≠ some alg ∨
      effKey own cert sigkey ≠ .under (some (pub key))) :
    verifyRedirect T C own msg' cert sigkey ≠ .verified := by
  intro hver
  obtain ⟨dig, _, h⟩ := redirectMessage_signed hT C key htyp v rs ha
  rw [h] at hs
  simp only [SignOut.ok.injEq, Option.some.injEq] at hs
  obtain ⟨_, hsg⟩ := hs
  subst hsg
  cases hS : msg'.get kSignature with
  | none => rw [hS] at hreuse; cases hreuse
  | some st =>
    rw [hS] at hreuse
    simp only [Option.bind_some] at hreuse
    obtain ⟨h1, h2, h3, h4, _⟩ := C15_binds hT hC own msg' cert sigkey key dig typ v alg (rsOpt rs) st hS hreuse hver
    rcases hchg with h | h | h | h
    · exact h h2
    · exact h h3
    · exact h h4
    · exact h h1

/-- The Signature parameter is bound as well: two dictionaries with the same covered values that
    both verify under the same key carry the same signature octets (whatever their base64 text). -/
theorem C15_signature_bound {T : Tables} (hT : TablesOk T) (C : Codec (Sig κ)) (own : Option κ)
    (msg msg' : Dict) (cert : Option (Cert κ)) (sigkey : Option (VKey κ)) (hview : view msg' = view msg)
    (hrs : msg'.get kRelayState = msg.get kRelayState) (halg : msg'.get kSigAlg = msg.get kSigAlg)
    (h : verifyRedirect T C own msg cert sigkey = .verified)
    (h' : verifyRedirect T C own msg' cert sigkey = .verified) :
    (msg'.get kSignature).bind C.b64d = (msg.get kSignature).bind C.b64d := by
  rw [verifyRedirect_eq_NF hT] at h h'
  obtain ⟨a, d, t, v, st, k, h1, h2, h3, h4, h5, h6⟩ := (verifyNF_verified_iff _ _ _ _).mp h
  obtain ⟨a', d', t', v', st', k', h1', h2', h3', h4', h5', h6'⟩ := (verifyNF_verified_iff _ _ _ _).mp h'
  rw [halg, h1] at h1'
  cases h1'
  rw [h2] at h2'
  cases h2'
  rw [hview, h3] at h3'
  cases h3'
  rw [h5] at h5'
  have hk : k = k' := by
    simp only [KeyRes.under.injEq, Option.some.injEq] at h5'
    have := congrArg Pub.id h5'
    simpa [pub] using this
  subst hk
  rw [h4, h4', Option.bind_some, Option.bind_some, h6, h6', hrs]

/-- A junk Signature (octets that are nobody's signature) never verifies, and neither does a
    message without a Signature or with undecodable base64. -/
theorem C15_bad_signature_fails (T : Tables) (C : Codec (Sig κ)) (own : Option κ) (msg : Dict)
    (cert : Option (Cert κ)) (sigkey : Option (VKey κ))
    (h : ∀ st, msg.get kSignature = some st → ∀ k d m, C.b64d st ≠ some (.signed k d m)) :
    verifyRedirect T C own msg cert sigkey ≠ .verified := by
  intro hv
  obtain ⟨_, st, k, d, m, _, hst, hs⟩ := verifyWith_verified T C _ msg hv
  exact h st hst k d m hs

/-- A certificate without a usable key never verifies: a certificate that holds a key of another
    kind (EC, Ed25519, DSA) or a string that is no certificate, whoever verifies (whatever key the
    verifier's own backend holds, whatever `sigkey` is passed along) and whatever the message.  The
    same for a non-RSA `sigkey`, and for a key-less backend given no key at all. -/
theorem C15_unusable_key_never_verifies (T : Tables) (C : Codec (Sig κ)) (own : Option κ) (msg : Dict)
    (cert : Option (Cert κ)) (sigkey : Option (VKey κ))
    (h : cert = some (.holds .other) ∨ cert = some .malformed ∨ (cert = none ∧ sigkey = some .other) ∨
      (cert = none ∧ sigkey = none ∧ own = none)) :
    verifyRedirect T C own msg cert sigkey ≠ .verified := by
  have hk : effKey own cert sigkey = .raises ∨ effKey own cert sigkey = .under none := by
    rcases h with h | h | ⟨h1, h2⟩ | ⟨h1, h2, h3⟩
    · subst h; exact Or.inr rfl
    · subst h; exact Or.inl rfl
    · subst h1 h2; exact Or.inr rfl
    · subst h1 h2 h3; exact Or.inr rfl
  intro hv
  obtain ⟨pk, _, _, _, _, hkr, _⟩ := verifyWith_verified T C _ msg hv
  rcases hk with hk | hk <;> rw [hk] at hkr <;> cases hkr

/-- The verifier's own key is used only when the caller gives neither certificate nor `sigkey`:
    with a certificate, the outcome does not depend on the backend's key or on `sigkey`. -/
theorem C15_certificate_decides (T : Tables) (C : Codec (Sig κ)) (own own' : Option κ) (msg : Dict)
    (c : Cert κ) (sigkey sigkey' : Option (VKey κ)) :
    verifyRedirect T C own msg (some c) sigkey = verifyRedirect T C own' msg (some c) sigkey' := by
  unfold verifyRedirect effKey
  cases c <;> rfl

/-! ## Algorithms outside the allow-list are refused for signing -/

omit [DecidableEq κ] in
theorem C15_disallowed_refused (T : Tables) (C : Codec (Sig κ)) (key : κ) (typ v rs : Str)
    (sigalg : Option Str) (h : ∀ a, sigalg = some a → a ∉ T.allowedPack) :
    ∃ e, redirectMessage T C key typ v rs true sigalg = .refused e := by
  unfold redirectMessage
  split
  · exact ⟨_, rfl⟩
  · cases sigalg with
    | none => exact ⟨_, rfl⟩
    | some a =>
      have := h a rfl
      simp [this]

omit [DecidableEq κ] in
theorem C15_disallowed_refused_entity (T : Tables) (C : Codec (Sig κ)) (key : κ) (cfgAlg : Str)
    (shouldSign response : Bool) (v rs : Str) (sign : Option Bool) (sigalg : Option Str)
    (h : effAlg cfgAlg sigalg ∉ T.allowedEntity) :
    applyBinding T C key cfgAlg shouldSign response v rs sign sigalg = .refused .notAllowedEntity := by
  unfold applyBinding
  rw [if_pos h]

omit [DecidableEq κ] in
/-- With the tables of the current source: anything but the five RSA-SHA* URIs is refused. -/
theorem C15_disallowed_refused_current (C : Codec (Sig κ)) (key : κ) (typ v rs : Str) (sigalg : Option Str)
    (h : ∀ a, sigalg = some a → a ∉ [uriRsaSha1, uriRsaSha224, uriRsaSha256, uriRsaSha384, uriRsaSha512]) :
    ∃ e, redirectMessage genTables C key typ v rs true sigalg = .refused e := by
  apply C15_disallowed_refused
  rw [C15_tables_regenerated.1]
  exact h

/-! ## An unsupported SigAlg is never treated as verified -/

theorem C15_unsupported_never_verified (T : Tables) (C : Codec (Sig κ)) (own : Option κ) (msg : Dict)
    (cert : Option (Cert κ)) (sigkey : Option (VKey κ)) (h : ∀ a, msg.get kSigAlg = some a → Dict.get T.signers a = none) :
    verifyRedirect T C own msg cert sigkey = .none ∨
      verifyRedirect T C own msg cert sigkey = .error .keyError := by
  unfold verifyRedirect verifyWith
  cases hA : msg.get kSigAlg with
  | none => exact Or.inr rfl
  | some a =>
    simp only
    rw [h a hA]
    exact Or.inl rfl

/-- … and the receiver treats that answer (`None`, not `False`) as a failure. -/
theorem C15_unsupported_refused_by_receiver (T : Tables) (C : Codec (Sig κ)) (own : Option κ) (certs : List (VKey κ))
    (origdoc : Str) (relayState sigalg signature : Option Str)
    (h : ∀ a, sigalg = some a → Dict.get T.signers a = none) :
    redirectSigCheck T C own certs origdoc relayState sigalg signature = false := by
  unfold redirectSigCheck
  cases sigalg with
  | none => rfl
  | some a =>
    cases signature with
    | none => rfl
    | some s =>
      simp only
      have hall : ∀ c : VKey κ,
          verifyRedirect T C own (loadsMsg origdoc a s relayState) (some (.holds c)) none = .none := by
        intro c
        unfold verifyRedirect verifyWith
        rw [loadsMsg_get_alg]
        simp only
        rw [h a rfl]
      have : ∀ l : List (VKey κ), anyVerified (l.map fun c =>
          verifyRedirect T C own (loadsMsg origdoc a s relayState) (some (.holds c)) none) = some false := by
        intro l
        induction l with
        | nil => rfl
        | cons c t ih => simp only [List.map_cons, hall c, anyVerified]; exact ih
      rw [this]
      rfl

/-! ## The receiver (`Request._loads`) -/

/-- A receiver that insists on signed requests accepts a redirect request only if SigAlg and
    Signature were supplied and `verify_redirect_signature` returned True for one of the
    certificates metadata binds to the sender. -/
theorem C15_receiver_accepts_only_verified (T : Tables) (C : Codec (Sig κ)) (own : Option κ) (wellformed : Bool)
    (certs : List (VKey κ)) (origdoc : Str) (relayState sigalg signature : Option Str)
    (h : requestAccepted T C own true true wellformed certs origdoc relayState sigalg signature = true) :
    ∃ a s c, sigalg = some a ∧ signature = some s ∧ c ∈ certs ∧
      verifyRedirect T C own (loadsMsg origdoc a s relayState) (some (.holds c)) none = .verified := by
  unfold requestAccepted redirectSigCheck at h
  simp only [Bool.and_self, if_true, Bool.and_eq_true] at h
  obtain ⟨h, _⟩ := h
  cases sigalg with
  | none => cases h
  | some a =>
    cases signature with
    | none => cases h
    | some s =>
      simp only [beq_iff_eq] at h
      suffices ∀ l : List (VKey κ), anyVerified (l.map fun c =>
          verifyRedirect T C own (loadsMsg origdoc a s relayState) (some (.holds c)) none) = some true →
          ∃ c ∈ l, verifyRedirect T C own (loadsMsg origdoc a s relayState) (some (.holds c)) none = .verified by
        obtain ⟨c, hc, hv⟩ := this certs h
        exact ⟨a, s, c, rfl, rfl, hc, hv⟩
      intro l
      induction l with
      | nil => intro h; cases h
      | cons c t ih =>
        intro h
        simp only [List.map_cons] at h
        cases hc : verifyRedirect T C own (loadsMsg origdoc a s relayState) (some (.holds c)) none with
        | verified => exact ⟨c, List.mem_cons_self, hc⟩
        | error e => rw [hc] at h; cases h
        | notVerified =>
          rw [hc] at h
          obtain ⟨c', h1, h2⟩ := ih h
          exact ⟨c', List.mem_cons_of_mem _ h1, h2⟩
        | none =>
          rw [hc] at h
          obtain ⟨c', h1, h2⟩ := ih h
          exact ⟨c', List.mem_cons_of_mem _ h1, h2⟩

/-- End to end at the receiver: an accepted request whose Signature denotes `k`'s signature over
    `(typ, v, rs, alg)` was signed with a key of the sender's metadata, as a SAMLRequest, over
    exactly the received message value, RelayState (present or not) and SigAlg. -/
theorem C15_receiver_binds {T : Tables} (hT : TablesOk T) {C : Codec (Sig κ)} (hC : CodecLaws C)
    (own : Option κ) (wellformed : Bool) (certs : List (VKey κ)) (origdoc : Str)
    (relayState sigalg signature : Option Str) (k : κ) (d typ v alg : Str) (rs : Option Str)
    (hdec : signature.bind C.b64d = some (.signed k d (canonOctets C.enc typ v rs alg)))
    (h : requestAccepted T C own true true wellformed certs origdoc relayState sigalg signature = true) :
    VKey.rsa (pub k) ∈ certs ∧ typ = kSAMLRequest ∧ v = origdoc ∧ rs = relayState ∧ sigalg = some alg := by
  obtain ⟨a, s, c, h1, h2, h3, h4⟩ :=
    C15_receiver_accepts_only_verified T C own wellformed certs origdoc relayState sigalg signature h
  subst h1 h2
  simp only [Option.bind_some] at hdec
  obtain ⟨e1, e2, e3, e4, _⟩ := C15_binds hT hC own _ (some (.holds c)) none k d typ v alg rs s
    (loadsMsg_get_sig ..) hdec h4
  rw [loadsMsg_view] at e2
  rw [loadsMsg_get_relay] at e3
  rw [loadsMsg_get_alg] at e4
  simp only [Option.some.injEq, Prod.mk.injEq] at e2 e4
  have : c = .rsa (pub k) := by
    cases c with
    | other => simp [effKey, VKey.pub?] at e1
    | rsa pk => simp only [effKey, VKey.pub?, KeyRes.under.injEq, Option.some.injEq] at e1; rw [e1]
  subst this
  exact ⟨h3, e2.1.symm, e2.2.symm, e3.symm, by rw [e4]⟩

/-! ## The model meets the specification the driver evaluates on the implementation's output -/

theorem C15_model_meets_spec_sign (C : Codec (Sig κ)) (key : κ) (typ v rs : Str) (sign : Bool)
    (alg : Option Str) :
    specSign C key typ v rs sign alg (redirectMessage genTables C key typ v rs sign alg) = true := by
  rw [C15_tables_regenerated.1]
  unfold specSign
  cases sign with
  | false => rfl
  | true =>
    simp only [Bool.not_true, Bool.false_eq_true, if_false]
    cases alg with
    | none =>
      obtain ⟨e, he⟩ := C15_disallowed_refused stdTables C key typ v rs none (by intro a h; cases h)
      rw [he]; rfl
    | some a =>
      simp only [Option.bind_some]
      cases hd : stdDigest a with
      | none =>
        obtain ⟨e, he⟩ := C15_disallowed_refused stdTables C key typ v rs (some a)
          (by intro a' h; cases h; exact (stdDigest_none_iff a).mp hd)
        rw [he]; rfl
      | some dig =>
        simp only [Option.map_some]
        split
        · rfl
        next hty =>
          have htyp : typ = kSAMLRequest ∨ typ = kSAMLResponse := by
            by_cases h1 : typ = kSAMLRequest
            · exact Or.inl h1
            · by_cases h2 : typ = kSAMLResponse
              · exact Or.inr h2
              · exact absurd ⟨h1, h2⟩ hty
          have ha : a ∈ stdTables.allowedPack := by
            by_cases hm : a ∈ stdAllowed
            · exact hm
            · rw [(stdDigest_none_iff a).mpr hm] at hd; cases hd
          obtain ⟨dig', hd', h⟩ := redirectMessage_signed C15_std_tables_ok C key htyp v rs ha
          have : dig' = dig := by
            have : stdDigest a = some dig' := hd'
            rw [hd] at this; cases this; rfl
          subst this
          rw [h]
          simp only
          have hother : (emitted typ v (rsOpt rs) a
              (C.b64e (Sig.signed key dig' (canonOctets C.enc typ v (rsOpt rs) a)))).get
              (if typ = kSAMLRequest then kSAMLResponse else kSAMLRequest) = none := by
            apply emitted_get_other
            rcases htyp with h | h
            · exact Or.inl ⟨h, by simp [h]⟩
            · exact Or.inr ⟨h, by simp [h, kReq_ne_kResp.symm]⟩
          simp [Dict.has, emitted_get_typ, emitted_get_relay htyp, emitted_get_sigalg htyp,
            emitted_get_signature htyp, hother]

theorem C15_model_meets_spec_apply_binding (C : Codec (Sig κ)) (key : κ) (cfgAlg : Str)
    (shouldSign response : Bool) (v rs : Str) (sign : Option Bool) (sigalg : Option Str) :
    specSign C key (if response then kSAMLResponse else kSAMLRequest) v rs (sign.getD shouldSign)
      (some (effAlg cfgAlg sigalg))
      (applyBinding genTables C key cfgAlg shouldSign response v rs sign sigalg) = true := by
  unfold applyBinding
  by_cases h : effAlg cfgAlg sigalg ∈ genTables.allowedEntity
  · simp only [h, not_true_eq_false, if_false]
    exact C15_model_meets_spec_sign C key _ v rs _ _
  · simp only [h, not_false_eq_true, if_true]
    unfold specSign
    cases sign.getD shouldSign with
    | false => rfl
    | true =>
      rw [C15_tables_regenerated.1] at h
      have : stdDigest (effAlg cfgAlg sigalg) = none := (stdDigest_none_iff _).mpr h
      simp [this]

theorem C15_model_meets_spec_verify (C : Codec (Sig κ)) (own : Option κ) (msg : Dict) (cert : Option (Cert κ))
    (sigkey : Option (VKey κ)) :
    specVerify C msg (verificationKey own cert sigkey) (verifyRedirect genTables C own msg cert sigkey) = true := by
  rw [C15_tables_regenerated.1, verifyRedirect_eq_NF C15_std_tables_ok, ← effKey_verificationKey]
  generalize effKey own cert sigkey = kr
  -- verified ↔ there is an RSA key and the message is authentic under it in the direction `view` selects
  have key : verifyNF stdTables C kr msg = .verified ↔
      ∃ pk typ v, kr = .under (some pk) ∧ view msg = some (typ, v) ∧ authentic C msg pk typ = true := by
    rw [verifyNF_verified_iff]
    constructor
    · rintro ⟨alg, dig, typ, v, st, k, h1, h2, h3, h4, h5, h6⟩
      refine ⟨pub k, typ, v, h5, h3, (authentic_iff _ _ _ _).mpr ⟨v, alg, st, dig, k, ?_, h1, h4, h2, rfl, h6⟩⟩
      unfold view at h3
      split at h3
      · cases h3; assumption
      · split at h3
        · cases h3; assumption
        · cases h3
    · rintro ⟨pk, typ, v, hkr, h3, ha⟩
      obtain ⟨v', alg, st, dig, k, g1, g2, g3, g4, g5, g6⟩ := (authentic_iff _ _ _ _).mp ha
      have : v' = v := by
        unfold view at h3
        split at h3
        next w hw => cases h3; rw [hw] at g1; cases g1; rfl
        · split at h3
          next w hw => cases h3; rw [hw] at g1; cases g1; rfl
          · cases h3
      subst this
      exact ⟨alg, dig, typ, v', st, k, g2, g4, h3, g3, by rw [hkr, g5], g6⟩
  unfold specVerify
  cases hout : verifyNF stdTables C kr msg with
  | verified =>
    obtain ⟨pk, typ, v, hkr, h3, ha⟩ := key.mp hout
    subst hkr
    have : typ = kSAMLRequest ∨ typ = kSAMLResponse := by
      unfold view at h3
      split at h3
      · cases h3; exact Or.inl rfl
      · split at h3
        · cases h3; exact Or.inr rfl
        · cases h3
    rcases this with h | h <;> subst h <;> simp [ha]
  | notVerified | none | error e =>
    simp only
    split
    · rfl
    next hboth =>
      have hnot : ¬ ∃ pk typ v, kr = .under (some pk) ∧ view msg = some (typ, v) ∧
          authentic C msg pk typ = true := by
        intro h; rw [key.mpr h] at hout; cases hout
      cases kr with
      | raises => rfl
      | under opk =>
        cases opk with
        | none => rfl
        | some pk =>
          simp only [Bool.not_eq_true', Bool.or_eq_false_iff]
          constructor
          · cases ha : authentic C msg pk kSAMLRequest with
            | false => rfl
            | true =>
              obtain ⟨v, _, _, _, _, g1, _⟩ := (authentic_iff _ _ _ _).mp ha
              exact absurd ⟨pk, kSAMLRequest, v, rfl, by unfold view; rw [g1], ha⟩ hnot
          · cases ha : authentic C msg pk kSAMLResponse with
            | false => rfl
            | true =>
              obtain ⟨v, _, _, _, _, g1, _⟩ := (authentic_iff _ _ _ _).mp ha
              have hreq : msg.get kSAMLRequest = none := by
                cases hr : msg.get kSAMLRequest with
                | none => rfl
                | some w =>
                  exact absurd (by simp [Dict.has, hr, g1]) hboth
              exact absurd ⟨pk, kSAMLResponse, v, rfl, by unfold view; rw [hreq, g1], ha⟩ hnot

theorem C15_model_meets_spec_server (C : Codec (Sig κ)) (own : Option κ) (must redirect wellformed : Bool)
    (certs : List (VKey κ)) (origdoc : Str) (relayState sigalg signature : Option Str) :
    specServer C must redirect wellformed certs origdoc relayState sigalg signature
      (requestAccepted genTables C own must redirect wellformed certs origdoc relayState sigalg signature)
      = true := by
  unfold specServer
  split
  · rfl
  next hmr =>
    have hmr' : (must && redirect) = true := by simpa using hmr
    unfold requestAccepted redirectSigCheck
    rw [hmr']
    simp only [if_true]
    cases sigalg with
    | none => cases wellformed <;> rfl
    | some a =>
      cases signature with
      | none => cases wellformed <;> rfl
      | some s =>
        simp only
        rw [C15_tables_regenerated.1]
        -- the signature check is exactly "authentic under the RSA key of one of the certificates"
        have hiff : ∀ c : VKey κ,
            verifyRedirect stdTables C own (loadsMsg origdoc a s relayState) (some (.holds c)) none = .verified ↔
            (match c with
             | .rsa pk => authentic C (loadsMsg origdoc a s relayState) pk kSAMLRequest
             | .other => false) = true := by
          intro c
          rw [verifyRedirect_eq_NF C15_std_tables_ok, verifyNF_verified_iff]
          cases c with
          | other =>
            simp only [Bool.false_eq_true, iff_false]
            rintro ⟨alg, dig, typ, v, st, k, _, _, _, _, h5, _⟩
            simp [effKey, VKey.pub?] at h5
          | rsa pk =>
            simp only [authentic_iff]
            constructor
            · rintro ⟨alg, dig, typ, v, st, k, h1, h2, h3, h4, h5, h6⟩
              rw [loadsMsg_view] at h3
              cases h3
              simp only [effKey, VKey.pub?, KeyRes.under.injEq, Option.some.injEq] at h5
              exact ⟨origdoc, alg, st, dig, k, loadsMsg_get_req .., h1, h4, h2, h5, h6⟩
            · rintro ⟨v, alg, st, dig, k, g1, g2, g3, g4, g5, g6⟩
              rw [loadsMsg_get_req] at g1
              cases g1
              exact ⟨alg, dig, kSAMLRequest, origdoc, st, k, g2, g4, loadsMsg_view .., g3,
                by simp [effKey, VKey.pub?, g5], g6⟩
        have hany := anyVerified_map
          (fun c : VKey κ =>
            verifyRedirect stdTables C own (loadsMsg origdoc a s relayState) (some (.holds c)) none) certs
          (by
            intro c c' e he
            rw [verifyRedirect_eq_NF C15_std_tables_ok] at he ⊢
            exact verifyNF_error_indep _ _ _ _ _ e he)
        cases hA : certs.any fun c =>
            match c with
            | .rsa pk => authentic C (loadsMsg origdoc a s relayState) pk kSAMLRequest
            | .other => false with
        | true =>
          obtain ⟨c, hc, hauth⟩ := List.any_eq_true.mp hA
          have := hany.mpr ⟨c, hc, (hiff c).mpr hauth⟩
          rw [this]
          cases wellformed <;> rfl
        | false =>
          cases hB : anyVerified (certs.map fun c =>
              verifyRedirect stdTables C own (loadsMsg origdoc a s relayState) (some (.holds c)) none) with
          | none => cases wellformed <;> rfl
          | some b =>
            cases b with
            | false => cases wellformed <;> rfl
            | true =>
              obtain ⟨c, hc, hv⟩ := hany.mp hB
              have : (certs.any fun c =>
                  match c with
                  | .rsa pk => authentic C (loadsMsg origdoc a s relayState) pk kSAMLRequest
                  | .other => false) = true :=
                List.any_eq_true.mpr ⟨c, hc, (hiff c).mp hv⟩
              rw [this] at hA; cases hA

/-! ## Non-vacuity: concrete instances -/

section Examples

/-- a lawful toy codec: base64 is modelled by tagging; like Python's lenient `b64decode`, the
    decoder accepts more than one text for the same octets (tag 1 or 2) -/
def toyB64e : Sig Nat → Str
  | .signed k d m => 1 :: k :: d.length :: (d ++ m)
  | .junk n => [0, n]
def toyB64d : Str → Option (Sig Nat)
  | 1 :: k :: n :: rest => some (.signed k (rest.take n) (rest.drop n))
  | 2 :: k :: n :: rest => some (.signed k (rest.take n) (rest.drop n))
  | [0, n] => some (.junk n)
  | _ => none
def toy : Codec (Sig Nat) := ⟨quotePlus, toyB64e, toyB64d⟩

theorem toy_laws : CodecLaws toy :=
  C15_quotePlus_laws toyB64e toyB64d (by
    intro s
    cases s with
    | signed k d m => simp [toyB64e, toyB64d]
    | junk n => rfl)

-- relay state "a b&c=d" (bytes), message value "eJw+/w==", key 7, rsa-sha256
def rs0 : Str := [97, 32, 98, 38, 99, 61, 100]
def v0 : Str := [101, 74, 119, 43, 47, 119, 61, 61]

/-- the signed octet string, byte for byte:
    `SAMLRequest=eJw%2B%2Fw%3D%3D&RelayState=a+b%26c%3Dd&SigAlg=http%3A%2F%2Fwww.w3.org%2F2001%2F04%2Fxmldsig-more%23rsa-sha256` -/
example : (match redirectMessage genTables toy 7 kSAMLRequest v0 rs0 true (some uriRsaSha256) with
    | .ok _ (some sg) => sg.octets
    | _ => []) =
    kSAMLRequest ++ [61] ++ [101, 74, 119, 37, 50, 66, 37, 50, 70, 119, 37, 51, 68, 37, 51, 68] ++ [38] ++
    kRelayState ++ [61] ++ [97, 43, 98, 37, 50, 54, 99, 37, 51, 68, 100] ++ [38] ++
    kSigAlg ++ [61] ++ quotePlus uriRsaSha256 := by decide +kernel

def params0 : Dict :=
  match redirectMessage genTables toy 7 kSAMLRequest v0 rs0 true (some uriRsaSha256) with
  | .ok p _ => p
  | _ => []

def setKey (d : Dict) (k v : Str) : Dict := d.map fun p => if p.1 = k then (k, v) else p

-- C15_verifies: right certificate
example : verifyRedirect genTables toy (some 1) params0 (some (.holds (.rsa (pub 7)))) none = .verified := by decide +kernel
-- wrong certificate, own-key fallback
example : verifyRedirect genTables toy (some 1) params0 (some (.holds (.rsa (pub 8)))) none = .notVerified := by decide +kernel
example : verifyRedirect genTables toy (some 1) params0 none none = .notVerified := by decide +kernel
example : verifyRedirect genTables toy (some 7) params0 none none = .verified := by decide +kernel
-- C15_any_change_fails: one character of the relay state / the message / another allowed algorithm
example : verifyRedirect genTables toy (some 1) (setKey params0 kRelayState [97, 32, 98, 38, 99, 61, 101])
    (some (.holds (.rsa (pub 7)))) none = .notVerified := by decide +kernel
example : verifyRedirect genTables toy (some 1) (setKey params0 kSAMLRequest [101, 74, 119, 43, 47, 119, 61])
    (some (.holds (.rsa (pub 7)))) none = .notVerified := by decide +kernel
example : verifyRedirect genTables toy (some 1) (setKey params0 kSigAlg uriRsaSha1)
    (some (.holds (.rsa (pub 7)))) none = .notVerified := by decide +kernel
-- RelayState dropped
example : verifyRedirect genTables toy (some 1) (params0.del kRelayState) (some (.holds (.rsa (pub 7)))) none = .notVerified := by
  decide +kernel
-- unsupported algorithm: falls through (`None`), the receiver refuses
example : verifyRedirect genTables toy (some 1) (setKey params0 kSigAlg [120]) (some (.holds (.rsa (pub 7)))) none = .none := by
  decide +kernel
example : redirectSigCheck genTables toy (some 1) [.rsa (pub 7)] v0 (some rs0) (some [120]) (params0.get kSignature) = false := by
  decide +kernel
-- the receiver accepts the untouched request when one of two certificates is the signer's
example : requestAccepted genTables toy (some 1) true true true [.rsa (pub 3), .other, .rsa (pub 7)] v0 (some rs0) (some uriRsaSha256)
    (params0.get kSignature) = true := by decide +kernel
example : requestAccepted genTables toy (some 1) true true true [.rsa (pub 3), .other, .rsa (pub 8)] v0 (some rs0) (some uriRsaSha256)
    (params0.get kSignature) = false := by decide +kernel
-- C15_unusable_key_never_verifies: a certificate holding a non-RSA key, verifier = the signer itself
-- (its own key would verify: it is not used); a string that is no certificate; a key-less verifier
example : verifyRedirect genTables toy (some 7) params0 (some (.holds .other)) none = .notVerified := by
  decide +kernel
example : verifyRedirect genTables toy (some 7) params0 (some (.holds .other)) (some (.rsa (pub 7)))
    = .notVerified := by decide +kernel
example : verifyRedirect genTables toy (some 7) params0 (some .malformed) none = .error .cert := by
  decide +kernel
example : verifyRedirect genTables toy none params0 none none = .notVerified := by decide +kernel
example : requestAccepted genTables toy (some 7) true true true [.other] v0 (some rs0) (some uriRsaSha256)
    (params0.get kSignature) = false := by decide +kernel
-- C15_disallowed_refused: rsa-md5 (not in the list), and no algorithm at all
example : redirectMessage genTables toy 7 kSAMLRequest v0 rs0 true
    (some (uriRsaSha1.take 38 ++ [109, 100, 53])) = .refused .notAllowedPack := by decide +kernel
example : redirectMessage genTables toy 7 kSAMLResponse v0 [] true none = .refused .notAllowedPack := by
  decide +kernel
-- a junk signature
example : verifyRedirect genTables toy (some 1) (setKey params0 kSignature [0, 5]) (some (.holds (.rsa (pub 7)))) none = .notVerified := by
  decide +kernel
-- hypotheses of C15_binds / C15_receiver_binds are satisfiable (see the examples above), and the
-- laws hold for `toy`
example : CodecLaws toy := toy_laws

end Examples

/-! ## Reading of "any change to the Signature parameter"

The check reads it as: any change of the OCTETS the parameter denotes (`C15_signature_bound`,
`C15_bad_signature_fails`, `C15_any_change_fails`).  The literal reading — any change of the
parameter's TEXT — is kept here as a statement; it is false for every decoder that accepts two
texts for the same octets, which Python's lenient `base64.b64decode` (used by
`verify_redirect_signature`) does: ignored characters, optional trailing data after padding,
unused bits of the last sextet.  See the builder's report for the direct call. -/

/-- literal reading: a verified parameter set stops verifying when the Signature text changes -/
def C15_signature_text_literal_full : Prop :=
  ∀ (C : Codec (Sig Nat)), CodecLaws C → ∀ (own : Option Nat) (msg : Dict) (cert : Option (Cert Nat))
    (sigkey : Option (VKey Nat)) (st st' : Str),
    msg.get kSignature = some st → st' ≠ st →
    verifyRedirect genTables C own msg cert sigkey = .verified →
    verifyRedirect genTables C own (setKey msg kSignature st') cert sigkey ≠ .verified

/-- what holds instead (for every codec, lawful or not): the text may change only within the
    texts that denote the same octets -/
theorem C15_signature_text_literal_partial (C : Codec (Sig κ)) (own : Option κ) (msg msg' : Dict)
    (cert : Option (Cert κ)) (sigkey : Option (VKey κ)) (hview : view msg' = view msg)
    (hrs : msg'.get kRelayState = msg.get kRelayState) (halg : msg'.get kSigAlg = msg.get kSigAlg)
    (hdiff : (msg'.get kSignature).bind C.b64d ≠ (msg.get kSignature).bind C.b64d)
    (h : verifyRedirect genTables C own msg cert sigkey = .verified) :
    verifyRedirect genTables C own msg' cert sigkey ≠ .verified :=
  fun h' => hdiff (C15_signature_bound C15_tables_ok C own msg msg' cert sigkey hview hrs halg h h')

theorem C15_signature_text_literal_counterexample : ¬ C15_signature_text_literal_full := by
  intro h
  have hst : params0.get kSignature = some ((params0.get kSignature).getD []) := by decide +kernel
  refine h toy toy_laws (some 1) params0 (some (.holds (.rsa (pub 7)))) none _
    (2 :: ((params0.get kSignature).getD []).tail) hst (by decide +kernel) (by decide +kernel) ?_
  decide +kernel

end C15
